#!/usr/bin/env python3
"""check.py <Cxx> [--tier quick|thorough] [--replay FILE]

One check = (1) regenerate Generated.v from /repo's source (translator), (2) rebuild the pinned
theorems of Properties/<Cxx>.v and read their Print Assumptions, (3) build the harness against
/repo's working tree and run the real implementation on generated inputs, (4) evaluate the Coq
models on the same inputs with vm_compute and compare, (5) decide and write evidence/<Cxx>.json.

exit 0: property held on everything explored (KNOWN-FINDING lines may be printed)
exit 1: a line `VIOLATION property=<id> replay=<path>[ no-failing-input-found]` was printed
exit 2: infrastructure failure (nothing could be decided; no VIOLATION line)
"""
import concurrent.futures
import fcntl
import hashlib
import json
import os
import re
import subprocess
import sys
import time

ROOT = os.path.dirname(os.path.abspath(__file__))
COQ = os.path.join(ROOT, "coq")
HARNESS = os.path.join(ROOT, "harness")
TRANSLATOR = os.path.join(ROOT, "translator")
OUT = os.path.join(ROOT, "out")
REPO = os.environ.get("VERIF_REPO_ACTIVE", "/repo")
ENV = dict(os.environ, CARGO_NET_OFFLINE="true")


def mirror_and_reexec():
    """VERIF_REPO=<dir>: run the same check against another checkout (a scratch worktree holding a
    seeded change) without touching /repo or /verif: mirror /verif to /tmp, point the harness at <dir>."""
    repo = os.path.abspath(os.environ["VERIF_REPO"])
    tag = hashlib.md5(repo.encode()).hexdigest()[:8]
    mirror = "/tmp/verif-mirror-" + tag
    os.makedirs(mirror, exist_ok=True)
    subprocess.check_call(["rsync", "-a", "--delete", "--exclude", "/out", "--exclude", "/harness/target", "--exclude", "/evidence",
                           "--exclude", "/replays", "--exclude", ".lock-*", "--exclude", "/.git", ROOT + "/", mirror + "/"])
    ct = os.path.join(mirror, "harness/Cargo.toml")
    txt = open(ct).read().replace('path = "/repo"', 'path = "%s"' % repo)
    open(ct, "w").write(txt)
    env = dict(os.environ, VERIF_REPO_ACTIVE=repo)
    del env["VERIF_REPO"]
    os.execve(sys.executable, [sys.executable, os.path.join(mirror, "check.py")] + sys.argv[1:], env)

# axioms of Coq's standard library that a theorem may depend on (none is needed so far)
AXIOM_ALLOWLIST = set()

FORBIDDEN = re.compile(
    r"\b(Admitted|admit|Axiom|Axioms|Parameter|Parameters|Conjecture|Conjectures|Abort All)\b"
    r"|Unset\s+Guard|bypass_check|type-in-type|impredicative-set|Admit\s+Obligations|Unset\s+Universe\s+Checking"
    r"|Unset\s+Positivity")

# per property: which harness subcommand exists, whether the translator is needed, known classes
PROPS = {}


def prop(pid, **kw):
    d = dict(harness=True, translator=False, extra_targets=[], proof_only=False)
    d.update(kw)
    PROPS[pid] = d


for _i in range(1, 21):
    prop("C%02d" % _i)
# the Coq module the case files of a property import (must be rebuilt together with the theorems)
EXEC_PROPS = ["C01", "C02", "C03", "C04", "C05", "C08", "C10", "C11", "C12", "C13", "C19"]
for _p in PROPS:
    if _p in EXEC_PROPS:
        PROPS[_p]["extra_targets"] = ["ChkX.vo"]
    elif os.path.exists(os.path.join(COQ, "Chk%s.v" % _p[1:])):
        PROPS[_p]["extra_targets"] = ["Chk%s.vo" % _p[1:]]
# C17 / C20 are decided about definitions REGENERATED from /repo/src by the translator on every run
# (Chk17/Chk20 are explicit targets so that the case evaluator exists even when a re-proved table lemma breaks)
prop("C17", translator=True, extra_targets=["Chk17.vo"])
prop("C20", translator=True, extra_targets=["Chk20.vo"])
# C08: Layout.v is re-proved about the constants / storage-site table regenerated from /repo/src
prop("C08", translator=True, extra_targets=["ChkIso.vo"])
prop("C10", extra_targets=["ChkQ.vo"])
# C19: relational runs judged by Chk19; the translator refreshes the advisory scan Generated.nondet_sources
prop("C19", translator=True, extra_targets=["Chk19.vo"])

# C11 / C12: histories (code-table operations interleaved with top-level calls) judged by ChkReg over Registry.v
prop("C11", extra_targets=["ChkReg.vo"])
prop("C12", extra_targets=["ChkReg.vo"])



# ---------- anchored source (advisory; DESIGN.md section 9a) ----------
# which Rust items each hand-written model transliterates.  A changed hash is NOT a verdict (the
# correspondence decides); it is copied into the evidence so that a reader of a passing run knows which
# transliterations have only been validated behaviourally since the model was last inspected.
ANCHORS = {
    "C01": [("app.rs", ["execute_multi", "sudo", "wasm_sudo"]), ("transactions.rs", ["transactional"]), ("executor.rs", ["instantiate_contract", "execute_contract", "migrate_contract", "send_tokens"])],
    "C02": [("wasm.rs", ["execute_submsg", "process_response", "with_storage"]), ("transactions.rs", ["transactional"])],
    "C03": [("wasm.rs", ["execute_submsg", "reply"])],
    "C04": [("wasm.rs", ["build_app_response", "process_response", "execute_submsg", "encode_response_data", "instantiate_response"])],
    "C05": [("wasm.rs", ["execute_wasm", "process_wasm_msg_instantiate", "send", "get_env", "call_execute", "call_instantiate"])],
    "C06": [("transactions.rs", ["get", "range", "set", "remove", "commit", "next", "pick_match", "take_left", "range_bounds", "transactional"])],
    "C07": [("prefixed_storage/length_prefixed.rs", ["to_length_prefixed", "to_length_prefixed_nested", "encode_length"]), ("prefixed_storage/namespace_helpers.rs", ["get_with_prefix", "set_with_prefix", "remove_with_prefix", "range_with_prefix", "namespace_upper_bound", "trim", "concat"])],
    "C08": [("wasm.rs", ["contract_namespace", "contract_storage", "contract_storage_mut", "with_storage", "with_storage_readonly", "query_raw", "dump_wasm_raw"])],
    "C09": [("bank.rs", ["send", "burn", "mint", "normalize_amount", "get_supply", "get_balance", "set_balance", "query", "coins_to_string"])],
    "C10": [("wasm.rs", ["with_storage", "query_smart", "query_raw", "query"]), ("app.rs", ["raw_query", "query"])],
    "C11": [("wasm.rs", ["next_code_id", "save_code", "store_code", "store_code_with_id", "duplicate_code", "register_contract", "code_data", "contract_code"]), ("addresses.rs", ["contract_address", "predictable_contract_address"]), ("checksums.rs", ["checksum"])],
    "C12": [("wasm.rs", ["update_admin", "execute_wasm"])],
    "C13": [("wasm.rs", ["verify_attributes", "verify_response", "call_execute", "call_instantiate", "call_reply", "call_sudo", "call_migrate"])],
    "C14": [("staking.rs", ["update_stake", "add_stake", "remove_stake", "process_queue", "execute", "validate_denom", "get_stake"])],
    "C15": [("staking.rs", ["calculate_rewards", "update_rewards", "get_rewards_internal", "remove_rewards", "share_of_rewards", "get_rewards"])],
    "C16": [("staking.rs", ["slash", "validate_percentage", "sudo"])],
    "C18": [("api.rs", ["addr_validate", "addr_canonicalize", "addr_humanize", "addr_make"]), ("addresses.rs", ["into_addr", "into_addr_with_prefix", "into_bech32", "into_bech32_with_prefix", "into_bech32m", "into_bech32m_with_prefix"])],
    "C19": [("checksums.rs", ["checksum"]), ("addresses.rs", ["contract_address", "predictable_contract_address"])],
}


def rust_fn_texts(path, names):
    """the source text of every `fn <name>` item of the file (brace matching; comments and strings are
    not parsed, which is good enough for a hash)"""
    try:
        src = open(path, errors="replace").read()
    except OSError:
        return {}
    out = {}
    for n in names:
        texts = []
        for m in re.finditer(r"\bfn\s+%s\b" % re.escape(n), src):
            i = src.find("{", m.end())
            semi = src.find(";", m.end())
            if i < 0 or (0 <= semi < i):
                continue
            depth, j = 0, i
            while j < len(src):
                if src[j] == "{":
                    depth += 1
                elif src[j] == "}":
                    depth -= 1
                    if depth == 0:
                        break
                j += 1
            texts.append(re.sub(r"[ \t]+\n", "\n", src[m.start():j + 1]))
        if texts:
            out[n] = hashlib.sha256("\n".join(texts).encode()).hexdigest()[:16]
    return out


def anchor_hashes(pid):
    res = {}
    for f, names in ANCHORS.get(pid, []):
        for n, h in rust_fn_texts(os.path.join(REPO, "src", f), names).items():
            res["%s::%s" % (f, n)] = h
    return res


def anchor_notes(pid):
    """compare with anchors.lock; returns (list of changed items, note text)"""
    cur = anchor_hashes(pid)
    try:
        lock = json.load(open(os.path.join(ROOT, "anchors.lock"))).get(pid, {})
    except (OSError, ValueError):
        lock = {}
    changed = sorted(k for k in set(cur) | set(lock) if cur.get(k) != lock.get(k))
    return changed, len(cur)


def relock_anchors():
    json.dump({p: anchor_hashes(p) for p in sorted(ANCHORS)}, open(os.path.join(ROOT, "anchors.lock"), "w"), indent=1, sort_keys=True)
    print("anchors.lock written for", len(ANCHORS), "properties")


class Lock:
    def __init__(self, name):
        self.path = os.path.join(ROOT, ".lock-" + name)

    def __enter__(self):
        self.f = open(self.path, "w")
        fcntl.flock(self.f, fcntl.LOCK_EX)

    def __exit__(self, *a):
        fcntl.flock(self.f, fcntl.LOCK_UN)
        self.f.close()


def sh(cmd, cwd=None, timeout=3600, env=None):
    p = subprocess.run(cmd, cwd=cwd, env=env or ENV, stdout=subprocess.PIPE, stderr=subprocess.STDOUT,
                       timeout=timeout, text=True, errors="replace")
    return p.returncode, p.stdout


def strip_comments(src):
    out, depth, i = [], 0, 0
    while i < len(src):
        if src.startswith("(*", i):
            depth += 1
            i += 2
        elif src.startswith("*)", i) and depth > 0:
            depth -= 1
            i += 2
        else:
            if depth == 0:
                out.append(src[i])
            i += 1
    return "".join(out)


def hygiene():
    """no Admitted/Axiom/... anywhere in the development (comments stripped)"""
    bad = []
    for dp, _, fs in os.walk(COQ):
        for f in fs:
            if f.endswith(".v"):
                p = os.path.join(dp, f)
                src = strip_comments(open(p, errors="replace").read())
                for m in FORBIDDEN.finditer(src):
                    bad.append("%s: %s" % (os.path.relpath(p, ROOT), m.group(0)))
    # a Variable/Hypothesis/Context outside a section would declare an axiom
    for dp, _, fs in os.walk(COQ):
        for f in fs:
            if f.endswith(".v"):
                p = os.path.join(dp, f)
                depth = 0
                for line in strip_comments(open(p, errors="replace").read()).splitlines():
                    s = line.strip()
                    if re.match(r"(Section|Module)\s+\w+", s) and ":=" not in s:
                        depth += 1
                    elif re.match(r"End\s+\w+\s*\.", s):
                        depth -= 1
                    elif depth <= 0 and re.match(r"(Variable|Variables|Hypothesis|Hypotheses|Context)\b", s):
                        bad.append("%s: %s outside a section" % (os.path.relpath(p, ROOT), s.split()[0]))
    return bad


def lock_check(pid):
    """statements.lock pins the SHA-256 of every Properties file: statements are not quietly weakened"""
    lockf = os.path.join(ROOT, "statements.lock")
    if not os.path.exists(lockf):
        return "statements.lock missing"
    locks = json.load(open(lockf))
    rel = "coq/Properties/%s.v" % pid
    h = hashlib.sha256(open(os.path.join(ROOT, rel), "rb").read()).hexdigest()
    if locks.get(rel) != h:
        return "%s does not match statements.lock (run check.py --relock after reviewing the change)" % rel
    return None


def relock():
    locks = {}
    d = os.path.join(COQ, "Properties")
    for f in sorted(os.listdir(d)):
        if f.endswith(".v"):
            rel = "coq/Properties/" + f
            locks[rel] = hashlib.sha256(open(os.path.join(ROOT, rel), "rb").read()).hexdigest()
    json.dump(locks, open(os.path.join(ROOT, "statements.lock"), "w"), indent=1, sort_keys=True)
    print("relocked", len(locks), "files")


def ensure_makefile():
    mk = os.path.join(COQ, "Makefile")
    cp = os.path.join(COQ, "_CoqProject")
    if not os.path.exists(mk) or os.path.getmtime(mk) < os.path.getmtime(cp):
        rc, out = sh(["coq_makefile", "-f", "_CoqProject", "-o", "Makefile"], cwd=COQ)
        if rc != 0:
            raise RuntimeError("coq_makefile failed:\n" + out)


def run_translator():
    """regenerate coq/Generated.v from /repo/src (fails closed inside Generated.v itself)"""
    if not os.path.isdir(TRANSLATOR):
        return True, "no translator"
    with Lock("cargo-tr"):
        rc, out = sh(["cargo", "build", "--offline", "--release"], cwd=TRANSLATOR, timeout=1800)
        if rc != 0:
            return False, out
        rc, out = sh([os.path.join(TRANSLATOR, "target/release/translator"), os.path.join(REPO, "src"),
                      os.path.join(COQ, "Generated.v"), os.path.join(OUT, "translator_report.json")], cwd=ROOT)
        return rc == 0, out


def prove(pid, info):
    """full .vo build of the property file (and what it depends on); parse Print Assumptions"""
    ensure_makefile()
    target = "Properties/%s.vo" % pid
    src = open(os.path.join(COQ, "Properties/%s.v" % pid)).read()
    code = strip_comments(src)
    n_thm = len(re.findall(r"^\s*Theorem\s+\w+", code, re.M))
    n_print = len(re.findall(r"^\s*Print Assumptions\s+\w+", code, re.M))
    names = re.findall(r"^\s*Theorem\s+(\w+)", code, re.M)
    with Lock("coq"):
        for ext in (".vo", ".glob", ".vos", ".vok"):
            try:
                os.remove(os.path.join(COQ, "Properties/%s%s" % (pid, ext)))
            except OSError:
                pass
        t0 = time.time()
        rc, out = sh(["make", "-j16", target] + info["extra_targets"], cwd=COQ, timeout=3000)
        dt = time.time() - t0
    closed = out.count("Closed under the global context")
    axioms = []
    for m in re.finditer(r"Axioms:\n((?:.+\n)+?)(?=\S|\Z)", out):
        for line in m.group(1).splitlines():
            mm = re.match(r"^(\S+)\s*:", line)
            if mm:
                axioms.append(mm.group(1))
    bad_axioms = sorted(set(a for a in axioms if a not in AXIOM_ALLOWLIST))
    ok = (rc == 0 and n_thm >= 1 and n_print == n_thm and not bad_axioms and
          closed + len(re.findall(r"^Axioms:", out, re.M)) == n_print)
    failing = None
    if rc != 0:
        m = re.search(r'File "([^"]+)", line (\d+)', out)
        failing = "%s:%s" % (m.group(1), m.group(2)) if m else "make failed"
    return dict(ok=ok, rc=rc, obligations=n_thm, discharged=closed if rc == 0 else 0, theorems=names,
                axioms=sorted(set(axioms)), bad_axioms=bad_axioms, output=out[-6000:], failing=failing, wall_s=dt)


def run_coqchk(pid):
    """thorough tier: re-check the compiled closure of the property file with the independent checker
    and read the axioms it reports (none are expected)"""
    with Lock("coq"):
        t0 = time.time()
        try:
            rc, out = sh(["coqchk", "-o", "-silent", "-Q", ".", "Verif", "Verif.Properties.%s" % pid], cwd=COQ, timeout=3000)
        except subprocess.TimeoutExpired:
            return dict(ok=False, axioms=["coqchk timed out"], wall_s=3000)
    m = re.search(r"\* Axioms:\s*(.*?)\n\s*\n", out, re.S)
    ax = m.group(1).strip() if m else "(no summary)"
    clean = all(re.search(r"\* %s:\s*<none>" % re.escape(k), out) for k in
                ("Axioms", "Constants/Inductives relying on type-in-type", "Constants/Inductives relying on unsafe (co)fixpoints",
                 "Inductives whose positivity is assumed"))
    return dict(ok=(rc == 0 and clean), axioms=[] if ax == "<none>" else [ax], wall_s=round(time.time() - t0, 1), tail=out[-800:])


def build_harness(pid):
    with Lock("cargo"):
        rc, out = sh(["cargo", "build", "--offline", "-p", pid.lower()], cwd=HARNESS, timeout=3000)
    return rc == 0, out


def run_harness(pid, seed, tier, outdir, replay=None, scale=1):
    cmd = [os.path.join(HARNESS, "target/debug/" + pid.lower()), "--seed", str(seed), "--tier", tier,
           "--out", outdir, "--scale", str(scale)]
    if replay:
        cmd += ["--replay", replay]
    rc, out = sh(cmd, cwd=ROOT, timeout=3000)
    return rc == 0, out


RES = re.compile(r"\(Tag (\d+)(?:%N)?,\s*(Agree|Disagree|PropFail|KnownFail)\s*([0-9% N]*)\)")


def eval_shard(path):
    rc, out = sh(["coqc", "-noglob", "-Q", COQ, "Verif", path], cwd=ROOT, timeout=3000)
    res = {}
    flat = re.sub(r"\s+", " ", out)
    for m in RES.finditer(flat):
        nums = [int(x) for x in re.findall(r"\d+", m.group(3))]
        res[int(m.group(1))] = (m.group(2), nums)
    base = path[:-2]
    for ext in (".vo", ".vok", ".vos", ".glob"):
        try:
            os.remove(base + ext)
        except OSError:
            pass
    try:
        os.remove(os.path.join(os.path.dirname(path), "." + os.path.basename(base) + ".aux"))
    except OSError:
        pass
    return rc, res, out[-3000:] if rc != 0 else ""


def evaluate(outdir):
    shards = sorted(f for f in os.listdir(outdir) if re.match(r"cases_\d+\.v$", f))
    results, errors = {}, []
    with concurrent.futures.ThreadPoolExecutor(max_workers=16) as ex:
        for rc, res, err in ex.map(eval_shard, [os.path.join(outdir, s) for s in shards]):
            results.update(res)
            if rc != 0:
                errors.append(err)
    return results, errors


def load_known():
    p = os.path.join(ROOT, "known_findings.json")
    if not os.path.exists(p):
        return []
    return json.load(open(p)).get("findings", [])


def trusted_base(pr):
    tb = ["Coq 8.16.1 kernel (coqc, full .vo build) and vm_compute (closed finite computations in proofs; running the models in the correspondence check); no native_compute",
          "axioms per Print Assumptions: " + (", ".join(pr["axioms"]) if pr["axioms"] else "none (Closed under the global context)"),
          "correspondence check: Rust harness (input generation, observation of the implementation, Coq-term printer), check.py, the per-property projection; no extraction",
          "hand-written Gallina model files under coq/ (modelled, validated against /repo on every run; see DESIGN.md section 9)"]
    try:
        m = json.load(open(os.path.join(ROOT, "MANIFEST.json")))
        for c in m.get("checks", []):
            if c.get("property_id") == pr.get("pid") and c.get("level_note"):
                tb.append("property-specific: " + c["level_note"])
    except Exception:
        pass
    return tb


def write_evidence(pid, tier, seed, t0, pr, stats, results, cases, violations, notes):
    os.makedirs(os.path.join(ROOT, "evidence"), exist_ok=True)
    verdicts = {}
    for _, (v, _) in results.items():
        verdicts[v] = verdicts.get(v, 0) + 1
    samples = []
    for c in (cases or [])[:2] + (cases or [])[-1:]:
        s = json.dumps(c)
        samples.append(c if len(s) < 3000 else {"truncated_case": s[:3000]})
    if not samples:
        samples = [{"obligation": n} for n in pr.get("theorems", [])[:5]] or [{"note": "no case generated"}]
    cov = dict(
        obligations=pr["obligations"], discharged=pr["discharged"],
        checker_cmd="make -C coq Properties/%s.vo (coqc 8.16.1, full .vo) ; coqc -Q coq Verif out/%s/cases_*.v" % (pid, pid),
        trusted_base=trusted_base(pr),
        theorems=pr.get("theorems", []),
        evaluations=(stats or {}).get("evaluations", 0),
        distinct_nontrivial=(stats or {}).get("distinct_nontrivial", 0),
        rule=(stats or {}).get("rule", ""),
        samples=samples,
        traces_validated_against_impl=verdicts.get("Agree", 0),
        disagreements_checked=sum(n for v, n in verdicts.items() if v != "Agree"),
        verdicts=verdicts,
        input_distribution=(stats or {}).get("distribution", {}),
        notes=notes,
    )
    ev = dict(property_id=pid, tier=tier, seed=seed, level="proof", coverage=cov,
              assumptions=["the hand model's fidelity outside the inputs exercised by this run's correspondence check",
                           "cosmwasm-std / std collections behave as their documentation says (MemoryStorage = BTreeMap)"],
              wall_s=round(time.time() - t0, 2), violations=violations)
    json.dump(ev, open(os.path.join(ROOT, "evidence", pid + ".json"), "w"), indent=1)


def write_replay(pid, seed, k, payload):
    d = os.path.join(ROOT, "replays")
    os.makedirs(d, exist_ok=True)
    p = os.path.join(d, "%s-%s-%s.json" % (pid, seed, k))
    json.dump(payload, open(p, "w"), indent=1)
    return p


def classify(pid, results, cases, known):
    """split non-Agree verdicts into known findings, property failures and bare disagreements"""
    known_hits, propfails, disagrees, missing = {}, [], [], []
    classes = {(k["property"], k.get("class_id")): k for k in known if k.get("status") == "known"}
    for i in range(len(cases)):
        if i not in results:
            missing.append(i)
            continue
        v, nums = results[i]
        if v == "Agree":
            continue
        if v == "KnownFail":
            c = nums[0] if nums else -1
            if (pid, c) in classes:
                known_hits.setdefault(c, []).append(i)
            else:
                propfails.append((i, nums[1:] if len(nums) > 1 else nums))
        elif v == "PropFail":
            propfails.append((i, nums))
        else:
            disagrees.append((i, nums))
    return known_hits, propfails, disagrees, missing


def one_round(pid, seed, tier, outdir, replay=None, scale=1):
    ok, out = run_harness(pid, seed, tier, outdir, replay, scale)
    if not ok:
        return None, "harness failed:\n" + out[-4000:]
    stats = json.load(open(os.path.join(outdir, "stats.json")))
    cases = json.load(open(os.path.join(outdir, "cases.json")))
    results, errors = evaluate(outdir)
    return (stats, cases, results, errors), None


def main():
    args = sys.argv[1:]
    if os.environ.get("VERIF_REPO"):
        mirror_and_reexec()
    if args and args[0] == "--relock":
        relock()
        return 0
    if args and args[0] == "--relock-anchors":
        relock_anchors()
        return 0
    if not args or args[0] not in PROPS:
        print(__doc__)
        print("known properties:", " ".join(sorted(PROPS)))
        return 2
    pid = args[0]
    info = PROPS[pid]
    tier = os.environ.get("VERIF_TIER", "quick")
    replay = None
    i = 1
    while i < len(args):
        if args[i] == "--tier":
            tier = args[i + 1]
            i += 2
        elif args[i] == "--replay":
            replay = args[i + 1]
            i += 2
        else:
            print("unknown argument", args[i])
            return 2
    try:
        seed = int(os.environ.get("VERIF_SEED", "1"))
    except ValueError:
        seed = 1
    t0 = time.time()
    known = load_known()
    outdir = os.path.join(OUT, pid)
    os.makedirs(outdir, exist_ok=True)
    notes = []

    bad = hygiene()
    if bad:
        print("INFRA: forbidden constructs in the Coq development:\n  " + "\n  ".join(bad))
        return 2
    lk = lock_check(pid)
    if lk:
        print("INFRA: " + lk)
        return 2

    changed, n_anch = anchor_notes(pid)
    if n_anch:
        if changed:
            print("[%s] note (advisory, not a verdict): anchored source differs from anchors.lock: %s" % (pid, ", ".join(changed)))
            notes.append("anchored Rust items that differ from anchors.lock (re-inspect the corresponding model functions; the correspondence run below is what decides): " + ", ".join(changed))
        else:
            notes.append("all %d anchored Rust items hash as in anchors.lock (the hand model was last inspected against exactly this source text)" % n_anch)

    # 1. translator
    if info["translator"]:
        ok, out = run_translator()
        if not ok:
            print("INFRA: translator could not run on /repo/src (nothing decided):\n" + out[-3000:])
            pr0 = dict(obligations=1, discharged=0, theorems=[], axioms=[], pid=pid)
            write_evidence(pid, tier, seed, t0, pr0, None, {}, None, 0, ["translator failed: " + out[-500:]])
            return 2

    # 2. proofs
    pr = prove(pid, info)
    pr["pid"] = pid
    print("[%s] proofs: %d/%d theorems closed%s (%.1fs)" % (pid, pr["discharged"], pr["obligations"],
          "" if pr["ok"] else "  ** BROKEN at %s **" % pr["failing"], pr["wall_s"]))

    if tier == "thorough" and pr["rc"] == 0 and not replay:
        ck = run_coqchk(pid)
        print("[%s] coqchk -o on the closure of Properties/%s.vo: %s (%.0fs)" % (pid, pid, "clean, Axioms: <none>" if ck["ok"] else "NOT CLEAN " + str(ck["axioms"]), ck["wall_s"]))
        notes.append("coqchk -o: " + ("Axioms: <none>; no type-in-type, no unsafe fixpoints, no assumed positivity" if ck["ok"] else "NOT CLEAN: " + ck.get("tail", "")[-300:]))
        if not ck["ok"]:
            pr["ok"] = False
            pr["failing"] = pr["failing"] or "coqchk"

    # 3. implementation
    stats = cases = None
    results = {}
    known_hits, propfails, disagrees, missing, errors = {}, [], [], [], []
    if info["harness"]:
        ok, out = build_harness(pid)
        if not ok:
            print("INFRA: /repo does not build with the verification harness (nothing decided):\n" + out[-4000:])
            write_evidence(pid, tier, seed, t0, pr, None, {}, None, 0, ["harness build failed"])
            return 2
        r, err = one_round(pid, seed, tier, outdir, replay)
        if r is None:
            print("INFRA: " + err)
            write_evidence(pid, tier, seed, t0, pr, None, {}, None, 0, [err[-500:]])
            return 2
        stats, cases, results, errors = r
        known_hits, propfails, disagrees, missing = classify(pid, results, cases, known)
        print("[%s] correspondence: %d cases, %d agree, %d prop-fail, %d disagree, %d known-class, %d unevaluated" % (
            pid, len(cases), sum(1 for v in results.values() if v[0] == "Agree"), len(propfails), len(disagrees),
            sum(len(v) for v in known_hits.values()), len(missing)))
        if replay:
            for i, c in enumerate(cases):
                print("replay case %d verdict: %s" % (i, results.get(i)))
                print(json.dumps(c)[:4000])

    # the case files could not be evaluated although the models built: only when the proof side broke
    if errors and pr["rc"] == 0:
        print("INFRA: coqc failed on a case file although the models build:\n" + errors[0])
        write_evidence(pid, tier, seed, t0, pr, stats, results, cases, 0, ["case evaluation failed"])
        return 2

    # 4. decide
    violations = 0
    lines = []
    for c, idxs in sorted(known_hits.items()):
        k = [x for x in known if x["property"] == pid and x.get("class_id") == c][0]
        lines.append("KNOWN-FINDING: property=%s %s (class %s, %d case(s) this run)" % (pid, k["what"], k.get("class"), len(idxs)))
    broken_proof = not pr["ok"]
    need_search = (broken_proof or disagrees or missing) and not propfails and info["harness"] and not replay
    if need_search and pr["rc"] == 0:
        # widen once: thorough generators, more cases, other seeds
        notes.append("widened search after %s" % ("broken proof" if broken_proof else "correspondence disagreement"))
        wd = os.path.join(OUT, pid + "-wide")
        r, err = one_round(pid, seed + 7919, "thorough", wd, None, 1)
        if r is not None:
            wstats, wcases, wresults, _ = r
            kh, pf, dg, _ = classify(pid, wresults, wcases, known)
            if pf:
                i, nums = pf[0]
                path = write_replay(pid, seed, "w%d" % i, dict(property=pid, kind="property-failure",
                                    failing_observation=nums, case=wcases[i], found_by="widened search"))
                lines.append("VIOLATION property=%s replay=%s" % (pid, path))
                violations += 1
    if propfails:
        i, nums = propfails[0]
        path = write_replay(pid, seed, i, dict(property=pid, kind="property-failure", failing_observation=nums,
                                               case=cases[i], n_failing_cases=len(propfails),
                                               proof_state="closed" if pr["ok"] else "broken at %s" % pr["failing"]))
        lines.append("VIOLATION property=%s replay=%s" % (pid, path))
        violations += 1
    elif violations == 0 and broken_proof:
        path = write_replay(pid, seed, "proof", dict(property=pid, kind="proof-obligation-broken",
                            theorem_or_file=pr["failing"], bad_axioms=pr["bad_axioms"], coq_output=pr["output"][-3000:]))
        lines.append("VIOLATION property=%s replay=%s no-failing-input-found" % (pid, path))
        violations += 1
    elif violations == 0 and (disagrees or missing):
        if disagrees:
            i, nums = disagrees[0]
            payload = dict(property=pid, kind="correspondence-broken", correspondence="correspondence:%s" % pid,
                           first_disagreeing_observation=nums, case=cases[i], n_disagreeing_cases=len(disagrees))
        else:
            payload = dict(property=pid, kind="correspondence-broken", correspondence="correspondence:%s" % pid,
                           unevaluated_cases=missing[:20], case=cases[missing[0]])
        path = write_replay(pid, seed, "corr", payload)
        lines.append("VIOLATION property=%s replay=%s no-failing-input-found" % (pid, path))
        violations += 1

    write_evidence(pid, tier, seed, t0, pr, stats, results, cases, violations, notes)
    for ln in lines:
        print(ln)
    print("[%s] %s in %.1fs" % (pid, "OK" if violations == 0 else "VIOLATION", time.time() - t0))
    return 1 if violations else 0


if __name__ == "__main__":
    sys.exit(main())
