mod c09;
fn main() {
    let args = common::parse_args("C09");
    c09::run(&args);
}
