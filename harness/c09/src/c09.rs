//! C09: the bank ledger.  Histories of mints (BankSudo::Mint through App::sudo), genesis
//! overwrites (init_balance through the builder closure / App::init_modules), sends and burns
//! (BankMsg through App::execute) and contract-initiated transfers (a forwarding contract that emits
//! the BankMsgs it is told to, plus funds attached to its execute) run on the REAL App; after every
//! op all three query kinds are asked for every (account, denom) of the scenario and the raw
//! "bank"/"balances" window of App::storage() is decoded with the real types.  Coq judges.
use common::*;
use cosmwasm_std::testing::MockApi;
use cosmwasm_std::{
    AllBalanceResponse, Addr, Api, BalanceResponse, BankMsg, BankQuery, Binary, Coin, CosmosMsg, Deps, DepsMut, Empty, Env,
    MessageInfo, Order, QueryRequest, Response, StdError, StdResult, Storage, SupplyResponse, Uint128,
};
use cw_multi_test::{App, AppBuilder, BankSudo, Contract, ContractWrapper, Executor, SudoMsg};
use cw_utils::NativeBalance;
use serde::{Deserialize, Serialize};
use std::collections::BTreeMap;

// ---------- inputs ----------

#[derive(Clone, Debug, Serialize, Deserialize, PartialEq)]
pub enum Acct {
    /// the forwarding contract (always account 0)
    Contract,
    /// MockApi::addr_make(name)
    User(String),
    /// a literal string used as an address (recipients are not validated by the bank)
    Raw(String),
}

#[derive(Clone, Debug, Serialize, Deserialize)]
pub enum Act {
    Send { to: usize, amount: Vec<Coin> },
    Burn { amount: Vec<Coin> },
}

#[derive(Clone, Debug, Serialize, Deserialize)]
pub enum Op {
    Init { a: usize, amount: Vec<Coin> },
    Mint { to: usize, amount: Vec<Coin> },
    Send { from: usize, to: usize, amount: Vec<Coin> },
    Burn { from: usize, amount: Vec<Coin> },
    Contract { sender: usize, funds: Vec<Coin>, acts: Vec<Act> },
}

#[derive(Clone, Debug, Serialize, Deserialize)]
pub struct Input {
    pub accounts: Vec<Acct>,
    pub denoms: Vec<String>,
    /// init_balance calls inside the AppBuilder::build closure
    pub genesis: Vec<(usize, Vec<Coin>)>,
    pub ops: Vec<Op>,
}

// ---------- observations ----------

type Cs = Vec<(String, u128)>;

#[derive(Clone, Debug, Serialize, Deserialize, PartialEq)]
pub struct Obs {
    pub all: Vec<Option<Vec<(String, String)>>>,
    pub bal: Vec<Vec<Option<String>>>,
    pub sup: Vec<Option<String>>,
    pub raw: Vec<(String, Vec<(String, String)>)>,
}

#[derive(Clone, Copy, Debug, Serialize, Deserialize, PartialEq)]
pub enum Res {
    Ok,
    Err,
    Panic,
}

struct O {
    all: Vec<Option<Cs>>,
    bal: Vec<Vec<Option<u128>>>,
    sup: Vec<Option<u128>>,
    raw: Vec<(String, Cs)>,
}

// ---------- the forwarding contract ----------

#[derive(Clone, Debug, Serialize, Deserialize)]
enum FwdAct {
    Send { to: String, amount: Vec<Coin> },
    Burn { amount: Vec<Coin> },
}

fn fwd_execute(_deps: DepsMut, _env: Env, _info: MessageInfo, msg: Vec<FwdAct>) -> StdResult<Response> {
    let mut r = Response::new();
    for a in msg {
        r = match a {
            FwdAct::Send { to, amount } => r.add_message(BankMsg::Send { to_address: to, amount }),
            FwdAct::Burn { amount } => r.add_message(BankMsg::Burn { amount }),
        };
    }
    Ok(r)
}
fn fwd_instantiate(_deps: DepsMut, _env: Env, _info: MessageInfo, _msg: Empty) -> StdResult<Response> {
    Ok(Response::new())
}
fn fwd_query(_deps: Deps, _env: Env, _msg: Empty) -> StdResult<Binary> {
    Err(StdError::generic_err("no queries"))
}
fn fwd_contract() -> Box<dyn Contract<Empty>> {
    Box::new(ContractWrapper::new(fwd_execute, fwd_instantiate, fwd_query))
}

// ---------- running the implementation ----------

fn cs_of(v: &[Coin]) -> Cs {
    v.iter().map(|c| (c.denom.clone(), c.amount.u128())).collect()
}

/// the "bank" window of the root store, map "balances": keys are
/// len("bank") "bank" len("balances") "balances" <address bytes>; values are JSON NativeBalance
fn raw_window(st: &dyn Storage) -> Vec<(String, Cs)> {
    let mut prefix: Vec<u8> = vec![0, 4];
    prefix.extend_from_slice(b"bank");
    prefix.extend_from_slice(&[0, 8]);
    prefix.extend_from_slice(b"balances");
    let mut out = vec![];
    for (k, v) in st.range(None, None, Order::Ascending) {
        if k.starts_with(&prefix) {
            let a = String::from_utf8(k[prefix.len()..].to_vec()).expect("address key is UTF-8");
            let nb: NativeBalance = cosmwasm_std::from_json(&v).expect("stored value is a NativeBalance");
            out.push((a, cs_of(&nb.0)));
        }
    }
    out
}

fn observe(app: &App, names: &[String], denoms: &[String]) -> O {
    let mut all = vec![];
    let mut bal = vec![];
    for a in names {
        #[allow(deprecated)]
        let q = QueryRequest::<Empty>::Bank(BankQuery::AllBalances { address: a.clone() });
        let r = catch(|| app.wrap().query::<AllBalanceResponse>(&q));
        all.push(match r {
            Ok(Ok(x)) => Some(cs_of(&x.amount)),
            _ => None,
        });
        let mut row = vec![];
        for d in denoms {
            let q = QueryRequest::<Empty>::Bank(BankQuery::Balance { address: a.clone(), denom: d.clone() });
            let r = catch(|| app.wrap().query::<BalanceResponse>(&q));
            row.push(match r {
                // an answer about another denom is no answer to this question
                Ok(Ok(x)) if &x.amount.denom == d => Some(x.amount.amount.u128()),
                _ => None,
            });
        }
        bal.push(row);
    }
    let mut sup = vec![];
    for d in denoms {
        let q = QueryRequest::<Empty>::Bank(BankQuery::Supply { denom: d.clone() });
        let r = catch(|| app.wrap().query::<SupplyResponse>(&q));
        sup.push(match r {
            Ok(Ok(x)) if &x.amount.denom == d => Some(x.amount.amount.u128()),
            _ => None,
        });
    }
    let raw = raw_window(app.storage());
    O { all, bal, sup, raw }
}

pub struct RunOut {
    names: Vec<String>,
    valid: Vec<bool>,
    obs0: O,
    trace: Vec<(Res, O)>,
}

fn class<T>(r: Result<anyhow::Result<T>, String>) -> Res {
    match r {
        Ok(Ok(_)) => Res::Ok,
        Ok(Err(_)) => Res::Err,
        Err(_) => Res::Panic,
    }
}

fn run_impl(inp: &Input) -> RunOut {
    let api = MockApi::default();
    // names of the non-contract accounts are known before the App exists
    let pre: Vec<Option<String>> = inp
        .accounts
        .iter()
        .map(|a| match a {
            Acct::Contract => None,
            Acct::User(n) => Some(api.addr_make(n).to_string()),
            Acct::Raw(s) => Some(s.clone()),
        })
        .collect();
    // genesis inside the builder closure (the contract does not exist yet: genesis never names it)
    let gen: Vec<(Addr, Vec<Coin>)> =
        inp.genesis.iter().map(|(i, cs)| (Addr::unchecked(pre[*i].clone().expect("genesis names the contract")), cs.clone())).collect();
    let mut app = AppBuilder::new().build(|router, _api, storage| {
        for (a, cs) in &gen {
            router.bank.init_balance(storage, a, cs.clone()).unwrap();
        }
    });
    let code = app.store_code(fwd_contract());
    let creator = app.api().addr_make("creator-of-the-forwarder");
    let contract = app.instantiate_contract(code, creator, &Empty {}, &[], "fwd", None).expect("instantiate forwarder");
    let names: Vec<String> = pre.into_iter().map(|p| p.unwrap_or_else(|| contract.to_string())).collect();
    // validity by cosmwasm-std's MockApi, not by anything of cw-multi-test
    let valid: Vec<bool> = names.iter().map(|n| api.addr_validate(n).is_ok()).collect();
    let obs0 = observe(&app, &names, &inp.denoms);
    let mut trace = vec![];
    for op in &inp.ops {
        let res = match op {
            Op::Init { a, amount } => {
                let addr = Addr::unchecked(names[*a].clone());
                class(catch(|| app.init_modules(|router, _api, storage| router.bank.init_balance(storage, &addr, amount.clone()))))
            }
            Op::Mint { to, amount } => {
                let msg = SudoMsg::Bank(BankSudo::Mint { to_address: names[*to].clone(), amount: amount.clone() });
                class(catch(|| app.sudo(msg)))
            }
            Op::Send { from, to, amount } => {
                let msg: CosmosMsg = BankMsg::Send { to_address: names[*to].clone(), amount: amount.clone() }.into();
                let sender = Addr::unchecked(names[*from].clone());
                class(catch(|| app.execute(sender, msg)))
            }
            Op::Burn { from, amount } => {
                let msg: CosmosMsg = BankMsg::Burn { amount: amount.clone() }.into();
                let sender = Addr::unchecked(names[*from].clone());
                class(catch(|| app.execute(sender, msg)))
            }
            Op::Contract { sender, funds, acts } => {
                let m: Vec<FwdAct> = acts
                    .iter()
                    .map(|a| match a {
                        Act::Send { to, amount } => FwdAct::Send { to: names[*to].clone(), amount: amount.clone() },
                        Act::Burn { amount } => FwdAct::Burn { amount: amount.clone() },
                    })
                    .collect();
                let sender = Addr::unchecked(names[*sender].clone());
                class(catch(|| app.execute_contract(sender, contract.clone(), &m, funds)))
            }
        };
        let o = observe(&app, &names, &inp.denoms);
        trace.push((res, o));
    }
    RunOut { names, valid, obs0, trace }
}

// ---------- printing ----------

struct Names<'a> {
    accts: &'a [String],
    denoms: &'a [String],
}
impl Names<'_> {
    fn a(&self, s: &str) -> String {
        match self.accts.iter().position(|x| x == s) {
            Some(i) => format!("a{}", i),
            None => coq_text(s),
        }
    }
    fn d(&self, s: &str) -> String {
        match self.denoms.iter().position(|x| x == s) {
            Some(i) => format!("d{}", i),
            None => coq_text(s),
        }
    }
    fn cs(&self, v: &Cs) -> String {
        coq_list(v, |(d, a)| format!("({},{})", self.d(d), a))
    }
    fn coins(&self, v: &[Coin]) -> String {
        self.cs(&cs_of(v))
    }
    fn obs(&self, o: &O) -> String {
        format!(
            "(MkObs {} {} {} {})",
            coq_list(&o.all, |x| coq_opt(x, |l| self.cs(l))),
            coq_list(&o.bal, |row| coq_list(row, |x| coq_opt(x, |n| n.to_string()))),
            coq_list(&o.sup, |x| coq_opt(x, |n| n.to_string())),
            coq_list(&o.raw, |(a, l)| format!("({},{})", self.a(a), self.cs(l))),
        )
    }
}

fn obs_json(o: &O) -> Obs {
    let c = |l: &Cs| l.iter().map(|(d, a)| (d.clone(), a.to_string())).collect::<Vec<_>>();
    Obs {
        all: o.all.iter().map(|x| x.as_ref().map(c)).collect(),
        bal: o.bal.iter().map(|r| r.iter().map(|x| x.map(|n| n.to_string())).collect()).collect(),
        sup: o.sup.iter().map(|x| x.map(|n| n.to_string())).collect(),
        raw: o.raw.iter().map(|(a, l)| (a.clone(), c(l))).collect(),
    }
}

fn has_dup(v: &[Coin]) -> bool {
    (0..v.len()).any(|i| (0..i).any(|j| v[i].denom == v[j].denom))
}
fn has_zero(v: &[Coin]) -> bool {
    v.iter().any(|c| c.amount.is_zero())
}
fn coin_stats(out: &mut Out, v: &[Coin]) {
    out.stat(&format!("coinlist_len_{}", v.len()), 1);
    if has_dup(v) {
        out.stat("coinlist_with_repeated_denom", 1);
    }
    if has_zero(v) && v.iter().any(|c| !c.amount.is_zero()) {
        out.stat("coinlist_zero_mixed_with_positive", 1);
    }
    if !v.is_empty() && v.iter().all(|c| c.amount.is_zero()) {
        out.stat("coinlist_all_zero", 1);
    }
    if v.iter().any(|c| c.amount.u128() > (1u128 << 100)) {
        out.stat("coinlist_with_huge_amount", 1);
    }
}

fn emit(out: &mut Out, inp: &Input, family: &str) {
    assert_eq!(inp.accounts[0], Acct::Contract);
    let r = run_impl(inp);
    let nm = Names { accts: &r.names, denoms: &inp.denoms };
    let mut s = String::new();
    for (i, a) in r.names.iter().enumerate() {
        s.push_str(&format!("let a{} := {} in ", i, coq_text(a)));
    }
    for (i, d) in inp.denoms.iter().enumerate() {
        s.push_str(&format!("let d{} := {} in ", i, coq_text(d)));
    }
    let accts = coq_list(&(0..r.names.len()).collect::<Vec<_>>(), |i| format!("(a{},{})", i, coq_bool(r.valid[*i])));
    let denoms = coq_list(&(0..inp.denoms.len()).collect::<Vec<_>>(), |i| format!("d{}", i));
    let genesis = coq_list(&inp.genesis, |(i, cs)| format!("(a{},{})", i, nm.coins(cs)));
    let ops = coq_list(&inp.ops, |op| match op {
        Op::Init { a, amount } => format!("OInit a{} {}", a, nm.coins(amount)),
        Op::Mint { to, amount } => format!("OMint a{} {}", to, nm.coins(amount)),
        Op::Send { from, to, amount } => format!("OSend a{} a{} {}", from, to, nm.coins(amount)),
        Op::Burn { from, amount } => format!("OBurn a{} {}", from, nm.coins(amount)),
        Op::Contract { sender, funds, acts } => format!(
            "OContract a{} a0 {} {}",
            sender,
            nm.coins(funds),
            coq_list(acts, |a| match a {
                Act::Send { to, amount } => format!("CSend a{} {}", to, nm.coins(amount)),
                Act::Burn { amount } => format!("CBurn {}", nm.coins(amount)),
            })
        ),
    });
    let trace = coq_list(&r.trace, |(res, o)| {
        format!("({},{})", match res { Res::Ok => "ROk", Res::Err => "RErr", Res::Panic => "RPanic" }, nm.obs(o))
    });
    let coq = format!("({}c09 {} {} {} {} {} {})", s, accts, denoms, genesis, ops, nm.obs(&r.obs0), trace);

    // distribution
    out.stat(&format!("family_{}", family), 1);
    out.stat("ops", inp.ops.len() as u64);
    out.stat("observations", 1 + r.trace.len() as u64);
    out.stat("queries", ((1 + r.trace.len()) * (r.names.len() * (1 + inp.denoms.len()) + inp.denoms.len())) as u64);
    let mut oks = 0;
    let mut errs = 0;
    let mut moved = false;
    for (op, (res, _)) in inp.ops.iter().zip(r.trace.iter()) {
        let kind = match op {
            Op::Init { amount, .. } => {
                coin_stats(out, amount);
                "init"
            }
            Op::Mint { to, amount } => {
                coin_stats(out, amount);
                if !r.valid[*to] {
                    out.stat("mint_to_invalid_address", 1);
                }
                "mint"
            }
            Op::Send { from, to, amount } => {
                coin_stats(out, amount);
                if from == to {
                    out.stat("self_send", 1);
                }
                if !r.valid[*to] {
                    out.stat("send_to_non_bech32", 1);
                }
                if !r.valid[*from] {
                    out.stat("send_from_non_bech32", 1);
                }
                "send"
            }
            Op::Burn { amount, .. } => {
                coin_stats(out, amount);
                "burn"
            }
            Op::Contract { funds, acts, .. } => {
                coin_stats(out, funds);
                for a in acts {
                    match a {
                        Act::Send { amount, .. } | Act::Burn { amount } => coin_stats(out, amount),
                    }
                }
                out.stat(&format!("contract_acts_{}", acts.len()), 1);
                "contract"
            }
        };
        let rs = match res {
            Res::Ok => {
                oks += 1;
                if matches!(op, Op::Send { .. } | Op::Contract { .. }) {
                    moved = true;
                }
                "ok"
            }
            Res::Err => {
                errs += 1;
                "err"
            }
            Res::Panic => "panic",
        };
        out.stat(&format!("op_{}_{}", kind, rs), 1);
    }
    // first appearance of an account in the window through a send = "never-seen recipient"
    let mut seen: std::collections::BTreeSet<String> = r.obs0.raw.iter().map(|e| e.0.clone()).collect();
    for (op, (_, o)) in inp.ops.iter().zip(r.trace.iter()) {
        for e in &o.raw {
            if seen.insert(e.0.clone()) && matches!(op, Op::Send { .. } | Op::Contract { .. }) {
                out.stat("recipient_first_seen_through_a_transfer", 1);
            }
        }
    }
    if r.trace.iter().any(|(_, o)| o.raw.iter().any(|e| e.1.is_empty())) {
        out.stat("cases_with_an_empty_stored_balance", 1);
    }
    let held_by_unqueryable = r.trace.iter().any(|(_, o)| {
        o.raw.iter().any(|e| !e.1.is_empty() && r.names.iter().position(|n| n == &e.0).map(|i| !r.valid[i]).unwrap_or(true))
    });
    if held_by_unqueryable {
        out.stat("cases_with_coins_held_by_an_unqueryable_string", 1);
    }
    out.push(Case {
        key: format!("{:?}", inp),
        json: serde_json::json!({
            "input": inp, "names": r.names, "valid": r.valid, "obs0": obs_json(&r.obs0),
            "trace": r.trace.iter().map(|(res, o)| (res, obs_json(o))).collect::<Vec<_>>(),
        }),
        coq,
        nontrivial: oks >= 1 && errs >= 1 && moved,
    });
}

// ---------- generators ----------

const DENOM_POOL: &[&str] = &["uatom", "uatom2", "BTC", "eth", "u"];
const RAW_POOL: &[&str] = &["Not A Bech32 Address!", "", "COSMWASM1QQQQ", "\u{fc}ber/\u{20ac}\u{1d11e}", "cosmwasm1invalidchecksum"];

fn c(d: &str, a: u128) -> Coin {
    Coin { denom: d.to_string(), amount: Uint128::new(a) }
}

struct Gen<'a> {
    rng: &'a mut Rng,
    denoms: Vec<String>,
    n_acct: usize,
    /// amounts ever offered to mint/init per denom: kept below 2^128 so that no balance, no
    /// intermediate sum and no supply can overflow (the property's quantifier excludes overflow)
    offered: BTreeMap<String, u128>,
    huge: bool,
    /// the generator's own rough ledger; it only STEERS generation (so that roughly half of the
    /// transfers are affordable and many are exactly at / one above the balance) and judges nothing
    led: Vec<BTreeMap<String, u128>>,
    valid: Vec<bool>,
}
impl Gen<'_> {
    fn amount(&mut self, creating: bool) -> u128 {
        if self.rng.chance(1, 5) {
            0
        } else if self.huge && self.rng.chance(1, 3) {
            // around 2^126 .. 2^127
            (1u128 << 126) + ((self.rng.next() as u128) << 62) + self.rng.below(1000) as u128
        } else if creating {
            self.rng.range(1, 40) as u128
        } else {
            self.rng.range(1, 20) as u128
        }
    }
    /// 0..=max entries, any denoms of the scenario, repeats and zeros
    fn coins(&mut self, max: u64, creating: bool) -> Vec<Coin> {
        let n = if creating && self.rng.chance(9, 10) { self.rng.range(1, max) } else { self.rng.below(max + 1) };
        let mut v = vec![];
        for _ in 0..n {
            let d = self.rng.pick(&self.denoms).clone();
            let mut a = self.amount(creating);
            if creating {
                let o = self.offered.entry(d.clone()).or_insert(0);
                if o.checked_add(a).map(|x| x >= (1u128 << 127) + (1u128 << 126)).unwrap_or(true) {
                    a = self.rng.below(21) as u128; // small: 40 ops * 5 coins * 40 is far from the bound
                }
                *o += a;
            }
            v.push(Coin { denom: d, amount: Uint128::new(a) });
        }
        v
    }
    /// a list the holder can (by the rough ledger) afford: 1..=3 positive coins of denoms it holds,
    /// possibly the same denom twice, often exactly the whole balance; zeros sprinkled in.
    /// `beyond`: one more coin that takes some denom one unit past what is left.
    fn coins_for(&mut self, holder: usize, max: u64, beyond: bool) -> Vec<Coin> {
        let mut left: Vec<(String, u128)> = self.led[holder].iter().filter(|(_, a)| **a > 0).map(|(d, a)| (d.clone(), *a)).collect();
        if left.is_empty() {
            return self.coins(max, false);
        }
        let mut v = vec![];
        let n = self.rng.range(1, max.min(3));
        for _ in 0..n {
            let i = self.rng.below(left.len() as u64) as usize;
            let r = left[i].1;
            if r == 0 {
                continue;
            }
            let a = if self.rng.chance(1, 3) {
                r
            } else if r > (1u128 << 64) {
                r / 2 + self.rng.below(1000) as u128
            } else {
                1 + self.rng.below(r as u64) as u128
            };
            left[i].1 -= a;
            v.push(Coin { denom: left[i].0.clone(), amount: Uint128::new(a) });
        }
        if beyond {
            let d = self.rng.pick(&self.denoms).clone();
            let r = left.iter().find(|(x, _)| *x == d).map(|x| x.1).unwrap_or(0);
            v.push(Coin { denom: d, amount: Uint128::new(r + 1) });
        }
        while (v.len() as u64) < max && self.rng.chance(1, 4) {
            let i = self.rng.below(v.len() as u64 + 1) as usize;
            v.insert(i, Coin { denom: self.rng.pick(&self.denoms).clone(), amount: Uint128::zero() });
        }
        v
    }
    /// coin list of a debit: 50% affordable, 25% just beyond, 25% arbitrary
    fn debit_coins(&mut self, holder: usize, max: u64) -> Vec<Coin> {
        let k = self.rng.below(4);
        if k < 2 {
            self.coins_for(holder, max, false)
        } else if k == 2 {
            self.coins_for(holder, max, true)
        } else {
            self.coins(max, false)
        }
    }
    fn acct(&mut self) -> usize {
        // the last two accounts are the never-seen one and the non-bech32 string
        if self.rng.chance(1, 5) {
            self.n_acct - 1 - self.rng.below(2) as usize
        } else {
            self.rng.below(self.n_acct as u64 - 2) as usize
        }
    }
    /// mostly an account that holds something
    fn holder(&mut self) -> usize {
        let hs: Vec<usize> = (0..self.n_acct).filter(|i| self.led[*i].values().any(|a| *a > 0)).collect();
        if !hs.is_empty() && self.rng.chance(5, 6) {
            *self.rng.pick(&hs)
        } else {
            self.acct()
        }
    }
    // ----- the rough ledger -----
    fn totals(cs: &[Coin]) -> BTreeMap<String, u128> {
        let mut t = BTreeMap::new();
        for c in cs {
            let e = t.entry(c.denom.clone()).or_insert(0u128);
            *e = e.saturating_add(c.amount.u128());
        }
        t
    }
    fn l_debit(led: &mut [BTreeMap<String, u128>], a: usize, cs: &[Coin]) -> bool {
        let t = Self::totals(cs);
        if t.values().all(|x| *x == 0) || t.iter().any(|(d, x)| led[a].get(d).copied().unwrap_or(0) < *x) {
            return false;
        }
        for (d, x) in t {
            *led[a].entry(d).or_insert(0) -= x;
        }
        true
    }
    fn l_credit(led: &mut [BTreeMap<String, u128>], a: usize, cs: &[Coin]) -> bool {
        let t = Self::totals(cs);
        if t.values().all(|x| *x == 0) {
            return false;
        }
        for (d, x) in t {
            let e = led[a].entry(d).or_insert(0);
            *e = e.saturating_add(x);
        }
        true
    }
    fn l_send(led: &mut [BTreeMap<String, u128>], from: usize, to: usize, cs: &[Coin]) -> bool {
        Self::l_debit(led, from, cs) && Self::l_credit(led, to, cs)
    }
    fn op(&mut self) -> Op {
        let k = self.rng.below(100);
        if k < 6 {
            let a = self.acct();
            let amount = self.coins(5, true);
            self.led[a] = Self::totals(&amount);
            Op::Init { a, amount }
        } else if k < 26 {
            let to = self.acct();
            let amount = self.coins(5, true);
            if self.valid[to] {
                Self::l_credit(&mut self.led, to, &amount);
            }
            Op::Mint { to, amount }
        } else if k < 64 {
            let from = self.holder();
            let to = if self.rng.chance(1, 6) { from } else { self.acct() };
            let amount = self.debit_coins(from, 5);
            Self::l_send(&mut self.led, from, to, &amount);
            Op::Send { from, to, amount }
        } else if k < 76 {
            let from = self.holder();
            let amount = self.debit_coins(from, 5);
            Self::l_debit(&mut self.led, from, &amount);
            Op::Burn { from, amount }
        } else {
            let sender = self.holder();
            let funds = if self.rng.chance(1, 4) { vec![] } else { self.debit_coins(sender, 3) };
            let mut led = self.led.clone();
            let mut ok = funds.is_empty() || Self::l_send(&mut led, sender, 0, &funds);
            let n = self.rng.below(4);
            let mut acts = vec![];
            for _ in 0..n {
                // what the contract can afford is judged on the ledger as it would be by then
                std::mem::swap(&mut led, &mut self.led);
                let amount = self.debit_coins(0, 3);
                std::mem::swap(&mut led, &mut self.led);
                if self.rng.chance(1, 4) {
                    ok = ok && Self::l_debit(&mut led, 0, &amount);
                    acts.push(Act::Burn { amount });
                } else {
                    let to = self.acct();
                    ok = ok && Self::l_send(&mut led, 0, to, &amount);
                    acts.push(Act::Send { to, amount });
                }
            }
            if ok {
                self.led = led;
            }
            Op::Contract { sender, funds, acts }
        }
    }
}

fn random_case(rng: &mut Rng) -> Input {
    let n_users = rng.range(1, 5) as usize; // contract + users = 2..6 accounts
    let mut accounts = vec![Acct::Contract];
    for i in 0..n_users {
        accounts.push(Acct::User(format!("user{}", i)));
    }
    accounts.push(Acct::User("never-seen".into()));
    accounts.push(Acct::Raw(rng.pick(RAW_POOL).to_string()));
    let nd = rng.range(1, 4) as usize;
    let mut pool: Vec<&str> = DENOM_POOL.to_vec();
    let mut denoms = vec![];
    for _ in 0..nd {
        let i = rng.below(pool.len() as u64) as usize;
        denoms.push(pool.remove(i).to_string());
    }
    let huge = rng.chance(1, 8);
    let n_acct = accounts.len();
    let mut valid = vec![true; n_acct];
    valid[n_acct - 1] = false;
    let mut g = Gen { rng, denoms: denoms.clone(), n_acct, offered: BTreeMap::new(), huge, led: vec![BTreeMap::new(); n_acct], valid };
    // genesis: users only (never the contract, never the never-seen account)
    let ng = g.rng.below(3);
    let mut genesis = vec![];
    for _ in 0..ng {
        let a = 1 + g.rng.below(n_users as u64) as usize;
        let cs = g.coins(5, true);
        g.led[a] = Gen::totals(&cs);
        genesis.push((a, cs));
    }
    let nops = g.rng.range(1, 40) as usize;
    let ghost = 1 + n_users;
    let mut ops = vec![];
    while ops.len() < nops {
        let led = g.led.clone();
        let op = g.op();
        // the never-seen account receives nothing by mint/init: it first appears as a recipient
        if matches!(&op, Op::Init { a, .. } | Op::Mint { to: a, .. } if *a == ghost) {
            g.led = led;
            continue;
        }
        ops.push(op);
    }
    Input { accounts, denoms, genesis, ops }
}

fn fixed_corpus() -> Vec<Input> {
    let acc = vec![
        Acct::Contract,
        Acct::User("alice".into()),
        Acct::User("bob".into()),
        Acct::User("never-seen".into()),
        Acct::Raw("Not A Bech32 Address!".into()),
    ];
    let dn = vec!["x".to_string(), "y".to_string(), "z".to_string()];
    let mk = |genesis: Vec<(usize, Vec<Coin>)>, ops: Vec<Op>| Input { accounts: acc.clone(), denoms: dn.clone(), genesis, ops };
    let big = 1u128 << 126;
    vec![
        // self-transfer beyond the balance must fail (debit first), within the balance is the identity
        mk(
            vec![],
            vec![
                Op::Mint { to: 1, amount: vec![c("x", 10)] },
                Op::Send { from: 1, to: 1, amount: vec![c("x", 15)] },
                Op::Send { from: 1, to: 1, amount: vec![c("x", 10)] },
                Op::Send { from: 1, to: 1, amount: vec![c("x", 6), c("x", 6)] },
                Op::Send { from: 1, to: 1, amount: vec![c("x", 3), c("y", 0), c("x", 3)] },
            ],
        ),
        // repeated denoms whose sum exceeds the balance while each alone does not; then the exact sum
        mk(
            vec![(1, vec![c("x", 10), c("y", 4)])],
            vec![
                Op::Send { from: 1, to: 2, amount: vec![c("x", 6), c("x", 6)] },
                Op::Send { from: 1, to: 2, amount: vec![c("x", 6), c("y", 1), c("x", 5)] },
                Op::Send { from: 1, to: 2, amount: vec![c("x", 5), c("y", 2), c("x", 5), c("y", 2)] },
                Op::Burn { from: 2, amount: vec![c("x", 6), c("x", 5)] },
                Op::Burn { from: 2, amount: vec![c("x", 5), c("x", 5)] },
            ],
        ),
        // no positive amount: all-zero lists, the empty list, through every entry point
        mk(
            vec![(1, vec![c("x", 10)])],
            vec![
                Op::Send { from: 1, to: 2, amount: vec![c("x", 0), c("y", 0)] },
                Op::Send { from: 1, to: 2, amount: vec![] },
                Op::Mint { to: 2, amount: vec![c("x", 0)] },
                Op::Mint { to: 2, amount: vec![] },
                Op::Burn { from: 1, amount: vec![c("x", 0), c("x", 0)] },
                Op::Burn { from: 1, amount: vec![] },
                Op::Contract { sender: 1, funds: vec![c("x", 0)], acts: vec![] },
                Op::Contract { sender: 1, funds: vec![], acts: vec![] },
                Op::Contract { sender: 1, funds: vec![c("x", 1)], acts: vec![Act::Send { to: 2, amount: vec![c("x", 0)] }] },
                Op::Contract { sender: 1, funds: vec![c("x", 1)], acts: vec![Act::Burn { amount: vec![] }] },
                // zeros of a denom that is not held, mixed with a positive amount: succeeds
                Op::Send { from: 1, to: 2, amount: vec![c("y", 0), c("x", 3), c("z", 0)] },
            ],
        ),
        // burn of the exact balance: the denom entry disappears, the account stays with an empty list
        mk(
            vec![],
            vec![
                Op::Mint { to: 1, amount: vec![c("x", 7), c("y", 2)] },
                Op::Burn { from: 1, amount: vec![c("x", 7)] },
                Op::Burn { from: 1, amount: vec![c("y", 1), c("y", 1)] },
                Op::Burn { from: 1, amount: vec![c("y", 1)] },
                Op::Send { from: 1, to: 2, amount: vec![c("x", 1)] },
                Op::Mint { to: 1, amount: vec![c("z", 1)] },
            ],
        ),
        // never-seen recipient, a recipient no query can name, and coins coming back from it
        mk(
            vec![(1, vec![c("x", 10), c("y", 10)])],
            vec![
                Op::Send { from: 1, to: 3, amount: vec![c("x", 4)] },
                Op::Send { from: 1, to: 4, amount: vec![c("x", 5), c("y", 1)] },
                Op::Mint { to: 4, amount: vec![c("x", 1)] },
                Op::Send { from: 4, to: 2, amount: vec![c("x", 6)] },
                Op::Send { from: 4, to: 2, amount: vec![c("x", 2), c("x", 3)] },
                Op::Burn { from: 4, amount: vec![c("y", 1)] },
                Op::Burn { from: 3, amount: vec![c("x", 5)] },
                Op::Send { from: 3, to: 3, amount: vec![c("x", 4)] },
            ],
        ),
        // genesis overwrite and normalisation: unsorted, repeated, zeros
        mk(
            vec![(1, vec![c("z", 2), c("x", 5), c("y", 0), c("x", 3)]), (1, vec![c("y", 1), c("x", 1), c("y", 1)]), (2, vec![])],
            vec![
                Op::Init { a: 2, amount: vec![c("z", 0)] },
                Op::Init { a: 1, amount: vec![c("z", 2), c("x", 5), c("y", 0), c("x", 3)] },
                Op::Init { a: 4, amount: vec![c("y", 9)] },
                Op::Init { a: 1, amount: vec![] },
                Op::Mint { to: 1, amount: vec![c("z", 1), c("x", 0), c("a-denom-outside-the-scenario", 2), c("x", 2)] },
            ],
        ),
        // the forwarding contract: funds arrive first, later messages see earlier ones, one failure undoes all
        mk(
            vec![(1, vec![c("x", 10), c("y", 3)])],
            vec![
                Op::Contract { sender: 1, funds: vec![c("x", 4)], acts: vec![Act::Send { to: 2, amount: vec![c("x", 3)] }, Act::Burn { amount: vec![c("x", 1)] }] },
                Op::Contract { sender: 1, funds: vec![c("x", 4)], acts: vec![Act::Send { to: 2, amount: vec![c("x", 3)] }, Act::Send { to: 2, amount: vec![c("x", 2)] }] },
                Op::Contract { sender: 1, funds: vec![c("x", 2), c("x", 2)], acts: vec![Act::Send { to: 0, amount: vec![c("x", 4)] }, Act::Send { to: 1, amount: vec![c("x", 4)] }] },
                Op::Contract { sender: 2, funds: vec![c("x", 7)], acts: vec![] },
                Op::Contract { sender: 0, funds: vec![c("x", 1)], acts: vec![Act::Send { to: 4, amount: vec![c("x", 1)] }] },
                Op::Contract { sender: 4, funds: vec![c("x", 1)], acts: vec![Act::Send { to: 3, amount: vec![c("x", 1), c("y", 0)] }] },
            ],
        ),
        // amounts near 2^127 without overflow (total offered per denom < 2^128)
        mk(
            vec![(1, vec![c("x", big), c("x", big)])],
            vec![
                Op::Mint { to: 2, amount: vec![c("x", big), c("y", 3 * big)] },
                Op::Send { from: 1, to: 2, amount: vec![c("x", big), c("x", big)] },
                Op::Send { from: 2, to: 2, amount: vec![c("x", 3 * big)] },
                Op::Send { from: 2, to: 1, amount: vec![c("x", 2 * big), c("x", big), c("x", 1)] },
                Op::Burn { from: 2, amount: vec![c("y", 3 * big - 1), c("y", 1)] },
                Op::Mint { to: 1, amount: vec![c("y", 3 * big)] },
            ],
        ),
    ]
}

/// exhaustive small family: after a fixed genesis (alice: 2x + 1y), EVERY history of `len` ops
/// over the op shapes below x every coin list of length <= 2 over {0x, 1x, 2x, 1y}
fn exhaustive(out: &mut Out, len: usize) {
    let accounts = vec![Acct::Contract, Acct::User("alice".into()), Acct::User("bob".into())];
    let denoms = vec!["x".to_string(), "y".to_string()];
    let alphabet = [c("x", 0), c("x", 1), c("x", 2), c("y", 1)];
    let mut lists: Vec<Vec<Coin>> = vec![vec![]];
    for a in &alphabet {
        lists.push(vec![a.clone()]);
    }
    for a in &alphabet {
        for b in &alphabet {
            lists.push(vec![a.clone(), b.clone()]);
        }
    }
    let mut shapes: Vec<Op> = vec![];
    for l in &lists {
        shapes.push(Op::Send { from: 1, to: 2, amount: l.clone() });
        shapes.push(Op::Send { from: 1, to: 1, amount: l.clone() });
        shapes.push(Op::Burn { from: 1, amount: l.clone() });
        shapes.push(Op::Contract { sender: 1, funds: l.clone(), acts: vec![Act::Send { to: 2, amount: vec![c("x", 1)] }] });
    }
    let genesis = vec![(1usize, vec![c("x", 2), c("y", 1)])];
    let mut idx = vec![0usize; len];
    loop {
        let ops: Vec<Op> = idx.iter().map(|i| shapes[*i].clone()).collect();
        emit(out, &Input { accounts: accounts.clone(), denoms: denoms.clone(), genesis: genesis.clone(), ops }, "exhaustive");
        let mut k = 0;
        loop {
            if k == len {
                return;
            }
            idx[k] += 1;
            if idx[k] < shapes.len() {
                break;
            }
            idx[k] = 0;
            k += 1;
        }
    }
}

pub fn run(args: &Args) {
    let mut out = Out::new(&args.out, "From Verif Require Import Base OMap Bank Chk09.");
    if let Some(p) = &args.replay {
        let v: serde_json::Value = serde_json::from_slice(&std::fs::read(p).unwrap()).unwrap();
        let case = v.get("case").unwrap_or(&v);
        let inp: Input = serde_json::from_value(case["input"].clone()).unwrap();
        emit(&mut out, &inp, "replay");
        out.finish(50, "replay");
        return;
    }
    for inp in fixed_corpus() {
        emit(&mut out, &inp, "fixed");
    }
    exhaustive(&mut out, if args.thorough { 2 } else { 1 });
    let mut rng = Rng::new(args.seed);
    let n = if args.thorough { 3000 } else { 250 } * args.scale;
    for _ in 0..n {
        let mut r = rng.fork();
        let inp = random_case(&mut r);
        emit(&mut out, &inp, "random");
    }
    out.finish(
        if args.thorough { 120 } else { 20 },
        "cases = fixed adversarial histories + exhaustive small family (every history of 1 (quick) / 2 (thorough) ops over 4 op shapes x every coin list of length <= 2 over {0x,1x,2x,1y}) + PRNG histories of 1-40 ops (2-6 accounts + a never-seen recipient + a non-bech32 string, 1-4 denoms, coin lists of 0-5 entries with repeats and zeros, amounts 0-20, 1 in 8 histories with amounts near 2^127, never overflowing); distinct by SHA-256 of the input; non-trivial = at least one op succeeded, at least one op failed, and at least one transfer (send or contract execution) succeeded",
    );
}
