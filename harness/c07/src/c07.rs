//! C07: prefixed (single / multi-level, read-only / mutable) storage views obtained from the public
//! `App` accessors, interleaved with raw access to `App::storage()`, against the window spec and
//! the namespace_helpers model of coq/Prefix.v (check: coq/Chk07.v).
//!
//! Every script is run twice on the real implementation: once with a view built afresh from the App
//! for every operation (`run_impl`: the raw store is dumped after every operation), and once with
//! LONG-LIVED view objects (`run_long`: every maximal run of consecutive operations on one view goes
//! through ONE `Box<dyn Storage>` obtained once from the App; the raw store can be dumped only where
//! the object has been dropped).  Both observation lists are judged in Coq (`c07l`).
use common::*;
use cosmwasm_std::{Order, Storage};
use cw_multi_test::App;
use serde::{Deserialize, Serialize};

/// byte string; (de)serialised run-length encoded when long, so that 65535-byte segments stay small
#[derive(Clone, PartialEq, Eq, PartialOrd, Ord, Serialize, Deserialize)]
#[serde(from = "BsRepr", into = "BsRepr")]
pub struct Bs(pub Vec<u8>);

#[derive(Serialize, Deserialize)]
#[serde(untagged)]
enum BsRepr {
    Plain(Vec<u8>),
    Rle { rle: Vec<(u8, u32)> },
}
impl From<BsRepr> for Bs {
    fn from(r: BsRepr) -> Bs {
        match r {
            BsRepr::Plain(v) => Bs(v),
            BsRepr::Rle { rle } => {
                let mut v = vec![];
                for (b, n) in rle {
                    v.extend(std::iter::repeat(b).take(n as usize));
                }
                Bs(v)
            }
        }
    }
}
impl From<Bs> for BsRepr {
    fn from(b: Bs) -> BsRepr {
        if b.0.len() <= 48 {
            BsRepr::Plain(b.0)
        } else {
            let mut runs: Vec<(u8, u32)> = vec![];
            for x in b.0 {
                match runs.last_mut() {
                    Some((y, n)) if *y == x => *n += 1,
                    _ => runs.push((x, 1)),
                }
            }
            BsRepr::Rle { rle: runs }
        }
    }
}
impl std::fmt::Debug for Bs {
    fn fmt(&self, f: &mut std::fmt::Formatter<'_>) -> std::fmt::Result {
        f.write_str(&coq_bytes(&self.0))
    }
}
fn bs(x: &[u8]) -> Bs {
    Bs(x.to_vec())
}

#[derive(Clone, Debug, Serialize, Deserialize, PartialEq)]
pub enum VRef {
    /// App::prefixed_storage(seg) / prefixed_storage_mut(seg)
    Single(Bs),
    /// App::prefixed_multilevel_storage(path) / prefixed_multilevel_storage_mut(path)
    Multi(Vec<Bs>),
}
impl VRef {
    fn path(&self) -> Vec<Vec<u8>> {
        match self {
            VRef::Single(s) => vec![s.0.clone()],
            VRef::Multi(p) => p.iter().map(|s| s.0.clone()).collect(),
        }
    }
}

/// the bool after the view: true = `_mut` accessor (PrefixedStorage), false = read-only accessor
#[derive(Clone, Debug, Serialize, Deserialize)]
pub enum Op {
    RawSet(Bs, Bs),
    RawDel(Bs),
    RawGet(Bs),
    RawRange(Option<Bs>, Option<Bs>, bool), // bool: ascending
    VGet(VRef, bool, Bs),
    VRange(VRef, bool, Option<Bs>, Option<Bs>, bool),
    VSet(VRef, bool, Bs, Bs),
    VDel(VRef, bool, Bs),
}

#[derive(Clone, Debug, Serialize, Deserialize, PartialEq)]
pub enum Ans {
    Unit,
    Get(Option<Bs>),
    Range(Vec<(Bs, Bs)>),
    Panic,
}

#[derive(Clone, Debug, Serialize, Deserialize)]
pub struct Input {
    pub ops: Vec<Op>,
}

fn ord(asc: bool) -> Order {
    if asc {
        Order::Ascending
    } else {
        Order::Descending
    }
}

fn ro_view<'a>(app: &'a App, v: &VRef) -> Box<dyn Storage + 'a> {
    match v {
        VRef::Single(s) => app.prefixed_storage(&s.0),
        VRef::Multi(p) => {
            let refs: Vec<&[u8]> = p.iter().map(|s| s.0.as_slice()).collect();
            app.prefixed_multilevel_storage(&refs)
        }
    }
}
fn mut_view<'a>(app: &'a mut App, v: &VRef) -> Box<dyn Storage + 'a> {
    match v {
        VRef::Single(s) => app.prefixed_storage_mut(&s.0),
        VRef::Multi(p) => {
            let refs: Vec<&[u8]> = p.iter().map(|s| s.0.as_slice()).collect();
            app.prefixed_multilevel_storage_mut(&refs)
        }
    }
}
fn collect(it: Box<dyn Iterator<Item = (Vec<u8>, Vec<u8>)> + '_>) -> Vec<(Bs, Bs)> {
    it.map(|(k, v)| (Bs(k), Bs(v))).collect()
}
fn ob(o: &Option<Bs>) -> Option<&[u8]> {
    o.as_ref().map(|b| b.0.as_slice())
}

/// one operation on the real implementation; every view is built afresh from the App
fn step(app: &mut App, op: &Op) -> Ans {
    let r = catch(|| match op {
        Op::RawSet(k, x) => {
            app.storage_mut().set(&k.0, &x.0);
            Ans::Unit
        }
        Op::RawDel(k) => {
            app.storage_mut().remove(&k.0);
            Ans::Unit
        }
        Op::RawGet(k) => Ans::Get(app.storage().get(&k.0).map(Bs)),
        Op::RawRange(s, e, asc) => Ans::Range(collect(app.storage().range(ob(s), ob(e), ord(*asc)))),
        Op::VGet(v, mu, k) => {
            if *mu {
                Ans::Get(mut_view(app, v).get(&k.0).map(Bs))
            } else {
                Ans::Get(ro_view(app, v).get(&k.0).map(Bs))
            }
        }
        Op::VRange(v, mu, s, e, asc) => {
            if *mu {
                let view = mut_view(app, v);
                let l = collect(view.range(ob(s), ob(e), ord(*asc)));
                Ans::Range(l)
            } else {
                let view = ro_view(app, v);
                let l = collect(view.range(ob(s), ob(e), ord(*asc)));
                Ans::Range(l)
            }
        }
        Op::VSet(v, mu, k, x) => {
            if *mu {
                mut_view(app, v).set(&k.0, &x.0);
            } else {
                let mut view = ro_view(app, v);
                view.set(&k.0, &x.0);
            }
            Ans::Unit
        }
        Op::VDel(v, mu, k) => {
            if *mu {
                mut_view(app, v).remove(&k.0);
            } else {
                let mut view = ro_view(app, v);
                view.remove(&k.0);
            }
            Ans::Unit
        }
    });
    r.unwrap_or(Ans::Panic)
}

fn dump(app: &App) -> Vec<(Bs, Bs)> {
    collect(app.storage().range(None, None, Order::Ascending))
}

/// run the whole script on a fresh App whose storage has been emptied; observation i = (answer of
/// op i, full raw dump of App::storage() after op i)
fn run_impl(inp: &Input) -> Vec<(Ans, Vec<(Bs, Bs)>)> {
    let mut app = App::default();
    for (k, _) in dump(&app) {
        app.storage_mut().remove(&k.0);
    }
    let mut obs = vec![];
    for op in &inp.ops {
        let a = step(&mut app, op);
        let d = catch(|| dump(&app)).unwrap_or_default();
        obs.push((a, d));
    }
    obs
}

/// the view an operation goes through: (constructor + path, `_mut` accessor?)
fn view_of(op: &Op) -> Option<(&VRef, bool)> {
    match op {
        Op::VGet(v, mu, ..) | Op::VRange(v, mu, ..) | Op::VSet(v, mu, ..) | Op::VDel(v, mu, ..) => Some((v, *mu)),
        _ => None,
    }
}

/// one operation through an EXISTING view object
fn vstep(view: &mut dyn Storage, op: &Op) -> Ans {
    catch(|| match op {
        Op::VGet(_, _, k) => Ans::Get(view.get(&k.0).map(Bs)),
        Op::VRange(_, _, s, e, asc) => Ans::Range(collect(view.range(ob(s), ob(e), ord(*asc)))),
        Op::VSet(_, _, k, x) => {
            view.set(&k.0, &x.0);
            Ans::Unit
        }
        Op::VDel(_, _, k) => {
            view.remove(&k.0);
            Ans::Unit
        }
        _ => unreachable!("vstep is only called on view operations"),
    })
    .unwrap_or(Ans::Panic)
}

/// end (exclusive) of the maximal run of consecutive operations on the view of ops[i]
fn run_end(ops: &[Op], i: usize) -> usize {
    let v = view_of(&ops[i]);
    let mut j = i + 1;
    if v.is_some() {
        while j < ops.len() && view_of(&ops[j]) == v {
            j += 1;
        }
    }
    j
}

/// second pass, long-lived view objects: the same script on a fresh emptied App, every maximal run of
/// consecutive operations on one view performed through ONE object obtained once from the App (a
/// panicking operation does not end the run: the same object serves the next one; if the accessor
/// itself panics every operation of the run is a panic).  Observation i = (answer of op i, Some(raw
/// dump) if the view object has been dropped after op i — the borrow rules forbid looking at
/// `App::storage()` earlier — else None).
fn run_long(inp: &Input) -> Vec<(Ans, Option<Vec<(Bs, Bs)>>)> {
    let mut app = App::default();
    for (k, _) in dump(&app) {
        app.storage_mut().remove(&k.0);
    }
    let ops = &inp.ops;
    let mut obs = vec![];
    let mut i = 0;
    while i < ops.len() {
        let j = run_end(ops, i);
        match view_of(&ops[i]) {
            None => {
                let a = step(&mut app, &ops[i]);
                obs.push((a, Some(catch(|| dump(&app)).unwrap_or_default())));
            }
            Some((v, mu)) => {
                let mut answers = vec![];
                {
                    let built: Result<Box<dyn Storage + '_>, String> = if mu {
                        let r = &mut app;
                        catch(move || mut_view(r, v))
                    } else {
                        let r = &app;
                        catch(move || ro_view(r, v))
                    };
                    match built {
                        Ok(mut view) => {
                            for op in &ops[i..j] {
                                answers.push(vstep(view.as_mut(), op));
                            }
                        }
                        Err(_) => answers.resize(j - i, Ans::Panic),
                    }
                }
                let d = catch(|| dump(&app)).unwrap_or_default();
                let n = answers.len();
                for (x, a) in answers.into_iter().enumerate() {
                    obs.push((a, if x + 1 == n { Some(d.clone()) } else { None }));
                }
            }
        }
        i = j;
    }
    obs
}

// ---------- Coq printer ----------
fn cb(b: &Bs) -> String {
    coq_bytes(&b.0)
}
fn coq_order(asc: bool) -> &'static str {
    if asc {
        "Asc"
    } else {
        "Desc"
    }
}
fn coq_vref(v: &VRef) -> String {
    match v {
        VRef::Single(s) => format!("(VSingle {})", cb(s)),
        VRef::Multi(p) => format!("(VMulti {})", coq_list(p, cb)),
    }
}
fn coq_obs_opt(o: &Option<Bs>) -> String {
    coq_opt(o, cb)
}
fn coq_op(op: &Op) -> String {
    match op {
        Op::RawSet(k, x) => format!("RawSet {} {}", cb(k), cb(x)),
        Op::RawDel(k) => format!("RawDel {}", cb(k)),
        Op::RawGet(k) => format!("RawGet {}", cb(k)),
        Op::RawRange(s, e, o) => format!("RawRange {} {} {}", coq_obs_opt(s), coq_obs_opt(e), coq_order(*o)),
        Op::VGet(v, mu, k) => format!("VGet {} {} {}", coq_vref(v), coq_bool(*mu), cb(k)),
        Op::VRange(v, mu, s, e, o) => {
            format!("VRange {} {} {} {} {}", coq_vref(v), coq_bool(*mu), coq_obs_opt(s), coq_obs_opt(e), coq_order(*o))
        }
        Op::VSet(v, mu, k, x) => format!("VSet {} {} {} {}", coq_vref(v), coq_bool(*mu), cb(k), cb(x)),
        Op::VDel(v, mu, k) => format!("VDel {} {} {}", coq_vref(v), coq_bool(*mu), cb(k)),
    }
}
fn coq_kvb(kv: &(Bs, Bs)) -> String {
    format!("({},{})", cb(&kv.0), cb(&kv.1))
}
fn coq_ans(a: &Ans) -> String {
    match a {
        Ans::Unit => "AUnit".into(),
        Ans::Get(x) => format!("AGet {}", coq_obs_opt(x)),
        Ans::Range(l) => format!("ARange {}", coq_list(l, coq_kvb)),
        Ans::Panic => "APanic".into(),
    }
}

// ---------- the harness's own copy of the encoding: used ONLY to craft adversarial keys ----------
fn enc_path(p: &[Vec<u8>]) -> Vec<u8> {
    let mut out = vec![];
    for s in p {
        let n = s.len().min(0xFFFF);
        out.push((n >> 8) as u8);
        out.push((n & 0xFF) as u8);
        out.extend_from_slice(s);
    }
    out
}
fn upper_bound(ns: &[u8]) -> Vec<u8> {
    let mut c = ns.to_vec();
    for i in (0..c.len()).rev() {
        if c[i] == 255 {
            c[i] = 0;
        } else {
            c[i] += 1;
            break;
        }
    }
    c
}

const LONG: usize = 65535;

fn seg_alphabet() -> Vec<Vec<u8>> {
    vec![
        vec![],
        vec![0],
        vec![255],
        vec![255, 255],
        b"a".to_vec(),
        b"ab".to_vec(),
        b"abc".to_vec(),
        b"a\xff".to_vec(),
        b"a\xff\xff".to_vec(),
        b"f\xff\xff".to_vec(),
        vec![0, 0],                   // spells the encoding of the path [""]
        vec![0, 1, b'a'],             // spells the encoding of the path ["a"]
        vec![0, 1, b'a', 0, 1, b'b'], // spells the encoding of the path ["a","b"]
        vec![0, 1, 255],              // spells the encoding of the path [ff]
        vec![1; 256],                 // length bytes 01 00
        vec![2; 300],                 // length bytes 01 2c
    ]
}

struct Gen<'a> {
    rng: &'a mut Rng,
    segs: Vec<Vec<u8>>,
    long_ok: bool,
}
impl Gen<'_> {
    fn rand_bytes(&mut self, max: u64) -> Vec<u8> {
        let n = self.rng.below(max + 1) as usize;
        (0..n).map(|_| *self.rng.pick(&[0u8, 1, 2, b'a', b'b', 254, 255])).collect()
    }
    fn seg(&mut self, out: &mut Out) -> Vec<u8> {
        let c = self.rng.below(100);
        if self.long_ok && c < 30 {
            out.stat("seg_65535_bytes", 1);
            return vec![255; LONG];
        }
        if c < 80 {
            let s = self.rng.pick(&self.segs).clone();
            out.stat(
                match s.len() {
                    0 => "seg_empty",
                    1..=6 => "seg_alphabet_short",
                    _ => "seg_256_or_300_bytes",
                },
                1,
            );
            s
        } else {
            out.stat("seg_random", 1);
            self.rand_bytes(3)
        }
    }
    fn path(&mut self, out: &mut Out) -> Vec<Vec<u8>> {
        let c = self.rng.below(100);
        let n = if c < 15 {
            0
        } else if c < 50 {
            1
        } else if c < 80 {
            2
        } else if c < 94 {
            3
        } else {
            4
        };
        (0..n).map(|_| self.seg(out)).collect()
    }
    fn vref(&mut self, p: Vec<Vec<u8>>) -> VRef {
        if p.len() == 1 && self.rng.chance(1, 2) {
            VRef::Single(Bs(p[0].clone()))
        } else {
            VRef::Multi(p.into_iter().map(Bs).collect())
        }
    }
    /// 2-3 related views: a path, then extensions / siblings (last segment a prefix or an extension
    /// of the other's) / the zero-segment path / the same namespace through the other constructor
    fn views(&mut self, out: &mut Out) -> Vec<VRef> {
        let p = self.path(out);
        let mut vs = vec![self.vref(p.clone())];
        let n = 1 + self.rng.below(2) as usize;
        for _ in 0..n {
            let q = match self.rng.below(6) {
                0 => {
                    out.stat("view_extension", 1);
                    let mut q = p.clone();
                    q.push(self.seg(out));
                    q
                }
                1 if !p.is_empty() => {
                    out.stat("view_sibling_prefix_segment", 1);
                    let mut q = p.clone();
                    let last = q.pop().unwrap();
                    let mut l2 = if last.len() > 8 { last[..last.len() - 1].to_vec() } else { last.clone() };
                    if self.rng.chance(1, 2) && !l2.is_empty() {
                        l2.pop();
                    } else {
                        l2.push(*self.rng.pick(&[0u8, b'a', 255]));
                    }
                    q.push(l2);
                    q
                }
                2 => {
                    out.stat("view_zero_segments", 1);
                    vec![]
                }
                3 if !p.is_empty() => {
                    out.stat("view_parent", 1);
                    p[..p.len() - 1].to_vec()
                }
                4 => {
                    out.stat("view_same_namespace", 1);
                    p.clone()
                }
                _ => {
                    out.stat("view_unrelated", 1);
                    self.path(out)
                }
            };
            let v = self.vref(q);
            vs.push(v);
        }
        vs
    }
}

fn key_pool(views: &[VRef], rng: &mut Rng) -> Vec<Bs> {
    let mut ks: Vec<Vec<u8>> = vec![
        vec![],
        vec![0],
        vec![255],
        vec![255, 255],
        b"a".to_vec(),
        b"ab".to_vec(),
        b"b".to_vec(),
        vec![0, 0],
        vec![0, 1, b'a'],
        vec![0, 1, b'a', b'x'],
        vec![0, 3, b'g'],
    ];
    // keys that, through a shorter path, land inside the window of a longer one
    for a in views {
        for b in views {
            let (pa, pb) = (a.path(), b.path());
            if pb.len() > pa.len() && pb[..pa.len()] == pa[..] {
                let suf = enc_path(&pb[pa.len()..]);
                if suf.len() < 64 {
                    ks.push(suf.clone());
                    let mut k = suf.clone();
                    k.push(*rng.pick(&[0u8, b'a', 255]));
                    ks.push(k);
                    ks.push(upper_bound(&suf));
                    ks.push(suf[..suf.len() - 1].to_vec());
                }
            }
        }
    }
    ks.into_iter().map(Bs).collect()
}

fn raw_pool(views: &[VRef], rng: &mut Rng) -> Vec<Bs> {
    let mut ks: Vec<Vec<u8>> = vec![vec![], vec![0], vec![0, 3, b'g'], vec![255], vec![0, 0]];
    for v in views {
        let ns = enc_path(&v.path());
        let ub = upper_bound(&ns);
        ks.push(ns.clone());
        ks.push([ns.clone(), vec![0]].concat());
        ks.push([ns.clone(), vec![*rng.pick(&[b'a', 255u8, 1])]].concat());
        ks.push(ub.clone());
        if !ns.is_empty() {
            ks.push(ns[..ns.len() - 1].to_vec());
            // proper prefixes of the upper bound
            if ub.len() <= 12 {
                for l in 0..ub.len() {
                    ks.push(ub[..l].to_vec());
                }
            } else {
                for l in [1usize, 2, 3, ub.len() - 2, ub.len() - 1] {
                    ks.push(ub[..l].to_vec());
                }
            }
            // strip trailing 255 and increment: the tight bound
            let mut t = ns.clone();
            while t.last() == Some(&255) {
                t.pop();
            }
            if let Some(x) = t.last_mut() {
                *x += 1;
                ks.push(t);
            }
        }
    }
    ks.into_iter().map(Bs).collect()
}

fn val(rng: &mut Rng) -> Bs {
    let n = 1 + rng.below(2) as usize;
    Bs((0..n).map(|_| rng.below(256) as u8).collect())
}
fn bound(rng: &mut Rng, keys: &[Bs]) -> Option<Bs> {
    if rng.chance(3, 10) {
        None
    } else {
        Some(rng.pick(keys).clone())
    }
}

/// after a mutation: a get and some ranges through every view.  Half of the time the accessor is drawn
/// per operation (so the long-lived pass sees short runs), otherwise all probes of a view use the same
/// accessor: in the long-lived pass they are then answered by ONE view object.
fn probes(rng: &mut Rng, views: &[VRef], keys: &[Bs], nranges: usize, ops: &mut Vec<Op>) {
    for v in views {
        let fixed = match rng.below(4) {
            2 => Some(true),
            3 => Some(false),
            _ => None,
        };
        let mu = |rng: &mut Rng| fixed.unwrap_or_else(|| rng.chance(1, 2));
        ops.push(Op::VGet(v.clone(), mu(rng), rng.pick(keys).clone()));
        for i in 0..nranges {
            let (s, e) = if i == 0 && rng.chance(1, 2) { (None, None) } else { (bound(rng, keys), bound(rng, keys)) };
            ops.push(Op::VRange(v.clone(), mu(rng), s, e, rng.chance(1, 2)));
        }
    }
}

/// 2-6 consecutive operations on ONE view (mostly a mutable one) over three keys of the pool: in the
/// long-lived pass they go through one view object.  Few keys and more removals than writes, so that
/// remove(absent key) followed by set / remove(present key) / reads, and set - remove - set of one key,
/// are common; a read-only view gets reads and a few (rejected) writes.
fn burst(rng: &mut Rng, out: &mut Out, views: &[VRef], keys: &[Bs], ops: &mut Vec<Op>) {
    let v = rng.pick(views).clone();
    let mu = !rng.chance(3, 20);
    let n = 2 + rng.below(5) as usize;
    let ks: Vec<Bs> = (0..3).map(|_| rng.pick(keys).clone()).collect();
    out.stat(if mu { "burst_on_mutable_view" } else { "burst_on_readonly_view" }, 1);
    for _ in 0..n {
        let c = rng.below(100);
        let k = rng.pick(&ks).clone();
        let (w_set, w_del, w_get) = if mu { (32, 70, 85) } else { (8, 16, 60) };
        ops.push(if c < w_set {
            Op::VSet(v.clone(), mu, k, val(rng))
        } else if c < w_del {
            Op::VDel(v.clone(), mu, k)
        } else if c < w_get {
            Op::VGet(v.clone(), mu, k)
        } else if rng.chance(1, 2) {
            Op::VRange(v.clone(), mu, None, None, rng.chance(1, 2))
        } else {
            Op::VRange(v.clone(), mu, bound(rng, keys), bound(rng, keys), rng.chance(1, 2))
        });
    }
}

fn random_case(rng: &mut Rng, out: &mut Out, long_ok: bool) -> Input {
    let mut g = Gen { rng, segs: seg_alphabet(), long_ok };
    let views = g.views(out);
    let rng = g.rng;
    let keys = key_pool(&views, rng);
    let raws = raw_pool(&views, rng);
    let n = if long_ok { 3 + rng.below(4) } else { 5 + rng.below(8) } as usize;
    let nr = if long_ok { 1 } else { 2 };
    let mut ops = vec![];
    for _ in 0..n {
        if rng.chance(3, 10) {
            burst(rng, out, &views, &keys, &mut ops);
            probes(rng, &views, &keys, nr, &mut ops);
            continue;
        }
        let c = rng.below(100);
        let v = rng.pick(&views).clone();
        let mutation = c < 70;
        let op = if c < 28 {
            Op::VSet(v, true, rng.pick(&keys).clone(), val(rng))
        } else if c < 38 {
            Op::VDel(v, true, rng.pick(&keys).clone())
        } else if c < 42 {
            Op::VSet(v, false, rng.pick(&keys).clone(), val(rng))
        } else if c < 45 {
            Op::VDel(v, false, rng.pick(&keys).clone())
        } else if c < 63 {
            Op::RawSet(rng.pick(&raws).clone(), val(rng))
        } else if c < 70 {
            Op::RawDel(rng.pick(&raws).clone())
        } else if c < 78 {
            Op::RawGet(rng.pick(&raws).clone())
        } else if c < 84 {
            Op::RawRange(bound(rng, &raws), bound(rng, &raws), rng.chance(1, 2))
        } else if c < 90 {
            Op::VGet(v, rng.chance(1, 2), rng.pick(&keys).clone())
        } else {
            Op::VRange(v, rng.chance(1, 2), bound(rng, &keys), bound(rng, &keys), rng.chance(1, 2))
        };
        ops.push(op);
        if mutation {
            probes(rng, &views, &keys, nr, &mut ops);
        }
    }
    // always end with the full listing through every view, both accessors
    for v in &views {
        ops.push(Op::VRange(v.clone(), false, None, None, true));
        ops.push(Op::VRange(v.clone(), true, None, None, false));
    }
    Input { ops }
}

/// Adversarial family of DESIGN.md section 5 C07: a namespace whose raw prefix is empty / all 0xFF /
/// ends in 0xFF, a base holding every proper prefix of namespace_upper_bound, the bound itself, the
/// prefix and prefix ++ 00 (all written raw) plus entries of the window, then every bound pair from
/// a small alphabet in both orders.
fn adversarial(out: &mut Out, v: VRef, full: bool) {
    let ns = enc_path(&v.path());
    let ub = upper_bound(&ns);
    let mut raw: Vec<Vec<u8>> = vec![ns.clone(), [ns.clone(), vec![0]].concat(), ub.clone()];
    if ub.len() <= 12 {
        for l in 0..ub.len() {
            raw.push(ub[..l].to_vec());
        }
    } else {
        for l in [0usize, 1, 2, 3, ub.len() - 2, ub.len() - 1] {
            raw.push(ub[..l].to_vec());
        }
    }
    raw.push([ub.clone(), vec![0]].concat());
    raw.sort();
    raw.dedup();
    let mut ops = vec![];
    for (i, k) in raw.iter().enumerate() {
        ops.push(Op::RawSet(Bs(k.clone()), Bs(vec![1 + i as u8])));
    }
    ops.push(Op::VSet(v.clone(), true, bs(b"a"), bs(b"A")));
    ops.push(Op::VSet(v.clone(), true, bs(b"\xff"), bs(b"F")));
    ops.push(Op::VDel(v.clone(), true, bs(b"zz")));
    ops.push(Op::VSet(v.clone(), false, bs(b"q"), bs(b"Q")));
    ops.push(Op::VDel(v.clone(), false, bs(b"a")));
    let alpha: Vec<Option<Bs>> = if full {
        vec![None, Some(bs(b"")), Some(bs(b"\x00")), Some(bs(b"a")), Some(bs(b"\xff"))]
    } else {
        vec![None, Some(bs(b"")), Some(bs(b"a"))]
    };
    for (i, s) in alpha.iter().enumerate() {
        for (j, e) in alpha.iter().enumerate() {
            for asc in [true, false] {
                ops.push(Op::VRange(v.clone(), (i + j) % 2 == 0, s.clone(), e.clone(), asc));
            }
        }
    }
    for k in alpha.iter().flatten() {
        ops.push(Op::VGet(v.clone(), false, k.clone()));
        ops.push(Op::VGet(v.clone(), true, k.clone()));
    }
    // the zero-segment view sees everything, including what was written through v
    ops.push(Op::VRange(VRef::Multi(vec![]), false, None, None, true));
    ops.push(Op::VRange(VRef::Multi(vec![]), true, None, None, false));
    out.stat("adversarial_family_cases", 1);
    emit(out, &Input { ops });
}

/// exhaustive small family: every write sequence up to length n through the given views over a
/// small key alphabet, followed by every bound pair / order and every get through every view
fn exhaustive(out: &mut Out, views: &[VRef], ks: &[Bs], n: usize, base: &[(Bs, Bs)]) {
    let mut bounds: Vec<Option<Bs>> = vec![None];
    bounds.extend(ks.iter().cloned().map(Some));
    let mut queries = vec![];
    for (vi, v) in views.iter().enumerate() {
        for (i, s) in bounds.iter().enumerate() {
            for (j, e) in bounds.iter().enumerate() {
                for asc in [true, false] {
                    queries.push(Op::VRange(v.clone(), (vi + i + j) % 2 == 0, s.clone(), e.clone(), asc));
                }
            }
        }
        for k in ks {
            queries.push(Op::VGet(v.clone(), vi % 2 == 0, k.clone()));
        }
    }
    let mut writes = vec![];
    for v in views {
        for k in ks {
            writes.push(Op::VSet(v.clone(), true, k.clone(), bs(&[7])));
            writes.push(Op::VDel(v.clone(), true, k.clone()));
        }
    }
    let mut seqs: Vec<Vec<Op>> = vec![vec![]];
    let mut frontier: Vec<Vec<Op>> = vec![vec![]];
    for _ in 0..n {
        let mut next = vec![];
        for s in &frontier {
            for w in &writes {
                let mut t = s.clone();
                t.push(w.clone());
                next.push(t);
            }
        }
        seqs.extend(next.iter().cloned());
        frontier = next;
    }
    for s in seqs {
        let mut ops: Vec<Op> = base.iter().map(|(k, v)| Op::RawSet(k.clone(), v.clone())).collect();
        ops.extend(s);
        ops.extend(queries.iter().cloned());
        out.stat("exhaustive_family_cases", 1);
        emit(out, &Input { ops });
    }
}

/// distribution of the long-lived runs of a script (which operations the first pass showed to be
/// no-ops is read off its dumps: a remove after which the raw store is unchanged removed an absent key)
fn long_lived_stats(out: &mut Out, inp: &Input, obs: &[(Ans, Vec<(Bs, Bs)>)]) {
    let ops = &inp.ops;
    let mut i = 0;
    while i < ops.len() {
        let j = run_end(ops, i);
        if let Some((v, mu)) = view_of(&ops[i]) {
            if j - i >= 2 {
                out.stat(if mu { "long_lived_runs_mutable_view" } else { "long_lived_runs_readonly_view" }, 1);
                out.stat(&format!("long_lived_run_length_{}", if j - i >= 6 { "6_or_more".to_string() } else { (j - i).to_string() }), 1);
                out.stat(if matches!(v, VRef::Single(_)) { "long_lived_runs_single_level" } else { "long_lived_runs_multi_level" }, 1);
                out.stat("long_lived_ops", (j - i) as u64);
            }
            if mu && j - i >= 2 {
                // pending_absent: the last write of the run so far was a remove of an absent key (reads_since:
                // and reads followed it); set_del: 1 = a set seen, 2 = a set and then a remove(present) seen
                let mut pending_absent = false;
                let mut reads_since = false;
                let mut set_del = 0u8;
                for x in i..j {
                    let unchanged = if x > 0 { obs[x].1 == obs[x - 1].1 } else { obs[x].1.is_empty() };
                    match &ops[x] {
                        Op::VSet(..) => {
                            if pending_absent {
                                out.stat(if reads_since { "ll_remove_absent_reads_then_set" } else { "ll_remove_absent_then_set" }, 1);
                            }
                            if set_del == 2 {
                                out.stat("ll_set_remove_set", 1);
                            }
                            set_del = 1;
                            pending_absent = false;
                            reads_since = false;
                        }
                        Op::VDel(..) => {
                            if pending_absent {
                                out.stat(
                                    if unchanged { "ll_remove_absent_then_remove_absent" } else { "ll_remove_absent_then_remove_present" },
                                    1,
                                );
                            }
                            if !unchanged && set_del == 1 {
                                set_del = 2;
                            }
                            pending_absent = unchanged;
                            reads_since = false;
                        }
                        _ => {
                            if pending_absent {
                                reads_since = true;
                                out.stat("ll_remove_absent_then_read", 1);
                            }
                        }
                    }
                }
            }
        }
        i = j;
    }
}

fn emit(out: &mut Out, inp: &Input) {
    let obs = run_impl(inp);
    let obs2 = run_long(inp);
    // the long-lived pass is handed to Coq when it differs in kind from the first one, i.e. when at least
    // one run has two operations or more (otherwise it is the first pass again, view for view)
    let long_lived = obs2.iter().any(|(_, d)| d.is_none());
    // print each distinct raw dump once (let-bound), observations of both passes refer to it
    let mut dumps: Vec<&Vec<(Bs, Bs)>> = vec![];
    let mut index: std::collections::BTreeMap<&Vec<(Bs, Bs)>, usize> = Default::default();
    let mut intern = |d| {
        *index.entry(d).or_insert_with(|| {
            dumps.push(d);
            dumps.len() - 1
        })
    };
    let idx: Vec<usize> = obs.iter().map(|(_, d)| intern(d)).collect();
    let idx2: Vec<Option<usize>> = obs2.iter().map(|(_, d)| d.as_ref().map(&mut intern)).collect();
    let mut coq = String::new();
    for (i, d) in dumps.iter().enumerate() {
        coq.push_str(&format!("let d{} : list kv := {} in ", i, coq_list(d, coq_kvb)));
    }
    let coq_obs1 = coq_list(&obs.iter().zip(&idx).collect::<Vec<_>>(), |((a, _), i)| format!("({}, d{})", coq_ans(a), i));
    if long_lived {
        let coq_obs2 = coq_list(&obs2.iter().zip(&idx2).collect::<Vec<_>>(), |((a, _), i)| match i {
            Some(i) => format!("({}, Some d{})", coq_ans(a), i),
            None => format!("({}, None)", coq_ans(a)),
        });
        coq.push_str(&format!("c07l {} {} {}", coq_list(&inp.ops, coq_op), coq_obs1, coq_obs2));
        out.stat("cases_with_long_lived_pass", 1);
    } else {
        coq.push_str(&format!("c07 {} {}", coq_list(&inp.ops, coq_op), coq_obs1));
    }
    long_lived_stats(out, inp, &obs);
    let mut view_write = false;
    let mut nonempty_range = false;
    let mut paths = std::collections::BTreeSet::new();
    for (op, (a, _)) in inp.ops.iter().zip(&obs) {
        let k = match op {
            Op::RawSet(..) => "op_raw_set",
            Op::RawDel(..) => "op_raw_del",
            Op::RawGet(..) => "op_raw_get",
            Op::RawRange(..) => "op_raw_range",
            Op::VGet(v, mu, _) => {
                paths.insert(format!("{:?}", v));
                if *mu {
                    "op_view_get_mut_accessor"
                } else {
                    "op_view_get_readonly_accessor"
                }
            }
            Op::VRange(v, mu, s, e, _) => {
                paths.insert(format!("{:?}", v));
                if matches!(a, Ans::Range(l) if !l.is_empty()) {
                    nonempty_range = true;
                }
                if e.is_none() {
                    out.stat("range_end_none", 1);
                }
                if s.is_none() {
                    out.stat("range_start_none", 1);
                }
                if *mu {
                    "op_view_range_mut_accessor"
                } else {
                    "op_view_range_readonly_accessor"
                }
            }
            Op::VSet(v, mu, ..) | Op::VDel(v, mu, ..) => {
                paths.insert(format!("{:?}", v));
                if *mu {
                    view_write = true;
                    "op_view_write"
                } else {
                    "op_view_write_readonly_accessor"
                }
            }
        };
        out.stat(k, 1);
        if *a == Ans::Panic {
            out.stat("answers_panic", 1);
        }
        if let Op::VGet(v, ..) | Op::VRange(v, ..) | Op::VSet(v, ..) | Op::VDel(v, ..) = op {
            let p = v.path();
            out.stat(&format!("path_segments_{}", p.len()), 1);
            if p.iter().any(|s| s.len() > LONG) {
                out.stat("path_segment_above_65535", 1);
            }
        }
    }
    out.stat("observations", obs.len() as u64);
    out.stat(&format!("views_per_case_{}", paths.len().min(4)), 1);
    let max_keys = obs.iter().map(|(_, d)| d.len()).max().unwrap_or(0);
    let js_obs: Vec<serde_json::Value> = obs
        .iter()
        .enumerate()
        .map(|(i, (a, d))| {
            if i > 0 && idx[i] == idx[i - 1] {
                serde_json::json!({"ans": a, "raw": "unchanged"})
            } else {
                serde_json::json!({"ans": a, "raw": d})
            }
        })
        .collect();
    let js_obs2: Vec<serde_json::Value> = obs2
        .iter()
        .map(|(a, d)| match d {
            Some(d) => serde_json::json!({"ans": a, "raw": d}),
            None => serde_json::json!({"ans": a, "raw": "view object alive"}),
        })
        .collect();
    let mut js = serde_json::json!({"input": inp, "observed": js_obs});
    if long_lived {
        js["observed_long_lived"] = serde_json::Value::Array(js_obs2);
        js["observation_index"] = serde_json::json!(format!(
            "k < {n}: observed[k] (fresh view per operation); k >= {n}: observed_long_lived[k - {n}] (one view object per run of consecutive operations on one view)",
            n = inp.ops.len()
        ));
    }
    out.push(Case {
        key: format!("{:?}", inp),
        json: js,
        coq,
        nontrivial: view_write && nonempty_range && max_keys >= 2,
    });
}

fn fixed_corpus() -> Vec<Input> {
    let fff = VRef::Single(bs(b"f\xff\xff"));
    let zero = VRef::Multi(vec![]);
    let foo = VRef::Single(bs(b"foo"));
    let foo_e = VRef::Multi(vec![bs(b"foo"), bs(b"")]);
    vec![
        // F1: the zero-segment path lists every base entry (range without end used to be empty)
        Input {
            ops: vec![
                Op::RawSet(bs(b"\x00\x03g"), bs(b"1")),
                Op::VSet(VRef::Single(bs(b"foo")), true, bs(b"bar"), bs(b"2")),
                Op::VSet(zero.clone(), true, bs(b"\xff\xff"), bs(b"3")),
                Op::VRange(zero.clone(), false, None, None, true),
                Op::VRange(zero.clone(), true, None, None, false),
                Op::VRange(zero.clone(), false, Some(bs(b"\x00\x03foo")), None, true),
                Op::VRange(zero.clone(), false, None, Some(bs(b"\xff")), false),
                Op::VGet(zero.clone(), false, bs(b"\x00\x03foobar")),
            ],
        },
        // F1 (second witness): a namespace whose raw prefix is all 0xFF (65535 x 0xFF)
        Input {
            ops: vec![
                Op::VSet(VRef::Single(Bs(vec![255; LONG])), true, bs(b"k"), bs(b"v")),
                Op::RawSet(bs(b"\x00"), bs(b"z")),
                Op::VRange(VRef::Single(Bs(vec![255; LONG])), false, None, None, true),
                Op::VRange(VRef::Multi(vec![Bs(vec![255; LONG])]), true, Some(bs(b"")), None, false),
            ],
        },
        // F12: raw key 00 03 'g' lies in [ns, namespace_upper_bound ns) of "f\xff\xff" without having the
        // prefix: range(None, None) must return exactly the view's entry and must not panic
        Input {
            ops: vec![
                Op::RawSet(bs(b"\x00\x03g"), bs(b"raw")),
                Op::VSet(fff.clone(), true, bs(b"bar"), bs(b"none")),
                Op::VRange(fff.clone(), false, None, None, true),
                Op::VRange(fff.clone(), false, None, None, false),
                Op::VRange(fff.clone(), true, None, None, true),
                Op::VRange(fff.clone(), false, Some(bs(b"a")), None, true),
                Op::VRange(VRef::Multi(vec![bs(b"f\xff\xff")]), false, None, None, false),
            ],
        },
        // read-only views reject writes, mutable ones accept them; a segment above 65535 bytes panics
        Input {
            ops: vec![
                Op::VSet(VRef::Single(bs(b"foo")), false, bs(b"bar"), bs(b"1")),
                Op::VSet(VRef::Single(bs(b"foo")), true, bs(b"bar"), bs(b"1")),
                Op::VDel(VRef::Multi(vec![bs(b"foo")]), false, bs(b"bar")),
                Op::VGet(VRef::Multi(vec![bs(b"foo")]), false, bs(b"bar")),
                Op::VDel(VRef::Multi(vec![bs(b"foo")]), true, bs(b"bar")),
                Op::VGet(VRef::Single(Bs(vec![7; LONG + 1])), false, bs(b"k")),
                Op::VSet(VRef::Multi(vec![bs(b"a"), Bs(vec![7; LONG + 1])]), true, bs(b"k"), bs(b"v")),
                Op::VRange(VRef::Single(Bs(vec![7; LONG + 1])), true, None, None, true),
            ],
        },
        // long-lived view objects (second pass: each run below goes through ONE Box<dyn Storage>), single
        // level: remove(absent) then set; reads in between; remove(present) straight after remove(absent);
        // set - remove - set of one key; then one read-only object for a run of reads
        Input {
            ops: vec![
                Op::VSet(foo.clone(), true, bs(b"a"), bs(b"1")),
                Op::VDel(foo.clone(), true, bs(b"zz")),
                Op::VSet(foo.clone(), true, bs(b"b"), bs(b"2")),
                Op::VGet(foo.clone(), true, bs(b"b")),
                Op::VRange(foo.clone(), true, None, None, true),
                Op::VDel(foo.clone(), true, bs(b"nope")),
                Op::VDel(foo.clone(), true, bs(b"a")),
                Op::VGet(foo.clone(), true, bs(b"a")),
                Op::VSet(foo.clone(), true, bs(b"a"), bs(b"3")),
                Op::VDel(foo.clone(), true, bs(b"a")),
                Op::VSet(foo.clone(), true, bs(b"a"), bs(b"4")),
                Op::VDel(foo.clone(), true, bs(b"y")),
                Op::VGet(foo.clone(), true, bs(b"ya")),
                Op::VRange(foo.clone(), true, Some(bs(b"a")), None, false),
                Op::VSet(foo.clone(), true, bs(b""), bs(b"5")),
                Op::VRange(foo.clone(), false, None, None, true),
                Op::VGet(foo.clone(), false, bs(b"b")),
                Op::VRange(foo.clone(), false, Some(bs(b"a")), Some(bs(b"c")), false),
                Op::VGet(foo.clone(), false, bs(b"zzb")),
                Op::VRange(zero.clone(), false, None, None, true),
            ],
        },
        // the same through multi-level views (nested path, and the zero-segment path whose keys ARE raw
        // keys), over a base that already holds entries; the run ends on a remove(absent)
        Input {
            ops: vec![
                Op::RawSet(bs(b"\x00\x03foo\x00\x00k1"), bs(b"r")),
                Op::RawSet(bs(b"\x00\x03fook0"), bs(b"s")),
                Op::VDel(foo_e.clone(), true, bs(b"k0")),
                Op::VDel(foo_e.clone(), true, bs(b"k1")),
                Op::VGet(foo_e.clone(), true, bs(b"k1")),
                Op::VDel(foo_e.clone(), true, bs(b"k1")),
                Op::VSet(foo_e.clone(), true, bs(b"k1"), bs(b"v")),
                Op::VDel(foo_e.clone(), true, bs(b"k1")),
                Op::VDel(foo_e.clone(), true, bs(b"k0")),
                Op::VRange(foo_e.clone(), true, None, None, true),
                Op::VSet(foo_e.clone(), true, bs(b"k2"), bs(b"w")),
                Op::VDel(foo_e.clone(), true, bs(b"k3")),
                Op::VDel(zero.clone(), true, bs(b"\x00\x03fo")),
                Op::VSet(zero.clone(), true, bs(b"o"), bs(b"x")),
                Op::VDel(zero.clone(), true, bs(b"\x00\x03foo")),
                Op::VDel(zero.clone(), true, bs(b"k0")),
                Op::VRange(zero.clone(), true, None, None, false),
                Op::VRange(foo.clone(), false, None, None, true),
                Op::VGet(foo.clone(), false, bs(b"k0")),
            ],
        },
        // nesting and prefix-freeness: "fo"/"foo"/"food", a key spelling another namespace's prefix
        Input {
            ops: vec![
                Op::VSet(VRef::Single(bs(b"foo")), true, bs(b"bar"), bs(b"1")),
                Op::VSet(VRef::Single(bs(b"fo")), true, bs(b"obar"), bs(b"2")),
                Op::VSet(VRef::Single(bs(b"food")), true, bs(b""), bs(b"3")),
                Op::VSet(VRef::Multi(vec![bs(b"foo"), bs(b"")]), true, bs(b"x"), bs(b"4")),
                Op::VSet(VRef::Single(bs(b"foo")), true, bs(b"\x00\x00y"), bs(b"5")),
                Op::VRange(VRef::Multi(vec![bs(b"foo"), bs(b"")]), false, None, None, true),
                Op::VRange(VRef::Single(bs(b"foo")), false, None, None, true),
                Op::VRange(VRef::Single(bs(b"fo")), false, None, None, true),
                Op::VSet(zero.clone(), true, bs(b"\x00\x03foo\x00\x00z"), bs(b"6")),
                Op::VRange(VRef::Multi(vec![bs(b"foo"), bs(b"")]), true, None, None, false),
                Op::VDel(VRef::Single(bs(b"foo")), true, bs(b"\x00\x00x")),
                Op::VRange(VRef::Multi(vec![bs(b"foo"), bs(b"")]), true, Some(bs(b"y")), Some(bs(b"zz")), false),
            ],
        },
    ]
}

pub fn run(args: &Args) {
    let mut out = Out::new(&args.out, "From Verif Require Import Base OMap Tx Prefix Chk07.");
    if let Some(p) = &args.replay {
        let v: serde_json::Value = serde_json::from_slice(&std::fs::read(p).unwrap()).unwrap();
        let case = v.get("case").unwrap_or(&v);
        let inp: Input = serde_json::from_value(case["input"].clone()).unwrap();
        emit(&mut out, &inp);
        out.finish(100, "replay");
        return;
    }
    let mut rng = Rng::new(args.seed);
    // 1. corpus: the two repaired defects (F1, F12) and other fixed scripts, on every run
    for inp in fixed_corpus() {
        out.stat("fixed_corpus_cases", 1);
        emit(&mut out, &inp);
    }
    // 2. adversarial family: namespaces {[], ff, ff ff, x ff, x ff ff} (as raw prefixes: the
    //    zero-segment path, 65535 x ff, and segments ending in ff)
    for v in [
        VRef::Multi(vec![]),
        VRef::Single(bs(b"\xff")),
        VRef::Single(bs(b"\xff\xff")),
        VRef::Single(bs(b"x\xff")),
        VRef::Multi(vec![bs(b"x\xff\xff")]),
        VRef::Multi(vec![bs(b"x"), bs(b"\xff")]),
        VRef::Multi(vec![bs(b"\xff"), bs(b"")]),
    ] {
        adversarial(&mut out, v, true);
    }
    adversarial(&mut out, VRef::Single(Bs(vec![255; LONG])), args.thorough);
    // carry chains of namespace_upper_bound that must travel through the whole encoded prefix INTO the
    // 2-byte length field: all-0xFF namespaces whose length has low byte 0xFF (encoded 00 ff ff.., 01 ff ff..),
    // with the neighbouring lengths as controls
    for len in [255usize, 511, 254, 256] {
        adversarial(&mut out, VRef::Single(Bs(vec![255; len])), false);
    }
    adversarial(&mut out, VRef::Multi(vec![Bs(vec![255; 255]), bs(b"")]), false);
    // 3. exhaustive small families
    let base = vec![(bs(b"\x00\x01\xff"), bs(b"r")), (bs(b"\x00\x02"), bs(b"s")), (bs(b"\x01"), bs(b"t"))];
    if args.thorough {
        exhaustive(
            &mut out,
            &[VRef::Multi(vec![]), VRef::Single(bs(b"\xff")), VRef::Multi(vec![bs(b"\xff"), bs(b"")])],
            &[bs(b""), bs(b"\x00\x00"), bs(b"\xff")],
            2,
            &base,
        );
        exhaustive(&mut out, &[VRef::Single(bs(b"a")), VRef::Single(bs(b"ab")), VRef::Multi(vec![bs(b"a"), bs(b"b")])], &[bs(b""), bs(b"\x00\x01b"), bs(b"b")], 2, &base);
    } else {
        exhaustive(&mut out, &[VRef::Multi(vec![]), VRef::Single(bs(b"\xff"))], &[bs(b""), bs(b"\xff")], 2, &base);
        exhaustive(&mut out, &[VRef::Single(bs(b"a")), VRef::Multi(vec![bs(b"a"), bs(b"b")])], &[bs(b"\x00\x01b"), bs(b"b")], 1, &base);
    }
    // 4. PRNG-generated scripts; every `long_every`-th one draws 65535-byte segments
    let n = if args.thorough { 3000 } else { 260 } * args.scale;
    let long_every = if args.thorough { 60 } else { 40 };
    for i in 0..n {
        let mut r = rng.fork();
        let long_ok = i % long_every == long_every / 2;
        if long_ok {
            out.stat("random_cases_with_long_segments", 1);
        }
        out.stat("random_cases", 1);
        let inp = random_case(&mut r, &mut out, long_ok);
        emit(&mut out, &inp);
    }
    out.finish(
        if args.thorough { 120 } else { 16 },
        "every script is run twice: a fresh view per operation (raw dump after every operation), and long-lived view objects (each maximal run of consecutive operations on one view through ONE Box<dyn Storage>; raw dump where the object is dropped); cases = fixed corpus (F1, F12 witnesses, read-only rejection, long-lived single / multi-level views with remove-absent-then-set, nesting) + adversarial family (empty / all-0xFF / 0xFF-ending raw prefixes x every proper prefix of the upper bound etc. x all bound pairs x both orders) + exhaustive (small key alphabet x all write sequences up to a length through 2-3 views x all bound pairs x both orders) + PRNG-generated scripts over 2-3 related views and raw base access with bursts of 2-6 operations on one view; distinct by SHA-256 of the input; non-trivial = at least one write through a mutable view, at least one non-empty range answer through a view, raw store held >= 2 keys",
    );
}
