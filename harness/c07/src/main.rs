mod c07;
fn main() {
    let args = common::parse_args("C07");
    c07::run(&args);
}
