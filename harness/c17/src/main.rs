mod c17;
fn main() {
    let args = common::parse_args("C17");
    c17::run(&args);
}
