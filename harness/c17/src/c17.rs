//! C17: every message and query reaches exactly the module configured for it.
//!
//! A RECORDING module is plugged into every one of the eight router slots through `AppBuilder`
//! (custom `Bank`, `Staking`, `Distribution`, `Ibc`, `Gov`, `Stargate`, `Wasm` and custom-`Module`
//! implementations).  Each logs (slot, sender, payload, block height) OUT OF BAND (the log is not rolled
//! back), writes a marker into the storage it is handed, and answers as scripted; for the slots for which
//! the crate ships `AcceptingModule` / `FailingModule` / `StargateAccepting` / `StargateFailing`, those are
//! what runs when the script says accepting / failing.
//! Programs: messages (9 kinds) and queries (8 kinds) sent from top level (`App::execute_multi`,
//! `App::wrap()` querier), or by a contract written for the chain's custom types, or by the same contract
//! written against `Empty` and lifted with `ContractWrapper::new_with_empty` / `with_*_empty` -- from ANY of its
//! entry points: instantiate (`instantiate_contract`), execute, migrate (`migrate_contract`, admin = a user
//! distinct from the contract), sudo (`wasm_sudo`) and reply -- inline queries first, then sub-messages with
//! reply_on in {Never, Success, Error, Always} and a reply handler that returns Ok or Err (the reply entry point
//! records its INVOCATION out of band, pseudo-slot 9) -- first in the transaction or after an earlier write.
//! The sender a module must record
//! is always the EMITTING contract's address (predicted on a twin App for a contract that is being
//! instantiated).  Wasm messages WITH FUNDS: a user / a contract executes or instantiates a real callee with
//! funds from {[], [5 x], [0 x], [0 x; 0 y], [0 x; 3 y]}; the bank slot (recording bank scripted ok / err, or the
//! crate's BankKeeper) must be asked exactly once (Send: payer -> callee, coins verbatim) before the callee
//! runs iff the vector is non-empty; the callee records out of band when it runs.
//! Observed: the module log, Ok/Err/Panic of the call, what the caller of each probe was shown, what state
//! survived.  Judged by Chk17.c17 (oracle = spec routing; model = the regenerated routing tables).
#![allow(deprecated)]
use common::*;
use cosmwasm_std::{
    coin, to_json_binary, to_json_vec, Addr, AnyMsg, Api, BankMsg, BankQuery, Binary, BlockInfo, ContractResult, CosmosMsg, CustomMsg,
    Coin, CustomQuery, Deps, DepsMut, DistributionMsg, DistributionQuery, Empty, Env, GovMsg, GrpcQuery, IbcMsg, IbcQuery, MessageInfo, Order,
    Querier, QueryRequest, Record, Reply, ReplyOn, Response, StakingMsg, StakingQuery, StdError, StdResult, Storage, SubMsg, SubMsgResult,
    SystemResult, Timestamp, VoteOption, WasmMsg, WasmQuery,
};
use cw_multi_test::error::{bail, AnyResult};
use cw_multi_test::{
    AcceptingModule, App, AppBuilder, AppResponse, Bank, BankKeeper, BankSudo, Contract, ContractData, ContractWrapper, CosmosRouter, Distribution,
    Executor, FailingModule, Gov, GovAcceptingModule, GovFailingModule, Ibc, IbcAcceptingModule, IbcFailingModule, Module, Stargate,
    StargateAccepting, StargateFailing, Staking, StakingSudo, Wasm, WasmKeeper, WasmSudo,
};
use serde::de::DeserializeOwned;
use serde::{Deserialize, Serialize};
use std::cell::RefCell;
use std::fmt::Debug;
use std::marker::PhantomData;
use std::rc::Rc;

// ---------------------------------------------------------------------------------------------
// vocabulary shared with Routing.v / Chk17.v
// ---------------------------------------------------------------------------------------------
pub const MKINDS: [&str; 9] = ["Wasm", "Bank", "Custom", "Staking", "Distribution", "Ibc", "Gov", "Stargate", "Any"];
pub const QKINDS: [&str; 8] = ["Wasm", "Bank", "Custom", "Staking", "Distribution", "Ibc", "Stargate", "Grpc"];
/// slot ids: wasm 0, bank 1, custom 2, staking 3, distribution 4, ibc 5, gov 6, stargate 7
pub const SLOTS: [&str; 8] = ["wasm", "bank", "custom", "staking", "distribution", "ibc", "gov", "stargate"];
const MSLOT: [usize; 9] = [0, 1, 2, 3, 4, 5, 6, 7, 7];
const QSLOT: [usize; 8] = [0, 1, 2, 3, 4, 5, 7, 7];
const BEH: [&str; 5] = ["Accepting", "Failing", "RecOk", "RecErr", "Keeper"];
const ENTRIES: [&str; 5] = ["Execute", "Instantiate", "Migrate", "Sudo", "Reply"];
const FCLASS: [&str; 5] = ["FEmpty", "FPos", "FZero1", "FZero2", "FZeroPos"];
const MODES: [&str; 4] = ["RNever", "RSuccess", "RError", "RAlways"];
const ACCEPTING: u8 = 0;
const FAILING: u8 = 1;
const REC_OK: u8 = 2;
const REC_ERR: u8 = 3;
/// bank slot only: the crate's own BankKeeper
const KEEPER: u8 = 4;
const CALLEE_SLOT: u64 = 8;
/// pseudo-slot of the out-of-band record the reply entry point makes when it is invoked
const REPLY_SLOT: u64 = 9;
const RAN_PREFIX: &[u8] = b"c17ran/";
const TRIGGER_ID: u64 = 9999;
const PROBE_ADDR: &str = "c17-probe-target";
const MARKER_PREFIX: &[u8] = b"c17m/";

#[derive(Serialize, Deserialize, Clone, Debug, PartialEq, schemars::JsonSchema)]
pub struct CMsg {
    pub n: u64,
}
impl CustomMsg for CMsg {}
#[derive(Serialize, Deserialize, Clone, Debug, PartialEq, schemars::JsonSchema)]
pub struct CQuery {
    pub n: u64,
}
impl CustomQuery for CQuery {}

/// 48-bit digest of a payload's JSON form / of an address
fn digest(s: &str) -> u64 {
    use sha2::Digest;
    let h = sha2::Sha256::digest(s.as_bytes());
    u64::from_be_bytes([0, 0, h[0], h[1], h[2], h[3], h[4], h[5]])
}
fn jdigest<T: Serialize>(x: &T) -> u64 {
    digest(&serde_json::to_string(x).unwrap_or_else(|_| "<unserialisable>".into()))
}

// ---------------------------------------------------------------------------------------------
// the out-of-band control block shared by all modules of one App
// ---------------------------------------------------------------------------------------------
#[derive(Clone, Debug, Serialize, Deserialize, PartialEq)]
pub struct Entry {
    pub slot: u64,
    pub sender: u64,
    pub payload: u64,
    pub height: u64,
}
pub struct Ctl {
    cfg: [u8; 8],
    log: RefCell<Vec<Entry>>,
}
impl Ctl {
    fn beh(&self, slot: usize) -> u8 {
        self.cfg[slot]
    }
    fn hit(&self, slot: usize, sender: Option<&Addr>, payload: u64, block: &BlockInfo) {
        self.log.borrow_mut().push(Entry { slot: slot as u64, sender: sender.map(|a| digest(a.as_str())).unwrap_or(0), payload, height: block.height });
    }
}
thread_local! {
    /// the control block of the App under test: a funded callee records its run here, out of band
    static CUR: RefCell<Option<Rc<Ctl>>> = const { RefCell::new(None) };
}
fn callee_ran(sender: &Addr, payload: u64, height: u64) {
    CUR.with(|c| {
        if let Some(ctl) = c.borrow().as_ref() {
            ctl.log.borrow_mut().push(Entry { slot: CALLEE_SLOT, sender: digest(sender.as_str()), payload, height });
        }
    });
}
fn reply_invoked(contract: &Addr, payload: u64, ok: bool, height: u64) {
    CUR.with(|c| {
        if let Some(ctl) = c.borrow().as_ref() {
            ctl.log.borrow_mut().push(Entry { slot: REPLY_SLOT, sender: digest(contract.as_str()), payload: 2 * payload + ok as u64, height });
        }
    });
}
fn marker_key(slot: usize, payload: u64) -> Vec<u8> {
    let mut k = MARKER_PREFIX.to_vec();
    k.extend_from_slice(format!("{}/{}", slot, payload).as_bytes());
    k
}
fn data_of(payload: u64) -> Binary {
    Binary::from(payload.to_be_bytes().to_vec())
}
fn parse_data(b: &Option<Binary>) -> Option<u64> {
    match b {
        Some(b) if b.len() == 8 => {
            let mut a = [0u8; 8];
            a.copy_from_slice(b.as_slice());
            Some(u64::from_be_bytes(a))
        }
        _ => None,
    }
}

/// the scripted part common to every recording module: log, write the marker, answer
fn scripted_exec(ctl: &Ctl, slot: usize, storage: &mut dyn Storage, block: &BlockInfo, sender: &Addr, payload: u64) -> AnyResult<AppResponse> {
    match ctl.beh(slot) {
        REC_OK => {
            ctl.hit(slot, Some(sender), payload, block);
            storage.set(&marker_key(slot, payload), b"1");
            Ok(AppResponse { events: vec![], data: Some(data_of(payload)) })
        }
        REC_ERR => {
            ctl.hit(slot, Some(sender), payload, block);
            storage.set(&marker_key(slot, payload), b"1");
            bail!("scripted failure of the {} module", SLOTS[slot])
        }
        ACCEPTING => Ok(AppResponse::default()),
        _ => bail!("scripted silent failure of the {} module", SLOTS[slot]),
    }
}
fn scripted_query(ctl: &Ctl, slot: usize, block: &BlockInfo, payload: u64) -> AnyResult<Binary> {
    match ctl.beh(slot) {
        REC_OK => {
            ctl.hit(slot, None, payload, block);
            Ok(to_json_binary(&payload)?)
        }
        REC_ERR => {
            ctl.hit(slot, None, payload, block);
            bail!("scripted failure of the {} module", SLOTS[slot])
        }
        ACCEPTING => Ok(Binary::default()),
        _ => bail!("scripted silent failure of the {} module", SLOTS[slot]),
    }
}

/// a recording module for the slots served by `Module` implementations
pub struct Rec<E, Q, S> {
    slot: usize,
    ctl: Rc<Ctl>,
    _p: PhantomData<(E, Q, S)>,
}
impl<E, Q, S> Rec<E, Q, S> {
    fn new(slot: usize, ctl: &Rc<Ctl>) -> Self {
        Rec { slot, ctl: ctl.clone(), _p: PhantomData }
    }
}
impl<E: Serialize, Q: Serialize, S> Module for Rec<E, Q, S> {
    type ExecT = E;
    type QueryT = Q;
    type SudoT = S;
    fn execute<ExecC, QueryC>(
        &self,
        _api: &dyn Api,
        storage: &mut dyn Storage,
        _router: &dyn CosmosRouter<ExecC = ExecC, QueryC = QueryC>,
        block: &BlockInfo,
        sender: Addr,
        msg: E,
    ) -> AnyResult<AppResponse> {
        scripted_exec(&self.ctl, self.slot, storage, block, &sender, jdigest(&msg))
    }
    fn query(&self, _api: &dyn Api, _storage: &dyn Storage, _querier: &dyn Querier, block: &BlockInfo, request: Q) -> AnyResult<Binary> {
        scripted_query(&self.ctl, self.slot, block, jdigest(&request))
    }
    fn sudo<ExecC, QueryC>(
        &self,
        _api: &dyn Api,
        _storage: &mut dyn Storage,
        _router: &dyn CosmosRouter<ExecC = ExecC, QueryC = QueryC>,
        _block: &BlockInfo,
        _msg: S,
    ) -> AnyResult<AppResponse> {
        bail!("sudo is not part of C17")
    }
}
/// bank slot: the recording bank, or (script = Keeper) the crate's own BankKeeper; arguments passed through untouched
pub struct BankSw {
    ctl: Rc<Ctl>,
    rec: Rec<BankMsg, BankQuery, BankSudo>,
    pub keeper: BankKeeper,
}
impl Module for BankSw {
    type ExecT = BankMsg;
    type QueryT = BankQuery;
    type SudoT = BankSudo;
    fn execute<ExecC, QueryC>(
        &self,
        api: &dyn Api,
        storage: &mut dyn Storage,
        router: &dyn CosmosRouter<ExecC = ExecC, QueryC = QueryC>,
        block: &BlockInfo,
        sender: Addr,
        msg: BankMsg,
    ) -> AnyResult<AppResponse>
    where
        ExecC: CustomMsg + DeserializeOwned + 'static,
        QueryC: CustomQuery + DeserializeOwned + 'static,
    {
        if self.ctl.beh(1) == KEEPER {
            self.keeper.execute(api, storage, router, block, sender, msg)
        } else {
            self.rec.execute(api, storage, router, block, sender, msg)
        }
    }
    fn query(&self, api: &dyn Api, storage: &dyn Storage, querier: &dyn Querier, block: &BlockInfo, request: BankQuery) -> AnyResult<Binary> {
        if self.ctl.beh(1) == KEEPER {
            self.keeper.query(api, storage, querier, block, request)
        } else {
            self.rec.query(api, storage, querier, block, request)
        }
    }
    fn sudo<ExecC, QueryC>(
        &self,
        api: &dyn Api,
        storage: &mut dyn Storage,
        router: &dyn CosmosRouter<ExecC = ExecC, QueryC = QueryC>,
        block: &BlockInfo,
        msg: BankSudo,
    ) -> AnyResult<AppResponse>
    where
        ExecC: CustomMsg + DeserializeOwned + 'static,
        QueryC: CustomQuery + DeserializeOwned + 'static,
    {
        self.keeper.sudo(api, storage, router, block, msg)
    }
}
impl Bank for BankSw {}
impl Staking for Rec<StakingMsg, StakingQuery, StakingSudo> {}
impl Distribution for Rec<DistributionMsg, Empty, Empty> {}

/// slot switch: the crate's accepting module, the crate's failing module, or the recording module,
/// chosen by the script at call time; all arguments are passed through untouched
pub struct Sw<A, F, R> {
    slot: usize,
    ctl: Rc<Ctl>,
    acc: A,
    fail: F,
    rec: R,
}
impl<A, F, R> Module for Sw<A, F, R>
where
    A: Module,
    F: Module<ExecT = A::ExecT, QueryT = A::QueryT, SudoT = A::SudoT>,
    R: Module<ExecT = A::ExecT, QueryT = A::QueryT, SudoT = A::SudoT>,
{
    type ExecT = A::ExecT;
    type QueryT = A::QueryT;
    type SudoT = A::SudoT;
    fn execute<ExecC, QueryC>(
        &self,
        api: &dyn Api,
        storage: &mut dyn Storage,
        router: &dyn CosmosRouter<ExecC = ExecC, QueryC = QueryC>,
        block: &BlockInfo,
        sender: Addr,
        msg: Self::ExecT,
    ) -> AnyResult<AppResponse>
    where
        ExecC: CustomMsg + DeserializeOwned + 'static,
        QueryC: CustomQuery + DeserializeOwned + 'static,
    {
        match self.ctl.beh(self.slot) {
            ACCEPTING => self.acc.execute(api, storage, router, block, sender, msg),
            FAILING => self.fail.execute(api, storage, router, block, sender, msg),
            _ => self.rec.execute(api, storage, router, block, sender, msg),
        }
    }
    fn query(&self, api: &dyn Api, storage: &dyn Storage, querier: &dyn Querier, block: &BlockInfo, request: Self::QueryT) -> AnyResult<Binary> {
        match self.ctl.beh(self.slot) {
            ACCEPTING => self.acc.query(api, storage, querier, block, request),
            FAILING => self.fail.query(api, storage, querier, block, request),
            _ => self.rec.query(api, storage, querier, block, request),
        }
    }
    fn sudo<ExecC, QueryC>(
        &self,
        api: &dyn Api,
        storage: &mut dyn Storage,
        router: &dyn CosmosRouter<ExecC = ExecC, QueryC = QueryC>,
        block: &BlockInfo,
        msg: Self::SudoT,
    ) -> AnyResult<AppResponse>
    where
        ExecC: CustomMsg + DeserializeOwned + 'static,
        QueryC: CustomQuery + DeserializeOwned + 'static,
    {
        self.rec.sudo(api, storage, router, block, msg)
    }
}
type CustomSw = Sw<AcceptingModule<CMsg, CQuery, Empty>, FailingModule<CMsg, CQuery, Empty>, Rec<CMsg, CQuery, Empty>>;
type IbcSw = Sw<IbcAcceptingModule, IbcFailingModule, Rec<IbcMsg, IbcQuery, Empty>>;
type GovSw = Sw<GovAcceptingModule, GovFailingModule, Rec<GovMsg, Empty, Empty>>;
impl Ibc for IbcSw {}
impl Gov for GovSw {}

pub struct StargateSw {
    ctl: Rc<Ctl>,
    acc: StargateAccepting,
    fail: StargateFailing,
}
impl Stargate for StargateSw {
    fn execute_stargate<ExecC, QueryC>(
        &self,
        api: &dyn Api,
        storage: &mut dyn Storage,
        router: &dyn CosmosRouter<ExecC = ExecC, QueryC = QueryC>,
        block: &BlockInfo,
        sender: Addr,
        type_url: String,
        value: Binary,
    ) -> AnyResult<AppResponse>
    where
        ExecC: CustomMsg + DeserializeOwned + 'static,
        QueryC: CustomQuery + DeserializeOwned + 'static,
    {
        match self.ctl.beh(7) {
            ACCEPTING => self.acc.execute_stargate(api, storage, router, block, sender, type_url, value),
            FAILING => self.fail.execute_stargate(api, storage, router, block, sender, type_url, value),
            _ => scripted_exec(&self.ctl, 7, storage, block, &sender, jdigest(&("stargate", &type_url, &value))),
        }
    }
    fn query_stargate(&self, api: &dyn Api, storage: &dyn Storage, querier: &dyn Querier, block: &BlockInfo, path: String, data: Binary) -> AnyResult<Binary> {
        match self.ctl.beh(7) {
            ACCEPTING => self.acc.query_stargate(api, storage, querier, block, path, data),
            FAILING => self.fail.query_stargate(api, storage, querier, block, path, data),
            _ => scripted_query(&self.ctl, 7, block, jdigest(&("stargate", &path, &data))),
        }
    }
    fn execute_any<ExecC, QueryC>(
        &self,
        api: &dyn Api,
        storage: &mut dyn Storage,
        router: &dyn CosmosRouter<ExecC = ExecC, QueryC = QueryC>,
        block: &BlockInfo,
        sender: Addr,
        msg: AnyMsg,
    ) -> AnyResult<AppResponse>
    where
        ExecC: CustomMsg + DeserializeOwned + 'static,
        QueryC: CustomQuery + DeserializeOwned + 'static,
    {
        match self.ctl.beh(7) {
            ACCEPTING => self.acc.execute_any(api, storage, router, block, sender, msg),
            FAILING => self.fail.execute_any(api, storage, router, block, sender, msg),
            _ => scripted_exec(&self.ctl, 7, storage, block, &sender, jdigest(&("any", &msg))),
        }
    }
    fn query_grpc(&self, api: &dyn Api, storage: &dyn Storage, querier: &dyn Querier, block: &BlockInfo, request: GrpcQuery) -> AnyResult<Binary> {
        match self.ctl.beh(7) {
            ACCEPTING => self.acc.query_grpc(api, storage, querier, block, request),
            FAILING => self.fail.query_grpc(api, storage, querier, block, request),
            _ => scripted_query(&self.ctl, 7, block, jdigest(&("grpc", &request))),
        }
    }
}

/// the real keeper (contracts have to run), except that messages / queries addressed to PROBE_ADDR are
/// recorded and answered as scripted
pub struct RecWasm {
    ctl: Rc<Ctl>,
    inner: WasmKeeper<CMsg, CQuery>,
}
fn wasm_probe_msg(m: &WasmMsg) -> bool {
    matches!(m, WasmMsg::Execute { contract_addr, .. } if contract_addr == PROBE_ADDR)
}
fn wasm_probe_query(q: &WasmQuery) -> bool {
    matches!(q, WasmQuery::Smart { contract_addr, .. } if contract_addr == PROBE_ADDR)
}
impl Wasm<CMsg, CQuery> for RecWasm {
    fn execute(
        &self,
        api: &dyn Api,
        storage: &mut dyn Storage,
        router: &dyn CosmosRouter<ExecC = CMsg, QueryC = CQuery>,
        block: &BlockInfo,
        sender: Addr,
        msg: WasmMsg,
    ) -> AnyResult<AppResponse> {
        if wasm_probe_msg(&msg) {
            scripted_exec(&self.ctl, 0, storage, block, &sender, jdigest(&msg))
        } else {
            self.inner.execute(api, storage, router, block, sender, msg)
        }
    }
    fn query(&self, api: &dyn Api, storage: &dyn Storage, querier: &dyn Querier, block: &BlockInfo, request: WasmQuery) -> AnyResult<Binary> {
        if wasm_probe_query(&request) {
            scripted_query(&self.ctl, 0, block, jdigest(&request))
        } else {
            self.inner.query(api, storage, querier, block, request)
        }
    }
    fn sudo(&self, api: &dyn Api, storage: &mut dyn Storage, router: &dyn CosmosRouter<ExecC = CMsg, QueryC = CQuery>, block: &BlockInfo, msg: WasmSudo) -> AnyResult<AppResponse> {
        self.inner.sudo(api, storage, router, block, msg)
    }
    fn store_code(&mut self, creator: Addr, code: Box<dyn Contract<CMsg, CQuery>>) -> u64 {
        self.inner.store_code(creator, code)
    }
    fn store_code_with_id(&mut self, creator: Addr, code_id: u64, code: Box<dyn Contract<CMsg, CQuery>>) -> AnyResult<u64> {
        self.inner.store_code_with_id(creator, code_id, code)
    }
    fn duplicate_code(&mut self, code_id: u64) -> AnyResult<u64> {
        self.inner.duplicate_code(code_id)
    }
    fn contract_data(&self, storage: &dyn Storage, address: &Addr) -> AnyResult<ContractData> {
        self.inner.contract_data(storage, address)
    }
    fn dump_wasm_raw(&self, storage: &dyn Storage, address: &Addr) -> Vec<Record> {
        self.inner.dump_wasm_raw(storage, address)
    }
}

type TheApp = App<
    BankSw,
    cosmwasm_std::testing::MockApi,
    cosmwasm_std::testing::MockStorage,
    CustomSw,
    RecWasm,
    Rec<StakingMsg, StakingQuery, StakingSudo>,
    Rec<DistributionMsg, Empty, Empty>,
    IbcSw,
    GovSw,
    StargateSw,
>;

fn build_app(ctl: &Rc<Ctl>, height: u64) -> TheApp {
    AppBuilder::new_custom()
        .with_block(BlockInfo { height, time: Timestamp::from_seconds(1_700_000_000 + height), chain_id: "c17-chain".into() })
        .with_bank(BankSw { ctl: ctl.clone(), rec: Rec::<BankMsg, BankQuery, BankSudo>::new(1, ctl), keeper: BankKeeper::new() })
        .with_custom(Sw { slot: 2, ctl: ctl.clone(), acc: AcceptingModule::new(), fail: FailingModule::new(), rec: Rec::<CMsg, CQuery, Empty>::new(2, ctl) })
        .with_wasm(RecWasm { ctl: ctl.clone(), inner: WasmKeeper::new() })
        .with_staking(Rec::<StakingMsg, StakingQuery, StakingSudo>::new(3, ctl))
        .with_distribution(Rec::<DistributionMsg, Empty, Empty>::new(4, ctl))
        .with_ibc(Sw { slot: 5, ctl: ctl.clone(), acc: IbcAcceptingModule::new(), fail: IbcFailingModule::new(), rec: Rec::<IbcMsg, IbcQuery, Empty>::new(5, ctl) })
        .with_gov(Sw { slot: 6, ctl: ctl.clone(), acc: GovAcceptingModule::new(), fail: GovFailingModule::new(), rec: Rec::<GovMsg, Empty, Empty>::new(6, ctl) })
        .with_stargate(StargateSw { ctl: ctl.clone(), acc: StargateAccepting, fail: StargateFailing })
        .build(|_, _, _| {})
}

// ---------------------------------------------------------------------------------------------
// probes: the message / query of each kind carrying the nonce n, and the digest its module must record
// ---------------------------------------------------------------------------------------------
pub trait Cust: CustomMsg {
    fn mk(n: u64) -> Self;
}
impl Cust for CMsg {
    fn mk(n: u64) -> Self {
        CMsg { n }
    }
}
impl Cust for Empty {
    fn mk(_: u64) -> Self {
        Empty {}
    }
}
pub trait CustQ: CustomQuery {
    fn mk(n: u64) -> Self;
}
impl CustQ for CQuery {
    fn mk(n: u64) -> Self {
        CQuery { n }
    }
}
impl CustQ for Empty {
    fn mk(_: u64) -> Self {
        Empty {}
    }
}

fn nbytes(n: u64) -> Binary {
    Binary::from(n.to_be_bytes().to_vec())
}
/// (message, digest of the payload as the configured module computes it)
fn make_msg<C: Cust>(kind: usize, n: u64) -> (CosmosMsg<C>, u64) {
    match kind {
        0 => {
            let m = WasmMsg::Execute { contract_addr: PROBE_ADDR.into(), msg: to_json_binary(&n).unwrap(), funds: vec![] };
            let d = jdigest(&m);
            (CosmosMsg::Wasm(m), d)
        }
        1 => {
            let m = BankMsg::Burn { amount: vec![coin(n as u128, "c17")] };
            let d = jdigest(&m);
            (CosmosMsg::Bank(m), d)
        }
        2 => {
            let m = C::mk(n);
            let d = jdigest(&m);
            (CosmosMsg::Custom(m), d)
        }
        3 => {
            let m = StakingMsg::Delegate { validator: "c17-validator".into(), amount: coin(n as u128, "c17") };
            let d = jdigest(&m);
            (CosmosMsg::Staking(m), d)
        }
        4 => {
            let m = DistributionMsg::SetWithdrawAddress { address: format!("c17-withdraw-{}", n) };
            let d = jdigest(&m);
            (CosmosMsg::Distribution(m), d)
        }
        5 => {
            let m = IbcMsg::CloseChannel { channel_id: format!("channel-{}", n) };
            let d = jdigest(&m);
            (CosmosMsg::Ibc(m), d)
        }
        6 => {
            let m = GovMsg::Vote { proposal_id: n, option: VoteOption::Yes };
            let d = jdigest(&m);
            (CosmosMsg::Gov(m), d)
        }
        7 => {
            let (type_url, value) = (format!("/c17.Msg{}", n), nbytes(n));
            let d = jdigest(&("stargate", &type_url, &value));
            (CosmosMsg::Stargate { type_url, value }, d)
        }
        _ => {
            let m = AnyMsg { type_url: format!("/c17.Any{}", n), value: nbytes(n) };
            let d = jdigest(&("any", &m));
            (CosmosMsg::Any(m), d)
        }
    }
}
fn make_query<Q: CustQ>(kind: usize, n: u64) -> (QueryRequest<Q>, u64) {
    match kind {
        0 => {
            let q = WasmQuery::Smart { contract_addr: PROBE_ADDR.into(), msg: to_json_binary(&n).unwrap() };
            let d = jdigest(&q);
            (QueryRequest::Wasm(q), d)
        }
        1 => {
            let q = BankQuery::Balance { address: format!("c17-account-{}", n), denom: "c17".into() };
            let d = jdigest(&q);
            (QueryRequest::Bank(q), d)
        }
        2 => {
            let q = Q::mk(n);
            let d = jdigest(&q);
            (QueryRequest::Custom(q), d)
        }
        3 => {
            let q = StakingQuery::Validator { address: format!("c17-validator-{}", n) };
            let d = jdigest(&q);
            (QueryRequest::Staking(q), d)
        }
        4 => {
            let q = DistributionQuery::DelegatorWithdrawAddress { delegator_address: format!("c17-delegator-{}", n) };
            // the Distribution trait fixes QueryT = Empty: there is no module-side payload to compare with
            let d = jdigest(&q);
            (QueryRequest::Distribution(q), d)
        }
        5 => {
            let q = IbcQuery::Channel { channel_id: format!("channel-{}", n), port_id: None };
            let d = jdigest(&q);
            (QueryRequest::Ibc(q), d)
        }
        6 => {
            let (path, data) = (format!("/c17.Query{}", n), nbytes(n));
            let d = jdigest(&("stargate", &path, &data));
            (QueryRequest::Stargate { path, data }, d)
        }
        _ => {
            let q = GrpcQuery { path: format!("/c17.Grpc{}", n), data: nbytes(n) };
            let d = jdigest(&("grpc", &q));
            (QueryRequest::Grpc(q), d)
        }
    }
}

// ---------------------------------------------------------------------------------------------
// funds
// ---------------------------------------------------------------------------------------------
fn funds_of(fclass: u8) -> Vec<Coin> {
    match fclass {
        0 => vec![],
        1 => vec![coin(5, "c17x")],
        2 => vec![coin(0, "c17x")],
        3 => vec![coin(0, "c17x"), coin(0, "c17y")],
        _ => vec![coin(0, "c17x"), coin(3, "c17y")],
    }
}
/// digest the configured bank module must record: the Send from the payer to the callee, coins verbatim
fn send_digest(callee: &str, fclass: u8) -> u64 {
    jdigest(&BankMsg::Send { to_address: callee.to_string(), amount: funds_of(fclass) })
}
/// digest the callee records when it runs: (nonce, info.funds)
fn callee_digest(n: u64, funds: &[Coin]) -> u64 {
    jdigest(&(n, funds))
}

// ---------------------------------------------------------------------------------------------
// the emitting contract (generic in the message / query type it is written against); the same code is
// the callee of funded wasm messages
// ---------------------------------------------------------------------------------------------
#[derive(Serialize, Deserialize, Clone, Debug, PartialEq)]
pub struct Funded {
    /// WasmMsg::Instantiate (true) / WasmMsg::Execute (false)
    pub inst: bool,
    /// index into FCLASS
    pub fclass: u8,
}
#[derive(Serialize, Deserialize, Clone, Debug, PartialEq)]
pub struct Probe {
    pub is_msg: bool,
    /// index into MKINDS / QKINDS (ignored for a funded wasm message)
    pub kind: usize,
    pub n: u64,
    /// queries: the contract records the error instead of failing
    pub catch: bool,
    #[serde(default)]
    pub funded: Option<Funded>,
    /// sub-messages: reply_on (index into MODES)
    #[serde(default)]
    pub mode: u8,
    /// sub-messages: the reply handler returns Ok (true) / Err (false)
    #[serde(default = "yes")]
    pub hok: bool,
}
fn yes() -> bool {
    true
}
/// a probe as handed to the contract: the callee of a funded message resolved
#[derive(Serialize, Deserialize, Clone, Debug, PartialEq)]
pub struct Step {
    pub idx: u64,
    pub probe: Probe,
    pub callee: String,
    pub code_id: u64,
}
#[derive(Serialize, Deserialize, Clone, Debug, PartialEq, Default)]
pub struct Prog {
    #[serde(default)]
    pub pre: bool,
    #[serde(default)]
    pub steps: Vec<Step>,
    /// Some(n): this call is the CALLEE of a funded message with nonce n: record the run
    #[serde(default)]
    pub ran: Option<u64>,
    /// run the program from the reply entry point: execute stores it and triggers a reply
    #[serde(default)]
    pub via_reply: bool,
}

fn seen_key(i: u64) -> Vec<u8> {
    format!("seen/{:04}", i).into_bytes()
}
fn seen_val(r: &Result<Option<u64>, ()>) -> Vec<u8> {
    match r {
        Ok(Some(d)) => format!("ok:{}", d).into_bytes(),
        Ok(None) => b"ok:-".to_vec(),
        Err(()) => b"err".to_vec(),
    }
}

fn make_funded<C: Cust>(st: &Step, f: &Funded) -> CosmosMsg<C> {
    let msg = to_json_binary(&Prog { ran: Some(st.probe.n), ..Prog::default() }).unwrap();
    let funds = funds_of(f.fclass);
    if f.inst {
        CosmosMsg::Wasm(WasmMsg::Instantiate { admin: None, code_id: st.code_id, msg, funds, label: format!("callee-{}", st.probe.n) })
    } else {
        CosmosMsg::Wasm(WasmMsg::Execute { contract_addr: st.callee.clone(), msg, funds })
    }
}
/// (message, the digest the emitter puts into SubMsg.payload = the probe's payload digest)
fn step_msg<C: Cust>(st: &Step) -> (CosmosMsg<C>, u64) {
    match &st.probe.funded {
        Some(f) => (make_funded::<C>(st, f), send_digest(&st.callee, f.fclass)),
        None => make_msg::<C>(st.probe.kind, st.probe.n),
    }
}
fn hok_key(i: u64) -> Vec<u8> {
    format!("hok/{:04}", i).into_bytes()
}

/// the body shared by all entry points: earlier write, inline queries in program order, then the sub-messages
fn run_prog<C: Cust, Q: CustQ>(deps: DepsMut<Q>, prog: &Prog) -> StdResult<Response<C>> {
    if prog.pre {
        deps.storage.set(b"pre", b"1");
    }
    for st in prog.steps.iter().filter(|s| !s.probe.is_msg) {
        let (req, _) = make_query::<Q>(st.probe.kind, st.probe.n);
        let raw = to_json_vec(&req)?;
        let r: Result<Option<u64>, ()> = match deps.querier.raw_query(&raw) {
            SystemResult::Ok(ContractResult::Ok(bin)) => Ok(serde_json::from_slice::<u64>(bin.as_slice()).ok()),
            _ => Err(()),
        };
        match (&r, st.probe.catch) {
            (Err(()), false) => return Err(StdError::generic_err("c17: query failed")),
            _ => deps.storage.set(&seen_key(st.idx), &seen_val(&r)),
        }
    }
    let mut resp = Response::new();
    for st in prog.steps.iter().filter(|s| s.probe.is_msg) {
        let (msg, d) = step_msg::<C>(st);
        deps.storage.set(&hok_key(st.idx), if st.probe.hok { b"1" } else { b"0" });
        resp = resp.add_submessage(SubMsg {
            id: st.idx,
            payload: data_of(d),
            msg,
            gas_limit: None,
            reply_on: match st.probe.mode {
                0 => ReplyOn::Never,
                1 => ReplyOn::Success,
                2 => ReplyOn::Error,
                _ => ReplyOn::Always,
            },
        });
    }
    Ok(resp)
}
fn record_callee(storage: &mut dyn Storage, env: &Env, info: &MessageInfo, prog: &Prog) {
    if let Some(n) = prog.ran {
        let d = callee_digest(n, &info.funds);
        callee_ran(&info.sender, d, env.block.height);
        let mut k = RAN_PREFIX.to_vec();
        k.extend_from_slice(d.to_string().as_bytes());
        storage.set(&k, b"1");
    }
}

fn emitter_instantiate<C: Cust, Q: CustQ>(deps: DepsMut<Q>, env: Env, info: MessageInfo, prog: Prog) -> StdResult<Response<C>> {
    record_callee(deps.storage, &env, &info, &prog);
    run_prog::<C, Q>(deps, &prog)
}
fn emitter_execute<C: Cust, Q: CustQ>(deps: DepsMut<Q>, env: Env, info: MessageInfo, prog: Prog) -> StdResult<Response<C>> {
    record_callee(deps.storage, &env, &info, &prog);
    if prog.via_reply {
        // run the program from the REPLY entry point: store it, trigger a reply with a no-op call to self
        let mut p = prog.clone();
        p.via_reply = false;
        deps.storage.set(b"reply_prog", &to_json_vec(&p)?);
        let noop = WasmMsg::Execute { contract_addr: env.contract.address.to_string(), msg: to_json_binary(&Prog::default())?, funds: vec![] };
        return Ok(Response::new().add_submessage(SubMsg { id: TRIGGER_ID, payload: Binary::default(), msg: CosmosMsg::Wasm(noop), gas_limit: None, reply_on: ReplyOn::Always }));
    }
    run_prog::<C, Q>(deps, &prog)
}
fn emitter_migrate<C: Cust, Q: CustQ>(deps: DepsMut<Q>, _e: Env, prog: Prog) -> StdResult<Response<C>> {
    run_prog::<C, Q>(deps, &prog)
}
fn emitter_sudo<C: Cust, Q: CustQ>(deps: DepsMut<Q>, _e: Env, prog: Prog) -> StdResult<Response<C>> {
    run_prog::<C, Q>(deps, &prog)
}
fn emitter_reply<C: Cust, Q: CustQ>(deps: DepsMut<Q>, env: Env, reply: Reply) -> StdResult<Response<C>> {
    if reply.id == TRIGGER_ID {
        let raw = deps.storage.get(b"reply_prog").ok_or_else(|| StdError::generic_err("c17: no stored program"))?;
        let prog: Prog = cosmwasm_std::from_json(raw)?;
        return run_prog::<C, Q>(deps, &prog);
    }
    let r = match &reply.result {
        SubMsgResult::Ok(resp) => Ok(parse_data(&resp.data)),
        SubMsgResult::Err(_) => Err(()),
    };
    // out of band: the reply entry point was INVOKED, with this payload and this kind of result
    reply_invoked(&env.contract.address, parse_data(&Some(reply.payload.clone())).unwrap_or(u64::MAX >> 18), r.is_ok(), env.block.height);
    deps.storage.set(&seen_key(reply.id), &seen_val(&r));
    if deps.storage.get(&hok_key(reply.id)).as_deref() == Some(b"0") {
        return Err(StdError::generic_err("c17: scripted failure of the reply handler"));
    }
    Ok(Response::new())
}
fn emitter_query<Q: CustQ>(_d: Deps<Q>, _e: Env, _m: Empty) -> StdResult<Binary> {
    to_json_binary(&Empty {})
}

fn custom_contract() -> Box<dyn Contract<CMsg, CQuery>> {
    Box::new(
        ContractWrapper::new(emitter_execute::<CMsg, CQuery>, emitter_instantiate::<CMsg, CQuery>, emitter_query::<CQuery>)
            .with_reply(emitter_reply::<CMsg, CQuery>)
            .with_migrate(emitter_migrate::<CMsg, CQuery>)
            .with_sudo(emitter_sudo::<CMsg, CQuery>),
    )
}
fn empty_contract() -> Box<dyn Contract<CMsg, CQuery>> {
    Box::new(
        ContractWrapper::new_with_empty(emitter_execute::<Empty, Empty>, emitter_instantiate::<Empty, Empty>, emitter_query::<Empty>)
            .with_reply_empty(emitter_reply::<Empty, Empty>)
            .with_migrate_empty(emitter_migrate::<Empty, Empty>)
            .with_sudo_empty(emitter_sudo::<Empty, Empty>),
    )
}

// ---------------------------------------------------------------------------------------------
// cases
// ---------------------------------------------------------------------------------------------
fn default_entry() -> String {
    "Execute".into()
}
#[derive(Clone, Debug, Serialize, Deserialize)]
pub struct Input {
    /// behaviour per slot (index into BEH; Keeper only in the bank slot)
    pub cfg: [u8; 8],
    /// "Top" | "TopQuery" | "SubCustom" | "SubEmpty"
    pub origin: String,
    /// for the contract origins: the entry point that returns the probes (one of ENTRIES)
    #[serde(default = "default_entry")]
    pub entry: String,
    pub pre: bool,
    pub height: u64,
    pub probes: Vec<Probe>,
}

#[derive(Clone, Debug, Serialize, Deserialize, PartialEq)]
pub enum Res {
    Ok(Option<u64>),
    Err,
    Panic,
}
#[derive(Clone, Debug, Serialize, Deserialize, PartialEq)]
pub struct Obs {
    pub log: Vec<Entry>,
    pub tx: Res,
    pub seen: Vec<(u64, Res)>,
    pub pre: bool,
    pub keys: Vec<(u64, u64)>,
}

struct Ran {
    obs: Obs,
    sender: u64,
    /// per probe: the Coq term of the probe with the EXPECTED payload digests (what the harness sent)
    probes_coq: Vec<String>,
}

fn parse_seen(v: &[u8]) -> Res {
    let s = String::from_utf8_lossy(v);
    if s == "err" {
        Res::Err
    } else if s == "ok:-" {
        Res::Ok(None)
    } else if let Some(d) = s.strip_prefix("ok:").and_then(|x| x.parse::<u64>().ok()) {
        Res::Ok(Some(d))
    } else {
        Res::Panic
    }
}

struct World {
    app: TheApp,
    user: Addr,
    admin: Addr,
    code: u64,
    emitter: Addr,
    callee: Addr,
}
/// the same set-up for the App under test and for its twin (address prediction)
fn world(ctl: &Rc<Ctl>, inp: &Input) -> World {
    let mut app = build_app(ctl, inp.height);
    let user = app.api().addr_make("c17-user");
    let admin = app.api().addr_make("c17-admin");
    let code = app.store_code(if inp.origin == "SubEmpty" { empty_contract() } else { custom_contract() });
    let emitter = app.instantiate_contract(code, user.clone(), &Prog::default(), &[], "emitter", Some(admin.to_string())).expect("instantiate emitter");
    let callee = app.instantiate_contract(code, user.clone(), &Prog::default(), &[], "callee", None).expect("instantiate callee");
    if inp.cfg[1] == KEEPER {
        let rich = vec![coin(1000, "c17x"), coin(1000, "c17y")];
        app.init_modules(|router, _, storage| {
            router.bank.keeper.init_balance(storage, &user, rich.clone()).unwrap();
            router.bank.keeper.init_balance(storage, &emitter, rich.clone()).unwrap();
        });
    }
    World { app, user, admin, code, emitter, callee }
}

fn run_case(inp: &Input) -> Ran {
    let ctl = Rc::new(Ctl { cfg: inp.cfg, log: RefCell::new(vec![]) });
    CUR.with(|c| *c.borrow_mut() = Some(ctl.clone()));
    let mut w = world(&ctl, inp);
    assert!(ctl.log.borrow().is_empty(), "setup must not touch a recording module");
    let empty_typed = inp.origin == "SubEmpty";
    let is_sub = inp.origin.starts_with("Sub");
    let from_instantiate = is_sub && inp.entry == "Instantiate";

    // addresses of the contracts that will be instantiated during the call, predicted on a twin App
    let n_new = (from_instantiate as usize) + inp.probes.iter().filter(|p| p.funded.as_ref().map(|f| f.inst).unwrap_or(false)).count();
    let mut predicted: Vec<Addr> = vec![];
    if n_new > 0 {
        CUR.with(|c| *c.borrow_mut() = None);
        let tctl = Rc::new(Ctl { cfg: [REC_OK; 8], log: RefCell::new(vec![]) });
        let mut t = world(&tctl, &Input { cfg: [REC_OK; 8], ..inp.clone() });
        for k in 0..n_new {
            predicted.push(t.app.instantiate_contract(t.code, t.user.clone(), &Prog::default(), &[], format!("twin-{}", k), None).expect("twin instantiate"));
        }
        CUR.with(|c| *c.borrow_mut() = Some(ctl.clone()));
    }
    let mut next_new = predicted.iter();
    // the contract that emits the probes (the one being instantiated for the instantiate entry point)
    let emitter = if from_instantiate { next_new.next().unwrap().clone() } else { w.emitter.clone() };

    // resolve the probes: callee addresses, expected digests
    let mut steps = vec![];
    let mut probes_coq = vec![];
    for (i, p) in inp.probes.iter().enumerate() {
        let mut st = Step { idx: i as u64, probe: p.clone(), callee: w.callee.to_string(), code_id: w.code };
        let term = match (&p.funded, p.is_msg) {
            (Some(f), _) => {
                if f.inst {
                    st.callee = next_new.next().unwrap().to_string();
                }
                format!(
                    "PFunded {} {} {} {} {} {}",
                    coq_bool(f.inst),
                    FCLASS[f.fclass as usize],
                    send_digest(&st.callee, f.fclass),
                    callee_digest(p.n, &funds_of(f.fclass)),
                    MODES[p.mode as usize],
                    coq_bool(p.hok)
                )
            }
            (None, true) => {
                let d = if empty_typed { make_msg::<Empty>(p.kind, p.n).1 } else { make_msg::<CMsg>(p.kind, p.n).1 };
                format!("PMsg M{} {} {} {}", MKINDS[p.kind], d, MODES[p.mode as usize], coq_bool(p.hok))
            }
            (None, false) => {
                let d = if empty_typed { make_query::<Empty>(p.kind, p.n).1 } else { make_query::<CQuery>(p.kind, p.n).1 };
                format!("PQuery Q{} {} {}", QKINDS[p.kind], d, coq_bool(p.catch))
            }
        };
        steps.push(st);
        probes_coq.push(term);
    }

    let mut seen: Vec<(u64, Res)> = vec![];
    let app = &mut w.app;
    let user = w.user.clone();
    let mut seen_store = emitter.clone();
    let (tx, sender) = match inp.origin.as_str() {
        "Top" => {
            let mut msgs: Vec<CosmosMsg<CMsg>> = vec![];
            if inp.pre {
                msgs.push(CosmosMsg::Wasm(WasmMsg::Execute { contract_addr: emitter.to_string(), msg: to_json_binary(&Prog { pre: true, ..Prog::default() }).unwrap(), funds: vec![] }));
            }
            for st in &steps {
                msgs.push(step_msg::<CMsg>(st).0);
            }
            let skip = if inp.pre { 1 } else { 0 };
            let r = catch(|| app.execute_multi(user.clone(), msgs));
            let tx = match r {
                Ok(Ok(resps)) => {
                    for (i, r) in resps.iter().skip(skip).enumerate() {
                        seen.push((i as u64, Res::Ok(parse_data(&r.data))));
                    }
                    Res::Ok(None)
                }
                Ok(Err(_)) => Res::Err,
                Err(_) => Res::Panic,
            };
            (tx, digest(user.as_str()))
        }
        "TopQuery" => {
            let p = &inp.probes[0];
            let (req, _) = make_query::<CQuery>(p.kind, p.n);
            let raw = to_json_vec(&req).unwrap();
            let r = catch(|| app.wrap().raw_query(&raw));
            let tx = match r {
                Ok(SystemResult::Ok(ContractResult::Ok(bin))) => {
                    seen.push((0, Res::Ok(serde_json::from_slice::<u64>(bin.as_slice()).ok())));
                    Res::Ok(None)
                }
                Ok(_) => Res::Err,
                Err(_) => Res::Panic,
            };
            (tx, 0)
        }
        _ => {
            let prog = Prog { pre: inp.pre, steps: steps.clone(), ran: None, via_reply: inp.entry == "Reply" };
            let admin = w.admin.clone();
            let code = w.code;
            let r: Result<AnyResult<()>, String> = match inp.entry.as_str() {
                "Instantiate" => catch(|| {
                    app.instantiate_contract(code, user.clone(), &prog, &[], "emitter-under-test", Some(admin.to_string())).map(|a| {
                        seen_store = a;
                    })
                }),
                "Migrate" => catch(|| app.migrate_contract(admin.clone(), emitter.clone(), &prog, code).map(|_| ())),
                "Sudo" => catch(|| app.wasm_sudo(emitter.clone(), &prog).map(|_| ())),
                _ => catch(|| app.execute_contract(user.clone(), emitter.clone(), &prog, &[]).map(|_| ())),
            };
            let tx = match r {
                Ok(Ok(())) => Res::Ok(None),
                Ok(Err(_)) => Res::Err,
                Err(_) => Res::Panic,
            };
            // the sender every module must record: the EMITTING contract
            (tx, digest(emitter.as_str()))
        }
    };
    // what survived
    let dump = if from_instantiate && tx != Res::Ok(None) { vec![] } else { app.dump_wasm_raw(&seen_store) };
    let pre = dump.iter().any(|(k, _)| k.as_slice() == b"pre");
    if is_sub {
        for (k, v) in &dump {
            if let Some(i) = std::str::from_utf8(k).ok().and_then(|s| s.strip_prefix("seen/")).and_then(|s| s.parse::<u64>().ok()) {
                seen.push((i, parse_seen(v)));
            }
        }
        seen.sort_by_key(|(i, _)| *i);
    }
    let mut keys = vec![];
    let bad = u64::MAX >> 16;
    for (k, _) in app.storage().range(None, None, Order::Ascending) {
        if k.starts_with(MARKER_PREFIX) {
            let s = String::from_utf8_lossy(&k[MARKER_PREFIX.len()..]).to_string();
            let mut it = s.split('/');
            let a = it.next().and_then(|x| x.parse::<u64>().ok()).unwrap_or(bad);
            let b = it.next().and_then(|x| x.parse::<u64>().ok()).unwrap_or(bad);
            keys.push((a, b));
        } else if let Some(pos) = k.windows(RAN_PREFIX.len()).position(|w| w == RAN_PREFIX) {
            // a callee's own marker, inside its contract storage
            let d = std::str::from_utf8(&k[pos + RAN_PREFIX.len()..]).ok().and_then(|x| x.parse::<u64>().ok()).unwrap_or(bad);
            keys.push((CALLEE_SLOT, d));
        }
    }
    let log = ctl.log.borrow().clone();
    CUR.with(|c| *c.borrow_mut() = None);
    Ran { obs: Obs { log, tx, seen, pre, keys }, sender, probes_coq }
}

fn coq_res(r: &Res) -> String {
    match r {
        Res::Ok(None) => "ROk None".into(),
        Res::Ok(Some(d)) => format!("ROk (Some {})", d),
        Res::Err => "RErr".into(),
        Res::Panic => "RPanic".into(),
    }
}

fn emit(out: &mut Out, inp: &Input, family: &str) {
    let ran = run_case(inp);
    let o = &ran.obs;
    let origin = if inp.origin.starts_with("Sub") { format!("({} E{})", inp.origin, inp.entry) } else { inp.origin.clone() };
    let coq = format!(
        "c17 (mk_input {} {} {} {} {} [{}]) (mk_obs {} ({}) {} {} {})",
        coq_list(&inp.cfg, |b| BEH[*b as usize].to_string()),
        origin,
        coq_bool(inp.pre),
        ran.sender,
        inp.height,
        ran.probes_coq.join("; "),
        coq_list(&o.log, |e| format!("mk_entry {} {} {} {}", e.slot, e.sender, e.payload, e.height)),
        coq_res(&o.tx),
        coq_list(&o.seen, |(i, r)| format!("({}, {})", i, coq_res(r))),
        coq_bool(o.pre),
        coq_list(&o.keys, |(a, b)| format!("({}, {})", a, b)),
    );
    out.stat(&format!("family_{}", family), 1);
    out.stat(&format!("origin_{}", inp.origin), 1);
    if inp.origin.starts_with("Sub") {
        out.stat(&format!("entry_{}", inp.entry), 1);
    }
    out.stat(&format!("position_{}", if inp.pre { "after_earlier_write" } else { "first" }), 1);
    out.stat(&format!("probes_{:02}", inp.probes.len().min(10)), 1);
    out.stat(&format!("bank_{}", BEH[inp.cfg[1] as usize]), 1);
    for p in &inp.probes {
        let (name, slot) = match (&p.funded, p.is_msg) {
            (Some(f), _) => (format!("funded_{}_{}", if f.inst { "instantiate" } else { "execute" }, FCLASS[f.fclass as usize]), 1),
            (None, true) => (format!("msg_{}", MKINDS[p.kind]), MSLOT[p.kind]),
            (None, false) => (format!("query_{}", QKINDS[p.kind]), QSLOT[p.kind]),
        };
        out.stat(&name, 1);
        out.stat(&format!("module_{}", BEH[inp.cfg[slot] as usize]), 1);
        if p.is_msg {
            out.stat(&format!("reply_on_{}_{}", MODES[p.mode as usize], if p.hok { "handler_ok" } else { "handler_err" }), 1);
        } else {
            out.stat(if p.catch { "query_caught" } else { "query_uncaught" }, 1);
        }
    }
    out.stat(
        match o.tx {
            Res::Ok(_) => "tx_ok",
            Res::Err => "tx_err",
            Res::Panic => "tx_panic",
        },
        1,
    );
    out.stat("log_entries", o.log.len() as u64);
    let nontrivial = !inp.probes.is_empty();
    out.push(Case {
        key: format!("{:?}", inp),
        json: serde_json::json!({"input": inp, "sender_digest": ran.sender, "probes": ran.probes_coq, "observed": ran.obs}),
        coq,
        nontrivial,
    });
}

fn all_rec_ok() -> [u8; 8] {
    [REC_OK; 8]
}
/// catch = reply_on Always with a handler that returns Ok; otherwise reply_on Never
fn msg(kind: usize, n: u64, catch: bool) -> Probe {
    msg_mode(kind, n, if catch { 3 } else { 0 }, true)
}
fn msg_mode(kind: usize, n: u64, mode: u8, hok: bool) -> Probe {
    Probe { is_msg: true, kind, n, catch: false, funded: None, mode, hok }
}
fn query(kind: usize, n: u64, catch: bool) -> Probe {
    Probe { is_msg: false, kind, n, catch, funded: None, mode: 0, hok: true }
}
fn funded(inst: bool, fclass: u8, n: u64, catch: bool) -> Probe {
    funded_mode(inst, fclass, n, if catch { 3 } else { 0 }, true)
}
fn funded_mode(inst: bool, fclass: u8, n: u64, mode: u8, hok: bool) -> Probe {
    Probe { is_msg: true, kind: 0, n, catch: false, funded: Some(Funded { inst, fclass }), mode, hok }
}

pub fn run(args: &Args) {
    let mut out = Out::new(&args.out, "From Verif Require Import Base Generated Builder Routing Chk17.");
    if let Some(p) = &args.replay {
        let v: serde_json::Value = serde_json::from_slice(&std::fs::read(p).unwrap()).unwrap();
        let case = v.get("case").unwrap_or(&v);
        let mut inp: Input = serde_json::from_value(case["input"].clone()).unwrap();
        for p in inp.probes.iter_mut() {
            if p.is_msg && p.catch && p.mode == 0 {
                p.mode = 3; // replay files written before the reply modes: catch = Always
            }
        }
        emit(&mut out, &inp, "replay");
        out.finish(100, "replay");
        return;
    }
    let mut rng = Rng::new(args.seed);
    let mut height = 1000 + rng.below(100_000);
    let mut next_height = |rng: &mut Rng| {
        height += 1 + rng.below(7);
        height
    };
    let exec = || "Execute".to_string();

    // 1. adversarial fixed cases: the known finding first (F11), then late failures after several writes
    for origin in ["TopQuery", "SubCustom", "SubEmpty"] {
        let n = 1 + rng.below(1 << 20);
        emit(&mut out, &Input { cfg: all_rec_ok(), origin: origin.into(), entry: exec(), pre: origin != "TopQuery", height: next_height(&mut rng), probes: vec![query(4, n, false)] }, "fixed");
    }
    for origin in ["Top", "SubCustom", "SubEmpty"] {
        let mut cfg = all_rec_ok();
        cfg[5] = REC_ERR;
        let probes = vec![msg(1, 11, false), msg(6, 12, false), msg(8, 13, false), msg(5, 14, false), msg(3, 15, false)];
        emit(&mut out, &Input { cfg, origin: origin.into(), entry: exec(), pre: true, height: next_height(&mut rng), probes }, "fixed");
    }

    // 2. the exhaustive single-probe family from top level and from the execute entry point: kind x origin x
    //    behaviour of the configured module x position x catch; every OTHER slot holds a recording module that
    //    accepts (a stray call would show up in the log)
    for origin in ["Top", "SubCustom", "SubEmpty"] {
        for kind in 0..9 {
            for beh in 0..4u8 {
                for pre in [false, true] {
                    for catch in [false, true] {
                        if origin == "Top" && catch {
                            continue;
                        }
                        let mut cfg = all_rec_ok();
                        cfg[MSLOT[kind]] = beh;
                        let n = 1 + rng.below(1 << 20);
                        emit(&mut out, &Input { cfg, origin: origin.into(), entry: exec(), pre, height: next_height(&mut rng), probes: vec![msg(kind, n, catch)] }, "exhaustive_msg");
                    }
                }
            }
        }
    }
    for origin in ["TopQuery", "SubCustom", "SubEmpty"] {
        for kind in 0..8 {
            if origin == "SubEmpty" && kind == 2 {
                continue; // an Empty-typed contract has no custom query of the chain's type
            }
            for beh in 0..4u8 {
                for pre in [false, true] {
                    for catch in [false, true] {
                        if origin == "TopQuery" && (catch || pre) {
                            continue;
                        }
                        let mut cfg = all_rec_ok();
                        cfg[QSLOT[kind]] = beh;
                        let n = 1 + rng.below(1 << 20);
                        emit(&mut out, &Input { cfg, origin: origin.into(), entry: exec(), pre, height: next_height(&mut rng), probes: vec![query(kind, n, catch)] }, "exhaustive_query");
                    }
                }
            }
        }
    }

    // 3. the other entry points of both contract flavours: every message kind returned from instantiate,
    //    migrate, sudo and reply (recording module ok / err, with and without reply), every query kind made
    //    inline there; the module must record the EMITTING contract as the sender
    for origin in ["SubCustom", "SubEmpty"] {
        for entry in ["Instantiate", "Migrate", "Sudo", "Reply"] {
            for kind in 0..9 {
                for beh in [REC_OK, REC_ERR] {
                    for catch in [false, true] {
                        let mut cfg = all_rec_ok();
                        cfg[MSLOT[kind]] = beh;
                        let n = 1 + rng.below(1 << 20);
                        emit(&mut out, &Input { cfg, origin: origin.into(), entry: entry.into(), pre: true, height: next_height(&mut rng), probes: vec![msg(kind, n, catch)] }, "entry_points_msg");
                    }
                }
            }
            for kind in 0..8 {
                if origin == "SubEmpty" && kind == 2 {
                    continue;
                }
                let beh = if kind % 2 == 0 { REC_OK } else { REC_ERR };
                let mut cfg = all_rec_ok();
                cfg[QSLOT[kind]] = beh;
                let n = 1 + rng.below(1 << 20);
                emit(&mut out, &Input { cfg, origin: origin.into(), entry: entry.into(), pre: true, height: next_height(&mut rng), probes: vec![query(kind, n, kind % 3 == 0)] }, "entry_points_query");
            }
        }
    }

    // 3b. the reply table: every message kind from the execute entry point of both flavours x the four reply_on
    //     modes x recording module ok / err x reply handler returns Ok / Err; the same table, one kind each, from
    //     the other entry points.  The reply entry point records its invocation out of band.
    for origin in ["SubCustom", "SubEmpty"] {
        for kind in 0..9 {
            for mode in 0..4u8 {
                for beh in [REC_OK, REC_ERR] {
                    for hok in [true, false] {
                        let mut cfg = all_rec_ok();
                        cfg[MSLOT[kind]] = beh;
                        let n = 1 + rng.below(1 << 20);
                        emit(&mut out, &Input { cfg, origin: origin.into(), entry: exec(), pre: true, height: next_height(&mut rng), probes: vec![msg_mode(kind, n, mode, hok)] }, "reply_table");
                    }
                }
            }
        }
        for (e, entry) in ["Instantiate", "Migrate", "Sudo", "Reply"].iter().enumerate() {
            for mode in 0..4u8 {
                for beh in [REC_OK, REC_ERR] {
                    for hok in [true, false] {
                        let kind = [1, 3, 5, 6, 7, 8, 4, 0][(e * 2 + mode as usize + hok as usize) % 8];
                        let mut cfg = all_rec_ok();
                        cfg[MSLOT[kind]] = beh;
                        let n = 1 + rng.below(1 << 20);
                        emit(&mut out, &Input { cfg, origin: origin.into(), entry: entry.to_string(), pre: true, height: next_height(&mut rng), probes: vec![msg_mode(kind, n, mode, hok)] }, "reply_table");
                    }
                }
            }
        }
    }

    // 4. wasm messages with funds: a user / a contract (every entry point, both flavours) executes / instantiates
    //    a callee with funds from {[], [5 x], [0 x], [0 x; 0 y], [0 x; 3 y]}; bank slot = recording bank ok / err, or
    //    the crate's BankKeeper (payer funded by the harness; not for a payer that is itself being instantiated)
    let mut origins: Vec<(&str, &str)> = vec![("Top", "Execute")];
    for o in ["SubCustom", "SubEmpty"] {
        for e in ENTRIES {
            origins.push((o, e));
        }
    }
    for (origin, entry) in &origins {
        for inst in [false, true] {
            for fclass in 0..5u8 {
                for bank in [REC_OK, REC_ERR, KEEPER] {
                    if bank == KEEPER && *entry == "Instantiate" {
                        continue;
                    }
                    for catch in [false, true] {
                        if catch && (*origin == "Top" || *entry != "Execute") {
                            continue;
                        }
                        let mut cfg = all_rec_ok();
                        cfg[1] = bank;
                        let n = 1 + rng.below(1 << 20);
                        emit(&mut out, &Input { cfg, origin: origin.to_string(), entry: entry.to_string(), pre: true, height: next_height(&mut rng), probes: vec![funded(inst, fclass, n, catch)] }, "funds");
                    }
                }
            }
        }
    }

    // 5. generated programs: random configuration of all eight slots, several probes in one transaction, from
    //    a random origin / entry point, with funded wasm messages mixed in
    let n_random = if args.thorough { 3000 } else { 300 } * args.scale as usize;
    for _ in 0..n_random {
        let mut r = rng.fork();
        let mut cfg = [0u8; 8];
        for c in cfg.iter_mut() {
            // mostly accepting recorders, so that late failures happen after earlier modules were reached
            *c = if r.chance(3, 5) { REC_OK } else { r.below(4) as u8 };
        }
        let origin = *r.pick(&["Top", "SubCustom", "SubCustom", "SubEmpty", "SubEmpty"]);
        let entry = if origin == "Top" { "Execute" } else { *r.pick(&ENTRIES) };
        let keeper = entry != "Instantiate" && r.chance(1, 6);
        if keeper {
            cfg[1] = KEEPER;
        }
        let len = 1 + r.below(6) as usize;
        let mut queries = vec![];
        let mut msgs = vec![];
        let mut have_inst = false;
        for _ in 0..len {
            let is_msg = origin == "Top" || r.chance(2, 3);
            if is_msg && r.chance(1, 4) {
                let inst = !have_inst && r.chance(1, 3);
                have_inst |= inst;
                let (mode, hok) = if origin == "Top" { (0, true) } else { (r.below(4) as u8, r.chance(5, 6)) };
                msgs.push(funded_mode(inst, r.below(5) as u8, 1 + r.below(1 << 20), mode, hok));
            } else if is_msg {
                let mut kind = r.below(9) as usize;
                if origin == "SubEmpty" && kind == 2 && r.chance(9, 10) {
                    kind = 6; // keep the un-liftable custom message rare
                }
                if keeper && kind == 1 {
                    kind = 5; // plain bank probes are not sent to the keeper
                }
                let (mode, hok) = if origin == "Top" { (0, true) } else { (r.below(4) as u8, r.chance(5, 6)) };
                msgs.push(msg_mode(kind, 1 + r.below(1 << 20), mode, hok));
            } else {
                let mut kind = r.below(8) as usize;
                if kind == 4 && r.chance(4, 5) {
                    kind = 5; // Distribution queries (known finding) stay rare among the generated programs
                }
                if (origin == "SubEmpty" && kind == 2) || (keeper && kind == 1) {
                    kind = 3;
                }
                queries.push(query(kind, 1 + r.below(1 << 20), r.chance(1, 2)));
            }
        }
        queries.extend(msgs);
        emit(&mut out, &Input { cfg, origin: origin.into(), entry: entry.into(), pre: r.chance(1, 2), height: next_height(&mut rng), probes: queries }, "generated");
    }
    out.finish(
        150,
        "cases = 3 known-finding witnesses + 3 late-failure programs + the exhaustive single-probe family (9 message kinds x {top-level, custom-typed contract, Empty-typed contract lifted by new_with_empty} x 4 module behaviours x {first, after an earlier write} x {reply_on Always, Never}; 8 query kinds x {top-level querier, query from inside either contract} x 4 behaviours x position x {error caught, not caught}) + every message / query kind returned from the instantiate, migrate, sudo and reply entry points of both contract flavours (drivers instantiate_contract, migrate_contract with a separate admin, wasm_sudo, a reply-level emitter) + the reply table (every message kind x reply_on {Never, Success, Error, Always} x module ok / err x reply handler returns Ok / Err, from every entry point; the reply entry point records its invocation out of band) + funded WasmMsg::Execute / Instantiate (funds [], [5x], [0x], [0x;0y], [0x;3y]) from a user and from every entry point of both flavours against a recording bank (ok / err) and the crate's BankKeeper + generated multi-probe programs over random configurations, origins and entry points; distinct by SHA-256 of the input; non-trivial = at least one probe",
    );
}
