//! C12: only the current admin can migrate or re-assign admin; migration keeps state.
use common::Rng;
use exec_common::driver::*;
use exec_common::reg::*;
use exec_common::*;

struct G<'a> {
    rng: &'a mut Rng,
    live: Live,
    nodes: Nodes,
    users: Vec<String>,
    block: BlockS,
    /// contracts that can dispatch sub-messages and catch replies
    dispatchers: Vec<String>,
    targets: Vec<String>,
    /// everybody who was admin of something at some point
    former: Vec<String>,
    ids: Vec<u64>,
    /// ids of codes registered through ContractWrapper (an Empty-typed contract cannot emit custom messages)
    wrapped_ids: Vec<u64>,
}

fn inst(sender: &str, code_id: u64, p: Prog, label: &str, admin: Option<String>) -> TopOp {
    TopOp::Exec { sender: sender.into(), m: Msg::Inst { code_id, p, funds: vec![], label: label.into(), admin, salt: None } }
}

impl<'a> G<'a> {
    fn new(rng: &'a mut Rng) -> Self {
        G {
            rng,
            live: Live::new(),
            nodes: Nodes(0),
            users: vec![user("alice"), user("bob"), user("carol")],
            block: block0(),
            dispatchers: vec![],
            targets: vec![],
            former: vec![],
            ids: vec![],
            wrapped_ids: vec![],
        }
    }
    fn id_hop(&mut self, h: Hop) {
        if let HObs::Id { r: IdOut::Ok(id), .. } = self.live.push(h) {
            self.ids.push(id);
        }
    }
    fn create(&mut self, sender: &str, code_id: u64, admin: Option<String>, label: &str) -> Option<String> {
        let before: Vec<String> = reg_of(&self.live).into_iter().map(|x| x.0).collect();
        let p = leaf(&mut self.nodes, vec![Action::Write(b"a".to_vec(), vec![label.len() as u8])]);
        let b = self.block.clone();
        self.live.top(&b, inst(sender, code_id, p, label, admin));
        reg_of(&self.live).into_iter().map(|x| x.0).find(|a| !before.contains(a))
    }
    fn setup(&mut self) {
        // code table: 1 full, 2 without migrate, 10 full (non-contiguous), 11 automatic after the gap, 12 = duplicate of 1
        self.id_hop(Hop::Store { creator: None, src: full_src(301) });
        self.id_hop(Hop::Store { creator: Some(self.users[1].clone()), src: SourceS { tag: 302, checksum: None, has_sudo: true, has_reply: true, has_migrate: false, wrapped: false } });
        let gap = *self.rng.pick(&[10u64, 10, 7, 1000, u64::MAX - 5]);
        self.id_hop(Hop::StoreWithId { creator: self.users[0].clone(), id: gap, src: full_src(310) });
        self.id_hop(Hop::Store { creator: None, src: SourceS { tag: 311, checksum: None, has_sudo: false, has_reply: true, has_migrate: true, wrapped: false } });
        self.id_hop(Hop::Duplicate { id: 1 });
        // codes of the ContractWrapper flavour (entry points they lack are simply not attached): full, WITHOUT migrate,
        // without sudo / reply
        for src in [wrapped_src(104, true, true, true), wrapped_src(105, true, true, false), wrapped_src(107, false, false, true)] {
            let before = self.ids.len();
            self.id_hop(Hop::Store { creator: None, src });
            if self.ids.len() > before {
                self.wrapped_ids.push(*self.ids.last().unwrap());
            }
        }
        let users = self.users.clone();
        mint_all(&mut self.live, &users);
        let (alice, bob, carol) = (users[0].clone(), users[1].clone(), users[2].clone());
        let n = reg_of(&self.live).len() as u64;
        // with admin; without; creator != admin; a dispatcher; admin = another contract; admin = itself
        let c0 = self.create(&alice, 1, Some(alice.clone()), "c0");
        let c1 = self.create(&bob, 1, None, "c1");
        let c2 = self.create(&alice, gap, Some(bob.clone()), "c2");
        let d = self.create(&carol, 1, Some(carol.clone()), "d");
        let c3 = self.create(&alice, 1, d.clone(), "c3");
        let own = classic_address(1, n + 5);
        let c4 = self.create(&bob, 1, Some(own), "c4");
        // a contract running a wrapped code; a second contract that is its own admin
        let w_full = self.wrapped_ids.first().cloned().unwrap_or(1);
        let c5 = self.create(&alice, w_full, Some(alice.clone()), "c5");
        let own6 = classic_address(1, n + 7);
        let c6 = self.create(&carol, 1, Some(own6), "c6");
        self.targets = [c0, c1, c2, d.clone(), c3, c4.clone(), c5.clone(), c6.clone()].into_iter().flatten().collect();
        self.dispatchers = [d, c4, c5, c6].into_iter().flatten().collect();
        self.former = vec![alice, bob, carol];
    }
    fn cdata(&self, c: &str) -> Option<CDataS> {
        reg_of(&self.live).into_iter().find(|x| x.0 == c).map(|x| x.1)
    }
    fn new_code(&mut self, cur: u64) -> u64 {
        let mut pool = self.ids.clone();
        pool.extend([cur, cur, 99, 3, 0]);
        *self.rng.pick(&pool)
    }
    /// an admin operation that dispatches nothing further, on `tgt`
    fn simple_admin_msg(&mut self, tgt: &str) -> Msg {
        let cur = self.cdata(tgt).map(|d| d.code_id).unwrap_or(1);
        match self.rng.below(5) {
            0 | 1 => {
                let mut pool = self.users.clone();
                pool.extend(self.targets.clone());
                pool.push(tgt.to_string());
                Msg::UpdateAdmin { c: tgt.into(), a: self.rng.pick(&pool).clone() }
            }
            2 => Msg::ClearAdmin { c: tgt.into() },
            _ => {
                let new_code = self.new_code(cur);
                Msg::Migrate { c: tgt.into(), new_code, p: leaf(&mut self.nodes, vec![Action::Q(QAct::Dump)]) }
            }
        }
    }
    /// a program whose body returns ONE admin operation (on `me` or on another contract) under any reply mode
    fn admin_sub_prog(&mut self, me: &str) -> Prog {
        let tgt = if self.rng.chance(1, 2) { me.to_string() } else { self.rng.pick(&self.targets).clone() };
        let m = self.simple_admin_msg(&tgt);
        let ro = *self.rng.pick(&[ReplyOnS::Never, ReplyOnS::Error, ReplyOnS::Always, ReplyOnS::Success]);
        let id = 20 + self.rng.below(3);
        with_sub(&mut self.nodes, id, ro, m)
    }
    fn runs_wrapped(&self, c: &str) -> bool {
        self.cdata(c).map(|d| self.wrapped_ids.contains(&d.code_id)).unwrap_or(false)
    }
    /// the new code calls back into the contract it is being installed on
    fn callback_prog(&mut self, me: &str) -> Prog {
        let ro = *self.rng.pick(&[ReplyOnS::Never, ReplyOnS::Success, ReplyOnS::Always, ReplyOnS::Error]);
        let q = leaf(&mut self.nodes, vec![Action::Q(QAct::Dump)]);
        with_sub(&mut self.nodes, 25, ro, Msg::Exec { c: me.into(), p: q, funds: vec![] })
    }
    fn mig_prog(&mut self, me: &str, new_code: u64) -> Prog {
        let mut k = self.rng.below(15);
        if k == 2 && self.wrapped_ids.contains(&new_code) {
            k = 5;
        }
        match k {
            13 | 14 => self.callback_prog(me),
            // the migrate entry point of the new code returns an admin operation: it acts as the CONTRACT
            10..=12 => self.admin_sub_prog(me),
            0 => failing(&mut self.nodes),
            1 => malformed(&mut self.nodes),
            2 => {
                // the migration itself dispatches a (failing or succeeding) sub-message
                let ok = self.rng.chance(1, 2);
                with_sub(&mut self.nodes, 3, ReplyOnS::Never, Msg::Custom { ok, tag: 5 })
            }
            3 | 4 => leaf(&mut self.nodes, vec![Action::Q(QAct::Dump), Action::Write(b"mig".to_vec(), vec![1]), Action::Remove(b"a".to_vec())]),
            _ => leaf(&mut self.nodes, vec![Action::Q(QAct::Dump)]),
        }
    }
    fn admin_msg(&mut self, c: &str) -> Msg {
        let cur = self.cdata(c).map(|d| d.code_id).unwrap_or(1);
        match self.rng.below(10) {
            0..=3 => {
                let new_code = self.new_code(cur);
                Msg::Migrate { c: c.into(), new_code, p: self.mig_prog(c, new_code) }
            }
            4..=7 => {
                let mut pool = self.users.clone();
                pool.extend(self.targets.clone());
                pool.push(c.to_string());
                if self.rng.chance(1, 10) {
                    pool = vec!["not an address".to_string()];
                }
                Msg::UpdateAdmin { c: c.into(), a: self.rng.pick(&pool).clone() }
            }
            _ => Msg::ClearAdmin { c: c.into() },
        }
    }
    fn attempt(&mut self) {
        let c = if self.rng.chance(1, 15) { self.users[2].clone() } else { self.rng.pick(&self.targets).clone() };
        let cd = self.cdata(&c);
        let admin = cd.as_ref().and_then(|d| d.admin.clone());
        let creator = cd.as_ref().map(|d| d.creator.clone());
        // who tries: the current admin (often), the creator, a former admin, a stranger
        let mut actor = match self.rng.below(10) {
            0..=4 => admin.clone().unwrap_or_else(|| self.users[0].clone()),
            5 => creator.unwrap_or_else(|| self.users[1].clone()),
            6 | 7 => self.rng.pick(&self.former).clone(),
            _ => self.rng.pick(&self.users).clone(),
        };
        // sometimes a sender the chain's Api cannot validate (plain name, foreign prefix, upper-cased admin, empty),
        // preferably against a contract without admin (never had one, or cleared)
        let mut c = c;
        let mut admin = admin;
        let mut invalid_actor = false;
        if self.rng.chance(1, 6) {
            if self.rng.chance(1, 2) {
                let no_admin: Vec<String> = reg_of(&self.live).into_iter().filter(|x| x.1.admin.is_none()).map(|x| x.0).collect();
                if !no_admin.is_empty() {
                    c = self.rng.pick(&no_admin).clone();
                    admin = None;
                }
            }
            let real = admin.clone().unwrap_or_else(|| self.users[0].clone());
            actor = self.rng.pick(&invalid_senders(&real)).clone();
            invalid_actor = true;
        }
        let _ = &admin;
        let b = self.block.clone();
        self.live.push(Hop::Info { c: c.clone() });
        let mut m = self.admin_msg(&c);
        if invalid_actor && self.rng.chance(1, 2) {
            // a migration that would succeed if only the sender were accepted
            let cur = self.cdata(&c).map(|d| d.code_id).unwrap_or(1);
            let new_code = *self.rng.pick(&[cur, 1, 1]);
            m = Msg::Migrate { c: c.clone(), new_code, p: leaf(&mut self.nodes, vec![Action::Q(QAct::Dump)]) };
        }
        let is_contract = self.targets.contains(&actor);
        let mut via_sub = !invalid_actor && (is_contract || self.rng.chance(1, 6));
        let mut shape = if invalid_actor { 11 } else { self.rng.below(14) };
        if shape == 2 && self.dispatchers.iter().all(|d| self.runs_wrapped(d)) {
            shape = 11;
        }
        if shape >= 12 {
            // a contract that IS its own admin: the migration is sent in its name (App::execute takes any Addr); the
            // new code's migrate returns an admin operation on the contract itself (Never / Success mostly) or calls back
            let selfs: Vec<String> = reg_of(&self.live).into_iter().filter(|x| x.1.admin.as_deref() == Some(x.0.as_str())).map(|x| x.0).collect();
            if let Some(x) = selfs.first().cloned() {
                let x = if selfs.len() > 1 && self.rng.chance(1, 2) { selfs[1].clone() } else { x };
                let cur = self.cdata(&x).map(|d| d.code_id).unwrap_or(1);
                let mut pool: Vec<u64> = self.ids.iter().cloned().filter(|i| *i != cur).collect();
                pool.push(cur);
                let new_code = *self.rng.pick(&pool);
                let p = if shape == 12 {
                    let m2 = match self.rng.below(3) {
                        0 => Msg::UpdateAdmin { c: x.clone(), a: if self.rng.chance(1, 2) { self.users[1].clone() } else { x.clone() } },
                        1 => Msg::ClearAdmin { c: x.clone() },
                        _ => Msg::Migrate { c: x.clone(), new_code: *self.rng.pick(&pool), p: leaf(&mut self.nodes, vec![]) },
                    };
                    let ro = *self.rng.pick(&[ReplyOnS::Never, ReplyOnS::Success, ReplyOnS::Never, ReplyOnS::Success, ReplyOnS::Always, ReplyOnS::Error]);
                    with_sub(&mut self.nodes, 27, ro, m2)
                } else {
                    self.callback_prog(&x)
                };
                c = x.clone();
                actor = x.clone();
                m = Msg::Migrate { c: x, new_code, p };
                via_sub = false;
            }
            shape = 11;
        }
        if shape == 0 {
            // sudo: the body of the sudo entry point of a contract returns the admin operation
            let d = self.rng.pick(&self.dispatchers).clone();
            let ro = *self.rng.pick(&[ReplyOnS::Never, ReplyOnS::Error, ReplyOnS::Always, ReplyOnS::Success]);
            let m = self.simple_admin_msg(&c);
            let p = with_sub(&mut self.nodes, 4, ro, m);
            self.live.top(&b, TopOp::WasmSudo { c: d, p });
        } else if shape == 1 {
            // instantiate: a NEW contract returns the admin operation (on an existing contract, or on itself,
            // being or not being its own admin)
            let own = classic_address(1, reg_of(&self.live).len() as u64);
            let tgt = if self.rng.chance(1, 2) { own.clone() } else { c.clone() };
            let m = self.simple_admin_msg(&tgt);
            let ro = *self.rng.pick(&[ReplyOnS::Never, ReplyOnS::Error, ReplyOnS::Always, ReplyOnS::Success]);
            let p = with_sub(&mut self.nodes, 5, ro, m);
            let admin = match self.rng.below(3) {
                0 => Some(own.clone()),
                1 => Some(actor.clone()),
                _ => None,
            };
            let sender = self.rng.pick(&self.users).clone();
            let before = reg_of(&self.live).len();
            self.live.top(&b, TopOp::Exec { sender, m: Msg::Inst { code_id: 1, p, funds: vec![], label: "born".into(), admin, salt: None } });
            if reg_of(&self.live).len() > before && self.targets.len() < 9 {
                self.targets.push(own.clone());
                self.dispatchers.push(own);
            }
        } else if shape == 2 {
            // reply: a quiet sub-message (succeeding or failing) whose reply program returns the admin operation
            let ds: Vec<String> = self.dispatchers.iter().filter(|d| !self.runs_wrapped(d)).cloned().collect();
            let d = self.rng.pick(&ds).clone();
            let node = self.nodes.next();
            let on_ok = self.admin_sub_prog(&d);
            let on_err = self.admin_sub_prog(&d);
            let ok = self.rng.chance(1, 2);
            let ro = *self.rng.pick(&[ReplyOnS::Always, ReplyOnS::Always, ReplyOnS::Error, ReplyOnS::Success, ReplyOnS::Never]);
            let p = Prog {
                node,
                acts: vec![Action::Write(format!("m{}", node).into_bytes(), vec![1])],
                out: Output::Resp { attrs: vec![], events: vec![], data: None, subs: vec![Sub { id: 9, payload: vec![9], ro, m: Box::new(Msg::Custom { ok, tag: 12 }), on_ok, on_err }] },
            };
            let sender = self.rng.pick(&self.users).clone();
            self.live.top(&b, TopOp::Exec { sender, m: Msg::Exec { c: d, p, funds: vec![] } });
        } else if via_sub {
            // a contract acts through a sub-message: the dispatcher is the actor
            if !self.dispatchers.contains(&actor) {
                actor = self.rng.pick(&self.dispatchers).clone();
            }
            let ro = *self.rng.pick(&[ReplyOnS::Never, ReplyOnS::Error, ReplyOnS::Always, ReplyOnS::Success]);
            let p = with_sub(&mut self.nodes, 1 + self.rng.below(3), ro, m);
            let sender = self.rng.pick(&self.users).clone();
            self.live.top(&b, TopOp::Exec { sender, m: Msg::Exec { c: actor.clone(), p, funds: vec![] } });
        } else {
            let op = match (&m, self.rng.chance(1, 3)) {
                (Msg::Migrate { c, new_code, p }, true) => TopOp::HelperMigrate { sender: actor.clone(), c: c.clone(), new_code: *new_code, p: p.clone() },
                _ => TopOp::Exec { sender: actor.clone(), m },
            };
            self.live.top(&b, op);
        }
        // what the contract looks like afterwards, through every observation point
        self.live.push(Hop::Info { c: c.clone() });
        if self.rng.chance(1, 2) {
            self.live.push(Hop::Data { c: c.clone() });
        }
        if self.rng.chance(1, 3) {
            self.live.push(Hop::Dump { c: c.clone() });
        }
        if let Some(a) = self.cdata(&c).and_then(|d| d.admin) {
            if !self.former.contains(&a) {
                self.former.push(a);
            }
        }
        // the next calls are served by whatever code is now recorded
        match self.rng.below(4) {
            0 | 1 => {
                let p = leaf(&mut self.nodes, vec![Action::Q(QAct::Dump)]);
                let sender = self.rng.pick(&self.users).clone();
                self.live.top(&b, TopOp::Exec { sender, m: Msg::Exec { c: c.clone(), p, funds: vec![] } });
            }
            2 => {
                let p = leaf(&mut self.nodes, vec![]);
                self.live.top(&b, TopOp::WasmSudo { c: c.clone(), p });
            }
            _ => {}
        }
    }
    fn run(mut self, thorough: bool) -> (History, Vec<HObs>) {
        self.setup();
        let n = if thorough { 10 + self.rng.below(10) } else { 6 + self.rng.below(6) };
        for _ in 0..n {
            if self.rng.chance(1, 5) {
                self.block.height += 1;
                self.block.time_ns += 5_000_000_000;
            }
            if self.rng.chance(1, 12) {
                // the table changes while contracts live
                let src = full_src(320 + self.rng.below(5));
                self.id_hop(Hop::Store { creator: None, src });
            }
            self.attempt();
        }
        (History { hops: self.live.hops, users: self.users }, self.live.obs)
    }
}

fn fixed() -> Vec<History> {
    let alice = user("alice");
    let bob = user("bob");
    let carol = user("carol");
    let users = vec![alice.clone(), bob.clone(), carol.clone()];
    let b = block0();
    let mut n = Nodes(0);
    let top = |op: TopOp| Hop::Top { block: b.clone(), op };
    let mut out = vec![];
    let c = classic_address(1, 0);
    let ex = |s: &str, m: Msg| TopOp::Exec { sender: s.into(), m };
    // F2 witness (C12 side): migration to a non-contiguous id, then the full admin life cycle
    out.push(History {
        users: users.clone(),
        hops: vec![
            Hop::Store { creator: None, src: full_src(301) },
            Hop::StoreWithId { creator: bob.clone(), id: 10, src: full_src(310) },
            top(inst(&alice, 1, leaf(&mut n, vec![Action::Write(b"a".to_vec(), vec![9])]), "c", Some(bob.clone()))),
            Hop::Info { c: c.clone() },
            // the creator is not the admin
            top(ex(&alice, Msg::Migrate { c: c.clone(), new_code: 10, p: leaf(&mut n, vec![]) })),
            top(ex(&alice, Msg::UpdateAdmin { c: c.clone(), a: alice.clone() })),
            top(ex(&alice, Msg::ClearAdmin { c: c.clone() })),
            // the admin migrates to the non-contiguous id; a failing migrate entry point rolls the code id back
            top(ex(&bob, Msg::Migrate { c: c.clone(), new_code: 10, p: failing(&mut n) })),
            Hop::Info { c: c.clone() },
            top(ex(&bob, Msg::Migrate { c: c.clone(), new_code: 10, p: leaf(&mut n, vec![Action::Q(QAct::Dump), Action::Write(b"mig".to_vec(), vec![1])]) })),
            Hop::Info { c: c.clone() },
            Hop::Dump { c: c.clone() },
            top(ex(&carol, Msg::Exec { c: c.clone(), p: leaf(&mut n, vec![Action::Q(QAct::Dump)]), funds: vec![] })),
            top(TopOp::WasmSudo { c: c.clone(), p: leaf(&mut n, vec![]) }),
            // hand over: the former admin is out at once, the new one is in
            top(ex(&bob, Msg::UpdateAdmin { c: c.clone(), a: carol.clone() })),
            top(ex(&bob, Msg::UpdateAdmin { c: c.clone(), a: bob.clone() })),
            top(ex(&bob, Msg::Migrate { c: c.clone(), new_code: 1, p: leaf(&mut n, vec![]) })),
            top(ex(&carol, Msg::Migrate { c: c.clone(), new_code: 1, p: leaf(&mut n, vec![]) })),
            top(ex(&carol, Msg::ClearAdmin { c: c.clone() })),
            Hop::Info { c: c.clone() },
            // final: nobody
            top(ex(&carol, Msg::UpdateAdmin { c: c.clone(), a: carol.clone() })),
            top(ex(&bob, Msg::Migrate { c: c.clone(), new_code: 10, p: leaf(&mut n, vec![]) })),
            top(ex(&alice, Msg::ClearAdmin { c: c.clone() })),
        ],
    });
    // a contract is admin (of another contract and of itself) and acts through sub-messages
    let d = classic_address(1, 0);
    let t = classic_address(1, 1);
    let sub = |n: &mut Nodes, ro: ReplyOnS, m: Msg| with_sub(n, 2, ro, m);
    let mp1 = leaf(&mut n, vec![]);
    let mp2 = leaf(&mut n, vec![Action::Q(QAct::Dump)]);
    out.push(History {
        users: users.clone(),
        hops: vec![
            Hop::Store { creator: None, src: full_src(301) },
            Hop::Store { creator: None, src: SourceS { tag: 302, checksum: None, has_sudo: true, has_reply: true, has_migrate: false, wrapped: false } },
            top(inst(&alice, 1, leaf(&mut n, vec![]), "d", Some(d.clone()))),
            top(inst(&alice, 1, leaf(&mut n, vec![]), "t", Some(d.clone()))),
            // the external signer of the transaction is NOT the actor
            top(ex(&alice, Msg::UpdateAdmin { c: t.clone(), a: alice.clone() })),
            top(ex(&alice, Msg::Exec { c: t.clone(), p: sub(&mut n, ReplyOnS::Error, Msg::ClearAdmin { c: t.clone() }), funds: vec![] })),
            Hop::Info { c: t.clone() },
            top(ex(&bob, Msg::Exec { c: d.clone(), p: sub(&mut n, ReplyOnS::Always, Msg::Migrate { c: t.clone(), new_code: 2, p: mp1 }), funds: vec![] })),
            top(ex(&bob, Msg::Exec { c: d.clone(), p: sub(&mut n, ReplyOnS::Success, Msg::Migrate { c: t.clone(), new_code: 1, p: mp2 }), funds: vec![] })),
            top(ex(&bob, Msg::Exec { c: d.clone(), p: sub(&mut n, ReplyOnS::Never, Msg::UpdateAdmin { c: t.clone(), a: bob.clone() }), funds: vec![] })),
            Hop::Info { c: t.clone() },
            top(ex(&bob, Msg::Exec { c: d.clone(), p: sub(&mut n, ReplyOnS::Error, Msg::UpdateAdmin { c: t.clone(), a: carol.clone() }), funds: vec![] })),
            Hop::Info { c: t.clone() },
            // the contract gives up its own admin
            top(ex(&carol, Msg::Exec { c: d.clone(), p: sub(&mut n, ReplyOnS::Never, Msg::ClearAdmin { c: d.clone() }), funds: vec![] })),
            top(ex(&carol, Msg::Exec { c: d.clone(), p: sub(&mut n, ReplyOnS::Error, Msg::ClearAdmin { c: d.clone() }), funds: vec![] })),
            Hop::Info { c: d.clone() },
        ],
    });
    // codes registered through ContractWrapper, with only the entry points they have attached: a Migrate to the one
    // WITHOUT a migrate entry point fails and the code id stays; the others work as migrate targets and as sources
    let x = classic_address(1, 0);
    let w = classic_address(3, 1);
    out.push(History {
        users: users.clone(),
        hops: vec![
            Hop::Store { creator: None, src: full_src(301) },
            Hop::Store { creator: None, src: wrapped_src(105, true, true, false) },
            Hop::Store { creator: None, src: wrapped_src(104, true, true, true) },
            Hop::Store { creator: None, src: wrapped_src(107, false, false, true) },
            top(inst(&alice, 1, leaf(&mut n, vec![Action::Write(b"a".to_vec(), vec![9])]), "x", Some(alice.clone()))),
            top(ex(&alice, Msg::Migrate { c: x.clone(), new_code: 2, p: leaf(&mut n, vec![]) })),
            Hop::Info { c: x.clone() },
            top(TopOp::HelperMigrate { sender: alice.clone(), c: x.clone(), new_code: 2, p: leaf(&mut n, vec![]) }),
            Hop::Info { c: x.clone() },
            top(ex(&alice, Msg::Migrate { c: x.clone(), new_code: 3, p: leaf(&mut n, vec![Action::Q(QAct::Dump)]) })),
            Hop::Info { c: x.clone() },
            top(ex(&bob, Msg::Exec { c: x.clone(), p: leaf(&mut n, vec![Action::Q(QAct::Dump)]), funds: vec![] })),
            top(TopOp::WasmSudo { c: x.clone(), p: leaf(&mut n, vec![]) }),
            top(ex(&alice, Msg::Migrate { c: x.clone(), new_code: 4, p: leaf(&mut n, vec![]) })),
            top(TopOp::WasmSudo { c: x.clone(), p: leaf(&mut n, vec![]) }),
            top(ex(&alice, Msg::Migrate { c: x.clone(), new_code: 2, p: leaf(&mut n, vec![]) })),
            Hop::Info { c: x.clone() },
            // a contract born from a wrapped code, migrated to the scripted flavour and back to the one lacking migrate
            top(inst(&bob, 3, leaf(&mut n, vec![]), "w", Some(bob.clone()))),
            top(ex(&bob, Msg::Migrate { c: w.clone(), new_code: 2, p: leaf(&mut n, vec![]) })),
            top(ex(&bob, Msg::Migrate { c: w.clone(), new_code: 1, p: leaf(&mut n, vec![]) })),
            top(ex(&bob, Msg::Migrate { c: w.clone(), new_code: 2, p: leaf(&mut n, vec![]) })),
            Hop::Info { c: w.clone() },
        ],
    });
    // a contract that is its own admin is migrated in its own name; the new code's migrate returns ClearAdmin /
    // UpdateAdmin / Migrate on the contract itself, or calls back into it: accepted, the effect is there after the
    // call, and everything logged at the contract during the call is served by the new code
    let x = classic_address(1, 0);
    let mut hops = vec![
        Hop::Store { creator: None, src: full_src(301) },
        Hop::Store { creator: None, src: full_src(302) },
        Hop::Store { creator: None, src: full_src(303) },
        top(inst(&alice, 1, leaf(&mut n, vec![]), "x", Some(x.clone()))),
    ];
    let q = leaf(&mut n, vec![Action::Q(QAct::Dump)]);
    let p = with_sub(&mut n, 60, ReplyOnS::Success, Msg::Exec { c: x.clone(), p: q, funds: vec![] });
    hops.push(top(ex(&x, Msg::Migrate { c: x.clone(), new_code: 2, p })));
    hops.push(Hop::Info { c: x.clone() });
    let p_in = leaf(&mut n, vec![]);
    let p = with_sub(&mut n, 61, ReplyOnS::Never, Msg::Migrate { c: x.clone(), new_code: 3, p: p_in });
    hops.push(top(ex(&x, Msg::Migrate { c: x.clone(), new_code: 1, p })));
    hops.push(Hop::Info { c: x.clone() });
    let p = with_sub(&mut n, 62, ReplyOnS::Success, Msg::UpdateAdmin { c: x.clone(), a: x.clone() });
    hops.push(top(ex(&x, Msg::Migrate { c: x.clone(), new_code: 2, p })));
    hops.push(Hop::Info { c: x.clone() });
    let p = with_sub(&mut n, 63, ReplyOnS::Never, Msg::UpdateAdmin { c: x.clone(), a: bob.clone() });
    hops.push(top(ex(&x, Msg::Migrate { c: x.clone(), new_code: 1, p })));
    hops.push(Hop::Info { c: x.clone() });
    let p = with_sub(&mut n, 64, ReplyOnS::Never, Msg::UpdateAdmin { c: x.clone(), a: x.clone() });
    hops.push(top(ex(&bob, Msg::UpdateAdmin { c: x.clone(), a: x.clone() })));
    hops.push(top(ex(&x, Msg::Migrate { c: x.clone(), new_code: 3, p })));
    let p = with_sub(&mut n, 65, ReplyOnS::Never, Msg::ClearAdmin { c: x.clone() });
    hops.push(top(ex(&x, Msg::Migrate { c: x.clone(), new_code: 2, p })));
    hops.push(Hop::Info { c: x.clone() });
    hops.push(top(ex(&carol, Msg::Exec { c: x.clone(), p: leaf(&mut n, vec![Action::Q(QAct::Dump)]), funds: vec![] })));
    out.push(History { users: users.clone(), hops });
    // senders the chain's Api cannot validate, against a contract that never had an admin, a contract whose admin
    // was cleared, and a contract with a normal admin: always refused, code id and admin unchanged
    let c0 = classic_address(1, 0);
    let c1 = classic_address(1, 1);
    let c2 = classic_address(1, 2);
    let mut hops = vec![
        Hop::Store { creator: None, src: full_src(301) },
        Hop::Store { creator: None, src: full_src(302) },
        top(inst(&alice, 1, leaf(&mut n, vec![]), "never had an admin", None)),
        top(inst(&alice, 1, leaf(&mut n, vec![]), "admin will be cleared", Some(alice.clone()))),
        top(inst(&alice, 1, leaf(&mut n, vec![]), "normal admin", Some(alice.clone()))),
        top(ex("mallory", Msg::Migrate { c: c0.clone(), new_code: 2, p: leaf(&mut n, vec![]) })),
        Hop::Info { c: c0.clone() },
        top(ex(&alice, Msg::ClearAdmin { c: c1.clone() })),
        top(ex("mallory", Msg::Migrate { c: c1.clone(), new_code: 2, p: leaf(&mut n, vec![]) })),
        Hop::Info { c: c1.clone() },
    ];
    for bad in invalid_senders(&alice) {
        for tgt in [&c0, &c1, &c2] {
            hops.push(top(ex(&bad, Msg::Migrate { c: tgt.clone(), new_code: 2, p: leaf(&mut n, vec![]) })));
            hops.push(top(TopOp::HelperMigrate { sender: bad.clone(), c: tgt.clone(), new_code: 1, p: leaf(&mut n, vec![]) }));
            hops.push(top(ex(&bad, Msg::UpdateAdmin { c: tgt.clone(), a: bob.clone() })));
            hops.push(top(ex(&bad, Msg::ClearAdmin { c: tgt.clone() })));
        }
    }
    hops.push(Hop::Info { c: c0.clone() });
    hops.push(Hop::Info { c: c1.clone() });
    hops.push(Hop::Info { c: c2.clone() });
    // the real admin still works
    hops.push(top(ex(&alice, Msg::Migrate { c: c2.clone(), new_code: 2, p: leaf(&mut n, vec![]) })));
    hops.push(Hop::Info { c: c2.clone() });
    // ... but cannot hand over to a string that is no address: refused, the admin stays
    for bad in invalid_senders(&alice) {
        hops.push(top(ex(&alice, Msg::UpdateAdmin { c: c2.clone(), a: bad })));
    }
    hops.push(top(ex(&alice, Msg::UpdateAdmin { c: c2.clone(), a: "not an address".into() })));
    hops.push(Hop::Info { c: c2.clone() });
    out.push(History { users: users.clone(), hops });
    // a contract that is NOT its own admin returns UpdateAdmin(self -> self-chosen) / ClearAdmin / Migrate from its
    // migrate entry point: the operation is the CONTRACT's, not the migrating admin's: refused; with reply_on
    // never / success the migration fails, with error / always it is caught and the admin is unchanged
    let x = classic_address(1, 0);
    let y = classic_address(1, 1);
    let mut hops = vec![
        Hop::Store { creator: None, src: full_src(301) },
        Hop::Store { creator: None, src: full_src(302) },
        top(inst(&alice, 1, leaf(&mut n, vec![]), "x", Some(alice.clone()))),
        top(inst(&alice, 1, leaf(&mut n, vec![]), "y", Some(alice.clone()))),
    ];
    for (i, ro) in [ReplyOnS::Never, ReplyOnS::Error, ReplyOnS::Always, ReplyOnS::Success].into_iter().enumerate() {
        let p = with_sub(&mut n, 30 + i as u64, ro, Msg::UpdateAdmin { c: x.clone(), a: bob.clone() });
        hops.push(top(ex(&alice, Msg::Migrate { c: x.clone(), new_code: 2, p })));
        hops.push(Hop::Info { c: x.clone() });
    }
    let p = with_sub(&mut n, 40, ReplyOnS::Never, Msg::ClearAdmin { c: x.clone() });
    hops.push(top(ex(&alice, Msg::Migrate { c: x.clone(), new_code: 1, p })));
    let p_in = leaf(&mut n, vec![]);
    let p = with_sub(&mut n, 41, ReplyOnS::Never, Msg::Migrate { c: x.clone(), new_code: 1, p: p_in });
    hops.push(top(ex(&alice, Msg::Migrate { c: x.clone(), new_code: 2, p })));
    // ... and on ANOTHER contract administered by the same account
    let p = with_sub(&mut n, 42, ReplyOnS::Never, Msg::UpdateAdmin { c: y.clone(), a: x.clone() });
    hops.push(top(ex(&alice, Msg::Migrate { c: x.clone(), new_code: 2, p })));
    hops.push(Hop::Info { c: x.clone() });
    hops.push(Hop::Info { c: y.clone() });
    // the same from sudo, from instantiate and from a reply program
    let p = with_sub(&mut n, 43, ReplyOnS::Error, Msg::ClearAdmin { c: y.clone() });
    hops.push(top(TopOp::WasmSudo { c: x.clone(), p }));
    let p = with_sub(&mut n, 44, ReplyOnS::Never, Msg::UpdateAdmin { c: y.clone(), a: bob.clone() });
    hops.push(top(inst(&alice, 1, p, "z", Some(alice.clone()))));
    let node = n.next();
    let on_ok = with_sub(&mut n, 45, ReplyOnS::Error, Msg::UpdateAdmin { c: y.clone(), a: bob.clone() });
    let on_err = with_sub(&mut n, 46, ReplyOnS::Never, Msg::ClearAdmin { c: y.clone() });
    hops.push(top(ex(&bob, Msg::Exec {
        c: x.clone(),
        p: Prog { node, acts: vec![], out: Output::Resp { attrs: vec![], events: vec![], data: None, subs: vec![Sub { id: 9, payload: vec![9], ro: ReplyOnS::Always, m: Box::new(Msg::Custom { ok: true, tag: 1 }), on_ok, on_err }] } },
        funds: vec![],
    })));
    hops.push(Hop::Info { c: y.clone() });
    out.push(History { users: users.clone(), hops });
    // a contract that IS its own admin does the same: accepted — from execute, and from the migrate entry point
    // of a migration it requested itself
    let x = classic_address(1, 0);
    let mut hops = vec![
        Hop::Store { creator: None, src: full_src(301) },
        Hop::Store { creator: None, src: full_src(302) },
        top(inst(&alice, 1, leaf(&mut n, vec![]), "x", Some(x.clone()))),
        Hop::Info { c: x.clone() },
    ];
    let p_mig = with_sub(&mut n, 50, ReplyOnS::Never, Msg::UpdateAdmin { c: x.clone(), a: x.clone() });
    let p = with_sub(&mut n, 51, ReplyOnS::Never, Msg::Migrate { c: x.clone(), new_code: 2, p: p_mig });
    hops.push(top(ex(&bob, Msg::Exec { c: x.clone(), p, funds: vec![] })));
    hops.push(Hop::Info { c: x.clone() });
    let p = with_sub(&mut n, 52, ReplyOnS::Success, Msg::Migrate { c: x.clone(), new_code: 1, p: leaf(&mut Nodes(950), vec![]) });
    hops.push(top(ex(&bob, Msg::Exec { c: x.clone(), p, funds: vec![] })));
    let p = with_sub(&mut n, 53, ReplyOnS::Always, Msg::UpdateAdmin { c: x.clone(), a: bob.clone() });
    hops.push(top(ex(&carol, Msg::Exec { c: x.clone(), p, funds: vec![] })));
    hops.push(Hop::Info { c: x.clone() });
    // handed over to bob: the contract is no longer its own admin; bob migrates it and the new code tries again
    let p = with_sub(&mut n, 54, ReplyOnS::Never, Msg::UpdateAdmin { c: x.clone(), a: x.clone() });
    hops.push(top(ex(&bob, Msg::Migrate { c: x.clone(), new_code: 2, p })));
    hops.push(Hop::Info { c: x.clone() });
    out.push(History { users: users.clone(), hops });
    out
}

fn is_admin_msg(m: &Msg) -> bool {
    matches!(m, Msg::Migrate { .. } | Msg::UpdateAdmin { .. } | Msg::ClearAdmin { .. })
}

fn main() {
    run_reg_prop(
        "C12",
        "c12",
        fixed(),
        &|rng, thorough| G::new(rng).run(thorough),
        40,
        400,
        "histories = code table (auto, without migrate entry point, non-contiguous explicit id, auto after the gap, duplicate, three ContractWrapper-registered codes: full / without migrate / without sudo+reply), six contracts (admin = creator; none; a user other than the creator; a dispatcher contract that is its own creator's; another contract; the contract itself), then 6-20 attempts: target x actor (current admin as reported by the registry, creator, former admins, strangers, senders the chain's Api cannot validate, a contract acting through a sub-message under every reply mode, dispatched from execute, sudo, instantiate, a reply program, or the MIGRATE entry point of the new code) x operation (Migrate to the same / another / duplicate / entry-point-less / unknown / zero / non-contiguous code with a clean, failing, malformed or sub-message-dispatching migrate program; UpdateAdmin to users, contracts, itself, an invalid string; ClearAdmin), each framed by ContractInfo / contract_data / dump_wasm_raw observations and followed by execute / sudo calls on the target. 7 fixed histories first (ContractWrapper codes lacking migrate / sudo / reply as migrate targets and sources; a self-admin contract migrated in its own name whose new code returns admin operations on itself or calls back; senders the Api cannot validate — plain name, foreign prefix, upper-cased admin, empty string — against contracts with no / cleared / normal admin; F2 witness + full life cycle; contracts as admins; a contract NOT its own admin returning admin operations from migrate / sudo / instantiate / reply under every reply mode; a contract that IS its own admin doing the same). non-trivial = at least one admin operation accepted and at least one refused",
        &|h, obs| {
            let mut acc = false;
            let mut refu = false;
            for (x, o) in h.hops.iter().zip(obs.iter()) {
                if let (Hop::Top { op, .. }, HObs::Top(s)) = (x, o) {
                    let direct = match op {
                        TopOp::Exec { m, .. } => is_admin_msg(m),
                        TopOp::HelperMigrate { .. } => true,
                        _ => false,
                    };
                    if direct {
                        if matches!(s.outcome, OutcomeS::Ok(_)) {
                            acc = true
                        } else {
                            refu = true
                        }
                    }
                }
            }
            acc && refu
        },
    );
}
