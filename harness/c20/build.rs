//! Generates the compiled builder chains (the types change with every `with_*` call, so every chain is
//! its own piece of Rust): OUT_DIR/chains.rs
//!   APP_CHAINS : (ctor, step ids, fn(markers) -> AppObs)      AppBuilder chains
//!   WRAP_CHAINS: (ctor, step ids, fn(markers) -> Box<dyn Contract>)  ContractWrapper chains
//! The families are fixed at build time (deterministic LCG); the MARKER VALUES are supplied at run time
//! from the seed.
use std::fmt::Write as _;

const APP_STEPS: [&str; 11] = ["api", "block", "storage", "bank", "wasm", "custom", "staking", "distribution", "ibc", "gov", "stargate"];

struct Lcg(u64);
impl Lcg {
    fn next(&mut self) -> u64 {
        self.0 = self.0.wrapping_mul(6364136223846793005).wrapping_add(1442695040888963407);
        self.0 >> 33
    }
    fn below(&mut self, n: u64) -> u64 {
        self.next() % n
    }
    fn shuffle<T>(&mut self, v: &mut [T]) {
        for i in (1..v.len()).rev() {
            let j = self.below(i as u64 + 1) as usize;
            v.swap(i, j);
        }
    }
}

fn app_chains() -> Vec<Vec<u8>> {
    let mut v: Vec<Vec<u8>> = vec![vec![]];
    for a in 0..11u8 {
        v.push(vec![a]);
    }
    for a in 0..11u8 {
        v.push(vec![a, a]); // override: the last call wins
    }
    for a in 0..11u8 {
        for b in 0..11u8 {
            if a != b {
                v.push(vec![a, b]); // all 110 ordered pairs
            }
        }
    }
    for a in 0..11u8 {
        v.push(vec![a, (a + 1) % 11, a]); // override across another step
        v.push(vec![a, (a + 4) % 11, (a + 7) % 11, a]);
    }
    let mut r = Lcg(0x5eed_c20);
    let id: Vec<u8> = (0..11).collect();
    v.push(id.clone());
    v.push(id.iter().rev().cloned().collect());
    for _ in 0..18 {
        let mut p = id.clone();
        r.shuffle(&mut p);
        v.push(p); // full permutations of all 11 steps
    }
    for _ in 0..30 {
        let mut p = id.clone();
        r.shuffle(&mut p);
        let k = 3 + r.below(6) as usize;
        let mut c: Vec<u8> = p[..k].to_vec();
        if r.below(2) == 0 {
            let again = c[r.below(k as u64) as usize];
            c.push(again); // a repeated step somewhere
        }
        v.push(c);
    }
    v
}

const WRAP_STEPS: [&str; 7] = ["with_sudo", "with_sudo_empty", "with_reply", "with_reply_empty", "with_migrate", "with_migrate_empty", "with_checksum"];

fn wrap_chains() -> Vec<Vec<u8>> {
    // all ordered subsets of {sudo, reply, migrate, checksum}, each non-checksum step in both variants
    let mut out: Vec<Vec<u8>> = vec![];
    fn rec(cur: &mut Vec<u8>, used: u8, out: &mut Vec<Vec<u8>>) {
        out.push(cur.clone());
        for k in 0..4u8 {
            if used & (1 << k) == 0 {
                if k == 3 {
                    cur.push(6);
                    rec(cur, used | 8, out);
                    cur.pop();
                } else {
                    for var in 0..2u8 {
                        cur.push(2 * k + var);
                        rec(cur, used | (1 << k), out);
                        cur.pop();
                    }
                }
            }
        }
    }
    rec(&mut vec![], 0, &mut out);
    // repetitions: the last call wins, also across other steps and across the two variants
    for k in 0..3u8 {
        out.push(vec![2 * k, 2 * k]);
        out.push(vec![2 * k, 2 * k + 1]);
        out.push(vec![2 * k + 1, 2 * k]);
        out.push(vec![6, 2 * k, 6]);
        out.push(vec![2 * k, 6, 2 * k + 1, 6]);
    }
    out.push(vec![6, 6]);
    out.push(vec![6, 0, 2, 4, 6, 1, 3, 5]);
    out
}

fn main() {
    let mut o = String::new();
    let apps = app_chains();
    for (i, c) in apps.iter().enumerate() {
        // both constructors (same defaults; see Properties/C20.v builder_defaults)
        let ctor = if i % 2 == 0 { "AppBuilder::new()" } else { "BasicAppBuilder::<Empty, Empty>::new_custom()" };
        writeln!(o, "#[allow(unused_variables)]\nfn app_chain_{}(m: &[u64]) -> AppObs {{", i).unwrap();
        writeln!(o, "    let cell = InitCell::default();").unwrap();
        writeln!(o, "    let app = {}", ctor).unwrap();
        for (p, s) in c.iter().enumerate() {
            let n = APP_STEPS[*s as usize];
            writeln!(o, "        .with_{}(m_{}(m[{}]))", n, n, p).unwrap();
        }
        writeln!(o, "        .build(|r, a, s| init_probe(&cell, r, a, s));").unwrap();
        writeln!(o, "    observe(app, &cell)\n}}").unwrap();
    }
    writeln!(o, "pub const APP_CHAINS: &[(u8, &[u8], fn(&[u64]) -> AppObs)] = &[").unwrap();
    for (i, c) in apps.iter().enumerate() {
        writeln!(o, "    ({}, &{:?}, app_chain_{}),", i % 2, c, i).unwrap();
    }
    writeln!(o, "];").unwrap();

    let wraps = wrap_chains();
    let mut idx = 0;
    let mut table = String::new();
    for c in &wraps {
        for ctor in 0..2u8 {
            writeln!(o, "#[allow(unused_variables)]\nfn wrap_chain_{}(m: &[u64]) -> Box<dyn Contract<CMsg, CQuery>> {{", idx).unwrap();
            if ctor == 0 {
                writeln!(o, "    Box::new(ContractWrapper::new(exec_c::<1>, inst_c::<2>, query_c::<3>)").unwrap();
            } else {
                writeln!(o, "    Box::new(ContractWrapper::<_, _, _, _, _, _, CMsg, CQuery>::new_with_empty(exec_e::<1>, inst_e::<2>, query_e::<3>)").unwrap();
            }
            for (p, s) in c.iter().enumerate() {
                let name = WRAP_STEPS[*s as usize];
                let arg = match s {
                    0 => format!("sudo_c::<{}>", 10 + p),
                    1 => format!("sudo_e::<{}>", 10 + p),
                    2 => format!("reply_c::<{}>", 10 + p),
                    3 => format!("reply_e::<{}>", 10 + p),
                    4 => format!("migrate_c::<{}>", 10 + p),
                    5 => format!("migrate_e::<{}>", 10 + p),
                    _ => format!("ck(m[{}])", p),
                };
                writeln!(o, "        .{}({})", name, arg).unwrap();
            }
            writeln!(o, "    )\n}}").unwrap();
            writeln!(table, "    ({}, &{:?}, wrap_chain_{}),", ctor, c, idx).unwrap();
            idx += 1;
        }
    }
    writeln!(o, "pub const WRAP_CHAINS: &[(u8, &[u8], fn(&[u64]) -> Box<dyn Contract<CMsg, CQuery>>)] = &[\n{}];", table).unwrap();
    let dir = std::env::var("OUT_DIR").unwrap();
    std::fs::write(std::path::Path::new(&dir).join("chains.rs"), o).unwrap();
    println!("cargo:rerun-if-changed=build.rs");
}
