mod c20;
fn main() {
    let args = common::parse_args("C20");
    c20::run(&args);
}
