//! C10: queries are pure and observe exactly the transaction's current state.
//! Scenarios with query actions at every node of the message trees (bank balance / all / supply, raw,
//! smart nested up to 3, contract-info, code-info) and, after every top-level call, a batch of App-level
//! queries through `App::wrap()` (the same kinds + staking + custom) ISSUED TWICE, with SHA-256 digests
//! of the complete raw root store around each batch.
use common::{Case, Out};
use exec_common::driver::{classic_address, user};
use exec_common::gen::{default_codes, Cfg, G};
use exec_common::iso::*;
use exec_common::*;

const HEADER: &str = "From Verif Require Import Base OMap Text Proto Bank Exec ChkExec ChkX ChkQ.";

fn leaf(node: u64, acts: Vec<Action>) -> Prog {
    Prog { node, acts, out: Output::Resp { attrs: vec![], events: vec![], data: None, subs: vec![] } }
}
fn marker(n: u64) -> Action {
    Action::Write(format!("m{}", n).into_bytes(), vec![1])
}
fn coin(d: &str, a: u128) -> CoinS {
    CoinS { denom: d.into(), amount: a }
}

/// add queries to every program of the tree; right after the marker of an execute / instantiate with
/// funds: the callee's own balance in the first attached denom
fn sprinkle_prog(g: &mut G, p: &mut Prog, own_balance: Option<(String, String)>) {
    let mut extra: Vec<Action> = vec![];
    if let Some((c, d)) = own_balance {
        extra.push(Action::Q(QAct::Balance(c, d)));
    }
    let at = 1.min(p.acts.len());
    for (i, a) in extra.into_iter().enumerate() {
        p.acts.insert(at + i, a);
    }
    let n = 1 + g.rng.below(2);
    for _ in 0..n {
        let q = g.qact(0);
        let pos = 1 + g.rng.below(p.acts.len() as u64) as usize;
        p.acts.insert(pos.min(p.acts.len()), Action::Q(q));
    }
    if g.contracts.len() >= 2 && g.rng.chance(1, 6) {
        // a smart query nested 3 deep, issued mid-transaction
        let (c0, c1) = (g.contracts[0].clone(), g.contracts[1].clone());
        let base = 700_000 + p.node * 10;
        let q3 = QProg { node: base + 3, acts: vec![QAct::Dump, QAct::Balance(c1.clone(), "uatom".into())], ans: Some(vec![3]) };
        let q2 = QProg { node: base + 2, acts: vec![QAct::Smart(c0.clone(), Box::new(q3)), QAct::Read(b"a".to_vec())], ans: if g.rng.chance(1, 5) { None } else { Some(vec![2]) } };
        let q1 = QProg { node: base + 1, acts: vec![QAct::Dump, QAct::Smart(c1.clone(), Box::new(q2)), QAct::Supply("uatom".into())], ans: Some(vec![1]) };
        p.acts.push(Action::Q(QAct::Smart(c0, Box::new(q1))));
    }
    if let Output::Resp { subs, .. } = &mut p.out {
        for s in subs.iter_mut() {
            sprinkle_msg(g, &mut s.m);
            sprinkle_prog(g, &mut s.on_ok, None);
            sprinkle_prog(g, &mut s.on_err, None);
        }
    }
}
fn sprinkle_msg(g: &mut G, m: &mut Msg) {
    match m {
        Msg::Exec { c, p, funds } => {
            let ob = funds.first().map(|f| (c.clone(), f.denom.clone()));
            sprinkle_prog(g, p, ob);
        }
        Msg::Inst { p, .. } | Msg::Migrate { p, .. } => sprinkle_prog(g, p, None),
        _ => {}
    }
}
fn sprinkle(g: &mut G, sc: &mut Scenario, from: usize) {
    for st in sc.steps.iter_mut().skip(from) {
        match &mut st.op {
            TopOp::ExecMulti { ms, .. } => ms.iter_mut().for_each(|m| sprinkle_msg(g, m)),
            TopOp::Exec { m, .. } => sprinkle_msg(g, m),
            TopOp::WasmSudo { p, .. } | TopOp::HelperInst { p, .. } | TopOp::HelperMigrate { p, .. } => sprinkle_prog(g, p, None),
            TopOp::HelperExec { c, p, funds, .. } => {
                let ob = funds.first().map(|f| (c.clone(), f.denom.clone()));
                sprinkle_prog(g, p, ob)
            }
            _ => {}
        }
    }
}

/// the App-level batch: every query kind, existing and non-existing targets, smart queries nested 3 deep
fn batch_for(users: &[String], contracts: &[String]) -> Vec<QAct> {
    let c0 = contracts.first().cloned().unwrap_or_else(|| users[0].clone());
    let c1 = contracts.get(1).cloned().unwrap_or_else(|| c0.clone());
    let mut b = vec![];
    for a in users.iter().chain(contracts.iter()) {
        b.push(QAct::Balance(a.clone(), "uatom".into()));
    }
    b.push(QAct::Balance(c0.clone(), "btc".into()));
    b.push(QAct::Balance("not an address".into(), "uatom".into()));
    b.push(QAct::AllBal(c0.clone()));
    b.push(QAct::AllBal(users[0].clone()));
    b.push(QAct::Supply("uatom".into()));
    b.push(QAct::Supply("btc".into()));
    b.push(QAct::Supply("nothing".into()));
    b.push(QAct::Raw(c0.clone(), b"a".to_vec()));
    b.push(QAct::Raw(c1.clone(), b"zz".to_vec()));
    b.push(QAct::Raw(users[1].clone(), b"a".to_vec()));
    let inner3 = QProg { node: 800_003, acts: vec![QAct::Dump, QAct::Supply("uatom".into())], ans: Some(vec![3]) };
    let inner2 = QProg { node: 800_002, acts: vec![QAct::Read(b"a".to_vec()), QAct::Smart(c0.clone(), Box::new(inner3)), QAct::Balance(c1.clone(), "uatom".into())], ans: Some(vec![2]) };
    let inner1 = QProg { node: 800_001, acts: vec![QAct::Dump, QAct::Balance(c0.clone(), "uatom".into()), QAct::Smart(c1.clone(), Box::new(inner2)), QAct::Info(c1.clone())], ans: Some(vec![1]) };
    b.push(QAct::Smart(c0.clone(), Box::new(inner1)));
    b.push(QAct::Smart(c1.clone(), Box::new(QProg { node: 800_004, acts: vec![QAct::Dump], ans: None })));
    b.push(QAct::Smart(users[2].clone(), Box::new(QProg { node: 800_005, acts: vec![], ans: Some(vec![]) })));
    b.push(QAct::Info(c0.clone()));
    b.push(QAct::Info(c1.clone()));
    b.push(QAct::Info(users[0].clone()));
    for id in [1u64, 2, 7, 9, 3] {
        b.push(QAct::CodeInfo(id));
    }
    b
}

// ---------- shapes: a COMMITTED key is overwritten / removed, then read later in the same transaction ----------
fn fresh(g: &mut G) -> u64 {
    let n = g.next_node;
    g.next_node += 1;
    n
}
/// the writer's actions on key k (k is committed below the transaction)
fn writer_acts(variant: u64, k: &[u8], n: u64) -> Vec<Action> {
    let v1 = vec![(n & 255) as u8, 1];
    let v2 = vec![(n & 255) as u8, 2];
    match variant % 5 {
        0 => vec![Action::Write(k.to_vec(), v1), Action::Remove(k.to_vec())],
        1 => vec![Action::Remove(k.to_vec())],
        2 => vec![Action::Write(k.to_vec(), v1)],
        3 => vec![Action::Write(k.to_vec(), v1), Action::Remove(k.to_vec()), Action::Write(k.to_vec(), v2)],
        _ => vec![Action::Remove(k.to_vec()), Action::Write(k.to_vec(), v2), Action::Remove(k.to_vec())],
    }
}
fn reader_prog(n: u64, qn: u64, c: &str, k: &[u8], other: &[u8]) -> Prog {
    leaf(
        n,
        vec![
            marker(n),
            Action::Q(QAct::Raw(c.to_string(), k.to_vec())),
            Action::Q(QAct::Raw(c.to_string(), other.to_vec())),
            Action::Q(QAct::Smart(c.to_string(), Box::new(QProg { node: qn, acts: vec![QAct::Read(k.to_vec()), QAct::Dump], ans: Some(vec![7]) }))),
        ],
    )
}
/// one shape as a top-level step; `c` holds the committed keys `k` and `other`
fn shape_op(g: &mut G, shape: u64, variant: u64, sender: &str, c: &str, c2: &str, k: &[u8], other: &[u8]) -> TopOp {
    let n = fresh(g);
    let mut acts = vec![marker(n)];
    acts.extend(writer_acts(variant, k, n));
    match shape % 4 {
        // same body: its own get / range after its own write + remove
        0 => {
            acts.push(Action::Q(QAct::Read(k.to_vec())));
            acts.push(Action::Q(QAct::Dump));
            acts.push(Action::Q(QAct::Read(other.to_vec())));
            TopOp::Exec { sender: sender.into(), m: Msg::Exec { c: c.into(), p: leaf(n, acts), funds: vec![] } }
        }
        // the first sub-message (another contract, or the same one) queries the parent after the parent's body finished
        1 => {
            let (n2, q2, n3, n4) = (fresh(g), fresh(g), fresh(g), fresh(g));
            let target = if variant % 2 == 0 { c2 } else { c };
            let sub = Sub {
                id: 1,
                payload: vec![],
                ro: if variant % 3 == 0 { ReplyOnS::Success } else { ReplyOnS::Never },
                m: Box::new(Msg::Exec { c: target.into(), p: reader_prog(n2, q2, c, k, other), funds: vec![] }),
                on_ok: leaf(n3, vec![marker(n3), Action::Q(QAct::Read(k.to_vec())), Action::Q(QAct::Raw(c.to_string(), k.to_vec()))]),
                on_err: leaf(n4, vec![marker(n4)]),
            };
            let p = Prog { node: n, acts, out: Output::Resp { attrs: vec![], events: vec![], data: None, subs: vec![sub] } };
            TopOp::Exec { sender: sender.into(), m: Msg::Exec { c: c.into(), p, funds: vec![] } }
        }
        // the next message of one execute_multi
        2 => {
            let (n2, q2) = (fresh(g), fresh(g));
            TopOp::ExecMulti {
                sender: sender.into(),
                ms: vec![Msg::Exec { c: c.into(), p: leaf(n, acts), funds: vec![] }, Msg::Exec { c: c2.into(), p: reader_prog(n2, q2, c, k, other), funds: vec![] }],
            }
        }
        // through sudo, with an instantiate (whose body queries the parent) as the first sub-message
        _ => {
            let (n2, q2, n3, n4) = (fresh(g), fresh(g), fresh(g), fresh(g));
            let sub = Sub {
                id: 2,
                payload: vec![2],
                ro: ReplyOnS::Never,
                m: Box::new(Msg::Inst { code_id: 1, p: reader_prog(n2, q2, c, k, other), funds: vec![], label: "L".into(), admin: None, salt: None }),
                on_ok: leaf(n3, vec![marker(n3)]),
                on_err: leaf(n4, vec![marker(n4)]),
            };
            TopOp::WasmSudo { c: c.into(), p: Prog { node: n, acts, out: Output::Resp { attrs: vec![], events: vec![], data: None, subs: vec![sub] } } }
        }
    }
}
fn inst_with_funds(g: &mut G, sender: &str, nested_under: Option<&str>) -> TopOp {
    let n = fresh(g);
    let code_id = *g.rng.pick(&[1u64, 2, 9]);
    let funds = if g.rng.chance(1, 3) { vec![coin("uatom", 3), coin("btc", 1)] } else { vec![coin("uatom", 1 + g.rng.below(5) as u128)] };
    let inst = Msg::Inst { code_id, p: leaf(n, vec![marker(n)]), funds, label: "F".into(), admin: None, salt: if g.rng.chance(1, 4) { Some(vec![n as u8]) } else { None } };
    match nested_under {
        None => TopOp::Exec { sender: sender.into(), m: inst },
        Some(c) => {
            let (n0, n3, n4) = (fresh(g), fresh(g), fresh(g));
            let sub = Sub { id: 3, payload: vec![], ro: ReplyOnS::Success, m: Box::new(inst), on_ok: leaf(n3, vec![marker(n3)]), on_err: leaf(n4, vec![marker(n4)]) };
            let p = Prog { node: n0, acts: vec![marker(n0)], out: Output::Resp { attrs: vec![], events: vec![], data: None, subs: vec![sub] } };
            TopOp::Exec { sender: sender.into(), m: Msg::Exec { c: c.into(), p, funds: vec![coin("uatom", 9)] } }
        }
    }
}
/// 2-4 shape steps, to be placed right after the setup (where "a" and the instantiate markers are committed)
fn shape_steps(g: &mut G, k_contracts: usize) -> Vec<Step> {
    let b = G::block0();
    let mut steps = vec![];
    let n = 2 + g.rng.below(3);
    for _ in 0..n {
        let sender = g.some_user();
        let i = g.rng.below(k_contracts as u64) as usize;
        let j = (i + 1 + g.rng.below((k_contracts - 1).max(1) as u64) as usize) % k_contracts;
        let (c, c2) = (g.contracts[i].clone(), g.contracts[j].clone());
        let mk = format!("m{}", i + 1).into_bytes();
        let (k, other) = if g.rng.chance(1, 2) { (b"a".to_vec(), mk) } else { (mk, b"a".to_vec()) };
        let op = if g.rng.chance(1, 4) {
            let under = if g.rng.chance(1, 3) { Some(c.as_str()) } else { None };
            inst_with_funds(g, &sender, under)
        } else {
            let (shape, variant) = (g.rng.below(4), g.rng.below(5));
            shape_op(g, shape, variant, &sender, &c, &c2, &k, &other)
        };
        steps.push(Step { block: b.clone(), op });
    }
    steps
}

// ---------- second pass: the own-balance probe of an instantiate needs the new contract's address ----------
fn probe_prog(p: &mut Prog, funds: &[CoinS], addr_of: &std::collections::BTreeMap<u64, String>) {
    if let (Some(f), Some(a)) = (funds.first(), addr_of.get(&p.node)) {
        let at = 1.min(p.acts.len());
        p.acts.insert(at, Action::Q(QAct::Balance(a.clone(), f.denom.clone())));
    }
}
fn probe_tree_prog(p: &mut Prog, addr_of: &std::collections::BTreeMap<u64, String>) {
    if let Output::Resp { subs, .. } = &mut p.out {
        for s in subs.iter_mut() {
            probe_msg(&mut s.m, addr_of);
            probe_tree_prog(&mut s.on_ok, addr_of);
            probe_tree_prog(&mut s.on_err, addr_of);
        }
    }
}
fn probe_msg(m: &mut Msg, addr_of: &std::collections::BTreeMap<u64, String>) {
    match m {
        Msg::Inst { p, funds, .. } => {
            probe_prog(p, funds, addr_of);
            probe_tree_prog(p, addr_of);
        }
        Msg::Exec { p, .. } | Msg::Migrate { p, .. } => probe_tree_prog(p, addr_of),
        _ => {}
    }
}
/// run once, learn the address every instantiate program was told, insert `Balance(self, first attached denom)`
/// right after its marker
fn add_inst_probes(sc: &mut Scenario, batch: &[QAct]) {
    let obs = run_scenario_q(sc, &batch[..0]);
    let mut addr_of = std::collections::BTreeMap::new();
    for o in &obs {
        for e in &o.step.trace {
            if let Entry::Call { node, ep: Ep::Inst, callee, .. } = e {
                addr_of.insert(*node, callee.clone());
            }
        }
    }
    for st in sc.steps.iter_mut() {
        match &mut st.op {
            TopOp::ExecMulti { ms, .. } => ms.iter_mut().for_each(|m| probe_msg(m, &addr_of)),
            TopOp::Exec { m, .. } => probe_msg(m, &addr_of),
            TopOp::HelperInst { p, funds, .. } => {
                probe_prog(p, funds, &addr_of);
                probe_tree_prog(p, &addr_of)
            }
            TopOp::WasmSudo { p, .. } | TopOp::HelperMigrate { p, .. } | TopOp::HelperExec { p, .. } => probe_tree_prog(p, &addr_of),
            _ => {}
        }
    }
}

/// fixed corpus: every shape x every writer variant, each preceded by a call that re-commits the key
// ---------- rollback shapes: the code behind an address changes, the address is smart-queried in the same
// transaction, the change is rolled back (whole call fails / caught with ReplyOn::Error), then it is asked again ----------
const NEW: &str = "@NEW";
fn dump_q(g: &mut G, c: &str) -> QAct {
    let qn = fresh(g);
    QAct::Smart(c.to_string(), Box::new(QProg { node: qn, acts: vec![QAct::Dump], ans: Some(vec![5]) }))
}
fn probe_prog_for(g: &mut G, target: &str) -> Prog {
    let n = fresh(g);
    let q = dump_q(g, target);
    leaf(n, vec![marker(n), Action::Q(QAct::Info(target.to_string())), Action::Q(q), Action::Q(QAct::Raw(target.to_string(), b"a".to_vec()))])
}
fn failing_msg(g: &mut G, c1: &str) -> Msg {
    match g.rng.below(3) {
        0 => Msg::Custom { ok: false, tag: 13 },
        1 => {
            let n = fresh(g);
            Msg::Exec { c: c1.into(), p: Prog { node: n, acts: vec![marker(n)], out: Output::Fail }, funds: vec![] }
        }
        _ => Msg::BankSend { to: c1.into(), amt: vec![coin("uatom", 1_000_000)] },
    }
}
/// `family` 0..7; contracts[0] (code 1, admin = users[0]) is the migrated one, contracts[1] (code 2, has reply) the prober.
/// Returns the steps and whether the placeholder address NEW is used
fn rollback_family(g: &mut G, family: u64) -> (Vec<Step>, bool) {
    let b = G::block0();
    let alice = g.users[0].clone();
    let user = g.users[1].clone();
    let (c0, c1) = (g.contracts[0].clone(), g.contracts[1].clone());
    let new_code = *g.rng.pick(&[7u64, 9]);
    let mut steps = vec![];
    let mut push = |op: TopOp| steps.push(Step { block: b.clone(), op });
    let mut uses_new = false;
    let target: String;
    match family % 7 {
        // execute_multi: migrate, a sibling message smart-queries, a later message fails
        0 => {
            target = c0.clone();
            let n = fresh(g);
            let probe = probe_prog_for(g, &c0);
            let fail = failing_msg(g, &c1);
            push(TopOp::ExecMulti { sender: alice.clone(), ms: vec![Msg::Migrate { c: c0.clone(), new_code, p: leaf(n, vec![marker(n)]) }, Msg::Exec { c: c1.clone(), p: probe, funds: vec![] }, fail] });
        }
        // one migrate call whose entry point asks its own address and then rejects
        1 => {
            target = c0.clone();
            let n = fresh(g);
            let q = dump_q(g, &c0);
            let p = Prog { node: n, acts: vec![marker(n), Action::Q(q), Action::Q(QAct::Info(c0.clone()))], out: Output::Fail };
            if g.rng.chance(1, 2) {
                push(TopOp::Exec { sender: alice.clone(), m: Msg::Migrate { c: c0.clone(), new_code, p } });
            } else {
                push(TopOp::HelperMigrate { sender: alice.clone(), c: c0.clone(), new_code, p });
            }
        }
        // caught: c1 becomes admin of c0, dispatches the migration as a sub-message with ReplyOn::Error / Always;
        // the reply that catches the failure asks c0
        2 => {
            target = c0.clone();
            push(TopOp::Exec { sender: alice.clone(), m: Msg::UpdateAdmin { c: c0.clone(), a: c1.clone() } });
            let (n, nm) = (fresh(g), fresh(g));
            let q = dump_q(g, &c0);
            let mig = Msg::Migrate { c: c0.clone(), new_code, p: Prog { node: nm, acts: vec![marker(nm), Action::Q(q)], out: Output::Fail } };
            let on_err = probe_prog_for(g, &c0);
            let nk = fresh(g);
            let sub = Sub { id: 7, payload: vec![7], ro: if g.rng.chance(1, 2) { ReplyOnS::Error } else { ReplyOnS::Always }, m: Box::new(mig), on_ok: leaf(nk, vec![marker(nk)]), on_err };
            let later = probe_prog_for(g, &c0);
            let nl = fresh(g);
            let sub2 = Sub { id: 8, payload: vec![], ro: ReplyOnS::Never, m: Box::new(Msg::Exec { c: c1.clone(), p: later, funds: vec![] }), on_ok: leaf(nl, vec![marker(nl)]), on_err: leaf(nl + 1_000_000, vec![]) };
            let p = Prog { node: n, acts: vec![marker(n)], out: Output::Resp { attrs: vec![], events: vec![], data: None, subs: vec![sub, sub2] } };
            push(TopOp::Exec { sender: user.clone(), m: Msg::Exec { c: c1.clone(), p, funds: vec![] } });
        }
        // execute_multi: instantiate, a sibling smart-queries the new address, a later message fails
        3 => {
            target = NEW.to_string();
            uses_new = true;
            let n = fresh(g);
            let probe = probe_prog_for(g, NEW);
            let fail = failing_msg(g, &c1);
            let inst = Msg::Inst { code_id: 2, p: leaf(n, vec![marker(n), Action::Write(b"a".to_vec(), vec![9])]), funds: vec![], label: "ghost".into(), admin: None, salt: None };
            push(TopOp::ExecMulti { sender: alice.clone(), ms: vec![inst, Msg::Exec { c: c1.clone(), p: probe, funds: vec![] }, fail] });
        }
        // bank supply: a burn, then a Supply query by a contract, then the whole execute_multi fails
        5 => {
            target = String::new();
            let np = fresh(g);
            let probe = leaf(np, vec![marker(np), Action::Q(QAct::Supply("uatom".into())), Action::Q(QAct::Supply("btc".into()))]);
            let burn = if g.rng.chance(1, 2) {
                Msg::BankBurn { amt: vec![coin("uatom", 3)] }
            } else {
                let (n, n3, n4) = (fresh(g), fresh(g), fresh(g));
                let sub = Sub { id: 4, payload: vec![], ro: ReplyOnS::Never, m: Box::new(Msg::BankBurn { amt: vec![coin("uatom", 2)] }), on_ok: leaf(n3, vec![marker(n3)]), on_err: leaf(n4, vec![marker(n4)]) };
                Msg::Exec { c: c0.clone(), p: Prog { node: n, acts: vec![marker(n)], out: Output::Resp { attrs: vec![], events: vec![], data: None, subs: vec![sub] } }, funds: vec![] }
            };
            let fail = if g.rng.chance(1, 2) {
                Msg::Custom { ok: false, tag: 14 }
            } else {
                let n = fresh(g);
                Msg::Exec { c: c1.clone(), p: Prog { node: n, acts: vec![marker(n)], out: Output::Fail }, funds: vec![] }
            };
            push(TopOp::ExecMulti { sender: user.clone(), ms: vec![burn, Msg::Exec { c: c1.clone(), p: probe, funds: vec![] }, fail] });
        }
        // bank supply, caught: c0 burns, a later sub-message asks the supply, c0's call fails, the caller's reply
        // handles the error (and asks again); the outer transaction commits without any further balance write
        6 => {
            target = String::new();
            let (n, n0, np, nk, nr) = (fresh(g), fresh(g), fresh(g), fresh(g), fresh(g));
            let mk = |g: &mut G, id: u64, m: Msg| {
                let (a, b) = (fresh(g), fresh(g));
                Sub { id, payload: vec![], ro: ReplyOnS::Never, m: Box::new(m), on_ok: leaf(a, vec![marker(a)]), on_err: leaf(b, vec![marker(b)]) }
            };
            let s1 = mk(g, 1, Msg::BankBurn { amt: vec![coin("uatom", 2)] });
            let s2 = mk(g, 2, Msg::Exec { c: c1.clone(), p: leaf(np, vec![marker(np), Action::Q(QAct::Supply("uatom".into()))]), funds: vec![] });
            let s3 = mk(g, 3, Msg::Custom { ok: false, tag: 15 });
            let inner = Msg::Exec { c: c0.clone(), p: Prog { node: n0, acts: vec![marker(n0)], out: Output::Resp { attrs: vec![], events: vec![], data: None, subs: vec![s1, s2, s3] } }, funds: vec![] };
            let on_err = leaf(nr, vec![marker(nr), Action::Q(QAct::Supply("uatom".into())), Action::Q(QAct::Balance(c0.clone(), "uatom".into()))]);
            let sub = Sub { id: 6, payload: vec![6], ro: ReplyOnS::Error, m: Box::new(inner), on_ok: leaf(nk, vec![marker(nk)]), on_err };
            let p = Prog { node: n, acts: vec![marker(n)], out: Output::Resp { attrs: vec![], events: vec![], data: None, subs: vec![sub] } };
            push(TopOp::Exec { sender: user.clone(), m: Msg::Exec { c: c1.clone(), p, funds: vec![] } });
        }
        // caught: an instantiate sub-message whose entry point asks its own (new) address and then fails
        _ => {
            target = NEW.to_string();
            uses_new = true;
            let (n, ni) = (fresh(g), fresh(g));
            let q = dump_q(g, NEW);
            let inst = Msg::Inst { code_id: 1, p: Prog { node: ni, acts: vec![marker(ni), Action::Write(b"a".to_vec(), vec![8]), Action::Q(q)], out: Output::Fail }, funds: vec![], label: "ghost".into(), admin: None, salt: None };
            let on_err = probe_prog_for(g, NEW);
            let nk = fresh(g);
            let sub = Sub { id: 9, payload: vec![], ro: ReplyOnS::Error, m: Box::new(inst), on_ok: leaf(nk, vec![marker(nk)]), on_err };
            let p = Prog { node: n, acts: vec![marker(n)], out: Output::Resp { attrs: vec![], events: vec![], data: None, subs: vec![sub] } };
            push(TopOp::Exec { sender: user.clone(), m: Msg::Exec { c: c1.clone(), p, funds: vec![] } });
        }
    }
    // later, in a transaction of its own (no funds: no balance write): an in-contract smart query to the address /
    // an in-contract Supply query
    let later = if target.is_empty() {
        let n = fresh(g);
        leaf(n, vec![marker(n), Action::Q(QAct::Supply("uatom".into())), Action::Q(QAct::Balance(c0.clone(), "uatom".into()))])
    } else {
        probe_prog_for(g, &target)
    };
    push(TopOp::Exec { sender: user, m: Msg::Exec { c: c1, p: later, funds: vec![] } });
    (steps, uses_new)
}
/// replace the placeholder by the address the (rolled-back) instantiate was told in a first run
fn resolve_new(sc: &mut Scenario, batch: &mut Vec<QAct>) {
    let obs = run_scenario_q(sc, &batch[..0]);
    let mut addr = None;
    'outer: for (st, o) in sc.steps.iter().zip(obs.iter()) {
        if serde_json::to_string(st).unwrap().contains(NEW) {
            for e in &o.step.trace {
                if let Entry::Call { ep: Ep::Inst, callee, .. } = e {
                    addr = Some(callee.clone());
                    break 'outer;
                }
            }
        }
    }
    if let Some(a) = addr {
        let js = serde_json::to_string(&(&*sc, &*batch)).unwrap().replace(NEW, &a);
        let (s2, b2): (Scenario, Vec<QAct>) = serde_json::from_str(&js).unwrap();
        *sc = s2;
        *batch = b2;
    }
}
fn batch_with_new(batch: &mut Vec<QAct>) {
    batch.push(QAct::Info(NEW.to_string()));
    batch.push(QAct::Smart(NEW.to_string(), Box::new(QProg { node: 800_010, acts: vec![QAct::Dump], ans: Some(vec![4]) })));
    batch.push(QAct::Raw(NEW.to_string(), b"a".to_vec()));
}

/// fixed corpus: every rollback family (fresh chain each, so that the admin of c0 is what the family expects)
fn fixed_rollbacks() -> Vec<(Scenario, Vec<QAct>)> {
    let mut out = vec![];
    for family in 0..7u64 {
        let mut rng = common::Rng::new(777 + family);
        let mut g = G::new(&mut rng, Cfg::default());
        let mut steps = g.setup(2);
        let (fs, uses_new) = rollback_family(&mut g, family);
        steps.extend(fs);
        // the same family once more: the second round starts with the cache of the first one
        if family < 2 || family == 5 {
            let (fs2, _) = rollback_family(&mut g, family);
            steps.extend(fs2);
        }
        let mut sc = Scenario { codes: g.codes.clone(), steps, users: g.users.clone() };
        let mut batch = batch_for(&sc.users, &g.contracts);
        if uses_new {
            batch_with_new(&mut batch);
            resolve_new(&mut sc, &mut batch);
        }
        out.push((sc, batch));
    }
    out
}

fn fixed_shapes() -> (Scenario, Vec<QAct>) {
    let mut rng = common::Rng::new(4242);
    let mut g = G::new(&mut rng, Cfg::default());
    let mut steps = g.setup(2);
    let users = g.users.clone();
    let (c, c2) = (g.contracts[0].clone(), g.contracts[1].clone());
    let b = G::block0();
    for shape in 0..4u64 {
        for variant in 0..5u64 {
            let n = fresh(&mut g);
            steps.push(Step {
                block: b.clone(),
                op: TopOp::Exec { sender: users[0].clone(), m: Msg::Exec { c: c.clone(), p: leaf(n, vec![marker(n), Action::Write(b"a".to_vec(), vec![77, shape as u8, variant as u8])]), funds: vec![] } },
            });
            let op = shape_op(&mut g, shape, variant, &users[1], &c, &c2, b"a", b"m1");
            steps.push(Step { block: b.clone(), op });
        }
    }
    let u1 = users[1].clone();
    steps.push(Step { block: b.clone(), op: inst_with_funds(&mut g, &u1, None) });
    steps.push(Step { block: b.clone(), op: inst_with_funds(&mut g, &u1, Some(c.as_str())) });
    let mut sc = Scenario { codes: g.codes.clone(), steps, users: users.clone() };
    let batch = vec![QAct::Raw(c.clone(), b"a".to_vec()), QAct::Balance(c.clone(), "uatom".into()), QAct::Info(c2.clone())];
    add_inst_probes(&mut sc, &batch);
    (sc, batch)
}

fn fixed_scenarios() -> Vec<(Scenario, Vec<QAct>)> {
    let codes = default_codes();
    let (alice, bob, carol) = (user("alice"), user("bob"), user("carol"));
    let users = vec![alice.clone(), bob.clone(), carol.clone()];
    let b0 = G::block0();
    let a_addr = classic_address(1, 0);
    let b_addr = classic_address(2, 1);
    let mut steps = vec![];
    let mut step = |op: TopOp| steps.push(Step { block: b0.clone(), op });
    for u in &users {
        step(TopOp::Mint { to: u.clone(), amt: vec![coin("uatom", 100), coin("btc", 20)] });
    }
    step(TopOp::Exec { sender: alice.clone(), m: Msg::Inst { code_id: 1, p: leaf(1, vec![marker(1), Action::Write(b"a".to_vec(), vec![1])]), funds: vec![coin("uatom", 10)], label: "A".into(), admin: Some(alice.clone()), salt: None } });
    step(TopOp::Exec { sender: bob.clone(), m: Msg::Inst { code_id: 2, p: leaf(2, vec![marker(2), Action::Write(b"a".to_vec(), vec![2])]), funds: vec![], label: "B".into(), admin: None, salt: None } });
    // funds just sent are visible to the callee; its own pending write is visible to its own read, NOT to a raw
    // query on itself; a sibling sees what the earlier sibling committed; after a caught failure nothing of the
    // failed child is visible
    let child_ok = Msg::Exec {
        c: b_addr.clone(),
        p: leaf(11, vec![marker(11), Action::Q(QAct::Balance(b_addr.clone(), "btc".into())), Action::Write(b"s".to_vec(), vec![11]), Action::Q(QAct::Raw(a_addr.clone(), b"p".to_vec())), Action::Q(QAct::Raw(b_addr.clone(), b"s".to_vec()))]),
        funds: vec![coin("uatom", 2), coin("btc", 0), coin("uatom", 1)],
    };
    let child_fail = Msg::Exec {
        c: b_addr.clone(),
        p: Prog { node: 12, acts: vec![marker(12), Action::Q(QAct::Raw(b_addr.clone(), b"s".to_vec())), Action::Write(b"t".to_vec(), vec![12]), Action::Q(QAct::Balance(b_addr.clone(), "uatom".into()))], out: Output::Fail },
        funds: vec![coin("uatom", 4)],
    };
    let after = |n: u64| leaf(n, vec![marker(n), Action::Q(QAct::Raw(b_addr.clone(), b"t".to_vec())), Action::Q(QAct::Raw(b_addr.clone(), b"s".to_vec())), Action::Q(QAct::Balance(b_addr.clone(), "uatom".into())), Action::Q(QAct::Balance(a_addr.clone(), "uatom".into())), Action::Q(QAct::Read(b"p".to_vec()))]);
    let subs = vec![
        Sub { id: 1, payload: vec![], ro: ReplyOnS::Success, m: Box::new(child_ok), on_ok: after(13), on_err: leaf(14, vec![marker(14)]) },
        Sub { id: 2, payload: vec![2], ro: ReplyOnS::Error, m: Box::new(child_fail), on_ok: leaf(15, vec![marker(15)]), on_err: after(16) },
        Sub { id: 3, payload: vec![], ro: ReplyOnS::Never, m: Box::new(Msg::BankSend { to: carol.clone(), amt: vec![coin("uatom", 1)] }), on_ok: leaf(17, vec![marker(17)]), on_err: leaf(18, vec![marker(18)]) },
    ];
    let root = Prog {
        node: 10,
        acts: vec![
            marker(10),
            Action::Q(QAct::Balance(a_addr.clone(), "uatom".into())),
            Action::Write(b"p".to_vec(), vec![10]),
            Action::Q(QAct::Read(b"p".to_vec())),
            Action::Q(QAct::Raw(a_addr.clone(), b"p".to_vec())),
            Action::Q(QAct::Smart(a_addr.clone(), Box::new(QProg { node: 19, acts: vec![QAct::Read(b"p".to_vec()), QAct::Dump], ans: Some(vec![9]) }))),
        ],
        out: Output::Resp { attrs: vec![], events: vec![], data: None, subs },
    };
    step(TopOp::Exec { sender: carol.clone(), m: Msg::Exec { c: a_addr.clone(), p: root.clone(), funds: vec![coin("uatom", 7)] } });
    // the same tree again, but the root fails at the end: answers afterwards = answers before
    let mut failing = root.clone();
    failing.node = 30;
    failing.acts[0] = marker(30);
    failing.out = Output::Fail;
    step(TopOp::Exec { sender: carol.clone(), m: Msg::Exec { c: a_addr.clone(), p: failing, funds: vec![coin("uatom", 5)] } });
    // more funds than owned: the contract does not run
    step(TopOp::Exec { sender: carol.clone(), m: Msg::Exec { c: a_addr.clone(), p: leaf(40, vec![marker(40), Action::Q(QAct::Balance(a_addr.clone(), "uatom".into()))]), funds: vec![coin("uatom", 5000)] } });
    step(TopOp::WasmSudo { c: b_addr.clone(), p: leaf(50, vec![marker(50), Action::Q(QAct::Dump), Action::Q(QAct::AllBal(b_addr.clone())), Action::Q(QAct::Supply("uatom".into()))]) });
    let sc = Scenario { codes, steps, users: users.clone() };
    let batch = batch_for(&users, &[a_addr, b_addr]);
    vec![(sc, batch)]
}

fn find_in_prog(p: &Prog, node: u64) -> Option<&Prog> {
    if p.node == node {
        return Some(p);
    }
    if let Output::Resp { subs, .. } = &p.out {
        for s in subs {
            if let Some(x) = find_in_msg(&s.m, node).or_else(|| find_in_prog(&s.on_ok, node)).or_else(|| find_in_prog(&s.on_err, node)) {
                return Some(x);
            }
        }
    }
    None
}
fn find_in_msg(m: &Msg, node: u64) -> Option<&Prog> {
    match m {
        Msg::Exec { p, .. } | Msg::Inst { p, .. } | Msg::Migrate { p, .. } => find_in_prog(p, node),
        _ => None,
    }
}
fn find_prog(op: &TopOp, node: u64) -> Option<&Prog> {
    match op {
        TopOp::ExecMulti { ms, .. } => ms.iter().find_map(|m| find_in_msg(m, node)),
        TopOp::Exec { m, .. } => find_in_msg(m, node),
        TopOp::WasmSudo { p, .. } | TopOp::HelperInst { p, .. } | TopOp::HelperMigrate { p, .. } | TopOp::HelperExec { p, .. } => find_in_prog(p, node),
        _ => None,
    }
}

fn emit10(out: &mut Out, sc: &Scenario, batch: &[QAct], extra: serde_json::Value) {
    let obs = run_scenario_q(sc, batch);
    let mut in_contract = 0u64;
    let mut interesting = false;
    for (st, o) in sc.steps.iter().zip(obs.iter()) {
        // the pattern of oracle clause 7: a top-level execute with funds whose callee first asks for its own balance, and ran
        let root = match &st.op {
            TopOp::Exec { m: Msg::Exec { c, p, funds }, .. } => Some((c, p, funds)),
            TopOp::HelperExec { c, p, funds, .. } => Some((c, p, funds)),
            TopOp::ExecMulti { ms, .. } => match ms.first() {
                Some(Msg::Exec { c, p, funds }) => Some((c, p, funds)),
                _ => None,
            },
            _ => None,
        };
        // clause 12: a top-level instantiate with funds whose program first asks for the new contract's balance, and ran
        let root_inst = match &st.op {
            TopOp::Exec { m: Msg::Inst { p, funds, .. }, .. } => Some((p, funds)),
            TopOp::HelperInst { p, funds, .. } => Some((p, funds)),
            TopOp::ExecMulti { ms, .. } => match ms.first() {
                Some(Msg::Inst { p, funds, .. }) => Some((p, funds)),
                _ => None,
            },
            _ => None,
        };
        if let Some((p, funds)) = root_inst {
            let firstq = p.acts.iter().find_map(|a| if let Action::Q(q) = a { Some(q) } else { None });
            if let Some(Entry::Call { node, callee, ep: Ep::Inst, .. }) = o.step.trace.first() {
                if !funds.is_empty() && *node == p.node && matches!(firstq, Some(QAct::Balance(a, _)) if a == callee) {
                    out.stat("inst_funds_seen_pattern_checked", 1);
                }
            }
        }
        // clause 10: a body that ran reads a key after writing / removing it itself
        for e in &o.step.trace {
            if let Entry::Call { node, .. } = e {
                if let Some(p) = find_prog(&st.op, *node) {
                    let mut touched: Vec<&Vec<u8>> = vec![];
                    for a in &p.acts {
                        match a {
                            Action::Write(k, _) | Action::Remove(k) => touched.push(k),
                            Action::Q(QAct::Read(k)) if touched.contains(&k) => out.stat("read_your_writes_reads", 1),
                            Action::Q(QAct::Smart(..)) => break,
                            _ => {}
                        }
                    }
                }
            }
        }
        if let Some((c, p, funds)) = root {
            let firstq = p.acts.iter().find_map(|a| if let Action::Q(q) = a { Some(q) } else { None });
            let ran = matches!(o.step.trace.first(), Some(Entry::Call { node, .. }) if *node == p.node);
            if !funds.is_empty() && ran && matches!(firstq, Some(QAct::Balance(a, _)) if a == c) {
                out.stat("funds_seen_pattern_checked", 1);
            }
        }
    }
    for o in &obs {
        out.stat(&format!("top_{}", outcome_class(&o.step.outcome)), 1);
        for e in &o.step.trace {
            match e {
                Entry::Obs { val, .. } => {
                    in_contract += 1;
                    let k = match val {
                        ObsVal::Bytes(_) => "obs_read",
                        ObsVal::Dump(_) => "obs_dump",
                        ObsVal::Amount(_) => "obs_amount",
                        ObsVal::Coins(_) => "obs_coins",
                        ObsVal::Raw(_) => "obs_raw",
                        ObsVal::Info(_) => "obs_info",
                        ObsVal::CodeInfo(_) => "obs_code_info",
                        ObsVal::Smart(_) => "obs_smart",
                    };
                    out.stat(k, 1);
                }
                Entry::Query { .. } => out.stat("smart_query_handlers_run_in_tx", 1),
                Entry::Call { funds, ep, rep, .. } => {
                    if !funds.is_empty() {
                        interesting = true;
                        out.stat("calls_with_funds", 1);
                    }
                    if let (Ep::Reply, Some((_, _, RRes::Err))) = (ep, rep) {
                        interesting = true;
                        out.stat("replies_after_failed_child", 1);
                    }
                }
                _ => {}
            }
        }
        if !matches!(o.step.outcome, OutcomeS::Ok(_)) {
            interesting = true;
        }
        out.stat("app_batch_entries", (o.tr1.len() + o.tr2.len()) as u64);
        out.stat("app_batch_smart_handlers", o.tr1.iter().filter(|e| matches!(e, Entry::Query { .. })).count() as u64);
        out.stat("ext_queries_answered", o.ext1.iter().filter(|x| x.is_some()).count() as u64);
        out.stat("ext_queries_failed", o.ext1.iter().filter(|x| x.is_none()).count() as u64);
        out.stat("snapshot_changed_by_queries", (!o.same1) as u64 + (!o.same2) as u64);
    }
    out.stat("in_contract_observations", in_contract);
    let coq = format!("c10 {}\n  {}\n  {}", print::case_env(sc), qacts(batch), qsteps(sc, &obs));
    out.push(Case {
        key: serde_json::to_string(&(sc, batch)).unwrap(),
        json: serde_json::json!({"scenario": sc, "batch": batch, "observed": obs, "extra": extra}),
        coq,
        nontrivial: in_contract > 0 && interesting,
    });
}

fn main() {
    let args = common::parse_args("C10");
    let mut out = Out::new(&args.out, HEADER);
    let rule = "scenarios whose message trees carry query actions at every node (bank balance/all/supply, raw, smart nested, contract-info, code-info; the callee's own balance right after attached funds) plus a batch of App-level queries (incl. smart nested 3 deep, staking, custom) issued twice after every top-level call with raw-store digests around each batch; 2-4 steps per scenario in which a COMMITTED key is overwritten and/or removed and then read later in the same transaction (same body, first sub-message's raw/smart query on the parent, next message of an execute_multi, instantiate as sub-message) or an instantiate with funds probes its own balance (address learned in a first pass); a fixed corpus of every shape x writer variant; distinct by SHA-256; non-trivial = a contract observed something mid-transaction and the scenario has a call with funds, a reply after a failed child, or a failed top-level call";
    if let Some(p) = &args.replay {
        let v: serde_json::Value = serde_json::from_slice(&std::fs::read(p).unwrap()).unwrap();
        let case = v.get("case").unwrap_or(&v);
        let sc: Scenario = serde_json::from_value(case["scenario"].clone()).unwrap();
        let batch: Vec<QAct> = serde_json::from_value(case["batch"].clone()).unwrap();
        emit10(&mut out, &sc, &batch, serde_json::json!({}));
        finish(out, 50, "replay");
        return;
    }
    for (sc, batch) in fixed_scenarios() {
        emit10(&mut out, &sc, &batch, serde_json::json!({"fixed": true}));
    }
    {
        let (sc, batch) = fixed_shapes();
        emit10(&mut out, &sc, &batch, serde_json::json!({"fixed": "shapes"}));
    }
    for (sc, batch) in fixed_rollbacks() {
        emit10(&mut out, &sc, &batch, serde_json::json!({"fixed": "rollback"}));
    }
    let mut cfg = Cfg::default();
    cfg.queries = true;
    cfg.funds = true;
    cfg.p_fail = 15;
    cfg.max_depth = 3;
    cfg.max_nodes = 9;
    cfg.n_steps = (2, 5);
    cfg.helpers = true;
    let mut rng = common::Rng::new(args.seed);
    let n = if args.thorough { 300 } else { 100 } * args.scale;
    for _ in 0..n {
        let mut r = rng.fork();
        let mut g = G::new(&mut r, cfg.clone());
        let k = 2 + g.rng.below(2) as usize;
        let mut sc = g.scenario(k);
        let n_setup = sc.users.len() + k;
        sprinkle(&mut g, &mut sc, n_setup);
        // the overwrite / remove / read shapes go right after the setup, where the keys they use are committed
        let shapes = shape_steps(&mut g, k);
        let n_shapes = shapes.len();
        let tail = sc.steps.split_off(n_setup);
        sc.steps.extend(shapes);
        sc.steps.extend(tail);
        let mut batch = batch_for(&sc.users, &g.contracts);
        // every second scenario: a rollback family right after the shapes (before the random tail changes admins / codes)
        if g.rng.chance(1, 2) {
            let fam = g.rng.below(7);
            out.stat(&format!("rollback_family_{}", fam), 1);
            let (fs, uses_new) = rollback_family(&mut g, fam);
            let at = n_setup + n_shapes;
            let tail = sc.steps.split_off(at);
            sc.steps.extend(fs);
            sc.steps.extend(tail);
            if uses_new {
                batch_with_new(&mut batch);
                resolve_new(&mut sc, &mut batch);
            }
        }
        add_inst_probes(&mut sc, &batch);
        emit10(&mut out, &sc, &batch, serde_json::json!({}));
    }
    finish(out, 7, rule);
}
