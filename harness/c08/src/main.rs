//! C08: each contract's storage is private to it and is all it can touch.
//! 2-5 contracts (several from the same code) write keys crafted to equal other windows' raw prefixes,
//! interleaved calls and sub-messages; after each top-level call the raw root store is partitioned by
//! window (exec_common::driver::decode_state: the harness's own re-implementation of the key layout) and
//! every contract's data is read back four ways.
use common::{Case, Out};
use exec_common::driver::{classic_address, user};
use exec_common::gen::{default_codes, Cfg, G};
use exec_common::iso::*;
use exec_common::*;

const HEADER: &str = "From Verif Require Import Base OMap Text Proto Bank Exec ChkExec ChkX ChkIso.";

fn lp(ns: &[u8]) -> Vec<u8> {
    let mut v = vec![(ns.len() >> 8) as u8, (ns.len() & 255) as u8];
    v.extend_from_slice(ns);
    v
}
fn cat(parts: &[&[u8]]) -> Vec<u8> {
    parts.concat()
}
fn leaf(node: u64, acts: Vec<Action>) -> Prog {
    Prog { node, acts, out: Output::Resp { attrs: vec![], events: vec![], data: None, subs: vec![] } }
}
fn with_subs(node: u64, acts: Vec<Action>, subs: Vec<Sub>) -> Prog {
    Prog { node, acts, out: Output::Resp { attrs: vec![("k".into(), "v".into())], events: vec![], data: None, subs } }
}
fn w(k: Vec<u8>, v: &[u8]) -> Action {
    Action::Write(k, v.to_vec())
}
fn marker(n: u64) -> Action {
    Action::Write(format!("m{}", n).into_bytes(), vec![1])
}

/// keys spelling other windows' raw prefixes, as seen from contract storage
fn crafted(alice: &str, other: &str) -> Vec<Vec<u8>> {
    vec![
        cat(&[&lp(b"bank"), &lp(b"balances"), alice.as_bytes()]),
        cat(&[&lp(b"balances"), alice.as_bytes()]),
        cat(&[&lp(b"wasm"), &lp(b"contracts"), other.as_bytes()]),
        cat(&[&lp(b"contracts"), other.as_bytes()]),
        cat(&[&lp(b"wasm"), &lp(&cat(&[b"contract_data/", other.as_bytes()])), b"a"]),
        cat(&[&lp(&cat(&[b"contract_data/", other.as_bytes()])), b"a"]),
        cat(&[&lp(b"staking"), b"staking_info"]),
        vec![],
        vec![0],
        vec![255],
        vec![255, 255, 255],
        b"a".to_vec(),
    ]
}

/// every program of the tree additionally writes / removes / reads keys crafted against ANOTHER contract
fn craft_prog(g: &mut G, alice: &str, p: &mut Prog) {
    let other = g.some_contract();
    let pool = crafted(alice, &other);
    let n = 1 + g.rng.below(2);
    for _ in 0..n {
        let k = g.rng.pick(&pool).clone();
        let a = match g.rng.below(6) {
            0..=2 => Action::Write(k, vec![(p.node & 255) as u8, g.rng.below(256) as u8]),
            3 => Action::Remove(k),
            4 => Action::Q(QAct::Read(k)),
            _ => Action::Q(QAct::Dump),
        };
        let pos = 1 + g.rng.below(p.acts.len() as u64) as usize;
        p.acts.insert(pos.min(p.acts.len()), a);
    }
    if let Output::Resp { subs, .. } = &mut p.out {
        for s in subs.iter_mut() {
            craft_msg(g, alice, &mut s.m);
            craft_prog(g, alice, &mut s.on_ok);
            craft_prog(g, alice, &mut s.on_err);
        }
    }
}
fn craft_msg(g: &mut G, alice: &str, m: &mut Msg) {
    match m {
        Msg::Exec { p, .. } | Msg::Inst { p, .. } | Msg::Migrate { p, .. } => craft_prog(g, alice, p),
        _ => {}
    }
}
fn craft(g: &mut G, sc: &mut Scenario, from: usize) {
    let alice = sc.users[0].clone();
    for st in sc.steps.iter_mut().skip(from) {
        match &mut st.op {
            TopOp::ExecMulti { ms, .. } => ms.iter_mut().for_each(|m| craft_msg(g, &alice, m)),
            TopOp::Exec { m, .. } => craft_msg(g, &alice, m),
            TopOp::WasmSudo { p, .. } | TopOp::HelperInst { p, .. } | TopOp::HelperMigrate { p, .. } | TopOp::HelperExec { p, .. } => craft_prog(g, &alice, p),
            _ => {}
        }
    }
}

// ---------- factory shapes: a contract that HOLDS records runs exactly once and creates / calls others ----------
fn fresh(g: &mut G) -> u64 {
    let n = g.next_node;
    g.next_node += 1;
    n
}
fn never(id: u64, ro: ReplyOnS, m: Msg, g: &mut G) -> Sub {
    let (n3, n4) = (fresh(g), fresh(g));
    Sub { id, payload: vec![], ro, m: Box::new(m), on_ok: leaf(n3, vec![marker(n3)]), on_err: leaf(n4, vec![marker(n4)]) }
}
fn factory_op(g: &mut G, variant: u64, sender: &str, a: &str, b: &str, alice: &str) -> TopOp {
    let n = fresh(g);
    let pool = crafted(alice, b);
    let mut acts = vec![marker(n), w(b"rec1".to_vec(), &[n as u8, 1]), w(g.rng.pick(&pool).clone(), &[n as u8, 2])];
    if g.rng.chance(1, 2) {
        acts.push(Action::Remove(g.rng.pick(&pool).clone()));
    }
    if g.rng.chance(1, 3) {
        acts.push(Action::Remove(b"a".to_vec()));
    }
    acts.push(Action::Q(QAct::Dump));
    let (nc, nb) = (fresh(g), fresh(g));
    let code_id = *g.rng.pick(&[1u64, 2, 7, 9]);
    let inst = Msg::Inst {
        code_id,
        p: leaf(nc, vec![marker(nc), w(b"a".to_vec(), &[nc as u8]), w(g.rng.pick(&pool).clone(), &[nc as u8, 3]), Action::Q(QAct::Raw(a.to_string(), b"rec1".to_vec()))]),
        funds: vec![],
        label: "child".into(),
        admin: None,
        salt: if g.rng.chance(1, 3) { Some(vec![nc as u8, 1]) } else { None },
    };
    let call_b = Msg::Exec { c: b.into(), p: leaf(nb, vec![marker(nb), w(b"rec1".to_vec(), &[nb as u8]), w(g.rng.pick(&pool).clone(), &[nb as u8, 4]), Action::Q(QAct::Dump)]), funds: vec![] };
    // ReplyOn::Never, or Error on a sub-message that succeeds: no reply entry at a, so a's code runs exactly once
    let subs = match variant % 5 {
        0 => vec![never(1, ReplyOnS::Never, inst, g)],
        1 => vec![never(1, ReplyOnS::Never, call_b, g)],
        2 => vec![never(1, ReplyOnS::Never, inst, g), never(2, ReplyOnS::Error, call_b, g)],
        3 => vec![never(1, ReplyOnS::Error, inst, g)],
        _ => vec![never(1, ReplyOnS::Never, call_b, g), never(2, ReplyOnS::Never, inst, g)],
    };
    let p = with_subs(n, acts, subs);
    match variant % 5 {
        3 => TopOp::WasmSudo { c: a.into(), p },
        4 => {
            let n2 = fresh(g);
            TopOp::ExecMulti { sender: sender.into(), ms: vec![Msg::Exec { c: a.into(), p, funds: vec![] }, Msg::BankSend { to: alice.into(), amt: vec![CoinS { denom: "uatom".into(), amount: 1 }] }, Msg::Custom { ok: true, tag: n2 }] }
        }
        _ => TopOp::Exec { sender: sender.into(), m: Msg::Exec { c: a.into(), p, funds: vec![] } },
    }
}
fn factory_step(g: &mut G, k: usize) -> Step {
    let sender = g.some_user();
    let i = g.rng.below(k as u64) as usize;
    let j = (i + 1 + g.rng.below((k - 1).max(1) as u64) as usize) % k;
    let (a, b) = (g.contracts[i].clone(), g.contracts[j].clone());
    let alice = g.users[0].clone();
    let v = g.rng.below(5);
    Step { block: G::block0(), op: factory_op(g, v, &sender, &a, &b, &alice) }
}

fn fixed_scenarios() -> Vec<Scenario> {
    let codes = default_codes();
    let (alice, bob, carol) = (user("alice"), user("bob"), user("carol"));
    let b0 = G::block0();
    let a_addr = classic_address(1, 0);
    let b_addr = classic_address(1, 1);
    let c_addr = classic_address(2, 2);
    let forged_bal = br#"[{"denom":"uatom","amount":"999999"}]"#;
    let forged_reg = format!(r#"{{"code_id":2,"creator":"{}","admin":"{}","label":"forged","created":1}}"#, bob, bob);
    let mut steps = vec![];
    let mut step = |op: TopOp| steps.push(Step { block: b0.clone(), op });
    for u in [&alice, &bob, &carol] {
        step(TopOp::Mint { to: u.clone(), amt: vec![CoinS { denom: "uatom".into(), amount: 100 }, CoinS { denom: "btc".into(), amount: 20 }] });
    }
    // two contracts from the SAME code, one from another
    for (i, code) in [1u64, 1, 2].iter().enumerate() {
        let n = 1 + i as u64;
        step(TopOp::Exec {
            sender: alice.clone(),
            m: Msg::Inst { code_id: *code, p: leaf(n, vec![marker(n), w(b"a".to_vec(), &[10 + i as u8])]), funds: vec![], label: format!("c{}", i), admin: Some(alice.clone()), salt: None },
        });
    }
    // A writes every crafted key (values that would forge a balance / a registry entry if they landed there)
    let mut acts = vec![marker(10)];
    for (i, k) in crafted(&alice, &b_addr).into_iter().enumerate() {
        let v: Vec<u8> = match i {
            0 | 1 => forged_bal.to_vec(),
            2 | 3 => forged_reg.clone().into_bytes(),
            _ => vec![100 + i as u8],
        };
        acts.push(Action::Write(k, v));
    }
    acts.push(Action::Q(QAct::Dump));
    acts.push(Action::Q(QAct::Raw(b_addr.clone(), b"a".to_vec())));
    acts.push(Action::Q(QAct::Balance(alice.clone(), "uatom".into())));
    acts.push(Action::Q(QAct::Info(b_addr.clone())));
    step(TopOp::Exec { sender: bob.clone(), m: Msg::Exec { c: a_addr.clone(), p: leaf(10, acts), funds: vec![] } });
    // B (same code as A) writes the same keys with other values, reads, and calls A and C as sub-messages:
    // A's sub-call commits, C's sub-call fails and is caught (its writes must vanish)
    let mut acts = vec![marker(20), Action::Q(QAct::Dump), Action::Q(QAct::Read(b"a".to_vec()))];
    for (i, k) in crafted(&alice, &a_addr).into_iter().enumerate() {
        acts.push(Action::Write(k, vec![200, i as u8]));
    }
    acts.push(Action::Q(QAct::Read(cat(&[&lp(b"wasm"), &lp(&cat(&[b"contract_data/", a_addr.as_bytes()])), b"a"]))));
    acts.push(Action::Q(QAct::Raw(a_addr.clone(), b"a".to_vec())));
    let sub_a = Sub {
        id: 1,
        payload: vec![1],
        ro: ReplyOnS::Success,
        m: Box::new(Msg::Exec { c: a_addr.clone(), p: leaf(21, vec![marker(21), w(b"x".to_vec(), &[21]), Action::Remove(vec![255]), Action::Q(QAct::Dump)]), funds: vec![] }),
        on_ok: leaf(22, vec![marker(22), Action::Q(QAct::Dump), Action::Q(QAct::Raw(a_addr.clone(), b"x".to_vec()))]),
        on_err: leaf(23, vec![marker(23)]),
    };
    let sub_c = Sub {
        id: 2,
        payload: vec![],
        ro: ReplyOnS::Error,
        m: Box::new(Msg::Exec {
            c: c_addr.clone(),
            p: Prog { node: 24, acts: vec![marker(24), w(vec![], &[24]), w(cat(&[&lp(b"bank"), &lp(b"balances"), alice.as_bytes()]), forged_bal)], out: Output::Fail },
            funds: vec![],
        }),
        on_ok: leaf(25, vec![marker(25)]),
        on_err: leaf(26, vec![marker(26), Action::Q(QAct::Raw(c_addr.clone(), vec![])), Action::Q(QAct::Dump)]),
    };
    step(TopOp::Exec { sender: carol.clone(), m: Msg::Exec { c: b_addr.clone(), p: with_subs(20, acts, vec![sub_a, sub_c]), funds: vec![CoinS { denom: "uatom".into(), amount: 3 }] } });
    // C through sudo: writes A's and B's full raw prefixes, removes keys that exist only in A / B
    step(TopOp::WasmSudo {
        c: c_addr.clone(),
        p: leaf(
            30,
            vec![
                marker(30),
                Action::Q(QAct::Dump),
                w(cat(&[&lp(b"wasm"), &lp(&cat(&[b"contract_data/", a_addr.as_bytes()]))]), &[30]),
                Action::Remove(b"x".to_vec()),
                Action::Remove(vec![255, 255, 255]),
                Action::Remove(cat(&[&lp(b"wasm"), &lp(&cat(&[b"contract_data/", a_addr.as_bytes()])), b"a"])),
                Action::Q(QAct::Raw(a_addr.clone(), vec![255, 255, 255])),
                Action::Q(QAct::Dump),
            ],
        ),
    });
    // A removes some of its crafted keys again (B's equal keys must stay)
    let mut acts = vec![marker(40), Action::Q(QAct::Read(vec![]))];
    for k in crafted(&alice, &b_addr).into_iter().take(6) {
        acts.push(Action::Remove(k));
    }
    acts.push(Action::Q(QAct::Dump));
    step(TopOp::Exec { sender: alice.clone(), m: Msg::Exec { c: a_addr.clone(), p: leaf(40, acts), funds: vec![] } });
    // a failing top-level call at B that wrote crafted keys: nothing of it may remain anywhere
    step(TopOp::Exec {
        sender: alice.clone(),
        m: Msg::Exec { c: b_addr.clone(), p: Prog { node: 50, acts: vec![marker(50), w(vec![], &[50]), Action::Remove(b"a".to_vec())], out: Output::Fail }, funds: vec![] },
    });
    // migrate B to code 9 (same address, same storage), then read
    step(TopOp::Exec { sender: alice.clone(), m: Msg::Migrate { c: b_addr.clone(), new_code: 9, p: leaf(60, vec![marker(60), Action::Q(QAct::Dump)]) } });
    // A (holding crafted records) creates a child and calls C without any reply: all of A's records must survive
    {
        let child = |n: u64| Msg::Inst { code_id: 2, p: leaf(n, vec![marker(n), w(b"a".to_vec(), &[n as u8])]), funds: vec![], label: "child".into(), admin: None, salt: None };
        let sub = |id: u64, ro: ReplyOnS, m: Msg, n: u64| Sub { id, payload: vec![], ro, m: Box::new(m), on_ok: leaf(n, vec![marker(n)]), on_err: leaf(n + 1, vec![marker(n + 1)]) };
        let call_c = Msg::Exec { c: c_addr.clone(), p: leaf(72, vec![marker(72), w(vec![255], &[72])]), funds: vec![] };
        step(TopOp::Exec {
            sender: bob.clone(),
            m: Msg::Exec { c: a_addr.clone(), p: with_subs(70, vec![marker(70), w(b"rec".to_vec(), &[70]), Action::Remove(vec![0])], vec![sub(1, ReplyOnS::Never, child(71), 73), sub(2, ReplyOnS::Error, call_c, 75)]), funds: vec![] },
        });
        step(TopOp::WasmSudo { c: c_addr.clone(), p: with_subs(80, vec![marker(80), w(b"rec".to_vec(), &[80])], vec![sub(3, ReplyOnS::Never, child(81), 83)]) });
    }
    vec![Scenario { codes, steps, users: vec![alice, bob, carol] }]
}

fn is_crafted(k: &[u8]) -> bool {
    k.is_empty() || k[0] == 0 || k[0] == 255
}

fn emit8(out: &mut Out, sc: &Scenario, extra: serde_json::Value) {
    let obs = run_scenario_iso(sc);
    let mut crafted_alive = 0u64;
    let mut max_nonempty = 0usize;
    for o in &obs {
        out.stat(&format!("top_{}", outcome_class(&o.step.outcome)), 1);
        out.stat("readbacks", o.readbacks.len() as u64);
        out.stat("probed_keys", o.readbacks.iter().map(|r| r.keys.len() as u64).sum());
        out.stat("contracts_registered", o.step.state.reg.len() as u64);
        let ne = o.step.state.cstore.iter().filter(|(_, m)| !m.is_empty()).count();
        max_nonempty = max_nonempty.max(ne);
        for (_, m) in &o.step.state.cstore {
            crafted_alive += m.iter().filter(|(k, _)| is_crafted(k)).count() as u64;
        }
        let ran: std::collections::BTreeSet<&String> = o.step.trace.iter().filter_map(|e| if let Entry::Call { callee, .. } = e { Some(callee) } else { None }).collect();
        out.stat(&format!("contracts_ran_{}", ran.len().min(4)), 1);
        out.stat("raw_keys_outside_windows", o.step.state.other.len() as u64);
        // clauses 11 / 12: a successful call whose root contract ran exactly once while other code ran below it
        if matches!(o.step.outcome, OutcomeS::Ok(_)) {
            let callees: Vec<&String> = o.step.trace.iter().filter_map(|e| if let Entry::Call { callee, .. } = e { Some(callee) } else { None }).collect();
            if let Some(root) = callees.first() {
                let once = callees.iter().filter(|c| c == &root).count() == 1;
                let held = o.before.cstore.iter().find(|(a, _)| &a == root).map(|(_, m)| m.len()).unwrap_or(0);
                if once && callees.len() > 1 {
                    out.stat("root_ran_once_with_children", 1);
                    out.stat("records_held_by_such_roots", held as u64);
                    if o.step.trace.iter().any(|e| matches!(e, Entry::Call { ep: Ep::Inst, .. })) {
                        out.stat("root_ran_once_and_instantiated", 1);
                    }
                }
            }
        }
    }
    out.stat("crafted_keys_alive_after_steps", crafted_alive);
    // several contracts from the same code?
    if let Some(last) = obs.last() {
        let mut codes: Vec<u64> = last.step.state.reg.iter().map(|(_, c)| c.code_id).collect();
        codes.sort();
        let n = codes.len();
        codes.dedup();
        if codes.len() < n {
            out.stat("scenarios_with_same_code_contracts", 1);
        }
    }
    let coq = format!("c08 {}\n  {}", print::case_env(sc), isteps(sc, &obs));
    out.push(Case {
        key: serde_json::to_string(sc).unwrap(),
        json: serde_json::json!({"scenario": sc, "observed": obs, "extra": extra}),
        coq,
        nontrivial: crafted_alive > 0 && max_nonempty >= 2,
    });
}

fn main() {
    let args = common::parse_args("C08");
    let mut out = Out::new(&args.out, HEADER);
    let rule = "scenarios with 2-5 contracts (several from the same code), keys crafted to equal the bank / registry / staking / other contracts' raw prefixes, empty key, 0x00 / 0xFF runs, interleaved calls, sub-messages (committed, failed-and-caught), sudo, migrate; after every call the raw store is partitioned by window and every contract is read back four ways; distinct by SHA-256; non-trivial = at least two contracts hold data and some crafted key is alive in a contract window after some call";
    if let Some(p) = &args.replay {
        let sc = load_replay(p);
        emit8(&mut out, &sc, serde_json::json!({}));
        finish(out, 50, "replay");
        return;
    }
    for sc in fixed_scenarios() {
        emit8(&mut out, &sc, serde_json::json!({"fixed": true}));
    }
    let mut cfg = Cfg::default();
    cfg.crafted_keys = true;
    cfg.queries = true;
    cfg.p_fail = 12;
    cfg.max_depth = 3;
    cfg.max_nodes = 10;
    cfg.n_steps = (3, 6);
    cfg.block_changes = false;
    let mut rng = common::Rng::new(args.seed);
    let n = if args.thorough { 300 } else { 90 } * args.scale;
    for _ in 0..n {
        let mut r = rng.fork();
        let mut g = G::new(&mut r, cfg.clone());
        let k = 2 + g.rng.below(4) as usize;
        let mut sc = g.scenario(k);
        let n_setup = sc.users.len() + k;
        craft(&mut g, &mut sc, n_setup);
        // a contract holding records runs once and instantiates a child / executes another contract:
        // one such step right after the setup, one at the end (when the windows hold many crafted records)
        let f1 = factory_step(&mut g, k);
        let f2 = factory_step(&mut g, k);
        sc.steps.insert(n_setup, f1);
        sc.steps.push(f2);
        emit8(&mut out, &sc, serde_json::json!({}));
    }
    finish(out, 8, rule);
}
