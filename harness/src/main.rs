//! Correspondence harness: runs the real cw-multi-test on generated inputs and writes, per
//! property, Coq case files (input + implementation's observations) for the model to judge.
mod c06;
mod common;

use common::Args;
use std::path::PathBuf;

fn main() {
    let a: Vec<String> = std::env::args().collect();
    if a.len() < 2 {
        eprintln!("usage: harness <Cxx> [--seed N] [--tier quick|thorough] [--out DIR] [--replay FILE] [--scale K]");
        std::process::exit(2);
    }
    let prop = a[1].clone();
    let mut args = Args { seed: 1, thorough: false, out: PathBuf::from(format!("out/{}", prop)), replay: None, scale: 1 };
    let mut i = 2;
    while i < a.len() {
        match a[i].as_str() {
            "--seed" => {
                args.seed = a[i + 1].parse().expect("seed");
                i += 2
            }
            "--tier" => {
                args.thorough = a[i + 1] == "thorough";
                i += 2
            }
            "--out" => {
                args.out = PathBuf::from(&a[i + 1]);
                i += 2
            }
            "--replay" => {
                args.replay = Some(PathBuf::from(&a[i + 1]));
                i += 2
            }
            "--scale" => {
                args.scale = a[i + 1].parse().expect("scale");
                i += 2
            }
            x => panic!("unknown argument {}", x),
        }
    }
    // silence panic messages of caught panics (they are outcomes, not crashes of the harness)
    std::panic::set_hook(Box::new(|_| {}));
    match prop.as_str() {
        "C06" => c06::run(&args),
        p => {
            eprintln!("unknown property {}", p);
            std::process::exit(2)
        }
    }
}
