//! C05: true caller, own address, current block, attached funds.
use exec_common::gen::Cfg;
use exec_common::*;
fn main() {
    let mut cfg = Cfg::default();
    cfg.migrate_bias = true;
    cfg.p_fail = 10;
    cfg.funds = true;
    cfg.block_changes = true;
    cfg.max_depth = 5;
    cfg.probe_funds = true;
    cfg.huge_blocks = true;
    run_prop("C05", "c05", cfg, 150, 1500, vec![],
        "scenarios with call chains user -> contract -> contract ... to depth 5 through all five entry points, funds in {none, partial, more than owned, zero-amount coin, duplicate denoms}, block changed by set_block between calls; distinct by SHA-256; non-trivial = some contract was called by another contract with funds attached, or a call with funds failed",
        &|sc, obs| {
            let _ = sc;
            obs.iter().any(|o| o.trace.iter().any(|e| matches!(e, Entry::Call { funds, .. } if !funds.is_empty())))
        });
}
