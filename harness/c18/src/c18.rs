//! C18: the address codecs (MockApiBech32 / MockApiBech32m of cw-multi-test, cosmwasm_std's MockApi
//! behind IntoAddr, and the IntoBech32 / IntoBech32m / IntoAddr helpers) against the Coq model
//! coq/Bech32.v.  Every call into the implementation runs under `common::catch`; each case is one
//! Api instance (codec, prefix) and a list of probes with everything the implementation answered.
use bech32::primitives::checksum::Checksum;
use bech32::{ByteIterExt, Fe32, Fe32IterExt, Hrp};
use common::*;
use cosmwasm_std::testing::MockApi;
use cosmwasm_std::{Addr, Api, CanonicalAddr};
use cw_multi_test::{IntoAddr, IntoBech32, IntoBech32m, MockApiBech32, MockApiBech32m};
use serde::{Deserialize, Serialize};
use sha2::{Digest, Sha256};

#[derive(Clone, Copy, Debug, Serialize, Deserialize, PartialEq, Eq)]
pub enum Codec {
    Bech32,
    Bech32m,
    Std,
}

#[derive(Clone, Debug, Serialize, Deserialize)]
pub enum ProbeIn {
    /// humanize b, then canonicalize / validate the result
    Round(Vec<u8>),
    /// validate s, canonicalize s, humanize the canonical bytes
    Str(String),
    /// s (a valid address): every position x every replacement character, and the case flip
    Sweep { s: String, xs: Vec<char> },
    /// the other checksum variant's encoding of b, judged by this codec
    ForeignVariant(Vec<u8>),
    /// the same codec's encoding of b under another prefix, judged by this instance
    ForeignPrefix(String, Vec<u8>),
    /// addr_make(name) twice + the addresses.rs helpers + validate / canonicalize of the result
    Make(String),
    /// addr_make(n1) here, addr_make(n2) under prefix p2
    Distinct { n1: String, n2: String, p2: String },
}

#[derive(Clone, Debug, Serialize, Deserialize)]
pub struct Input {
    pub codec: Codec,
    pub prefix: String,
    pub probes: Vec<ProbeIn>,
}

#[derive(Clone, Debug, Serialize, Deserialize, PartialEq)]
pub enum R<T> {
    Ok(T),
    Err,
    Panic,
}
type RT = R<String>;
type RB = R<Vec<u8>>;

/// validate result relative to its input
#[derive(Clone, Debug, Serialize, Deserialize, PartialEq)]
pub enum V {
    Err,
    Same,
    Other(String),
    Panic,
}

#[derive(Clone, Debug, Serialize, Deserialize)]
pub enum ProbeOut {
    Round { b: Vec<u8>, h: RT, c: RB, v: RT },
    Str { s: String, v: RT, c: RB, h: RT },
    Sweep { s: String, v0: RT, xs: Vec<char>, rows: Vec<Vec<(V, RB)>>, flips: Vec<(V, RB)> },
    Foreign { p2: Option<String>, b: Vec<u8>, t: RT, v: RT, c: RB },
    Make { name: String, d: Vec<u8>, m: RT, m2: RT, helpers: Vec<RT>, v: RT, c: RB },
    Distinct { d1: Vec<u8>, d2: Vec<u8>, p2: String, m1: RT, m2: RT },
}

fn leak(s: &str) -> &'static str {
    Box::leak(s.to_string().into_boxed_str())
}

/// the implementation under test
struct Inst {
    codec: Codec,
    prefix: &'static str,
    api: Box<dyn Api>,
}
fn api_of(codec: Codec, prefix: &'static str) -> Box<dyn Api> {
    match codec {
        Codec::Bech32 => Box::new(MockApiBech32::new(prefix)),
        Codec::Bech32m => Box::new(MockApiBech32m::new(prefix)),
        Codec::Std => Box::new(MockApi::default().with_prefix(prefix)),
    }
}
fn other(codec: Codec) -> Codec {
    match codec {
        Codec::Bech32 => Codec::Bech32m,
        Codec::Bech32m => Codec::Bech32,
        Codec::Std => Codec::Bech32m,
    }
}
fn rt(r: Result<Result<Addr, cosmwasm_std::StdError>, String>) -> RT {
    match r {
        Ok(Ok(a)) => R::Ok(a.into_string()),
        Ok(Err(_)) => R::Err,
        Err(_) => R::Panic,
    }
}
fn rb(r: Result<Result<CanonicalAddr, cosmwasm_std::StdError>, String>) -> RB {
    match r {
        Ok(Ok(a)) => R::Ok(a.as_slice().to_vec()),
        Ok(Err(_)) => R::Err,
        Err(_) => R::Panic,
    }
}
impl Inst {
    fn new(codec: Codec, prefix: &str) -> Inst {
        let prefix = leak(prefix);
        Inst { codec, prefix, api: api_of(codec, prefix) }
    }
    fn validate(&self, s: &str) -> RT {
        rt(catch(|| self.api.addr_validate(s)))
    }
    fn canonicalize(&self, s: &str) -> RB {
        rb(catch(|| self.api.addr_canonicalize(s)))
    }
    fn humanize(&self, b: &[u8]) -> RT {
        let c = CanonicalAddr::from(b.to_vec());
        rt(catch(|| self.api.addr_humanize(&c)))
    }
    fn make(&self, name: &str) -> RT {
        let (codec, prefix) = (self.codec, self.prefix);
        match catch(|| match codec {
            Codec::Bech32 => MockApiBech32::new(prefix).addr_make(name),
            Codec::Bech32m => MockApiBech32m::new(prefix).addr_make(name),
            Codec::Std => MockApi::default().with_prefix(prefix).addr_make(name),
        }) {
            Ok(a) => R::Ok(a.into_string()),
            Err(_) => R::Panic,
        }
    }
    /// the helpers of addresses.rs that must give the same address as addr_make
    fn helpers(&self, name: &str) -> Vec<RT> {
        let (codec, prefix) = (self.codec, self.prefix);
        let wrap = |r: Result<Addr, String>| match r {
            Ok(a) => R::Ok(a.into_string()),
            Err(_) => R::Panic,
        };
        let mut v = vec![wrap(catch(|| match codec {
            Codec::Bech32 => name.into_bech32_with_prefix(prefix),
            Codec::Bech32m => name.into_bech32m_with_prefix(prefix),
            Codec::Std => name.into_addr_with_prefix(prefix),
        }))];
        if prefix == "cosmwasm" {
            v.push(wrap(catch(|| match codec {
                Codec::Bech32 => name.into_bech32(),
                Codec::Bech32m => name.into_bech32m(),
                Codec::Std => name.into_addr(),
            })));
            if codec == Codec::Std {
                v.push(wrap(catch(|| MockApi::default().addr_make(name))));
            }
        }
        v
    }
    fn cell(&self, s: &str) -> (V, RB) {
        let v = match self.validate(s) {
            R::Ok(x) if x == s => V::Same,
            R::Ok(x) => V::Other(x),
            R::Err => V::Err,
            R::Panic => V::Panic,
        };
        (v, self.canonicalize(s))
    }
}

fn flip_case(c: char) -> char {
    if c.is_ascii_uppercase() {
        c.to_ascii_lowercase()
    } else if c.is_ascii_lowercase() {
        c.to_ascii_uppercase()
    } else {
        c
    }
}

fn digest(name: &str) -> Vec<u8> {
    Sha256::digest(name.as_bytes()).to_vec()
}

fn run_probe(inst: &Inst, p: &ProbeIn) -> ProbeOut {
    match p {
        ProbeIn::Round(b) => {
            let h = inst.humanize(b);
            let (c, v) = match &h {
                R::Ok(s) => (inst.canonicalize(s), inst.validate(s)),
                _ => (R::Err, R::Err),
            };
            ProbeOut::Round { b: b.clone(), h, c, v }
        }
        ProbeIn::Str(s) => {
            let v = inst.validate(s);
            let c = inst.canonicalize(s);
            let h = match &c {
                R::Ok(b) => inst.humanize(b),
                _ => R::Err,
            };
            ProbeOut::Str { s: s.clone(), v, c, h }
        }
        ProbeIn::Sweep { s, xs } => {
            let v0 = inst.validate(s);
            let chars: Vec<char> = s.chars().collect();
            let mut rows = vec![];
            let mut flips = vec![];
            for i in 0..chars.len() {
                let mut row = vec![];
                for x in xs {
                    let mut t = chars.clone();
                    t[i] = *x;
                    row.push(inst.cell(&t.iter().collect::<String>()));
                }
                rows.push(row);
                let mut t = chars.clone();
                t[i] = flip_case(t[i]);
                flips.push(inst.cell(&t.iter().collect::<String>()));
            }
            ProbeOut::Sweep { s: s.clone(), v0, xs: xs.clone(), rows, flips }
        }
        ProbeIn::ForeignVariant(b) => {
            let t = Inst::new(other(inst.codec), inst.prefix).humanize(b);
            let (v, c) = match &t {
                R::Ok(s) => (inst.validate(s), inst.canonicalize(s)),
                _ => (R::Err, R::Err),
            };
            ProbeOut::Foreign { p2: None, b: b.clone(), t, v, c }
        }
        ProbeIn::ForeignPrefix(p2, b) => {
            let t = Inst::new(inst.codec, p2).humanize(b);
            let (v, c) = match &t {
                R::Ok(s) => (inst.validate(s), inst.canonicalize(s)),
                _ => (R::Err, R::Err),
            };
            ProbeOut::Foreign { p2: Some(p2.clone()), b: b.clone(), t, v, c }
        }
        ProbeIn::Make(name) => {
            let m = inst.make(name);
            let m2 = inst.make(name);
            let helpers = inst.helpers(name);
            let (v, c) = match &m {
                R::Ok(s) => (inst.validate(s), inst.canonicalize(s)),
                _ => (R::Err, R::Err),
            };
            ProbeOut::Make { name: name.clone(), d: digest(name), m, m2, helpers, v, c }
        }
        ProbeIn::Distinct { n1, n2, p2 } => {
            let m1 = inst.make(n1);
            let m2 = Inst::new(inst.codec, p2).make(n2);
            ProbeOut::Distinct { d1: digest(n1), d2: digest(n2), p2: p2.clone(), m1, m2 }
        }
    }
}

// ---------- Coq printing ----------
fn coq_rt(r: &RT) -> String {
    match r {
        R::Ok(s) => format!("(Ok {})", coq_text(s)),
        R::Err => "Err".into(),
        R::Panic => "Panic".into(),
    }
}
fn coq_rb(r: &RB) -> String {
    match r {
        R::Ok(b) => format!("(Ok {})", coq_bytes(b)),
        R::Err => "Err".into(),
        R::Panic => "Panic".into(),
    }
}
fn coq_cell(c: &(V, RB)) -> String {
    let v = match &c.0 {
        V::Err => "VErr".to_string(),
        V::Same => "VSame".to_string(),
        V::Other(s) => format!("VOther {}", coq_text(s)),
        V::Panic => "VPanic".to_string(),
    };
    format!("({},{})", v, coq_rb(&c.1))
}
fn coq_chars(xs: &[char]) -> String {
    coq_text(&xs.iter().collect::<String>())
}
fn coq_codec(c: Codec) -> &'static str {
    match c {
        Codec::Bech32 => "(CBech Bech32)",
        Codec::Bech32m => "(CBech Bech32m)",
        Codec::Std => "CStd",
    }
}
fn coq_probe(p: &ProbeOut) -> String {
    match p {
        ProbeOut::Round { b, h, c, v } => format!("PRound {} {} {} {}", coq_bytes(b), coq_rt(h), coq_rb(c), coq_rt(v)),
        ProbeOut::Str { s, v, c, h } => format!("PString {} {} {} {}", coq_text(s), coq_rt(v), coq_rb(c), coq_rt(h)),
        ProbeOut::Sweep { s, v0, xs, rows, flips } => format!(
            "PSweep {} {} {} {} {}",
            coq_text(s),
            coq_rt(v0),
            coq_chars(xs),
            coq_list(rows, |r| coq_list(r, coq_cell)),
            coq_list(flips, coq_cell)
        ),
        ProbeOut::Foreign { p2, b, t, v, c } => format!(
            "PForeign {} {} {} {} {}",
            match p2 {
                None => "FVariant".to_string(),
                Some(p) => format!("(FPrefix {})", coq_text(p)),
            },
            coq_bytes(b),
            coq_rt(t),
            coq_rt(v),
            coq_rb(c)
        ),
        ProbeOut::Make { d, m, m2, helpers, v, c, .. } => format!(
            "PMake {} {} {} {} {} {}",
            coq_bytes(d),
            coq_rt(m),
            coq_rt(m2),
            coq_list(helpers, coq_rt),
            coq_rt(v),
            coq_rb(c)
        ),
        ProbeOut::Distinct { d1, d2, p2, m1, m2 } => {
            format!("PDistinct {} {} {} {} {}", coq_bytes(d1), coq_bytes(d2), coq_text(p2), coq_rt(m1), coq_rt(m2))
        }
    }
}

// ---------- statistics ----------
fn tally_rt(st: &mut std::collections::BTreeMap<String, u64>, what: &str, r: &RT) {
    let k = match r {
        R::Ok(_) => "ok",
        R::Err => "err",
        R::Panic => "panic",
    };
    *st.entry(format!("{}_{}", what, k)).or_insert(0) += 1;
}
fn tally_rb(st: &mut std::collections::BTreeMap<String, u64>, what: &str, r: &RB) {
    let k = match r {
        R::Ok(_) => "ok",
        R::Err => "err",
        R::Panic => "panic",
    };
    *st.entry(format!("{}_{}", what, k)).or_insert(0) += 1;
}

fn emit(out: &mut Out, inp: &Input) {
    let inst = Inst::new(inp.codec, &inp.prefix);
    let obs: Vec<ProbeOut> = inp.probes.iter().map(|p| run_probe(&inst, p)).collect();
    let mut st = std::mem::take(&mut out.stats);
    let (mut n_ok, mut n_err) = (0u64, 0u64);
    fn seen_t(st: &mut std::collections::BTreeMap<String, u64>, ok: &mut u64, err: &mut u64, w: &str, r: &RT) {
        tally_rt(st, w, r);
        match r {
            R::Ok(_) => *ok += 1,
            R::Err => *err += 1,
            _ => {}
        }
    }
    for o in &obs {
        match o {
            ProbeOut::Round { b, h, c, v } => {
                *st.entry("probe_round".into()).or_insert(0) += 1;
                let lk = match b.len() {
                    0 => "0",
                    1..=64 => "1..64",
                    65..=255 => "65..255",
                    _ => ">255",
                };
                *st.entry(format!("round_len_{}", lk)).or_insert(0) += 1;
                seen_t(&mut st, &mut n_ok, &mut n_err, "humanize", h);
                tally_rb(&mut st, "canonicalize", c);
                seen_t(&mut st, &mut n_ok, &mut n_err, "validate", v);
            }
            ProbeOut::Str { v, c, h, .. } => {
                *st.entry("probe_string".into()).or_insert(0) += 1;
                seen_t(&mut st, &mut n_ok, &mut n_err, "validate", v);
                tally_rb(&mut st, "canonicalize", c);
                seen_t(&mut st, &mut n_ok, &mut n_err, "humanize", h);
            }
            ProbeOut::Sweep { s, v0, rows, flips, .. } => {
                *st.entry("probe_sweep".into()).or_insert(0) += 1;
                *st.entry("sweep_positions".into()).or_insert(0) += s.chars().count() as u64;
                seen_t(&mut st, &mut n_ok, &mut n_err, "validate", v0);
                for cell in rows.iter().flatten().chain(flips.iter()) {
                    *st.entry("corruptions".into()).or_insert(0) += 1;
                    let k = match cell.0 {
                        V::Err => {
                            n_err += 1;
                            "corruption_validate_err"
                        }
                        V::Same => "corruption_identity_ok",
                        V::Other(_) => "corruption_validate_other",
                        V::Panic => "corruption_validate_panic",
                    };
                    *st.entry(k.into()).or_insert(0) += 1;
                    tally_rb(&mut st, "corruption_canonicalize", &cell.1);
                }
            }
            ProbeOut::Foreign { p2, t, v, c, .. } => {
                *st.entry(if p2.is_some() { "probe_foreign_prefix" } else { "probe_foreign_variant" }.into()).or_insert(0) += 1;
                seen_t(&mut st, &mut n_ok, &mut n_err, "humanize", t);
                seen_t(&mut st, &mut n_ok, &mut n_err, "validate", v);
                tally_rb(&mut st, "canonicalize", c);
            }
            ProbeOut::Make { m, helpers, v, c, .. } => {
                *st.entry("probe_make".into()).or_insert(0) += 1;
                seen_t(&mut st, &mut n_ok, &mut n_err, "addr_make", m);
                *st.entry("helper_calls".into()).or_insert(0) += helpers.len() as u64;
                seen_t(&mut st, &mut n_ok, &mut n_err, "validate", v);
                tally_rb(&mut st, "canonicalize", c);
            }
            ProbeOut::Distinct { m1, m2, .. } => {
                *st.entry("probe_distinct".into()).or_insert(0) += 1;
                seen_t(&mut st, &mut n_ok, &mut n_err, "addr_make", m1);
                seen_t(&mut st, &mut n_ok, &mut n_err, "addr_make", m2);
            }
        }
    }
    *st.entry(format!("codec_{:?}", inp.codec)).or_insert(0) += 1;
    let pk = if Hrp::parse(&inp.prefix).is_err() {
        "prefix_invalid"
    } else if inp.prefix.chars().any(|c| c.is_ascii_uppercase()) {
        "prefix_uppercase"
    } else if inp.prefix.len() == 83 {
        "prefix_len83"
    } else if inp.prefix.len() == 1 {
        "prefix_len1"
    } else if inp.prefix == "cosmwasm" {
        "prefix_default"
    } else {
        "prefix_other_valid"
    };
    *st.entry(pk.into()).or_insert(0) += 1;
    out.stats = st;
    let coq = format!("c18 {} {} {}", coq_codec(inp.codec), coq_text(&inp.prefix), coq_list(&obs, coq_probe));
    // the JSON form keeps sweeps short: only the cells that are not (Err, Err)
    let obs_json: Vec<serde_json::Value> = obs
        .iter()
        .map(|o| match o {
            ProbeOut::Sweep { s, v0, xs, rows, flips } => {
                let mut notable = vec![];
                for (i, row) in rows.iter().enumerate() {
                    for (j, cell) in row.iter().enumerate() {
                        if *cell != (V::Err, R::Err) {
                            notable.push(serde_json::json!({"pos": i, "char": xs[j], "validate": cell.0, "canonicalize": cell.1}));
                        }
                    }
                }
                for (i, cell) in flips.iter().enumerate() {
                    if *cell != (V::Err, R::Err) {
                        notable.push(serde_json::json!({"pos": i, "char": "case-flip", "validate": cell.0, "canonicalize": cell.1}));
                    }
                }
                serde_json::json!({"Sweep": {"s": s, "v0": v0, "corruptions": rows.len() * xs.len() + flips.len(), "all_other_cells": "(Err,Err)", "notable": notable}})
            }
            o => serde_json::to_value(o).unwrap(),
        })
        .collect();
    out.push(Case {
        key: format!("{:?}", inp),
        json: serde_json::json!({"input": inp, "observed": obs_json}),
        coq,
        nontrivial: n_ok > 0 && n_err > 0,
    });
}

// ---------- generators ----------
const CHARSET: &str = "qpzry9x8gf2tvdw0s3jn54khce6mua7l";

fn sweep_chars() -> Vec<char> {
    let mut v: Vec<char> = CHARSET.chars().collect();
    // separator, non-charset lower/upper case letters, upper-case charset letters, blank, symbol, non-ASCII
    v.extend(['1', 'b', 'i', 'o', 'B', 'Q', 'L', ' ', '~', '\u{e9}']);
    v
}

fn rand_bytes(rng: &mut Rng, n: usize) -> Vec<u8> {
    (0..n)
        .map(|_| match rng.below(10) {
            0 => 0u8,
            1 => 255u8,
            _ => rng.below(256) as u8,
        })
        .collect()
}

fn enc_with<Ck: Checksum>(hrp: &Hrp, fes: &[Fe32]) -> String {
    fes.iter().copied().with_checksum::<Ck>(hrp).chars().collect()
}
/// encode field elements with a CORRECT checksum, independently of cw-multi-test (bech32 crate's lower-level API)
fn enc_fes(codec: Codec, hrp: &Hrp, fes: &[Fe32]) -> String {
    match codec {
        Codec::Bech32m => enc_with::<bech32::Bech32m>(hrp, fes),
        _ => enc_with::<bech32::Bech32>(hrp, fes),
    }
}
fn fes_of(b: &[u8]) -> Vec<Fe32> {
    b.iter().copied().bytes_to_fes().collect()
}
fn fe(x: u8) -> Fe32 {
    Fe32::try_from(x).unwrap()
}

fn prefix83() -> String {
    let mut s = String::new();
    let a = "abcdefghijklmnopqrstuvwxyz0123456789";
    while s.len() < 83 {
        s.push(a.as_bytes()[(s.len() * 7 + 3) % a.len()] as char);
    }
    s
}
fn valid_prefixes() -> Vec<String> {
    vec![
        "cosmwasm".into(),
        "COSMWASM".into(),
        "a".into(),
        prefix83(),
        "a1b!~2".into(),
        "11".into(),
        "juno".into(),
        "!".into(),
        "Z9".into(),
    ]
}
fn invalid_prefixes() -> Vec<String> {
    let mut p84 = prefix83();
    p84.push('x');
    vec!["".into(), p84, "CosmWasm".into(), "cos mwasm".into(), "cosm\u{e9}".into()]
}
/// a prefix that differs from p (also ignoring case) and is valid
fn another_prefix(p: &str) -> String {
    if p.len() < 83 {
        format!("{}{}", p, if p.chars().any(|c| c.is_ascii_uppercase()) { "X" } else { "x" })
    } else {
        p[..82].to_string()
    }
}
fn case_variant(p: &str) -> String {
    if p.chars().any(|c| c.is_ascii_uppercase()) {
        p.to_ascii_lowercase()
    } else {
        p.to_ascii_uppercase()
    }
}
/// largest n such that |p| + 1 + ceil(8n/5) + 6 <= 1023
fn max_len(p: &str) -> usize {
    let mut n = 0usize;
    while p.len() + 7 + ((n + 1) * 8 + 4) / 5 <= 1023 {
        n += 1;
    }
    n
}

/// adversarial strings for an instance with a VALID prefix
fn special_strings(codec: Codec, prefix: &str, rng: &mut Rng) -> Vec<String> {
    let hrp = Hrp::parse(prefix).unwrap();
    let mut v: Vec<String> = vec![];
    for n in [0usize, 1, 2, 3, 4, 5, 20, 32] {
        let b = rand_bytes(rng, n);
        let fes = fes_of(&b);
        let good = enc_fes(codec, &hrp, &fes);
        v.push(good.clone());
        v.push(good.to_ascii_uppercase());
        // upper-case hrp only / upper-case data only
        if let Some(pos) = good.rfind('1') {
            v.push(format!("{}{}", good[..pos].to_ascii_uppercase(), &good[pos..]));
            v.push(format!("{}{}", &good[..pos], good[pos..].to_ascii_uppercase()));
            v.push(format!("{}{}", case_variant(prefix), &good[pos..]));
        }
        // non-zero padding bits with a correct checksum
        let pad = (5 - (n * 8) % 5) % 5;
        if pad > 0 && !fes.is_empty() {
            let mut f2 = fes.clone();
            let last = f2.len() - 1;
            f2[last] = fe(f2[last].to_u8() | 1);
            v.push(enc_fes(codec, &hrp, &f2));
            let mut f3 = fes.clone();
            f3[last] = fe(f3[last].to_u8() | (1 << (pad - 1)));
            v.push(enc_fes(codec, &hrp, &f3));
        }
        // a whole extra padding symbol (zero / non-zero), two extra symbols, with a correct checksum
        for extra in [vec![0u8], vec![rng.range(1, 31) as u8], vec![0, 0], vec![rng.range(1, 31) as u8, rng.below(32) as u8]] {
            let mut f4 = fes.clone();
            f4.extend(extra.iter().map(|x| fe(*x)));
            v.push(enc_fes(codec, &hrp, &f4));
        }
        // a symbol dropped (with a correct checksum)
        if fes.len() > 1 {
            v.push(enc_fes(codec, &hrp, &fes[..fes.len() - 1]));
        }
        // checksum of the other variant / checksum truncated / checksum char appended
        v.push(enc_fes(other(codec), &hrp, &fes));
        v.push(good[..good.len() - 1].to_string());
        v.push(format!("{}q", good));
        v.push(format!(" {}", good));
        v.push(format!("{} ", good));
        v.push(format!("{}\u{e9}", good));
        // separator variants
        v.push(good.replacen('1', "", 1));
        v.push(format!("1{}", good));
        v.push(format!("{}1", good));
    }
    // 1023 / 1024 characters with a correct checksum
    for total in [1023usize, 1024] {
        let nf = total - prefix.len() - 7;
        let fes: Vec<Fe32> = (0..nf).map(|_| fe(rng.below(32) as u8)).collect();
        v.push(enc_fes(codec, &hrp, &fes));
    }
    v
}
fn generic_strings(prefix: &str) -> Vec<String> {
    vec![
        "".into(),
        "1".into(),
        prefix.to_string(),
        format!("{}1", prefix),
        format!("{}1qqqqq", prefix),
        format!("{}1qqqqqq", prefix),
        "cosmwasm1400u9sgy".into(),
        "cosmwasm14vp0sxxm".into(),
        "cosmwasm1h34lmpywh4upnjdg90cjf4j70aee6z8qqfspugamjp42e4q28kqs8s7vcp".into(),
        "COSMWASM1H34LMPYWH4UPNJDG90CJF4J70AEE6Z8QQFSPUGAMJP42E4Q28KQS8S7VCP".into(),
        "abc14w46h2at4w46h2at4w46h2at4w46h2atsghld7".into(),
        "abc14w46h2at4w46h2at4w46h2at4w46h2at958ngu".into(),
        "qqqqqqqq".into(),
        "no separator here".into(),
        "\u{e9}1qqqqqq".into(),
    ]
}

const NAMES: &[&str] = &["alice", "bob", "", "creator", "owner", "Alice", "alice ", "\u{e9}l\u{e9}onore", "a-very-long-name-that-goes-on-and-on-and-on-and-on-and-on-and-on-and-on-and-on-and-on-0123456789"];

fn cases_for_instance(out: &mut Out, codec: Codec, prefix: &str, valid: bool, rng: &mut Rng, thorough: bool, scale: u64) {
    let inp = |probes| Input { codec, prefix: prefix.to_string(), probes };
    // A. round trips: every length 0..=70, the canonical-length limits of the default codec, and
    //    the lengths around the 1023-character code length
    let mut lens: Vec<usize> = (0..=70).collect();
    lens.extend([255, 256]);
    if valid {
        lens.extend([max_len(prefix), max_len(prefix) + 1]);
    }
    let reps = if thorough { 4 * scale } else { scale };
    for _ in 0..reps {
        let mut probes = vec![];
        for &n in &lens {
            probes.push(ProbeIn::Round(rand_bytes(rng, n)));
        }
        probes.push(ProbeIn::Round(vec![0; 20]));
        probes.push(ProbeIn::Round(vec![255; 32]));
        emit(out, &inp(probes));
    }
    // B. strings
    let mut strs = generic_strings(prefix);
    if valid {
        strs.extend(special_strings(codec, prefix, rng));
    }
    emit(out, &inp(strs.into_iter().map(ProbeIn::Str).collect()));
    // foreign encodings
    let mut probes = vec![];
    for n in [0usize, 1, 20, 32, 64] {
        let b = rand_bytes(rng, n);
        probes.push(ProbeIn::ForeignVariant(b.clone()));
        for p2 in [another_prefix(prefix), case_variant(prefix), "cosmwasm".to_string(), "osmo".to_string(), prefix.to_string()] {
            probes.push(ProbeIn::ForeignPrefix(p2, b.clone()));
        }
    }
    // C. names
    let mut names: Vec<String> = NAMES.iter().map(|s| s.to_string()).collect();
    for _ in 0..(if thorough { 40 } else { 6 }) {
        let n = rng.range(1, 24) as usize;
        names.push((0..n).map(|_| (b'a' + rng.below(26) as u8) as char).collect());
    }
    // names that are themselves VALID addresses of this very codec and prefix (a helper that "passes addresses
    // through" instead of hashing them would make different names collide), and of another prefix
    for base in ["owner", "alice"] {
        if let R::Ok(a) = Inst::new(codec, prefix).make(base) {
            names.push(a);
        }
        if let R::Ok(a) = Inst::new(codec, &another_prefix(prefix)).make(base) {
            names.push(a);
        }
    }
    for n in &names {
        probes.push(ProbeIn::Make(n.clone()));
    }
    for (n1, n2, p2) in [
        ("alice", "bob", prefix.to_string()),
        ("alice", "alice", prefix.to_string()),
        ("alice", "alice", another_prefix(prefix)),
        ("alice", "alice", case_variant(prefix)),
        ("alice", "Alice", prefix.to_string()),
        ("alice", "bob", another_prefix(prefix)),
        ("", " ", prefix.to_string()),
    ] {
        probes.push(ProbeIn::Distinct { n1: n1.into(), n2: n2.into(), p2 });
    }
    // nested prefixes with names that spell the difference (a memo keyed by prefix ++ name without a separator
    // would make them collide): the second address must still be made under ITS prefix
    if prefix.len() < 60 && prefix.bytes().all(|b| b.is_ascii_lowercase()) {
        probes.push(ProbeIn::Distinct { n1: "valoperbob".into(), n2: "bob".into(), p2: format!("{}valoper", prefix) });
        probes.push(ProbeIn::Distinct { n1: "b".into(), n2: "".into(), p2: format!("{}b", prefix) });
    }
    // a name and the address made from it are different names: their addresses must differ
    for base in ["owner", "alice"] {
        if let R::Ok(a) = Inst::new(codec, prefix).make(base) {
            probes.push(ProbeIn::Distinct { n1: base.into(), n2: a, p2: prefix.to_string() });
        }
    }
    emit(out, &inp(probes));
    // D. every single-character corruption of sampled valid addresses (one case per address)
    if valid {
        let hrp = Hrp::parse(prefix).unwrap();
        let mut ns: Vec<usize> = if prefix.len() > 40 {
            vec![1 + rng.below(6) as usize]
        } else if thorough {
            vec![1, 2, 5, 20, 32, 64, rng.range(1, 64) as usize]
        } else {
            vec![*rng.pick(&[1usize, 2, 3, 5, 8]), *rng.pick(&[20usize, 32])]
        };
        if thorough && prefix.len() > 40 {
            ns.push(32);
        }
        for _ in 0..scale {
            for &n in &ns {
                let b = rand_bytes(rng, n);
                let s = enc_fes(codec, &hrp, &fes_of(&b));
                emit(out, &inp(vec![ProbeIn::Sweep { s, xs: sweep_chars() }]));
            }
        }
        // the address addr_make produces, as the implementation prints it
        if prefix == "cosmwasm" || prefix == "COSMWASM" || thorough {
            if let R::Ok(s) = Inst::new(codec, prefix).make("alice") {
                emit(out, &inp(vec![ProbeIn::Sweep { s, xs: sweep_chars() }]));
            }
        }
    }
}

pub fn run(args: &Args) {
    let mut out = Out::new(&args.out, "From Verif Require Import Base Bech32 Chk18.");
    if let Some(p) = &args.replay {
        let v: serde_json::Value = serde_json::from_slice(&std::fs::read(p).unwrap()).unwrap();
        let case = v.get("case").unwrap_or(&v);
        let inp: Input = serde_json::from_value(case["input"].clone()).unwrap();
        emit(&mut out, &inp);
        out.finish(100, "replay");
        return;
    }
    let mut rng = Rng::new(args.seed);
    // corpus: witnesses of the two repaired defects (must be reported if they come back)
    emit(
        &mut out,
        &Input {
            codec: Codec::Bech32,
            prefix: "cosmwasm".into(),
            probes: vec![
                // non-zero padding bits, correct checksum: decodes to [0xab] whose normal form is cosmwasm14vp0sxxm
                ProbeIn::Str("cosmwasm1400u9sgy".into()),
                ProbeIn::Str("cosmwasm14vp0sxxm".into()),
                ProbeIn::Round(vec![0xab]),
            ],
        },
    );
    for codec in [Codec::Bech32, Codec::Bech32m, Codec::Std] {
        emit(
            &mut out,
            &Input {
                codec,
                prefix: "COSMWASM".into(),
                probes: vec![ProbeIn::Make("alice".into()), ProbeIn::Make("bob".into()), ProbeIn::Round(vec![1, 2, 3])],
            },
        );
    }
    for codec in [Codec::Bech32, Codec::Bech32m, Codec::Std] {
        for p in valid_prefixes() {
            let mut r = rng.fork();
            cases_for_instance(&mut out, codec, &p, true, &mut r, args.thorough, args.scale);
        }
        for p in invalid_prefixes() {
            let mut r = rng.fork();
            cases_for_instance(&mut out, codec, &p, false, &mut r, args.thorough, args.scale);
        }
    }
    out.finish(
        6,
        "one case = one Api instance (codec x prefix) with a list of probes: round trips for every length 0..70 (+255/256 and the lengths around the 1023-character limit), adversarial strings (non-zero padding / extra padding symbols with a correct checksum, case variants, truncated, separators), foreign encodings (other variant, other prefixes), names (addr_make + helpers), and for sampled valid addresses EVERY single-character corruption (each position x 42 replacement characters + case flip); distinct by SHA-256 of the input; non-trivial = the implementation answered at least one Ok and at least one Err in the case",
    );
}
