mod c18;
fn main() {
    let args = common::parse_args("C18");
    c18::run(&args);
}
