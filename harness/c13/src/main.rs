//! C13: malformed responses are rejected before any effect is kept.
use exec_common::gen::Cfg;
use exec_common::*;
fn main() {
    let mut cfg = Cfg::default();
    cfg.p_fail = 5;
    cfg.p_malformed = 12;
    cfg.rich_text = true;
    cfg.queries = false;
    // two of the six codes are registered through ContractWrapper::new_with_empty(..).with_*_empty(..)
    cfg.wrapped_codes = true;
    run_prop("C13", "c13", cfg, 150, 1500, vec![],
        "scenarios whose responses draw attribute keys / values / event types from a grammar of boundary strings (empty, blanks, '_' in every position, U+00A0, U+3000, U+200B, 2-byte characters, 0-2 byte types) with 12 % malformed, at every entry point and depth; distinct by SHA-256; non-trivial = a program with a malformed response was actually entered",
        &|_, obs| obs.iter().any(|o| !o.trace.is_empty() && !matches!(o.outcome, OutcomeS::Ok(_))));
}
