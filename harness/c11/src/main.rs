//! C11: code ids and contract addresses are unique, stable and usable.
use common::Rng;
use exec_common::driver::*;
use exec_common::reg::*;
use exec_common::*;

const CS_A: [u8; 32] = [0xA1; 32];
const CS_B: [u8; 32] = [0x0B; 32];

fn srcs() -> Vec<SourceS> {
    vec![
        full_src(201),
        SourceS { tag: 202, checksum: None, has_sudo: true, has_reply: true, has_migrate: false, wrapped: false },
        SourceS { tag: 203, checksum: None, has_sudo: false, has_reply: false, has_migrate: true, wrapped: false },
        // two different codes with the SAME explicit checksum: their salted addresses coincide
        SourceS { tag: 204, checksum: Some(CS_A.to_vec()), has_sudo: true, has_reply: true, has_migrate: true, wrapped: false },
        SourceS { tag: 205, checksum: Some(CS_A.to_vec()), has_sudo: true, has_reply: true, has_migrate: true, wrapped: false },
        SourceS { tag: 206, checksum: Some(CS_B.to_vec()), has_sudo: true, has_reply: false, has_migrate: true, wrapped: false },
        // registered through ContractWrapper: entry points they lack are simply not attached
        wrapped_src(104, true, true, true),
        wrapped_src(105, true, true, false),
        wrapped_src(107, false, false, true),
    ]
}

struct G<'a> {
    rng: &'a mut Rng,
    live: Live,
    nodes: Nodes,
    users: Vec<String>,
    ids: Vec<u64>,
    block: BlockS,
    dispatcher: Option<String>,
    /// (sender, code id, salt) of salted instantiations that succeeded: repeated later
    salted_done: Vec<(String, u64, B)>,
}

fn inst(sender: &str, code_id: u64, p: Prog, label: &str, admin: Option<String>, salt: Option<B>) -> TopOp {
    TopOp::Exec { sender: sender.into(), m: Msg::Inst { code_id, p, funds: vec![], label: label.into(), admin, salt } }
}

impl<'a> G<'a> {
    fn new(rng: &'a mut Rng) -> Self {
        G {
            rng,
            live: Live::new(),
            nodes: Nodes(0),
            users: vec![user("alice"), user("bob"), user("carol")],
            ids: vec![],
            block: block0(),
            dispatcher: None,
            salted_done: vec![],
        }
    }
    fn some_user(&mut self) -> String {
        self.rng.pick(&self.users).clone()
    }
    fn some_id(&mut self) -> u64 {
        if self.ids.is_empty() || self.rng.chance(1, 10) {
            *self.rng.pick(&[0u64, 42, 9999, 3])
        } else {
            *self.rng.pick(&self.ids)
        }
    }
    fn contracts(&self) -> Vec<String> {
        reg_of(&self.live).into_iter().map(|x| x.0).collect()
    }
    fn id_hop(&mut self, h: Hop) {
        if let HObs::Id { r: IdOut::Ok(id), .. } = self.live.push(h) {
            if !self.ids.contains(&id) {
                self.ids.push(id);
            }
        }
    }
    fn table_op(&mut self) {
        let src = self.rng.pick(&srcs()).clone();
        match self.rng.below(10) {
            0..=3 => {
                let creator = if self.rng.chance(1, 3) { None } else { Some(self.some_user()) };
                self.id_hop(Hop::Store { creator, src })
            }
            4..=6 => {
                let max = self.ids.iter().max().cloned().unwrap_or(0);
                let pool = [0u64, 3, 5, 10, 100, max.saturating_add(2), max.saturating_add(1), u64::MAX - 1, self.some_id(), self.some_id()];
                let mut id = *self.rng.pick(&pool);
                if self.rng.chance(1, 14) {
                    id = u64::MAX;
                }
                let creator = self.some_user();
                self.id_hop(Hop::StoreWithId { creator, id, src })
            }
            _ => {
                let id = self.some_id();
                self.id_hop(Hop::Duplicate { id })
            }
        }
    }
    fn body(&mut self) -> Prog {
        match self.rng.below(12) {
            0 => failing(&mut self.nodes),
            1 => malformed(&mut self.nodes),
            2 | 3 => leaf(&mut self.nodes, vec![Action::Write(b"a".to_vec(), vec![7]), Action::Q(QAct::Dump)]),
            _ => leaf(&mut self.nodes, vec![]),
        }
    }
    fn salt(&mut self) -> Option<B> {
        // the empty salt and a 65-byte salt are outside what instantiate2 accepts (1..=64 bytes): must be refused
        match self.rng.below(14) {
            0..=3 => None,
            4..=7 => Some(vec![1]),
            8 | 9 => Some(vec![2, 2]),
            10 | 11 => Some(vec![7; 64]),
            12 => Some(vec![]),
            _ => Some(vec![7; 65]),
        }
    }
    fn inst_msg(&mut self) -> Msg {
        let code_id = self.some_id();
        // labels are recorded exactly as supplied: also whitespace-padded and whitespace-only ones (not empty => accepted)
        let label = if self.rng.chance(1, 12) { "" } else { *self.rng.pick(&["L", "label two", " padded ", " ", "L", "\tx\n"]) };
        // the admin is recorded exactly as supplied: instantiate does not validate it (only UpdateAdmin does), so
        // strings the Api would reject (a plain name, a foreign-prefix address, the empty string) are recorded too
        let admin = match self.rng.below(4) {
            0 => None,
            1 => Some(self.some_user()),
            3 if self.rng.chance(1, 2) => Some(self.rng.pick(&["dao-core", "", "juno1h34lmpywh4upnjdg90cjf4j70aee6z8qqfspugamjp42e4q28kqsksmtyp"]).to_string()),
            _ => self.contracts().first().cloned().or(Some(self.users[0].clone())),
        };
        let funds = match self.rng.below(10) {
            0 => vec![CoinS { denom: "uatom".into(), amount: 3 }],
            1 => vec![CoinS { denom: "uatom".into(), amount: 100_000 }],
            _ => vec![],
        };
        let salt = self.salt();
        Msg::Inst { code_id, p: self.body(), funds, label: label.into(), admin, salt }
    }
    fn root_inst(&mut self) {
        let mut sender = self.some_user();
        let mut m = self.inst_msg();
        if !self.salted_done.is_empty() && self.rng.chance(1, 3) {
            // repeat an earlier salted instantiation: same creator and salt; same code, or any other id
            // (a duplicate of it has the same checksum, hence the same address)
            let (s0, c0, salt0) = self.rng.pick(&self.salted_done).clone();
            sender = s0;
            if let Msg::Inst { code_id, salt, .. } = &mut m {
                *salt = Some(salt0);
                if !self.rng.chance(1, 3) {
                    *code_id = c0;
                }
            }
        }
        let key = match &m {
            Msg::Inst { code_id, salt: Some(sa), .. } => Some((sender.clone(), *code_id, sa.clone())),
            _ => None,
        };
        let op = if self.rng.chance(1, 4) {
            match m {
                Msg::Inst { code_id, p, funds, label, admin, salt } => TopOp::HelperInst { sender, code_id, p, funds, label, admin, salt },
                _ => unreachable!(),
            }
        } else {
            TopOp::Exec { sender, m }
        };
        let b = self.block.clone();
        let o = self.live.top(&b, op);
        if let (Some(k), OutcomeS::Ok(_)) = (key, &o.outcome) {
            self.salted_done.push(k);
        }
    }
    /// instantiations inside sub-messages of the dispatcher: caught failures (rolled back), successes, and an
    /// instantiation AFTER a rolled-back one in the same transaction
    fn nested(&mut self) {
        let d = match &self.dispatcher {
            Some(d) => d.clone(),
            None => return,
        };
        let n_subs = 1 + self.rng.below(3);
        let node = self.nodes.next();
        let mut subs = vec![];
        for i in 0..n_subs {
            let m = self.inst_msg();
            let ro = *self.rng.pick(&[ReplyOnS::Error, ReplyOnS::Always, ReplyOnS::Never, ReplyOnS::Success, ReplyOnS::Error]);
            let on_ok = leaf(&mut self.nodes, vec![]);
            let on_err = leaf(&mut self.nodes, vec![]);
            subs.push(Sub { id: 10 + i, payload: vec![i as u8], ro, m: Box::new(m), on_ok, on_err });
        }
        let p = Prog {
            node,
            acts: vec![Action::Write(format!("m{}", node).into_bytes(), vec![1])],
            out: if self.rng.chance(1, 10) { Output::Fail } else { Output::Resp { attrs: vec![], events: vec![], data: None, subs } },
        };
        let sender = self.some_user();
        let b = self.block.clone();
        self.live.top(&b, TopOp::Exec { sender, m: Msg::Exec { c: d, p, funds: vec![] } });
    }
    fn query(&mut self) {
        let cs = self.contracts();
        let some_c = if cs.is_empty() || self.rng.chance(1, 5) {
            if self.rng.chance(1, 2) {
                self.some_user()
            } else {
                "junk".to_string()
            }
        } else {
            self.rng.pick(&cs).clone()
        };
        match self.rng.below(4) {
            0 | 1 => {
                let id = self.some_id();
                self.live.push(Hop::CodeInfo { id });
            }
            2 => {
                self.live.push(Hop::Info { c: some_c });
            }
            _ => {
                self.live.push(Hop::Data { c: some_c });
            }
        }
    }
    /// every id in the table: CodeInfo, instantiate, migrate-to; then use the migrated contract
    fn sweep(&mut self) {
        let alice = self.users[0].clone();
        let bob = self.users[1].clone();
        let b = self.block.clone();
        let mut ids = self.ids.clone();
        ids.sort();
        let mut victim: Option<String> = None;
        for id in ids.into_iter().take(10) {
            self.live.push(Hop::CodeInfo { id });
            let before: Vec<String> = self.contracts();
            let p = leaf(&mut self.nodes, vec![]);
            self.live.top(&b, inst(&alice, id, p, "sweep", Some(alice.clone()), None));
            let after = self.contracts();
            let new: Vec<&String> = after.iter().filter(|a| !before.contains(a)).collect();
            if let Some(a) = new.first() {
                self.live.push(Hop::Data { c: (*a).clone() });
                if victim.is_none() {
                    victim = Some((*a).clone());
                }
            }
            if let Some(v) = victim.clone() {
                let p = leaf(&mut self.nodes, vec![Action::Q(QAct::Dump)]);
                self.live.top(&b, TopOp::Exec { sender: alice.clone(), m: Msg::Migrate { c: v.clone(), new_code: id, p } });
                self.live.push(Hop::Info { c: v.clone() });
                let p = leaf(&mut self.nodes, vec![Action::Q(QAct::Dump)]);
                self.live.top(&b, TopOp::Exec { sender: bob.clone(), m: Msg::Exec { c: v, p, funds: vec![] } });
            }
        }
    }
    fn run(mut self, thorough: bool) -> (History, Vec<HObs>) {
        for _ in 0..1 + self.rng.below(4) {
            self.table_op();
        }
        let users = self.users.clone();
        mint_all(&mut self.live, &users);
        // a dispatcher with every entry point (so that replies can catch failed instantiations)
        self.id_hop(Hop::Store { creator: None, src: full_src(200) });
        if let Some(&id) = self.ids.last() {
            let before = self.contracts();
            let p = leaf(&mut self.nodes, vec![]);
            let b = self.block.clone();
            self.live.top(&b, inst(&users[0], id, p, "dispatcher", Some(users[0].clone()), None));
            self.dispatcher = self.contracts().into_iter().find(|a| !before.contains(a));
        }
        let n = if thorough { 8 + self.rng.below(10) } else { 5 + self.rng.below(7) };
        for _ in 0..n {
            if self.rng.chance(1, 4) {
                self.block.height += 1 + self.rng.below(3);
                self.block.time_ns += 5_000_000_000;
            }
            match self.rng.below(10) {
                0 | 1 => self.table_op(),
                2..=4 => self.root_inst(),
                5..=7 => self.nested(),
                _ => self.query(),
            }
        }
        self.sweep();
        (History { hops: self.live.hops, users: self.users }, self.live.obs)
    }
}

fn fixed() -> Vec<History> {
    let alice = user("alice");
    let bob = user("bob");
    let users = vec![alice.clone(), bob.clone(), user("carol")];
    let b = block0();
    let mut n = Nodes(0);
    let top = |op: TopOp| Hop::Top { block: b.clone(), op };
    let mut out = vec![];
    // F2 witness 1: code stored under id 10 as the ONLY code, then instantiated, queried, used
    let a10 = classic_address(10, 0);
    out.push(History {
        users: users.clone(),
        hops: vec![
            Hop::StoreWithId { creator: alice.clone(), id: 10, src: full_src(210) },
            Hop::CodeInfo { id: 10 },
            top(inst(&alice, 10, leaf(&mut n, vec![]), "ten", None, None)),
            Hop::Info { c: a10.clone() },
            Hop::Data { c: a10.clone() },
            top(TopOp::Exec { sender: bob.clone(), m: Msg::Exec { c: a10.clone(), p: leaf(&mut n, vec![Action::Q(QAct::Dump)]), funds: vec![] } }),
            top(TopOp::HelperInst { sender: bob.clone(), code_id: 10, p: leaf(&mut n, vec![]), funds: vec![], label: "ten again".into(), admin: Some(alice.clone()), salt: Some(vec![5]) }),
        ],
    });
    // F2 witness 2: migrate to a non-contiguous id
    let c1 = classic_address(1, 0);
    out.push(History {
        users: users.clone(),
        hops: vec![
            Hop::Store { creator: None, src: full_src(201) },
            Hop::StoreWithId { creator: bob.clone(), id: 10, src: full_src(210) },
            top(inst(&alice, 1, leaf(&mut n, vec![Action::Write(b"a".to_vec(), vec![9])]), "one", Some(alice.clone()), None)),
            top(TopOp::Exec { sender: alice.clone(), m: Msg::Migrate { c: c1.clone(), new_code: 10, p: leaf(&mut n, vec![Action::Q(QAct::Dump)]) } }),
            Hop::Info { c: c1.clone() },
            top(TopOp::Exec { sender: bob.clone(), m: Msg::Exec { c: c1.clone(), p: leaf(&mut n, vec![Action::Q(QAct::Dump)]), funds: vec![] } }),
            top(TopOp::WasmSudo { c: c1.clone(), p: leaf(&mut n, vec![]) }),
        ],
    });
    // the top of the id space: 2^64-2 explicit, 2^64-1 automatic, then no id is left
    out.push(History {
        users: users.clone(),
        hops: vec![
            Hop::StoreWithId { creator: alice.clone(), id: u64::MAX - 1, src: full_src(201) },
            Hop::Store { creator: Some(bob.clone()), src: full_src(202) },
            Hop::Store { creator: None, src: full_src(203) },
            Hop::Duplicate { id: u64::MAX },
            Hop::StoreWithId { creator: alice.clone(), id: u64::MAX, src: full_src(204) },
            Hop::StoreWithId { creator: alice.clone(), id: 0, src: full_src(204) },
            Hop::StoreWithId { creator: alice.clone(), id: 7, src: full_src(207) },
            Hop::CodeInfo { id: u64::MAX },
            top(inst(&alice, u64::MAX, leaf(&mut n, vec![]), "max", None, None)),
            top(inst(&alice, u64::MAX - 1, leaf(&mut n, vec![]), "max-1", None, Some(vec![1]))),
            top(inst(&alice, 7, leaf(&mut n, vec![]), "seven", None, None)),
        ],
    });
    // salted addresses: repetition, the duplicate of a code (same checksum), another creator, another salt
    out.push(History {
        users: users.clone(),
        hops: vec![
            Hop::Store { creator: None, src: full_src(201) },
            Hop::Duplicate { id: 1 },
            Hop::Store { creator: None, src: full_src(203) },
            top(inst(&alice, 1, leaf(&mut n, vec![]), "s", None, Some(vec![1]))),
            top(inst(&alice, 1, leaf(&mut n, vec![]), "other label", Some(bob.clone()), Some(vec![1]))),
            top(inst(&alice, 2, leaf(&mut n, vec![]), "s", None, Some(vec![1]))),
            top(inst(&bob, 2, leaf(&mut n, vec![]), "s", None, Some(vec![1]))),
            top(inst(&alice, 3, leaf(&mut n, vec![]), "s", None, Some(vec![1]))),
            top(inst(&alice, 1, leaf(&mut n, vec![]), "s", None, Some(vec![2]))),
            top(inst(&alice, 1, leaf(&mut n, vec![]), "", None, Some(vec![3]))),
        ],
    });
    // the salt must have 1..=64 bytes: an empty or 65-byte salt is refused (never the classic address instead),
    // every time, leaving the raw store as it was; the neighbouring lengths 1 and 64 are accepted
    out.push(History {
        users: users.clone(),
        hops: vec![
            Hop::Store { creator: None, src: full_src(201) },
            top(inst(&alice, 1, leaf(&mut n, vec![]), "empty salt", None, Some(vec![]))),
            top(inst(&alice, 1, leaf(&mut n, vec![]), "empty salt", None, Some(vec![]))),
            top(TopOp::HelperInst { sender: bob.clone(), code_id: 1, p: leaf(&mut n, vec![]), funds: vec![], label: "empty salt".into(), admin: Some(alice.clone()), salt: Some(vec![]) }),
            top(inst(&alice, 1, leaf(&mut n, vec![]), "long salt", None, Some(vec![9; 65]))),
            top(inst(&alice, 1, leaf(&mut n, vec![]), "long salt", None, Some(vec![9; 65]))),
            Hop::Data { c: classic_address(1, 0) },
            top(inst(&alice, 1, leaf(&mut n, vec![]), "classic", None, None)),
            top(inst(&alice, 1, leaf(&mut n, vec![]), "empty salt", None, Some(vec![]))),
            top(inst(&alice, 1, leaf(&mut n, vec![]), "64", None, Some(vec![9; 64]))),
            top(inst(&alice, 1, leaf(&mut n, vec![]), "1", None, Some(vec![0]))),
            Hop::Data { c: classic_address(1, 1) },
        ],
    });
    // a rolled-back instantiation does not consume an instance number
    let d = classic_address(1, 0);
    let sub_fail = with_sub(&mut n, 1, ReplyOnS::Error, Msg::Inst { code_id: 1, p: failing(&mut Nodes(900)), funds: vec![], label: "gone".into(), admin: None, salt: None });
    out.push(History {
        users: users.clone(),
        hops: vec![
            Hop::Store { creator: None, src: full_src(201) },
            top(inst(&alice, 1, leaf(&mut n, vec![]), "d", None, None)),
            top(TopOp::Exec { sender: bob.clone(), m: Msg::Exec { c: d.clone(), p: sub_fail, funds: vec![] } }),
            top(inst(&alice, 1, leaf(&mut n, vec![]), "next", None, None)),
            Hop::Data { c: classic_address(1, 1) },
            Hop::Data { c: classic_address(1, 2) },
        ],
    });
    out
}

fn main() {
    run_reg_prop(
        "C11",
        "c11",
        fixed(),
        &|rng, thorough| G::new(rng).run(thorough),
        40,
        400,
        "histories = 1-4 code-table operations (store_code, store_code_with_creator, store_code_with_id with ids 0 / in use / non-contiguous / 2^64-2 / 2^64-1, duplicate_code of stored / unknown / 0), mint, a dispatcher contract, then 5-18 steps drawn from: further table operations, root instantiations (classic / instantiate2 with repeated salts, empty and 65-byte salts, codes sharing a checksum, empty label, unknown id, failing or malformed body, overdraft; via execute or the instantiate helpers), dispatcher calls with 1-3 instantiating sub-messages under every reply mode (caught failures = rolled-back instantiations, followed by further instantiations), CodeInfo / ContractInfo / contract_data queries; then a SWEEP over every id in the table: CodeInfo, instantiate, migrate a contract to it, call it. 6 fixed histories first (both F2 witnesses, top of the id space, salted repetitions, salts of 0 / 65 / 64 / 1 bytes, rolled-back instance number). distinct by SHA-256 of the history; non-trivial = at least one store call returned an id, at least one instantiation succeeded and at least one was refused or rolled back",
        &|_, obs| {
            let stored = obs.iter().any(|o| matches!(o, HObs::Id { r: IdOut::Ok(_), .. }));
            let inst_ok = obs.iter().any(|o| matches!(o, HObs::Top(s) if matches!(s.outcome, OutcomeS::Ok(_)) && s.trace.iter().any(|e| matches!(e, Entry::Call { ep: Ep::Inst, .. }))));
            let refused = obs.iter().any(|o| matches!(o, HObs::Top(s) if !matches!(s.outcome, OutcomeS::Ok(_)) || s.trace.iter().any(|e| matches!(e, Entry::Call { ep: Ep::Reply, rep: Some((_, _, RRes::Err)), .. }))));
            stored && inst_ok && refused
        },
    );
}
