//! Runs a scenario on a real App and observes it; decodes the raw root store into typed windows;
//! derives contract addresses independently of cw-multi-test.
use crate::contract::*;
use crate::lang::*;
use common::catch;
use cosmwasm_std::testing::{MockApi, MockStorage};
use cosmwasm_std::{instantiate2_address, Addr, Api, Binary, BlockInfo, CanonicalAddr, Checksum, Empty, Order, Storage, Timestamp};
use cw_multi_test::{
    no_init, App, AppBuilder, AppResponse, BankKeeper, BankSudo, DistributionKeeper, Executor, GovFailingModule, IbcFailingModule, StakeKeeper,
    StargateFailing, SudoMsg, WasmKeeper,
};
use sha2::{Digest, Sha256};

pub type TApp =
    App<BankKeeper, MockApi, MockStorage, RecModule, WasmKeeper<CMsg, Empty>, StakeKeeper, DistributionKeeper, IbcFailingModule, GovFailingModule, StargateFailing>;

pub fn new_app() -> TApp {
    crate::contract::RAN_AT.with(|r| r.borrow_mut().clear());
    AppBuilder::new_custom().with_custom(RecModule).build(no_init)
}

pub fn user(name: &str) -> String {
    MockApi::default().addr_make(name).to_string()
}

pub fn to_block(b: &BlockS) -> BlockInfo {
    BlockInfo { height: b.height, time: Timestamp::from_nanos(b.time_ns), chain_id: b.chain_id.clone() }
}

/// wasmd's classic address: sha256(sha256("module") ++ "wasm\0" ++ be64(code_id) ++ be64(instance_id)),
/// humanized with the default bech32 codec — computed here, not taken from cw-multi-test
pub fn classic_address(code_id: u64, instance_id: u64) -> String {
    let mut key = b"wasm\0".to_vec();
    key.extend_from_slice(&code_id.to_be_bytes());
    key.extend_from_slice(&instance_id.to_be_bytes());
    let module = Sha256::digest(b"module");
    let mut h = Sha256::new();
    h.update(module);
    h.update(&key);
    let canon = h.finalize().to_vec();
    bech32::encode::<bech32::Bech32>(bech32::Hrp::parse("cosmwasm").unwrap(), &canon).unwrap()
}

pub fn default_checksum(code_id: u64) -> Vec<u8> {
    Sha256::digest(format!("contract code {}", code_id).as_bytes()).to_vec()
}

pub fn code_checksum(c: &CodeS) -> Vec<u8> {
    c.checksum.clone().unwrap_or_else(|| default_checksum(c.id))
}

pub fn salted_address(checksum: &[u8], creator: &str, salt: &[u8]) -> Option<String> {
    let canon: CanonicalAddr = MockApi::default().addr_canonicalize(creator).ok()?;
    let a = instantiate2_address(checksum, &canon, salt).ok()?;
    Some(bech32::encode::<bech32::Bech32>(bech32::Hrp::parse("cosmwasm").unwrap(), a.as_slice()).unwrap())
}

pub fn store_codes(app: &mut TApp, codes: &[CodeS]) {
    for c in codes {
        let checksum = c.checksum.as_ref().map(|b| Checksum::from(<[u8; 32]>::try_from(b.as_slice()).unwrap()));
        let contract: Box<dyn cw_multi_test::Contract<CMsg, Empty>> = if c.wrapped {
            wrapped::contract(c.tag, c.has_sudo, c.has_reply, c.has_migrate, checksum)
        } else {
            Box::new(Scripted { tag: c.tag, has_sudo: c.has_sudo, has_reply: c.has_reply, has_migrate: c.has_migrate, checksum })
        };
        app.store_code_with_id(Addr::unchecked(c.creator.clone()), c.id, contract).unwrap();
    }
}

fn lp(ns: &[u8]) -> Vec<u8> {
    let mut v = vec![(ns.len() >> 8) as u8, (ns.len() & 255) as u8];
    v.extend_from_slice(ns);
    v
}

pub fn raw_dump(st: &dyn Storage) -> Vec<(B, B)> {
    st.range(None, None, Order::Ascending).collect()
}

pub fn digest(raw: &[(B, B)]) -> String {
    let mut h = Sha256::new();
    for (k, v) in raw {
        h.update((k.len() as u64).to_be_bytes());
        h.update(k);
        h.update((v.len() as u64).to_be_bytes());
        h.update(v);
    }
    hex::encode(&h.finalize()[..16])
}

/// partition the raw root store by window (own re-implementation of the key layout) and decode
pub fn decode_state(raw: &[(B, B)]) -> StateS {
    let bank_p = [lp(b"bank"), lp(b"balances")].concat();
    let reg_p = [lp(b"wasm"), lp(b"contracts")].concat();
    let wasm_p = lp(b"wasm");
    let mut s = StateS::default();
    for (k, v) in raw {
        if k.starts_with(&bank_p) {
            let addr = String::from_utf8_lossy(&k[bank_p.len()..]).to_string();
            let coins: Vec<cosmwasm_std::Coin> = serde_json::from_slice(v).unwrap_or_default();
            s.bank.push((addr, coins_from_std(&coins)));
            continue;
        }
        if k.starts_with(&reg_p) {
            let addr = String::from_utf8_lossy(&k[reg_p.len()..]).to_string();
            if let Ok(cd) = serde_json::from_slice::<cw_multi_test::ContractData>(v) {
                s.reg.push((
                    addr,
                    CDataS { code_id: cd.code_id, creator: cd.creator.to_string(), admin: cd.admin.map(|a| a.to_string()), label: cd.label, created: cd.created },
                ));
                continue;
            }
        }
        if k.starts_with(&wasm_p) && k.len() >= wasm_p.len() + 2 {
            let rest = &k[wasm_p.len()..];
            let n = ((rest[0] as usize) << 8) | rest[1] as usize;
            if rest.len() >= 2 + n && rest[2..2 + n].starts_with(b"contract_data/") {
                let addr = String::from_utf8_lossy(&rest[2 + 14..2 + n]).to_string();
                let key = rest[2 + n..].to_vec();
                match s.cstore.last_mut() {
                    Some((a, m)) if *a == addr => m.push((key, v.clone())),
                    _ => s.cstore.push((addr, vec![(key, v.clone())])),
                }
                continue;
            }
        }
        // the staking / distribution windows are not part of the executor model; set_block writes the
        // (empty) unbonding queue there.  They are covered by the raw digests and by C14-C16.
        if k.starts_with(&lp(b"staking")) || k.starts_with(&lp(b"distribution")) {
            s.staking_raw.push((k.clone(), v.clone()));
            continue;
        }
        s.other.push((k.clone(), v.clone()));
    }
    s.bank.sort();
    s.reg.sort_by(|a, b| a.0.cmp(&b.0));
    s.cstore.sort_by(|a, b| a.0.cmp(&b.0));
    s
}

fn resp(r: &AppResponse) -> (Vec<EventS>, Option<B>) {
    (events_from_std(&r.events), r.data.clone().map(|b| b.to_vec()))
}

pub fn run_op(app: &mut TApp, op: &TopOp) -> OutcomeS {
    let r = catch(|| -> Result<Vec<(Vec<EventS>, Option<B>)>, String> {
        match op {
            TopOp::ExecMulti { sender, ms } => app
                .execute_multi(Addr::unchecked(sender.clone()), ms.iter().map(msg_to_cosmos).collect())
                .map(|v| v.iter().map(resp).collect())
                .map_err(|e| e.to_string()),
            TopOp::Exec { sender, m } => {
                app.execute(Addr::unchecked(sender.clone()), msg_to_cosmos(m)).map(|r| vec![resp(&r)]).map_err(|e| e.to_string())
            }
            TopOp::WasmSudo { c, p } => app.wasm_sudo(Addr::unchecked(c.clone()), p).map(|r| vec![resp(&r)]).map_err(|e| e.to_string()),
            TopOp::Mint { to, amt } => app
                .sudo(SudoMsg::Bank(BankSudo::Mint { to_address: to.clone(), amount: coins_to_std(amt) }))
                .map(|r| vec![resp(&r)])
                .map_err(|e| e.to_string()),
            TopOp::HelperInst { sender, code_id, p, funds, label, admin, salt } => match salt {
                None => app
                    .instantiate_contract(*code_id, Addr::unchecked(sender.clone()), p, &coins_to_std(funds), label.clone(), admin.clone())
                    .map(|a| vec![(vec![], Some(a.as_bytes().to_vec()))])
                    .map_err(|e| e.to_string()),
                Some(s) => app
                    .instantiate2_contract(
                        *code_id,
                        Addr::unchecked(sender.clone()),
                        p,
                        &coins_to_std(funds),
                        label.clone(),
                        admin.clone(),
                        Binary::from(s.clone()),
                    )
                    .map(|a| vec![(vec![], Some(a.as_bytes().to_vec()))])
                    .map_err(|e| e.to_string()),
            },
            TopOp::HelperExec { sender, c, p, funds } => app
                .execute_contract(Addr::unchecked(sender.clone()), Addr::unchecked(c.clone()), p, &coins_to_std(funds))
                .map(|r| vec![resp(&r)])
                .map_err(|e| e.to_string()),
            TopOp::HelperMigrate { sender, c, new_code, p } => app
                .migrate_contract(Addr::unchecked(sender.clone()), Addr::unchecked(c.clone()), p, *new_code)
                .map(|r| vec![resp(&r)])
                .map_err(|e| e.to_string()),
            TopOp::HelperSend { sender, to, amt } => app
                .send_tokens(Addr::unchecked(sender.clone()), Addr::unchecked(to.clone()), &coins_to_std(amt))
                .map(|r| vec![resp(&r)])
                .map_err(|e| e.to_string()),
        }
    });
    match r {
        Ok(Ok(v)) => OutcomeS::Ok(v),
        Ok(Err(_)) => OutcomeS::Err,
        Err(_) => OutcomeS::Panic,
    }
}

pub fn run_scenario_on(app: &mut TApp, sc: &Scenario) -> Vec<StepObs> {
    let mut out = vec![];
    for st in &sc.steps {
        let b = to_block(&st.block);
        if app.block_info() != b {
            app.set_block(b);
        }
        let before = raw_dump(app.storage());
        let _ = take_log();
        let outcome = run_op(app, &st.op);
        let trace = take_log();
        let after = raw_dump(app.storage());
        out.push(StepObs { trace, outcome, state: decode_state(&after), raw_before: digest(&before), raw_after: digest(&after) });
    }
    out
}

pub fn run_scenario(sc: &Scenario) -> Vec<StepObs> {
    let mut app = new_app();
    store_codes(&mut app, &sc.codes);
    run_scenario_on(&mut app, sc)
}
