//! Additions for C08 (storage isolation) and C10 (queries): a scenario runner that, around every
//! top-level call, also decodes the raw store BEFORE the call, reads every contract's data back four
//! ways, and issues App-level query batches twice with raw-store digests around them.
//! Nothing here changes the behaviour of the existing driver (C01-C05, C13 use `driver::run_scenario`).
use crate::contract::*;
use crate::driver::*;
use crate::lang::*;
use crate::print;
use common::{catch, coq_bool, coq_bytes, coq_list, coq_opt};
use cosmwasm_std::testing::MockStorage;
use cosmwasm_std::{to_json_binary, to_json_vec, Addr, Binary, ContractResult, Empty, Order, QueryRequest, StakingQuery, SystemResult, WasmQuery};
use serde::{Deserialize, Serialize};

#[derive(Serialize, Deserialize, Clone, Debug, PartialEq)]
pub struct KeyRead {
    pub key: B,
    /// `deps.storage.get(key)` inside the contract's own query handler (None: the smart query failed)
    pub own: Option<Option<B>>,
    /// `WasmQuery::Raw` through `App::wrap()` (None: the query failed)
    pub raw: Option<B>,
    /// `App::contract_storage(addr).get(key)`
    pub get: Option<B>,
    /// `App::contract_storage_mut(addr).get(key)`
    pub get_mut: Option<B>,
}

#[derive(Serialize, Deserialize, Clone, Debug, PartialEq)]
pub struct ReadBack {
    pub addr: String,
    /// `deps.storage.range(None, None, Ascending)` inside the contract's own query handler
    pub own_dump: Option<Vec<(B, B)>>,
    /// `App::dump_wasm_raw`
    pub dump_raw: Vec<(B, B)>,
    /// `App::contract_storage(addr).range(..)`
    pub storage: Vec<(B, B)>,
    /// `App::contract_storage_mut(addr).range(..)` (read only)
    pub storage_mut: Vec<(B, B)>,
    pub keys: Vec<KeyRead>,
}

#[derive(Serialize, Deserialize, Clone, Debug, PartialEq)]
pub struct IsoObs {
    pub step: StepObs,
    /// the raw root store decoded right before the call (after set_block)
    pub before: StateS,
    pub readbacks: Vec<ReadBack>,
}

fn wrap_raw(app: &TApp, req: &QueryRequest<Empty>) -> Option<B> {
    let r = catch(|| match app.wrap().raw_query(&to_json_vec(req).unwrap()) {
        SystemResult::Ok(ContractResult::Ok(b)) => Some(b.to_vec()),
        _ => None,
    });
    r.unwrap_or(None)
}

/// keys worth probing one by one at contract `addr`: some present ones and crafted absent ones
pub fn probe_keys(window: &[(B, B)], others: &[String]) -> Vec<B> {
    let mut ks: Vec<B> = window.iter().take(3).map(|(k, _)| k.clone()).collect();
    if let Some((k, _)) = window.last() {
        ks.push(k.clone());
    }
    ks.push(vec![]);
    ks.push(b"\x00\x04bank\x00\x08balances".to_vec());
    if let Some(o) = others.first() {
        ks.push([b"\x00\x04wasm\x00".to_vec(), vec![(14 + o.len()) as u8], b"contract_data/".to_vec(), o.as_bytes().to_vec(), b"a".to_vec()].concat());
    }
    ks.push(vec![255, 255]);
    ks.sort();
    ks.dedup();
    ks
}

pub fn read_back(app: &mut TApp, addr: &str, keys: &[B], qnode: u64) -> ReadBack {
    let a = Addr::unchecked(addr);
    // from inside: the contract's own query handler dumps and reads its storage
    let mut acts = vec![QAct::Dump];
    acts.extend(keys.iter().map(|k| QAct::Read(k.clone())));
    let qp = QProg { node: qnode, acts, ans: Some(vec![]) };
    let _ = take_log();
    let ok = wrap_raw(app, &QueryRequest::Wasm(WasmQuery::Smart { contract_addr: addr.to_string(), msg: to_json_binary(&qp).unwrap() })).is_some();
    let log = take_log();
    let mut own_dump = None;
    let mut own_reads: Vec<Option<B>> = vec![];
    if ok {
        for e in &log {
            match e {
                Entry::Obs { node, val: ObsVal::Dump(d) } if *node == qnode => own_dump = Some(d.clone()),
                Entry::Obs { node, val: ObsVal::Bytes(b) } if *node == qnode => own_reads.push(b.clone()),
                _ => {}
            }
        }
    }
    let dump_raw = app.dump_wasm_raw(&a);
    let (storage, gets): (Vec<(B, B)>, Vec<Option<B>>) = {
        let st = app.contract_storage(&a);
        (st.range(None, None, Order::Ascending).collect(), keys.iter().map(|k| st.get(k)).collect())
    };
    let (storage_mut, gets_mut): (Vec<(B, B)>, Vec<Option<B>>) = {
        let st = app.contract_storage_mut(&a);
        (st.range(None, None, Order::Ascending).collect(), keys.iter().map(|k| st.get(k)).collect())
    };
    let keys = keys
        .iter()
        .enumerate()
        .map(|(i, k)| KeyRead {
            key: k.clone(),
            own: if ok { own_reads.get(i).cloned() } else { None },
            raw: wrap_raw(app, &QueryRequest::Wasm(WasmQuery::Raw { contract_addr: addr.to_string(), key: Binary::from(k.clone()) })),
            get: gets[i].clone(),
            get_mut: gets_mut[i].clone(),
        })
        .collect();
    ReadBack { addr: addr.to_string(), own_dump, dump_raw, storage, storage_mut, keys }
}

pub fn run_scenario_iso(sc: &Scenario) -> Vec<IsoObs> {
    let mut app = new_app();
    store_codes(&mut app, &sc.codes);
    let mut out = vec![];
    for (i, st) in sc.steps.iter().enumerate() {
        let b = to_block(&st.block);
        if app.block_info() != b {
            app.set_block(b);
        }
        let before = raw_dump(app.storage());
        let _ = take_log();
        let outcome = run_op(&mut app, &st.op);
        let trace = take_log();
        let after = raw_dump(app.storage());
        let state = decode_state(&after);
        let addrs: Vec<String> = state.reg.iter().map(|(a, _)| a.clone()).collect();
        let mut readbacks = vec![];
        for (j, a) in addrs.iter().enumerate() {
            let empty = vec![];
            let window = state.cstore.iter().find(|(x, _)| x == a).map(|(_, m)| m).unwrap_or(&empty);
            let others: Vec<String> = addrs.iter().filter(|x| *x != a).cloned().collect();
            let keys = probe_keys(window, &others);
            readbacks.push(read_back(&mut app, a, &keys, 900_000 + (i as u64) * 100 + j as u64));
        }
        let _ = take_log();
        out.push(IsoObs {
            step: StepObs { trace, outcome, state, raw_before: digest(&before), raw_after: digest(&after) },
            before: decode_state(&before),
            readbacks,
        });
    }
    out
}

// ---------- printing (coq/ChkIso.v) ----------
fn obytes(o: &Option<B>) -> String {
    coq_opt(o, |b| coq_bytes(b))
}
pub fn readback(r: &ReadBack) -> String {
    format!(
        "Build_rback {} {} {} {} {} {}",
        print::text(&r.addr),
        coq_opt(&r.own_dump, |d| coq_list(d, print::kv)),
        coq_list(&r.dump_raw, print::kv),
        coq_list(&r.storage, print::kv),
        coq_list(&r.storage_mut, print::kv),
        coq_list(&r.keys, |k| format!("Build_kread {} {} {} {} {}", coq_bytes(&k.key), coq_opt(&k.own, obytes), obytes(&k.raw), obytes(&k.get), obytes(&k.get_mut)))
    )
}
pub fn one_step(st: &Step, o: &StepObs) -> String {
    format!(
        "(Build_step {} {} {} {} {} {} {})",
        print::block(&st.block),
        print::topop(&st.op),
        coq_list(&o.trace, print::entry),
        print::outcome(&o.outcome),
        print::state(&o.state),
        o.state.other.len(),
        coq_bool(o.raw_before == o.raw_after)
    )
}
pub fn isteps(sc: &Scenario, obs: &[IsoObs]) -> String {
    let v: Vec<String> = sc
        .steps
        .iter()
        .zip(obs.iter())
        .map(|(st, o)| format!("Build_istep {} {} {}", one_step(st, &o.step), print::state(&o.before), coq_list(&o.readbacks, readback)))
        .collect();
    format!("[{}]", v.join(";\n   "))
}

// ---------- C10: App-level query batches ----------
#[derive(Serialize, Deserialize, Clone, Debug, PartialEq)]
pub struct QObs {
    pub step: StepObs,
    /// the log of the batch (the answers are its `Obs { node: 0, .. }` entries), asked twice
    pub tr1: Vec<Entry>,
    pub tr2: Vec<Entry>,
    /// digest of the complete raw store: before batch 1 == after batch 1, after batch 1 == after batch 2
    pub same1: bool,
    pub same2: bool,
    /// staking / custom queries (not modelled at this level): the raw answers, twice
    pub ext1: Vec<Option<B>>,
    pub ext2: Vec<Option<B>>,
    pub digests: Vec<String>,
}

pub fn app_query_batch(app: &TApp, batch: &[QAct]) -> Vec<Entry> {
    let _ = take_log();
    let none = MockStorage::new();
    for q in batch {
        let _ = catch(|| run_qact(0, &none, &app.wrap(), q));
    }
    take_log()
}

pub fn ext_queries(app: &TApp, who: &str) -> Vec<Option<B>> {
    let reqs: Vec<QueryRequest<Empty>> = vec![
        QueryRequest::Staking(StakingQuery::BondedDenom {}),
        QueryRequest::Staking(StakingQuery::AllDelegations { delegator: who.to_string() }),
        QueryRequest::Staking(StakingQuery::AllValidators {}),
        QueryRequest::Custom(Empty {}),
    ];
    reqs.iter().map(|r| wrap_raw(app, r)).collect()
}

pub fn run_scenario_q(sc: &Scenario, batch: &[QAct]) -> Vec<QObs> {
    let mut app = new_app();
    store_codes(&mut app, &sc.codes);
    let who = sc.users.first().cloned().unwrap_or_default();
    let mut out = vec![];
    for st in &sc.steps {
        let b = to_block(&st.block);
        if app.block_info() != b {
            app.set_block(b);
        }
        let before = raw_dump(app.storage());
        let _ = take_log();
        let outcome = run_op(&mut app, &st.op);
        let trace = take_log();
        let after = raw_dump(app.storage());
        let d0 = digest(&after);
        let tr1 = app_query_batch(&app, batch);
        let ext1 = ext_queries(&app, &who);
        let d1 = digest(&raw_dump(app.storage()));
        let tr2 = app_query_batch(&app, batch);
        let ext2 = ext_queries(&app, &who);
        let d2 = digest(&raw_dump(app.storage()));
        let _ = take_log();
        out.push(QObs {
            step: StepObs { trace, outcome, state: decode_state(&after), raw_before: digest(&before), raw_after: d0.clone() },
            tr1,
            tr2,
            same1: d0 == d1,
            same2: d1 == d2,
            ext1,
            ext2,
            digests: vec![d0, d1, d2],
        });
    }
    out
}

pub fn qacts(l: &[QAct]) -> String {
    let mut acts = String::from("QANil");
    for a in l.iter().rev() {
        acts = format!("(QACons {} {})", print::qact(a), acts);
    }
    acts
}
pub fn qsteps(sc: &Scenario, obs: &[QObs]) -> String {
    let v: Vec<String> = sc
        .steps
        .iter()
        .zip(obs.iter())
        .map(|(st, o)| {
            format!(
                "Build_qstep {} {} {} {} {} {} {}",
                one_step(st, &o.step),
                coq_list(&o.tr1, print::entry),
                coq_list(&o.tr2, print::entry),
                coq_bool(o.same1),
                coq_bool(o.same2),
                coq_list(&o.ext1, obytes),
                coq_list(&o.ext2, obytes)
            )
        })
        .collect();
    format!("[{}]", v.join(";\n   "))
}
