//! Scenario generator: setup (mint, instantiate a few contracts) + random top-level ops whose
//! message trees carry failure injection, reply modes, attributes/events/data and queries.
use crate::driver::*;
use crate::lang::*;
use common::Rng;

#[derive(Clone)]
pub struct Cfg {
    pub max_depth: usize,
    pub max_nodes: usize,
    pub n_steps: (u64, u64),
    /// percent chance that a body fails
    pub p_fail: u64,
    /// percent chance that a response carries a malformed attribute / event
    pub p_malformed: u64,
    pub queries: bool,
    pub crafted_keys: bool,
    pub admin_ops: bool,
    pub helpers: bool,
    pub funds: bool,
    pub rich_text: bool,
    pub block_changes: bool,
    /// an execute with funds starts (right after its marker) by asking for the callee's own balance in the
    /// first attached denomination
    pub probe_funds: bool,
    /// bodies often end with `Write k v; Remove k` (sometimes `…; Write k w`) on a pool key, which is usually
    /// already committed: the overwrite-then-delete shape a write cache can get wrong
    pub set_remove_bias: bool,
    /// the code table is `wrapped_codes()` (the four default codes + two registered through
    /// `ContractWrapper::new_with_empty(..).with_*_empty(..)`: about a third of the contracts run through
    /// cw-multi-test's Empty-to-custom conversion of responses); the finished scenario is passed through
    /// `sanitize_wrapped` (no custom sub-message in a program that can run on such a contract)
    pub wrapped_codes: bool,
    /// top-level calls are often a Migrate that is AUTHORISED (sent by the admin the setup gave the even-numbered
    /// contracts, to a code that has a migrate entry point) and whose program has sub-messages with replies
    pub migrate_bias: bool,
    /// block heights occasionally jump beyond i64::MAX (a u64 height is legal; whatever a contract is told must
    /// be the simulator's block)
    pub huge_blocks: bool,
    /// response data is sometimes 127 / 128 / 129 bytes long (the protobuf length prefix becomes two bytes at 128)
    pub big_data: bool,
    /// every third contract of the setup is its OWN admin, and a program running at such a contract often returns
    /// a Migrate of itself as a sub-message (the dispatcher's code changes while its own sub-messages are processed)
    pub self_admin: bool,
    /// some sub-messages are statically doomed (instantiate with an empty label or an unknown code id, migrate to an
    /// unknown code id) and dispatched with ReplyOn::Error / Always and a reply handler that succeeds: the failure
    /// belongs to the SUB-message (caught), not to the contract that returned it
    pub doomed_subs: bool,
}
impl Default for Cfg {
    fn default() -> Self {
        Cfg {
            max_depth: 4,
            max_nodes: 18,
            n_steps: (2, 6),
            p_fail: 12,
            p_malformed: 3,
            queries: true,
            crafted_keys: false,
            admin_ops: true,
            helpers: true,
            funds: true,
            rich_text: false,
            block_changes: true,
            probe_funds: false,
            set_remove_bias: false,
            migrate_bias: false,
            huge_blocks: false,
            big_data: false,
            self_admin: false,
            doomed_subs: false,
            wrapped_codes: false,
        }
    }
}

pub struct G<'a> {
    pub rng: &'a mut Rng,
    pub cfg: Cfg,
    pub next_node: u64,
    pub users: Vec<String>,
    pub contracts: Vec<String>,
    pub codes: Vec<CodeS>,
    pub denoms: Vec<String>,
    pub budget: usize,
    pub n_registered_guess: u64,
    /// the contract the program being generated will run at (when known), and the contracts that are their own admin
    pub cur: Option<String>,
    pub own_admins: Vec<String>,
}

pub fn default_codes() -> Vec<CodeS> {
    let cr = user("creator");
    vec![
        CodeS { id: 1, tag: 101, creator: cr.clone(), checksum: None, has_sudo: true, has_reply: true, has_migrate: true, wrapped: false },
        CodeS { id: 2, tag: 102, creator: cr.clone(), checksum: None, has_sudo: true, has_reply: true, has_migrate: false, wrapped: false },
        CodeS { id: 7, tag: 107, creator: user("alice"), checksum: Some((0..32).map(|i| (i * 7 + 1) as u8).collect()), has_sudo: false, has_reply: true, has_migrate: true, wrapped: false },
        CodeS { id: 9, tag: 109, creator: cr, checksum: None, has_sudo: true, has_reply: false, has_migrate: true, wrapped: false },
    ]
}

/// the code table under `Cfg::wrapped_codes`: the default codes + codes 4 and 5 of the wrapped-Empty flavour
/// (`contract::wrapped`), interleaved so that `setup` (round robin over the table) always creates one
pub fn wrapped_codes() -> Vec<CodeS> {
    let d = default_codes();
    let w4 = CodeS { id: 4, tag: 104, creator: user("creator"), checksum: None, has_sudo: true, has_reply: true, has_migrate: true, wrapped: true };
    let w5 = CodeS {
        id: 5,
        tag: 105,
        creator: user("bob"),
        checksum: Some((0..32).map(|i| (i * 11 + 5) as u8).collect()),
        has_sudo: false,
        has_reply: true,
        has_migrate: false,
        wrapped: true,
    };
    vec![d[0].clone(), w4, d[1].clone(), d[2].clone(), w5, d[3].clone()]
}

pub const GOOD_KEYS: [&str; 6] = ["k", "key two", "a_b", "x", "é", "action"];
pub const BAD_KEYS: [&str; 7] = ["", " ", "_", " _x", "_contract_address", "\t_k\n", "\u{3000}"];
pub const GOOD_TYPES: [&str; 5] = ["ab", "transfer", " xy ", "é", "wasm"];
pub const BAD_TYPES: [&str; 5] = ["", " ", "a", " a ", "\u{2003}b\n"];

impl<'a> G<'a> {
    pub fn new(rng: &'a mut Rng, cfg: Cfg) -> Self {
        let users = vec![user("alice"), user("bob"), user("carol")];
        G {
            rng,
            codes: if cfg.wrapped_codes { wrapped_codes() } else { default_codes() },
            cfg,
            next_node: 1,
            users,
            contracts: vec![],
            denoms: vec!["uatom".into(), "btc".into()],
            budget: 0,
            n_registered_guess: 0,
            cur: None,
            own_admins: vec![],
        }
    }
    fn node(&mut self) -> u64 {
        let n = self.next_node;
        self.next_node += 1;
        n
    }
    pub fn some_user(&mut self) -> String {
        self.rng.pick(&self.users).clone()
    }
    pub fn some_contract(&mut self) -> String {
        if self.contracts.is_empty() || self.rng.chance(1, 25) {
            // an address that is valid but (probably) no contract, or a guess of a future one
            if self.rng.chance(1, 2) {
                self.some_user()
            } else {
                let c = self.rng.pick(&self.codes).id;
                classic_address(c, self.n_registered_guess + self.rng.below(2))
            }
        } else {
            self.rng.pick(&self.contracts).clone()
        }
    }
    pub fn some_addr(&mut self) -> String {
        if self.rng.chance(1, 2) {
            self.some_user()
        } else {
            self.some_contract()
        }
    }
    pub fn coins(&mut self, max: u128) -> Vec<CoinS> {
        let n = match self.rng.below(10) {
            0..=5 => 1,
            6 | 7 => 2,
            8 => 3,
            _ => 0,
        };
        (0..n)
            .map(|_| CoinS { denom: self.rng.pick(&self.denoms).clone(), amount: if self.rng.chance(1, 8) { 0 } else { 1 + self.rng.below(max as u64) as u128 } })
            .collect()
    }
    fn key(&mut self) -> B {
        if self.cfg.crafted_keys && self.rng.chance(1, 3) {
            // keys crafted to look like other windows' raw prefixes
            let other = self.some_contract();
            let mut pool: Vec<B> = vec![
                b"\x00\x04bank\x00\x08balances".to_vec(),
                b"\x00\x04wasm\x00\x09contracts".to_vec(),
                [b"\x00\x04wasm\x00".to_vec(), vec![(14 + other.len()) as u8], b"contract_data/".to_vec(), other.as_bytes().to_vec(), b"k".to_vec()].concat(),
                [b"\x00\x09contracts".to_vec(), other.as_bytes().to_vec()].concat(),
                vec![],
                vec![0],
                vec![255],
                vec![255, 255],
            ];
            let i = self.rng.below(pool.len() as u64) as usize;
            return pool.swap_remove(i);
        }
        let pool: [&[u8]; 5] = [b"a", b"b", b"ab", b"\x00", b"zz"];
        self.rng.pick(&pool).to_vec()
    }
    fn attr_text(&mut self, good: &[&str], bad: &[&str]) -> String {
        if self.rng.below(100) < self.cfg.p_malformed {
            self.rng.pick(bad).to_string()
        } else if self.cfg.rich_text && self.rng.chance(1, 3) {
            let all: Vec<&str> = good.iter().chain(bad.iter()).cloned().collect();
            let mut s = self.rng.pick(&all).to_string();
            if self.rng.chance(1, 2) {
                s = format!("{}{}", self.rng.pick(&[" ", "\n", "x", "_", "\u{a0}", "\u{200b}"]), s);
            }
            s
        } else {
            self.rng.pick(good).to_string()
        }
    }
    fn value(&mut self) -> String {
        self.rng.pick(&["", "v", " padded ", "_v", "1"]).to_string()
    }
    pub fn qact(&mut self, depth: usize) -> QAct {
        match self.rng.below(if depth < 2 { 10 } else { 9 }) {
            0 => QAct::Read(self.key()),
            1 => QAct::Dump,
            2 | 3 => {
                let a = self.some_addr();
                QAct::Balance(a, self.rng.pick(&self.denoms).clone())
            }
            4 => QAct::AllBal(self.some_addr()),
            5 => QAct::Supply(self.rng.pick(&self.denoms).clone()),
            6 => {
                let c = self.some_contract();
                QAct::Raw(c, self.key())
            }
            7 => QAct::Info(self.some_contract()),
            8 => {
                let ids = [1u64, 2, 7, 9, 3, 0];
                QAct::CodeInfo(*self.rng.pick(&ids))
            }
            _ => {
                let c = self.some_contract();
                let node = self.node();
                let n = self.rng.below(3);
                let acts = (0..n).map(|_| self.qact(depth + 1)).collect();
                let ans = if self.rng.chance(1, 6) { None } else { Some(vec![self.rng.below(256) as u8]) };
                QAct::Smart(c, Box::new(QProg { node, acts, ans }))
            }
        }
    }
    pub fn data(&mut self) -> Option<B> {
        if self.cfg.big_data && self.rng.chance(1, 10) {
            let n = *self.rng.pick(&[127usize, 128, 128, 129]);
            return Some((0..n).map(|i| (i * 7 + 3) as u8).collect());
        }
        match self.rng.below(4) {
            0 | 1 => None,
            2 => Some(vec![]),
            _ => Some((0..1 + self.rng.below(3)).map(|_| self.rng.below(256) as u8).collect()),
        }
    }
    pub fn prog(&mut self, depth: usize, allow_subs: bool) -> Prog {
        let node = self.node();
        self.budget = self.budget.saturating_sub(1);
        let mut acts = vec![Action::Write(format!("m{}", node).into_bytes(), vec![1])];
        for _ in 0..self.rng.below(3) {
            let a = match self.rng.below(10) {
                0..=3 if self.cfg.set_remove_bias => Action::Write(self.key(), vec![1 + self.rng.below(3) as u8]),
                0..=3 => Action::Write(self.key(), vec![1 + self.rng.below(200) as u8]),
                4 | 5 => Action::Remove(self.key()),
                _ if self.cfg.queries => Action::Q(self.qact(0)),
                _ => Action::Write(self.key(), vec![7]),
            };
            acts.push(a);
        }
        if self.cfg.set_remove_bias && self.rng.chance(1, 3) {
            let k = self.key();
            acts.push(Action::Write(k.clone(), vec![9]));
            if self.rng.chance(1, 2) {
                acts.push(Action::Remove(k.clone()));
            }
            if self.rng.chance(1, 2) {
                // write the key BACK to a value it probably already has underneath (the setup writes 1, 2, 3 ...)
                acts.push(Action::Write(k, vec![1 + self.rng.below(3) as u8]));
            }
        }
        if self.rng.below(100) < self.cfg.p_fail {
            return Prog { node, acts, out: Output::Fail };
        }
        let attrs = (0..self.rng.below(3)).map(|_| (self.attr_text(&GOOD_KEYS, &BAD_KEYS), self.value())).collect();
        let events = (0..self.rng.below(3))
            .map(|_| {
                let ty = self.attr_text(&GOOD_TYPES, &BAD_TYPES);
                let at = (0..self.rng.below(3)).map(|_| (self.attr_text(&GOOD_KEYS, &BAD_KEYS), self.value())).collect();
                (ty, at)
            })
            .collect();
        let data = self.data();
        let mut subs = vec![];
        if allow_subs && depth < self.cfg.max_depth {
            let n = match self.rng.below(10) {
                0..=2 => 0,
                3..=6 => 1,
                7 | 8 => 2,
                _ => 3,
            };
            for _ in 0..n {
                if self.budget == 0 {
                    break;
                }
                subs.push(self.sub(depth));
            }
        }
        Prog { node, acts, out: Output::Resp { attrs, events, data, subs } }
    }
    pub fn sub(&mut self, depth: usize) -> Sub {
        let ids = [0u64, 1, 1, 2, 7, u64::MAX];
        let id = *self.rng.pick(&ids);
        let payload = match self.rng.below(3) {
            0 => vec![],
            1 => vec![1],
            _ => vec![self.rng.below(256) as u8, 2],
        };
        if self.cfg.doomed_subs && self.rng.chance(1, 10) {
            let code_id = self.rng.pick(&self.codes).id;
            let m = match self.rng.below(3) {
                0 => Msg::Inst { code_id, p: self.prog(depth + 1, false), funds: vec![], label: "".into(), admin: None, salt: None },
                1 => Msg::Inst { code_id: 0, p: self.prog(depth + 1, false), funds: vec![], label: "L".into(), admin: None, salt: None },
                _ => {
                    let c = self.some_contract();
                    Msg::Migrate { c, new_code: 0, p: self.prog(depth + 1, false) }
                }
            };
            let ro = *self.rng.pick(&[ReplyOnS::Error, ReplyOnS::Always, ReplyOnS::Error, ReplyOnS::Never]);
            let on_ok = self.prog(depth + 1, false);
            let mut on_err = self.prog(depth + 1, false);
            if let Output::Fail = on_err.out {
                on_err.out = Output::Resp { attrs: vec![], events: vec![], data: None, subs: vec![] };
            }
            return Sub { id, payload, ro, m: Box::new(m), on_ok, on_err };
        }
        let ro = *self.rng.pick(&[ReplyOnS::Success, ReplyOnS::Error, ReplyOnS::Always, ReplyOnS::Never]);
        let m = self.msg(depth + 1);
        let deep = self.rng.chance(1, 4);
        let on_ok = self.prog(depth + 1, deep);
        let on_err = self.prog(depth + 1, deep);
        Sub { id, payload, ro, m: Box::new(m), on_ok, on_err }
    }
    pub fn label(&mut self) -> String {
        if self.rng.chance(1, 15) {
            "".into()
        } else {
            self.rng.pick(&["L", "label two", " padded ", " "]).to_string()
        }
    }
    pub fn msg(&mut self, depth: usize) -> Msg {
        if self.cfg.self_admin && depth > 1 {
            if let Some(c) = self.cur.clone() {
                if self.own_admins.contains(&c) && self.rng.chance(1, 4) {
                    let with_migrate: Vec<u64> = self.codes.iter().filter(|c| c.has_migrate && c.has_reply).map(|c| c.id).collect();
                    let new_code = *self.rng.pick(&with_migrate);
                    let saved = self.cur.take();
                    let p = self.prog(depth, false);
                    self.cur = saved;
                    return Msg::Migrate { c, new_code, p };
                }
            }
        }
        let c = self.rng.below(100);
        if c < 45 {
            let funds = if self.cfg.funds && self.rng.chance(1, 3) { self.coins(6) } else { vec![] };
            let ct = self.some_contract();
            let saved = self.cur.replace(ct.clone());
            let mut p = self.prog(depth, true);
            self.cur = saved;
            if self.cfg.probe_funds && !funds.is_empty() {
                p.acts.insert(1, Action::Q(QAct::Balance(ct.clone(), funds[0].denom.clone())));
            }
            if self.cfg.probe_funds && !self.contracts.is_empty() && self.rng.chance(1, 4) {
                // bias (this flag only): the first sub-message sends funds to a contract whose body fails, and the failure is
                // reported back to the dispatcher
                if let Output::Resp { subs, .. } = &mut p.out {
                    let callee = self.rng.pick(&self.contracts).clone();
                    let node = self.node();
                    let fp = Prog { node, acts: vec![Action::Write(format!("m{}", node).into_bytes(), vec![1])], out: Output::Fail };
                    let ro = if self.rng.chance(2, 3) { ReplyOnS::Always } else { ReplyOnS::Error };
                    let amount = 1 + self.rng.below(3) as u128;
                    let m = Msg::Exec { c: callee, p: fp, funds: vec![CoinS { denom: "uatom".into(), amount }] };
                    let on_ok = self.prog(depth + 1, false);
                    let on_err = self.prog(depth + 1, false);
                    subs.insert(0, Sub { id: 3, payload: vec![], ro, m: Box::new(m), on_ok, on_err });
                }
            }
            if self.cfg.probe_funds {
                // C05 clause 8 ("funds are returned if the call fails"): when the FIRST sub-message carries funds and its
                // failure is reported back (Error / Always), the dispatching body and the failure handler both start by
                // asking for the dispatcher's own balance in the first attached denomination
                let den = match &p.out {
                    Output::Resp { subs, .. } => subs.first().and_then(|sb| {
                        if !matches!(sb.ro, ReplyOnS::Error | ReplyOnS::Always) {
                            return None;
                        }
                        match &*sb.m {
                            Msg::Exec { funds: f, .. } | Msg::Inst { funds: f, .. } if !f.is_empty() => Some(f[0].denom.clone()),
                            _ => None,
                        }
                    }),
                    _ => None,
                };
                if let Some(den) = den {
                    let probe = Action::Q(QAct::Balance(ct.clone(), den));
                    if funds.is_empty() {
                        p.acts.insert(1, probe.clone());
                    } else {
                        p.acts[1] = probe.clone();
                    }
                    if let Output::Resp { subs, .. } = &mut p.out {
                        subs[0].on_err.acts.insert(1, probe);
                    }
                }
            }
            Msg::Exec { c: ct, p, funds }
        } else if c < 60 {
            let to = self.some_addr();
            Msg::BankSend { to, amt: self.coins(5) }
        } else if c < 64 {
            Msg::BankBurn { amt: self.coins(4) }
        } else if c < 76 {
            let code_id = if self.rng.chance(1, 12) { 3 } else { self.rng.pick(&self.codes).id };
            let funds = if self.cfg.funds && self.rng.chance(1, 4) { self.coins(4) } else { vec![] };
            let admin = if self.rng.chance(1, 2) { Some(self.some_addr()) } else { None };
            // rarely a salt outside instantiate2's 1..=64 bytes (empty, 65 bytes): must be refused
            let salt = if self.rng.chance(1, 3) {
                Some(self.rng.pick(&[vec![1u8], vec![2, 2], vec![1u8], vec![2, 2], vec![1u8], vec![2, 2], vec![], vec![3u8; 65]]).clone())
            } else {
                None
            };
            let label = self.label();
            Msg::Inst { code_id, p: self.prog(depth, true), funds, label, admin, salt }
        } else if c < 86 {
            Msg::Custom { ok: !self.rng.chance(1, 4), tag: self.rng.below(1000) }
        } else if self.cfg.admin_ops {
            let ct = self.some_contract();
            match self.rng.below(3) {
                0 => {
                    let ids: &[u64] = if self.cfg.wrapped_codes { &[1, 2, 7, 9, 3, 4, 5] } else { &[1, 2, 7, 9, 3] };
                    let new_code = *self.rng.pick(ids);
                    Msg::Migrate { c: ct, new_code, p: self.prog(depth, true) }
                }
                1 => Msg::UpdateAdmin { c: ct, a: self.some_addr() },
                _ => Msg::ClearAdmin { c: ct },
            }
        } else {
            let to = self.some_user();
            Msg::BankSend { to, amt: self.coins(3) }
        }
    }
    pub fn block0() -> BlockS {
        BlockS { height: 12345, time_ns: 1_571_797_419_879_305_533, chain_id: "cosmos-testnet-14002".into() }
    }

    /// setup steps: mint to users, instantiate `n` contracts (admin = alice for even ones)
    pub fn setup(&mut self, n: usize) -> Vec<Step> {
        let b = Self::block0();
        let mut steps = vec![];
        for u in self.users.clone() {
            steps.push(Step {
                block: b.clone(),
                op: TopOp::Mint { to: u, amt: vec![CoinS { denom: "uatom".into(), amount: 100 }, CoinS { denom: "btc".into(), amount: 20 }] },
            });
        }
        for i in 0..n {
            let code = self.codes[i % self.codes.len()].clone();
            let node = self.node();
            let p = Prog {
                node,
                acts: vec![Action::Write(format!("m{}", node).into_bytes(), vec![1]), Action::Write(b"a".to_vec(), vec![i as u8 + 1])],
                out: Output::Resp { attrs: vec![], events: vec![], data: None, subs: vec![] },
            };
            let admin = if self.cfg.self_admin && i % 3 == 2 {
                let a = classic_address(code.id, i as u64);
                self.own_admins.push(a.clone());
                Some(a)
            } else if i % 2 == 0 {
                Some(self.users[0].clone())
            } else {
                None
            };
            let funds = vec![CoinS { denom: "uatom".into(), amount: 10 }];
            steps.push(Step {
                block: b.clone(),
                op: TopOp::Exec { sender: self.users[i % 3].clone(), m: Msg::Inst { code_id: code.id, p, funds, label: format!("c{}", i), admin, salt: None } },
            });
            self.contracts.push(classic_address(code.id, i as u64));
        }
        self.n_registered_guess = n as u64;
        steps
    }

    pub fn top_op(&mut self) -> TopOp {
        self.budget = self.cfg.max_nodes;
        let sender = self.some_user();
        if self.cfg.migrate_bias && !self.contracts.is_empty() && self.rng.chance(1, 6) {
            // setup: contract i has admin users[0] iff i is even
            let i = 2 * (self.rng.below(((self.contracts.len() + 1) / 2) as u64) as usize);
            let ct = self.contracts[i.min(self.contracts.len() - 1)].clone();
            let with_migrate: Vec<u64> = self.codes.iter().filter(|c| c.has_migrate).map(|c| c.id).collect();
            if !with_migrate.is_empty() {
                let new_code = *self.rng.pick(&with_migrate);
                let m = Msg::Migrate { c: ct, new_code, p: self.prog(1, true) };
                return TopOp::Exec { sender: self.users[0].clone(), m };
            }
        }
        let c = self.rng.below(100);
        if c < 40 {
            TopOp::Exec { sender, m: self.msg(1) }
        } else if c < 65 {
            let n = 1 + self.rng.below(3);
            let ms = (0..n).map(|_| self.msg(1)).collect();
            TopOp::ExecMulti { sender, ms }
        } else if c < 78 {
            let ct = self.some_contract();
            TopOp::WasmSudo { c: ct, p: self.prog(1, true) }
        } else if c < 83 {
            let to = if self.rng.chance(1, 10) { "not an address".to_string() } else { self.some_addr() };
            TopOp::Mint { to, amt: self.coins(30) }
        } else if self.cfg.helpers {
            match self.rng.below(4) {
                0 => {
                    let code_id = self.rng.pick(&self.codes).id;
                    let admin = if self.rng.chance(1, 2) { Some(self.some_user()) } else { None };
                    let salt = if self.rng.chance(1, 3) { Some(vec![9u8]) } else { None };
                    let label = self.label();
                    TopOp::HelperInst { sender, code_id, p: self.prog(1, true), funds: vec![], label, admin, salt }
                }
                1 => {
                    let ct = self.some_contract();
                    let funds = if self.rng.chance(1, 3) { self.coins(5) } else { vec![] };
                    TopOp::HelperExec { sender, c: ct, p: self.prog(1, true), funds }
                }
                2 => {
                    let ct = self.some_contract();
                    let ids: &[u64] = if self.cfg.wrapped_codes { &[1, 7, 9, 4] } else { &[1, 7, 9] };
                    let new_code = *self.rng.pick(ids);
                    TopOp::HelperMigrate { sender, c: ct, new_code, p: self.prog(1, true) }
                }
                _ => {
                    let to = self.some_addr();
                    TopOp::HelperSend { sender, to, amt: self.coins(8) }
                }
            }
        } else {
            TopOp::Exec { sender, m: self.msg(1) }
        }
    }

    pub fn scenario(&mut self, n_contracts: usize) -> Scenario {
        let mut steps = self.setup(n_contracts);
        let n = self.rng.range(self.cfg.n_steps.0, self.cfg.n_steps.1);
        let mut b = Self::block0();
        for _ in 0..n {
            if self.cfg.block_changes && self.rng.chance(1, 3) {
                b.height += 1 + self.rng.below(3);
                b.time_ns += 5_000_000_000 * (1 + self.rng.below(3));
            }
            if self.cfg.huge_blocks && b.height < (1u64 << 62) && self.rng.chance(1, 12) {
                b.height = *self.rng.pick(&[i64::MAX as u64, i64::MAX as u64 + 1, u64::MAX - 1000]);
            }
            let op = self.top_op();
            steps.push(Step { block: b.clone(), op });
        }
        let mut sc = Scenario { codes: self.codes.clone(), steps, users: self.users.clone() };
        if self.cfg.wrapped_codes {
            sanitize_wrapped(&mut sc);
        }
        sc
    }
}

// ---------------------------------------------------------------------------------------------------------------
// Wrapped-Empty codes cannot emit `CosmosMsg::Custom`.  A static, conservative analysis of which programs may run
// on such a code: the code of a contract is that of its instantiation (the classic address determines it: wasmd's
// address is a function of (code id, instance number)) unless a migration changed it.
//   may_wrap(a)   = a is the classic address of a wrapped code (any instance number), or a is the target of some
//                   `Migrate` to a wrapped code anywhere in the scenario, or a is neither a user nor a classic
//                   address of any code (unknown: e.g. a salted address)
//   Exec / sudo / migrate on a  : restricted iff may_wrap(a) (or the new code is wrapped)
//   Inst of code k              : restricted iff k is wrapped, or some migration to a wrapped code targets a classic
//                                 address of k or an unknown address
//   reply handlers of a sub-message run on the emitter: restricted iff the emitting program is
// In a restricted program every `Msg::Custom` sub-message is replaced by a bank message of the same outcome class.
// ---------------------------------------------------------------------------------------------------------------
struct WrapCtx {
    wrapped_ids: Vec<u64>,
    /// classic address -> code id
    classic: std::collections::BTreeMap<String, u64>,
    users: Vec<String>,
    /// targets of migrations to a wrapped code
    mig_targets: Vec<String>,
}
impl WrapCtx {
    fn new(sc: &Scenario) -> Self {
        let msgs = crate::print::all_msgs(sc);
        let n_inst = msgs.iter().filter(|m| matches!(m, Msg::Inst { .. })).count() + sc.steps.iter().filter(|s| matches!(s.op, TopOp::HelperInst { .. })).count();
        let mut classic = std::collections::BTreeMap::new();
        for c in &sc.codes {
            for i in 0..(n_inst as u64 + 8) {
                classic.insert(classic_address(c.id, i), c.id);
            }
        }
        let wrapped_ids: Vec<u64> = sc.codes.iter().filter(|c| c.wrapped).map(|c| c.id).collect();
        let mut mig_targets = vec![];
        for m in &msgs {
            if let Msg::Migrate { c, new_code, .. } = m {
                if wrapped_ids.contains(new_code) {
                    mig_targets.push(c.clone());
                }
            }
        }
        for st in &sc.steps {
            if let TopOp::HelperMigrate { c, new_code, .. } = &st.op {
                if wrapped_ids.contains(new_code) {
                    mig_targets.push(c.clone());
                }
            }
        }
        WrapCtx { wrapped_ids, classic, users: sc.users.clone(), mig_targets }
    }
    fn unknown(&self, a: &str) -> bool {
        !self.users.iter().any(|u| u == a) && !self.classic.contains_key(a)
    }
    fn may_wrap(&self, a: &str) -> bool {
        match self.classic.get(a) {
            Some(id) if self.wrapped_ids.contains(id) => true,
            _ => self.unknown(a) || self.mig_targets.iter().any(|t| t == a),
        }
    }
    fn inst_may_wrap(&self, code_id: u64) -> bool {
        self.wrapped_ids.contains(&code_id) || self.mig_targets.iter().any(|t| self.unknown(t) || self.classic.get(t) == Some(&code_id))
    }
    /// returns the number of custom sub-messages found in restricted programs (replaced when `fix`)
    fn prog(&self, p: &mut Prog, restricted: bool, fix: bool) -> usize {
        let mut n = 0;
        if let Output::Resp { subs, .. } = &mut p.out {
            for s in subs.iter_mut() {
                if restricted {
                    if let Msg::Custom { ok, tag } = *s.m {
                        n += 1;
                        if fix {
                            *s.m = if ok {
                                Msg::BankSend { to: self.users[(tag % self.users.len() as u64) as usize].clone(), amt: vec![CoinS { denom: "uatom".into(), amount: (tag % 3) as u128 }] }
                            } else {
                                Msg::BankBurn { amt: vec![CoinS { denom: "btc".into(), amount: 1_000_000 + tag as u128 }] }
                            };
                        }
                    }
                }
                n += self.msg(&mut s.m, fix);
                n += self.prog(&mut s.on_ok, restricted, fix);
                n += self.prog(&mut s.on_err, restricted, fix);
            }
        }
        n
    }
    fn msg(&self, m: &mut Msg, fix: bool) -> usize {
        match m {
            Msg::Exec { c, p, .. } => {
                let r = self.may_wrap(c);
                self.prog(p, r, fix)
            }
            Msg::Inst { code_id, p, .. } => {
                let r = self.inst_may_wrap(*code_id);
                self.prog(p, r, fix)
            }
            Msg::Migrate { c, new_code, p } => {
                let r = self.may_wrap(c) || self.wrapped_ids.contains(new_code);
                self.prog(p, r, fix)
            }
            _ => 0,
        }
    }
    fn scenario(&self, sc: &mut Scenario, fix: bool) -> usize {
        let mut n = 0;
        for st in sc.steps.iter_mut() {
            n += match &mut st.op {
                TopOp::ExecMulti { ms, .. } => ms.iter_mut().map(|m| self.msg(m, fix)).sum(),
                TopOp::Exec { m, .. } => self.msg(m, fix),
                TopOp::WasmSudo { c, p } | TopOp::HelperExec { c, p, .. } => {
                    let r = self.may_wrap(c);
                    self.prog(p, r, fix)
                }
                TopOp::HelperMigrate { c, new_code, p, .. } => {
                    let r = self.may_wrap(c) || self.wrapped_ids.contains(new_code);
                    self.prog(p, r, fix)
                }
                TopOp::HelperInst { code_id, p, .. } => {
                    let r = self.inst_may_wrap(*code_id);
                    self.prog(p, r, fix)
                }
                TopOp::Mint { .. } | TopOp::HelperSend { .. } => 0,
            };
        }
        n
    }
}

/// number of custom sub-messages in programs that may run on a wrapped-Empty code (0 for a sanitized scenario)
pub fn wrapped_violations(sc: &Scenario) -> usize {
    WrapCtx::new(sc).scenario(&mut sc.clone(), false)
}

/// replace them; afterwards assert that none is left and that the wrapper's own decoder
/// (`cosmwasm_std::from_json`, not the `serde_json` of `Scripted`) reads every top-level program back unchanged
pub fn sanitize_wrapped(sc: &mut Scenario) -> usize {
    let n = WrapCtx::new(sc).scenario(sc, true);
    assert_eq!(wrapped_violations(sc), 0, "sanitize_wrapped left a custom sub-message in a program that may run on a wrapped-Empty code");
    for st in &sc.steps {
        let p = match &st.op {
            TopOp::WasmSudo { p, .. } | TopOp::HelperInst { p, .. } | TopOp::HelperExec { p, .. } | TopOp::HelperMigrate { p, .. } => Some(p),
            TopOp::Exec { m: Msg::Exec { p, .. } | Msg::Inst { p, .. } | Msg::Migrate { p, .. }, .. } => Some(p),
            _ => None,
        };
        if let Some(p) = p {
            let back: Prog = cosmwasm_std::from_json(cosmwasm_std::to_json_vec(p).unwrap()).expect("the wrapper's decoder refuses a generated program");
            assert_eq!(&back, p, "the wrapper's decoder reads a generated program differently");
        }
    }
    n
}
