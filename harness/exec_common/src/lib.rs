//! Shared by every executor-level property (C01-C05, C08, C10-C13, C19): the scripted-contract
//! language (mirrors coq/Exec.v), the scripted contract and recording custom module, the driver that
//! runs a scenario on a real `App`, the decoder of the raw root store into typed windows, the
//! independent address derivation, and the printer to Coq terms.
pub mod lang;
pub mod contract;
pub mod driver;
pub mod print;
pub mod gen;
pub mod reg;
pub mod iso;

pub use lang::*;

use common::{Case, Out};

pub fn outcome_class(o: &OutcomeS) -> &'static str {
    match o {
        OutcomeS::Ok(_) => "ok",
        OutcomeS::Err => "err",
        OutcomeS::Panic => "panic",
    }
}

fn prog_stats(p: &Prog, depth: u64, out: &mut Out) {
    out.stat("progs", 1);
    out.stat(&format!("depth_{}", depth.min(6)), 1);
    match &p.out {
        Output::Fail => out.stat("body_fail", 1),
        Output::Resp { subs, data, attrs, events, .. } => {
            out.stat(&format!("data_{}", match data { None => "none", Some(d) if d.is_empty() => "empty", _ => "some" }), 1);
            out.stat("attrs", attrs.len() as u64);
            out.stat("events", events.len() as u64);
            for s in subs {
                out.stat(&format!("reply_on_{:?}", s.ro), 1);
                msg_stats(&s.m, depth + 1, out);
                prog_stats(&s.on_ok, depth + 1, out);
                prog_stats(&s.on_err, depth + 1, out);
            }
        }
    }
}
fn msg_stats(m: &Msg, depth: u64, out: &mut Out) {
    let k = match m {
        Msg::BankSend { .. } => "msg_bank_send",
        Msg::BankBurn { .. } => "msg_bank_burn",
        Msg::Exec { .. } => "msg_exec",
        Msg::Inst { .. } => "msg_inst",
        Msg::Migrate { .. } => "msg_migrate",
        Msg::UpdateAdmin { .. } => "msg_update_admin",
        Msg::ClearAdmin { .. } => "msg_clear_admin",
        Msg::Custom { .. } => "msg_custom",
    };
    out.stat(k, 1);
    match m {
        Msg::Exec { p, .. } | Msg::Inst { p, .. } | Msg::Migrate { p, .. } => prog_stats(p, depth, out),
        _ => {}
    }
}

/// run the scenario on the implementation and add one case `<check> <case_env> <steps>`
pub fn emit(out: &mut Out, sc: &Scenario, check: &str, extra_json: serde_json::Value, nontrivial: impl Fn(&Scenario, &[StepObs]) -> bool) -> Vec<StepObs> {
    let _ = contract::wrapped::take_custom_reached();
    let obs = driver::run_scenario(sc);
    let wtags: Vec<u64> = sc.codes.iter().filter(|c| c.wrapped).map(|c| c.tag).collect();
    if !wtags.is_empty() {
        // entries of codes registered through ContractWrapper::new_with_empty (contract::wrapped)
        let calls = obs.iter().flat_map(|o| o.trace.iter()).filter(|e| matches!(e, Entry::Call { tag, .. } if wtags.contains(tag))).count();
        out.stat("wrapped_calls", calls as u64);
        out.stat("wrapped_custom_sub_reached", contract::wrapped::take_custom_reached());
    }
    for (st, o) in sc.steps.iter().zip(obs.iter()) {
        out.stat(&format!("top_{}", outcome_class(&o.outcome)), 1);
        match &st.op {
            TopOp::ExecMulti { ms, .. } => {
                out.stat("op_execute_multi", 1);
                ms.iter().for_each(|m| msg_stats(m, 1, out))
            }
            TopOp::Exec { m, .. } => {
                out.stat("op_execute", 1);
                msg_stats(m, 1, out)
            }
            TopOp::WasmSudo { p, .. } => {
                out.stat("op_wasm_sudo", 1);
                prog_stats(p, 1, out)
            }
            TopOp::Mint { .. } => out.stat("op_mint", 1),
            TopOp::HelperInst { p, .. } => {
                out.stat("op_helper_inst", 1);
                prog_stats(p, 1, out)
            }
            TopOp::HelperExec { p, .. } => {
                out.stat("op_helper_exec", 1);
                prog_stats(p, 1, out)
            }
            TopOp::HelperMigrate { p, .. } => {
                out.stat("op_helper_migrate", 1);
                prog_stats(p, 1, out)
            }
            TopOp::HelperSend { .. } => out.stat("op_helper_send", 1),
        }
        out.stat("trace_entries", o.trace.len() as u64);
        for e in &o.trace {
            if let Entry::Call { ep: Ep::Reply, rep: Some((_, _, r)), .. } = e {
                out.stat(if matches!(r, RRes::Err) { "reply_err_delivered" } else { "reply_ok_delivered" }, 1);
            }
        }
    }
    let coq = format!("{} {}\n  {}", check, print::case_env(sc), print::steps(sc, &obs));
    let nt = nontrivial(sc, &obs);
    out.push(Case {
        key: serde_json::to_string(sc).unwrap(),
        json: serde_json::json!({"scenario": sc, "observed": obs, "extra": extra_json}),
        coq,
        nontrivial: nt,
    });
    obs
}

pub fn finish(mut out: Out, per_shard: usize, rule: &str) {
    out.prelude = print::intern_prelude();
    out.finish(per_shard, rule);
}

pub fn load_replay(p: &std::path::Path) -> Scenario {
    let v: serde_json::Value = serde_json::from_slice(&std::fs::read(p).unwrap()).unwrap();
    let case = v.get("case").unwrap_or(&v);
    serde_json::from_value(case["scenario"].clone()).unwrap()
}

pub const HEADER: &str = "From Verif Require Import Base OMap Text Proto Bank Exec ChkExec ChkX.";

/// the common main of the executor-level properties: `n_quick` / `n_thorough` generated scenarios with
/// the generator configuration `cfg`, `fixed` scenarios first
pub fn run_prop(
    prop: &str,
    check: &str,
    cfg: gen::Cfg,
    n_quick: u64,
    n_thorough: u64,
    fixed: Vec<Scenario>,
    rule: &str,
    nontrivial: &dyn Fn(&Scenario, &[StepObs]) -> bool,
) {
    let args = common::parse_args(prop);
    let mut out = Out::new(&args.out, HEADER);
    if let Some(p) = &args.replay {
        let sc = load_replay(p);
        emit(&mut out, &sc, check, serde_json::json!({}), |_, _| true);
        finish(out, 50, "replay");
        return;
    }
    for sc in &fixed {
        emit(&mut out, sc, check, serde_json::json!({"fixed": true}), |a, b| nontrivial(a, b));
    }
    let mut rng = common::Rng::new(args.seed);
    let n = if args.thorough { n_thorough } else { n_quick } * args.scale;
    for _ in 0..n {
        let mut r = rng.fork();
        let mut g = gen::G::new(&mut r, cfg.clone());
        let k = 2 + g.rng.below(3) as usize;
        let sc = g.scenario(k);
        emit(&mut out, &sc, check, serde_json::json!({}), |a, b| nontrivial(a, b));
    }
    finish(out, 10, rule);
}
