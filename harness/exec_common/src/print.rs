//! Printer of scenarios and observations as Gallina terms of coq/Exec.v / coq/ChkExec.v.
//! Address-like strings are interned: each case file defines them once (`Definition sN : text := ...`).
use crate::driver::*;
use crate::lang::*;
use common::{coq_bool, coq_bytes, coq_list, coq_opt, coq_text};
use std::cell::RefCell;
use std::collections::BTreeMap;

thread_local! {
    static INTERN: RefCell<BTreeMap<String, usize>> = RefCell::new(BTreeMap::new());
}
/// long strings become named constants; short ones are printed inline
pub fn text(s: &str) -> String {
    if s.len() < 12 {
        return coq_text(s);
    }
    INTERN.with(|m| {
        let mut m = m.borrow_mut();
        let n = m.len();
        let id = *m.entry(s.to_string()).or_insert(n);
        format!("s{}", id)
    })
}
/// like `text`, but never creates a new named constant: a string that no earlier `text` call interned is
/// printed inline (used for address-book entries that the rest of the case never mentions)
pub fn text_known(s: &str) -> String {
    if s.len() < 12 {
        return coq_text(s);
    }
    INTERN.with(|m| match m.borrow().get(s) {
        Some(id) => format!("s{}", id),
        None => coq_text(s),
    })
}
/// the definitions to place at the top of every case file
pub fn intern_prelude() -> Vec<String> {
    INTERN.with(|m| {
        let m = m.borrow();
        let mut v: Vec<(&String, &usize)> = m.iter().collect();
        v.sort_by_key(|x| x.1);
        v.iter().map(|(s, id)| format!("Definition s{} : text := {}.", id, coq_text(s))).collect()
    })
}

pub fn coin(c: &CoinS) -> String {
    format!("({},{})", text(&c.denom), c.amount)
}
pub fn coins(cs: &[CoinS]) -> String {
    coq_list(cs, coin)
}
pub fn attr(a: &AttrS) -> String {
    format!("({},{})", text(&a.0), text(&a.1))
}
pub fn event(e: &EventS) -> String {
    format!("({},{})", text(&e.0), coq_list(&e.1, attr))
}
pub fn kv(p: &(B, B)) -> String {
    format!("({},{})", coq_bytes(&p.0), coq_bytes(&p.1))
}
pub fn qact(q: &QAct) -> String {
    match q {
        QAct::Read(k) => format!("(QRead {})", coq_bytes(k)),
        QAct::Dump => "QDump".into(),
        QAct::Balance(a, d) => format!("(QBalance {} {})", text(a), text(d)),
        QAct::AllBal(a) => format!("(QAllBal {})", text(a)),
        QAct::Supply(d) => format!("(QSupply {})", text(d)),
        QAct::Raw(c, k) => format!("(QRaw {} {})", text(c), coq_bytes(k)),
        QAct::Info(c) => format!("(QInfo {})", text(c)),
        QAct::CodeInfo(id) => format!("(QCodeInfo {})", id),
        QAct::Smart(c, q) => format!("(QSmart {} {})", text(c), qprog(q)),
    }
}
pub fn qprog(q: &QProg) -> String {
    let mut acts = String::from("QANil");
    for a in q.acts.iter().rev() {
        acts = format!("(QACons {} {})", qact(a), acts);
    }
    format!("(QProg {} {} {})", q.node, acts, coq_opt(&q.ans, |b| coq_bytes(b)))
}
pub fn action(a: &Action) -> String {
    match a {
        Action::Write(k, v) => format!("AWrite {} {}", coq_bytes(k), coq_bytes(v)),
        Action::Remove(k) => format!("ARemove {}", coq_bytes(k)),
        Action::Q(q) => format!("AQ {}", qact(q)),
    }
}
pub fn reply_on(r: ReplyOnS) -> &'static str {
    match r {
        ReplyOnS::Success => "RSuccess",
        ReplyOnS::Error => "RError",
        ReplyOnS::Always => "RAlways",
        ReplyOnS::Never => "RNever",
    }
}
pub fn prog(p: &Prog) -> String {
    let out = match &p.out {
        Output::Fail => "OFail".to_string(),
        Output::Resp { attrs, events, data, subs } => {
            let mut s = String::from("SNil");
            for sb in subs.iter().rev() {
                s = format!("(SCons {} {})", sub(sb), s);
            }
            format!("(OResp {} {} {} {})", coq_list(attrs, attr), coq_list(events, event), coq_opt(data, |b| coq_bytes(b)), s)
        }
    };
    format!("(Prog {} {} {})", p.node, coq_list(&p.acts, action), out)
}
pub fn sub(s: &Sub) -> String {
    format!("(Sub {} {} {} {} {} {})", s.id, coq_bytes(&s.payload), reply_on(s.ro), msg(&s.m), prog(&s.on_ok), prog(&s.on_err))
}
pub fn msg(m: &Msg) -> String {
    match m {
        Msg::BankSend { to, amt } => format!("(MBankSend {} {})", text(to), coins(amt)),
        Msg::BankBurn { amt } => format!("(MBankBurn {})", coins(amt)),
        Msg::Exec { c, p, funds } => format!("(MExec {} {} {})", text(c), prog(p), coins(funds)),
        Msg::Inst { code_id, p, funds, label, admin, salt } => format!(
            "(MInst {} {} {} {} {} {})",
            code_id,
            prog(p),
            coins(funds),
            text(label),
            coq_opt(admin, |a| text(a)),
            coq_opt(salt, |b| coq_bytes(b))
        ),
        Msg::Migrate { c, new_code, p } => format!("(MMigrate {} {} {})", text(c), new_code, prog(p)),
        Msg::UpdateAdmin { c, a } => format!("(MUpdateAdmin {} {})", text(c), text(a)),
        Msg::ClearAdmin { c } => format!("(MClearAdmin {})", text(c)),
        Msg::Custom { ok, tag } => format!("(MCustom {} {})", coq_bool(*ok), tag),
    }
}
pub fn block(b: &BlockS) -> String {
    format!("(Build_blockinfo {} {} {})", b.height, b.time_ns, text(&b.chain_id))
}
pub fn ep(e: Ep) -> &'static str {
    match e {
        Ep::Inst => "EInst",
        Ep::Exec => "EExec",
        Ep::Reply => "EReply",
        Ep::Sudo => "ESudo",
        Ep::Migrate => "EMigrate",
    }
}
pub fn rres(r: &RRes) -> String {
    match r {
        RRes::Ok(ev, d) => format!("(RROk {} {})", coq_list(ev, event), coq_opt(d, |b| coq_bytes(b))),
        RRes::Err => "RRErr".into(),
    }
}
pub fn obsval(v: &ObsVal) -> String {
    match v {
        ObsVal::Bytes(b) => format!("(VBytes {})", coq_opt(b, |x| coq_bytes(x))),
        ObsVal::Dump(l) => format!("(VDump {})", coq_list(l, kv)),
        ObsVal::Amount(a) => format!("(VAmount {})", coq_opt(a, |x| x.to_string())),
        ObsVal::Coins(c) => format!("(VCoins {})", coq_opt(c, |x| coins(x))),
        ObsVal::Raw(b) => format!("(VRaw {})", coq_opt(b, |x| coq_bytes(x))),
        ObsVal::Info(i) => format!("(VInfo {})", coq_opt(i, |(c, cr, ad)| format!("({},{},{})", c, text(cr), coq_opt(ad, |a| text(a))))),
        ObsVal::CodeInfo(i) => format!("(VCodeInfo {})", coq_opt(i, |(c, cr, cs)| format!("({},{},{})", c, text(cr), coq_bytes(cs)))),
        ObsVal::Smart(b) => format!("(VSmart {})", coq_opt(b, |x| coq_bytes(x))),
    }
}
pub fn entry(e: &Entry) -> String {
    match e {
        Entry::Call { node, ep: e, callee, sender, funds, block: b, tag, rep } => format!(
            "RCall {} {} {} {} {} {} {} {}",
            node,
            ep(*e),
            text(callee),
            coq_opt(sender, |s| text(s)),
            coins(funds),
            block(b),
            tag,
            coq_opt(rep, |(id, pl, r)| format!("({},{},{})", id, coq_bytes(pl), rres(r)))
        ),
        Entry::Query { node, callee, block: b, tag } => format!("RQuery {} {} {} {}", node, text(callee), block(b), tag),
        Entry::Obs { node, val } => format!("RObs {} {}", node, obsval(val)),
        Entry::Mod { sender, tag } => format!("RMod {} {}", text(sender), tag),
    }
}
pub fn topop(op: &TopOp) -> String {
    match op {
        TopOp::ExecMulti { sender, ms } => format!("(TExecMulti {} {})", text(sender), coq_list(ms, msg)),
        TopOp::Exec { sender, m } => format!("(TExec {} {})", text(sender), msg(m)),
        TopOp::WasmSudo { c, p } => format!("(TWasmSudo {} {})", text(c), prog(p)),
        TopOp::Mint { to, amt } => format!("(TMint {} {})", text(to), coins(amt)),
        TopOp::HelperInst { sender, code_id, p, funds, label, admin, salt } => format!(
            "(THelperInst {} {})",
            text(sender),
            msg(&Msg::Inst { code_id: *code_id, p: p.clone(), funds: funds.clone(), label: label.clone(), admin: admin.clone(), salt: salt.clone() })
        ),
        TopOp::HelperExec { sender, c, p, funds } => {
            format!("(THelperExec {} {})", text(sender), msg(&Msg::Exec { c: c.clone(), p: p.clone(), funds: funds.clone() }))
        }
        TopOp::HelperMigrate { sender, c, new_code, p } => {
            format!("(TExec {} {})", text(sender), msg(&Msg::Migrate { c: c.clone(), new_code: *new_code, p: p.clone() }))
        }
        TopOp::HelperSend { sender, to, amt } => format!("(TExec {} {})", text(sender), msg(&Msg::BankSend { to: to.clone(), amt: amt.clone() })),
    }
}
pub fn cdata(c: &CDataS) -> String {
    format!("(Build_cdata {} {} {} {} {})", c.code_id, text(&c.creator), coq_opt(&c.admin, |a| text(a)), text(&c.label), c.created)
}
pub fn state(s: &StateS) -> String {
    format!(
        "(Build_chain {} {} {})",
        coq_list(&s.bank, |(a, cs)| format!("({},{})", text(a), coins(cs))),
        coq_list(&s.reg, |(a, c)| format!("({},{})", text(a), cdata(c))),
        coq_list(&s.cstore, |(a, m)| format!("({},{})", text(a), coq_list(m, kv)))
    )
}
pub fn outcome(o: &OutcomeS) -> String {
    match o {
        OutcomeS::Ok(v) => format!("(Ok {})", coq_list(v, |(ev, d)| format!("({},{})", coq_list(ev, event), coq_opt(d, |b| coq_bytes(b))))),
        OutcomeS::Err => "Err".into(),
        OutcomeS::Panic => "Panic".into(),
    }
}

fn collect_msgs<'a>(m: &'a Msg, out: &mut Vec<&'a Msg>) {
    out.push(m);
    let p = match m {
        Msg::Exec { p, .. } | Msg::Inst { p, .. } | Msg::Migrate { p, .. } => Some(p),
        _ => None,
    };
    if let Some(p) = p {
        collect_prog(p, out);
    }
}
fn collect_prog<'a>(p: &'a Prog, out: &mut Vec<&'a Msg>) {
    if let Output::Resp { subs, .. } = &p.out {
        for s in subs {
            collect_msgs(&s.m, out);
            collect_prog(&s.on_ok, out);
            collect_prog(&s.on_err, out);
        }
    }
}
pub fn all_msgs(sc: &Scenario) -> Vec<&Msg> {
    let mut v = vec![];
    for st in &sc.steps {
        match &st.op {
            TopOp::ExecMulti { ms, .. } => ms.iter().for_each(|m| collect_msgs(m, &mut v)),
            TopOp::Exec { m, .. } => collect_msgs(m, &mut v),
            TopOp::WasmSudo { p, .. } | TopOp::HelperExec { p, .. } | TopOp::HelperMigrate { p, .. } => collect_prog(p, &mut v),
            TopOp::HelperInst { p, .. } => collect_prog(p, &mut v),
            _ => {}
        }
    }
    v
}

/// the static part of the case: code table, valid address strings, the two address books
/// (derived independently of cw-multi-test)
pub fn case_env(sc: &Scenario) -> String {
    // how many instantiations can happen at most
    let msgs = all_msgs(sc);
    let mut n_inst = msgs.iter().filter(|m| matches!(m, Msg::Inst { .. })).count();
    n_inst += sc.steps.iter().filter(|s| matches!(s.op, TopOp::HelperInst { .. })).count();
    let mut classic: Vec<((u64, u64), String)> = vec![];
    for c in &sc.codes {
        for i in 0..n_inst as u64 {
            classic.push(((c.id, i), classic_address(c.id, i)));
        }
    }
    let mut salts: Vec<(u64, B)> = vec![];
    for m in &msgs {
        if let Msg::Inst { code_id, salt: Some(s), .. } = m {
            if !salts.contains(&(*code_id, s.clone())) {
                salts.push((*code_id, s.clone()));
            }
        }
    }
    for st in &sc.steps {
        if let TopOp::HelperInst { code_id, salt: Some(s), .. } = &st.op {
            if !salts.contains(&(*code_id, s.clone())) {
                salts.push((*code_id, s.clone()));
            }
        }
    }
    let mut creators: Vec<String> = sc.users.clone();
    creators.extend(classic.iter().map(|x| x.1.clone()));
    // every address at which scripted code actually ran in the run just observed (a contract created with a salt
    // that itself instantiates with a salt): the derivation of the book entries stays independent of cw-multi-test
    crate::contract::RAN_AT.with(|r| {
        for a in r.borrow().iter() {
            if !creators.contains(a) {
                creators.push(a.clone());
            }
        }
    });
    let mut salted: Vec<((B, String, B), String)> = vec![];
    for _round in 0..2 {
        let mut fresh = vec![];
        for (code_id, salt) in &salts {
            if let Some(c) = sc.codes.iter().find(|c| c.id == *code_id) {
                let cs = code_checksum(c);
                for cr in &creators {
                    if salted.iter().any(|(k, _)| k.0 == cs && k.1 == *cr && k.2 == *salt) {
                        continue;
                    }
                    if let Some(a) = salted_address(&cs, cr, salt) {
                        salted.push(((cs.clone(), cr.clone(), salt.clone()), a.clone()));
                        fresh.push(a);
                    }
                }
            }
        }
        if salts.len() * creators.len() > 200 {
            break;
        }
        creators.extend(fresh);
    }
    let mut valid: Vec<String> = creators.clone();
    valid.extend(salted.iter().map(|x| x.1.clone()));
    // every other string mentioned anywhere in the scenario (e.g. a guessed future contract address beyond
    // the enumerated instance numbers) that the chain's Api (cosmwasm-std's MockApi, not code under test) accepts
    fn strings(v: &serde_json::Value, out: &mut Vec<String>) {
        match v {
            serde_json::Value::String(s) => out.push(s.clone()),
            serde_json::Value::Array(a) => a.iter().for_each(|x| strings(x, out)),
            serde_json::Value::Object(o) => o.values().for_each(|x| strings(x, out)),
            _ => {}
        }
    }
    let mut mentioned = vec![];
    strings(&serde_json::to_value(sc).unwrap(), &mut mentioned);
    let api = cosmwasm_std::testing::MockApi::default();
    for s in mentioned {
        if s.starts_with("cosmwasm1") && cosmwasm_std::Api::addr_validate(&api, &s).is_ok() {
            valid.push(s);
        }
    }
    valid.sort();
    valid.dedup();
    format!(
        "(Build_case_env {} {} {} {})",
        coq_list(&sc.codes, |c| format!(
            "({}, Build_code {} {} {} {} {} {})",
            c.id,
            c.tag,
            text(&c.creator),
            coq_bytes(&code_checksum(c)),
            coq_bool(c.has_sudo),
            coq_bool(c.has_reply),
            coq_bool(c.has_migrate)
        )),
        coq_list(&valid, |a| text(a)),
        coq_list(&classic, |((c, i), a)| format!("(({},{}),{})", c, i, text(a))),
        coq_list(&salted, |((cs, cr, sa), a)| format!("(({},{},{}),{})", coq_bytes(cs), text(cr), coq_bytes(sa), text(a)))
    )
}

pub fn steps(sc: &Scenario, obs: &[StepObs]) -> String {
    let v: Vec<String> = sc
        .steps
        .iter()
        .zip(obs.iter())
        .map(|(st, o)| {
            format!(
                "Build_step {} {} {} {} {} {} {}",
                block(&st.block),
                topop(&st.op),
                coq_list(&o.trace, entry),
                outcome(&o.outcome),
                state(&o.state),
                o.state.other.len(),
                coq_bool(o.raw_before == o.raw_after)
            )
        })
        .collect();
    format!("[{}]", v.join(";\n   "))
}
