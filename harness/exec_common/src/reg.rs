//! C11 / C12: histories that interleave code-table operations (store_code, store_code_with_id,
//! duplicate_code) and public-API queries with ordinary top-level calls.  Mirrors coq/Registry.v
//! (hop / hres) and coq/ChkReg.v (hstep / reg_case_env).  Purely additive: nothing here changes the
//! behaviour of the scenario driver used by C01-C05 / C13.
use crate::contract::*;
use crate::driver::*;
use crate::lang::*;
use crate::print;
use common::{catch, coq_bool, coq_bytes, coq_list, coq_opt, Case, Out};
use cosmwasm_std::{Addr, Checksum};
use serde::{Deserialize, Serialize};
use std::collections::{BTreeMap, BTreeSet};

/// what is handed to store_code: behaviour (tag, optional entry points) + optional explicit checksum
#[derive(Serialize, Deserialize, Clone, Debug, PartialEq)]
pub struct SourceS {
    pub tag: u64,
    pub checksum: Option<B>,
    pub has_sudo: bool,
    pub has_reply: bool,
    pub has_migrate: bool,
    /// registered through `ContractWrapper::new_with_empty(..)` with only the entry points it has attached
    /// (`contract::wrapped`; tag must be one of `wrapped::TAGS`); not part of the model: the wrapper is transparent
    #[serde(default, skip_serializing_if = "std::ops::Not::not")]
    pub wrapped: bool,
}

#[derive(Serialize, Deserialize, Clone, Debug, PartialEq)]
pub enum Hop {
    /// creator None = App::store_code (creator = addr_make("creator")), Some = store_code_with_creator
    Store { creator: Option<String>, src: SourceS },
    StoreWithId { creator: String, id: u64, src: SourceS },
    Duplicate { id: u64 },
    Top { block: BlockS, op: TopOp },
    CodeInfo { id: u64 },
    Info { c: String },
    Data { c: String },
    Dump { c: String },
}

#[derive(Serialize, Deserialize, Clone, Debug, PartialEq)]
pub struct History {
    pub hops: Vec<Hop>,
    pub users: Vec<String>,
}

#[derive(Serialize, Deserialize, Clone, Debug, PartialEq)]
pub enum IdOut {
    Ok(u64),
    Err,
    Panic,
}

#[derive(Serialize, Deserialize, Clone, Debug, PartialEq)]
pub enum HObs {
    Id { r: IdOut, raw_same: bool },
    Top(StepObs),
    CodeInfo(Option<(u64, String, B)>),
    Info(Option<(u64, String, Option<String>)>),
    Data(Option<CDataS>),
    Dump(Vec<(B, B)>),
    /// a query panicked
    Panicked,
}

pub fn default_creator() -> String {
    user("creator")
}

fn scripted(src: &SourceS) -> Box<dyn cw_multi_test::Contract<CMsg, cosmwasm_std::Empty>> {
    let checksum = src.checksum.as_ref().map(|b| Checksum::from(<[u8; 32]>::try_from(b.as_slice()).unwrap()));
    if src.wrapped {
        wrapped::contract(src.tag, src.has_sudo, src.has_reply, src.has_migrate, checksum)
    } else {
        Box::new(Scripted { tag: src.tag, has_sudo: src.has_sudo, has_reply: src.has_reply, has_migrate: src.has_migrate, checksum })
    }
}

/// a live App on which a history is being run (the generators build histories online so that they
/// can name the addresses the implementation actually produced; the emitted history is static)
pub struct Live {
    pub app: TApp,
    pub hops: Vec<Hop>,
    pub obs: Vec<HObs>,
}

impl Live {
    pub fn new() -> Self {
        Live { app: new_app(), hops: vec![], obs: vec![] }
    }
    pub fn state(&self) -> StateS {
        decode_state(&raw_dump(self.app.storage()))
    }
    pub fn push(&mut self, hop: Hop) -> HObs {
        let o = run_hop(&mut self.app, &hop);
        self.hops.push(hop);
        self.obs.push(o.clone());
        o
    }
    pub fn top(&mut self, block: &BlockS, op: TopOp) -> StepObs {
        match self.push(Hop::Top { block: block.clone(), op }) {
            HObs::Top(s) => s,
            _ => unreachable!(),
        }
    }
}

pub fn run_hop(app: &mut TApp, hop: &Hop) -> HObs {
    let id_out = |app: &mut TApp, f: &mut dyn FnMut(&mut TApp) -> Result<u64, String>| -> HObs {
        let before = digest(&raw_dump(app.storage()));
        let r = match catch(|| f(app)) {
            Ok(Ok(id)) => IdOut::Ok(id),
            Ok(Err(_)) => IdOut::Err,
            Err(_) => IdOut::Panic,
        };
        let after = digest(&raw_dump(app.storage()));
        HObs::Id { r, raw_same: before == after }
    };
    match hop {
        Hop::Store { creator, src } => id_out(app, &mut |app| match creator {
            None => Ok(app.store_code(scripted(src))),
            Some(c) => Ok(app.store_code_with_creator(Addr::unchecked(c.clone()), scripted(src))),
        }),
        Hop::StoreWithId { creator, id, src } => {
            id_out(app, &mut |app| app.store_code_with_id(Addr::unchecked(creator.clone()), *id, scripted(src)).map_err(|e| e.to_string()))
        }
        Hop::Duplicate { id } => id_out(app, &mut |app| app.duplicate_code(*id).map_err(|e| e.to_string())),
        Hop::Top { block, op } => {
            let b = to_block(block);
            if app.block_info() != b {
                app.set_block(b);
            }
            let before = raw_dump(app.storage());
            let _ = take_log();
            let outcome = run_op(app, op);
            let trace = take_log();
            let after = raw_dump(app.storage());
            HObs::Top(StepObs { trace, outcome, state: decode_state(&after), raw_before: digest(&before), raw_after: digest(&after) })
        }
        Hop::CodeInfo { id } => match catch(|| app.wrap().query_wasm_code_info(*id).ok().map(|i| (i.code_id, i.creator.to_string(), i.checksum.as_slice().to_vec()))) {
            Ok(r) => HObs::CodeInfo(r),
            Err(_) => HObs::Panicked,
        },
        Hop::Info { c } => {
            match catch(|| app.wrap().query_wasm_contract_info(c.clone()).ok().map(|i| (i.code_id, i.creator.to_string(), i.admin.map(|a| a.to_string())))) {
                Ok(r) => HObs::Info(r),
                Err(_) => HObs::Panicked,
            }
        }
        Hop::Data { c } => match catch(|| {
            app.contract_data(&Addr::unchecked(c.clone())).ok().map(|cd| CDataS {
                code_id: cd.code_id,
                creator: cd.creator.to_string(),
                admin: cd.admin.map(|a| a.to_string()),
                label: cd.label,
                created: cd.created,
            })
        }) {
            Ok(r) => HObs::Data(r),
            Err(_) => HObs::Panicked,
        },
        Hop::Dump { c } => match catch(|| app.dump_wasm_raw(&Addr::unchecked(c.clone()))) {
            Ok(r) => HObs::Dump(r),
            Err(_) => HObs::Panicked,
        },
    }
}

pub fn run_history(h: &History) -> Vec<HObs> {
    let mut app = new_app();
    h.hops.iter().map(|hop| run_hop(&mut app, hop)).collect()
}

// ---------- the static part of a case, derived independently of cw-multi-test ----------

fn msgs_of_history(h: &History) -> Vec<Msg> {
    let sc = Scenario {
        codes: vec![],
        users: h.users.clone(),
        steps: h.hops.iter().filter_map(|x| if let Hop::Top { block, op } = x { Some(Step { block: block.clone(), op: op.clone() }) } else { None }).collect(),
    };
    let mut v: Vec<Msg> = print::all_msgs(&sc).into_iter().cloned().collect();
    for x in &h.hops {
        if let Hop::Top { op: TopOp::HelperInst { code_id, p, funds, label, admin, salt, .. }, .. } = x {
            v.push(Msg::Inst { code_id: *code_id, p: p.clone(), funds: funds.clone(), label: label.clone(), admin: admin.clone(), salt: salt.clone() });
        }
    }
    v
}

/// the harness' own bookkeeping of which ids exist and what checksum each has (only used to decide
/// WHICH book entries to compute; every entry itself comes from sha2 / instantiate2_address / bech32)
pub fn checksum_table(h: &History, obs: &[HObs]) -> BTreeMap<u64, B> {
    let mut t: BTreeMap<u64, B> = BTreeMap::new();
    for (hop, o) in h.hops.iter().zip(obs.iter()) {
        if let HObs::Id { r: IdOut::Ok(id), .. } = o {
            match hop {
                Hop::Store { src, .. } | Hop::StoreWithId { src, .. } => {
                    t.insert(*id, src.checksum.clone().unwrap_or_else(|| default_checksum(*id)));
                }
                Hop::Duplicate { id: from } => {
                    if let Some(cs) = t.get(from).cloned() {
                        t.insert(*id, cs);
                    }
                }
                _ => {}
            }
        }
    }
    t
}

pub fn case_env(h: &History, obs: &[HObs]) -> String {
    let msgs = msgs_of_history(h);
    let table = checksum_table(h, obs);
    let n_inst = msgs.iter().filter(|m| matches!(m, Msg::Inst { .. })).count() as u64;
    // classic addresses: every code id named by an instantiation x every possible instance number
    let mut inst_ids: BTreeSet<u64> = BTreeSet::new();
    for m in &msgs {
        if let Msg::Inst { code_id, salt: None, .. } = m {
            inst_ids.insert(*code_id);
        }
    }
    let mut classic: Vec<((u64, u64), String)> = vec![];
    for id in &inst_ids {
        for i in 0..=n_inst {
            classic.push(((*id, i), classic_address(*id, i)));
        }
    }
    // creators of salted instantiations: users, the default creator, and every contract that ran a program
    // with a salted instantiation among its sub-messages (the dispatcher of a sub-message is its sender)
    let mut creators: Vec<String> = h.users.clone();
    creators.push(default_creator());
    let mut nodes: BTreeSet<u64> = BTreeSet::new();
    fn scan_prog(p: &Prog, nodes: &mut BTreeSet<u64>) {
        if let Output::Resp { subs, .. } = &p.out {
            for s in subs {
                if let Msg::Inst { salt: Some(_), .. } = s.m.as_ref() {
                    nodes.insert(p.node);
                    nodes.insert(s.on_ok.node);
                    nodes.insert(s.on_err.node);
                }
                match s.m.as_ref() {
                    Msg::Exec { p, .. } | Msg::Inst { p, .. } | Msg::Migrate { p, .. } => scan_prog(p, nodes),
                    _ => {}
                }
                scan_prog(&s.on_ok, nodes);
                scan_prog(&s.on_err, nodes);
            }
        }
    }
    for x in &h.hops {
        if let Hop::Top { op, .. } = x {
            match op {
                TopOp::ExecMulti { ms, .. } => ms.iter().for_each(|m| if let Msg::Exec { p, .. } | Msg::Inst { p, .. } | Msg::Migrate { p, .. } = m { scan_prog(p, &mut nodes) }),
                TopOp::Exec { m: Msg::Exec { p, .. } | Msg::Inst { p, .. } | Msg::Migrate { p, .. }, .. } => scan_prog(p, &mut nodes),
                TopOp::WasmSudo { p, .. } | TopOp::HelperInst { p, .. } | TopOp::HelperExec { p, .. } | TopOp::HelperMigrate { p, .. } => scan_prog(p, &mut nodes),
                _ => {}
            }
        }
    }
    for o in obs {
        if let HObs::Top(s) = o {
            for e in &s.trace {
                if let Entry::Call { callee, node, .. } = e {
                    if nodes.contains(node) {
                        creators.push(callee.clone());
                    }
                }
            }
        }
    }
    creators.sort();
    creators.dedup();
    let mut keys: BTreeSet<(B, B)> = BTreeSet::new(); // (checksum, salt)
    for m in &msgs {
        if let Msg::Inst { code_id, salt: Some(s), .. } = m {
            if let Some(cs) = table.get(code_id) {
                keys.insert((cs.clone(), s.clone()));
            }
        }
    }
    let mut salted: Vec<((B, String, B), String)> = vec![];
    for (cs, salt) in &keys {
        for cr in &creators {
            if let Some(a) = salted_address(cs, cr, salt) {
                salted.push(((cs.clone(), cr.clone(), salt.clone()), a));
            }
        }
    }
    let mut valid: Vec<String> = creators.clone();
    for o in obs {
        if let HObs::Top(s) = o {
            valid.extend(s.state.reg.iter().map(|x| x.0.clone()));
        }
    }
    valid.extend(classic.iter().map(|x| x.1.clone()));
    valid.extend(salted.iter().map(|x| x.1.clone()));
    valid.sort();
    valid.dedup();
    // default checksums of every id a store call returned (SimpleChecksumGenerator, recomputed here)
    let mut dck: Vec<(u64, B)> = vec![];
    for (hop, o) in h.hops.iter().zip(obs.iter()) {
        if let (Hop::Store { .. } | Hop::StoreWithId { .. }, HObs::Id { r: IdOut::Ok(id), .. }) = (hop, o) {
            dck.push((*id, default_checksum(*id)));
        }
    }
    format!(
        "(Build_reg_case_env {} {} {} {})",
        coq_list(&valid, |a| print::text_known(a)),
        coq_list(&classic, |((c, i), a)| format!("(({},{}),{})", c, i, print::text_known(a))),
        coq_list(&salted, |((cs, cr, sa), a)| format!("(({},{},{}),{})", coq_bytes(cs), print::text_known(cr), coq_bytes(sa), print::text_known(a))),
        coq_list(&dck, |(id, cs)| format!("({},{})", id, coq_bytes(cs)))
    )
}

pub fn source(s: &SourceS) -> String {
    format!(
        "(Build_source {} {} {} {} {})",
        s.tag,
        coq_opt(&s.checksum, |b| coq_bytes(b)),
        coq_bool(s.has_sudo),
        coq_bool(s.has_reply),
        coq_bool(s.has_migrate)
    )
}

pub fn hop(h: &Hop) -> String {
    match h {
        Hop::Store { creator, src } => format!("(HStore {} {})", print::text(&creator.clone().unwrap_or_else(default_creator)), source(src)),
        Hop::StoreWithId { creator, id, src } => format!("(HStoreWithId {} {} {})", print::text(creator), id, source(src)),
        Hop::Duplicate { id } => format!("(HDuplicate {})", id),
        Hop::Top { block, op } => format!("(HTop {} {})", print::block(block), print::topop(op)),
        Hop::CodeInfo { id } => format!("(HQueryCodeInfo {})", id),
        Hop::Info { c } => format!("(HQueryInfo {})", print::text(c)),
        Hop::Data { c } => format!("(HContractData {})", print::text(c)),
        Hop::Dump { c } => format!("(HDump {})", print::text(c)),
    }
}

pub fn hobs(o: &HObs) -> String {
    match o {
        HObs::Id { r, raw_same } => format!(
            "(OId {} {})",
            match r {
                IdOut::Ok(i) => format!("(Ok {})", i),
                IdOut::Err => "Err".into(),
                IdOut::Panic => "Panic".into(),
            },
            coq_bool(*raw_same)
        ),
        HObs::Top(s) => format!(
            "(OTop {} {} {} {} {})",
            coq_list(&s.trace, print::entry),
            print::outcome(&s.outcome),
            print::state(&s.state),
            s.state.other.len(),
            coq_bool(s.raw_before == s.raw_after)
        ),
        HObs::CodeInfo(r) => format!("(OCodeInfo {})", coq_opt(r, |(c, cr, cs)| format!("({},{},{})", c, print::text(cr), coq_bytes(cs)))),
        HObs::Info(r) => format!("(OInfo {})", coq_opt(r, |(c, cr, ad)| format!("({},{},{})", c, print::text(cr), coq_opt(ad, |a| print::text(a))))),
        HObs::Data(r) => format!("(OData {})", coq_opt(r, print::cdata)),
        HObs::Dump(l) => format!("(ODump {})", coq_list(l, print::kv)),
        HObs::Panicked => "OPanic".into(),
    }
}

pub fn hsteps(h: &History, obs: &[HObs]) -> String {
    let v: Vec<String> = h.hops.iter().zip(obs.iter()).map(|(x, o)| format!("Build_hstep {} {}", hop(x), hobs(o))).collect();
    format!("[{}]", v.join(";\n   "))
}

pub const REG_HEADER: &str = "From Verif Require Import Base OMap Text Proto Bank Exec ChkExec ChkX Registry ChkReg.";

pub fn emit_history(out: &mut Out, h: &History, obs: &[HObs], check: &str, extra: serde_json::Value, nontrivial: bool) {
    for (x, o) in h.hops.iter().zip(obs.iter()) {
        let k = match x {
            Hop::Store { .. } => "hop_store",
            Hop::StoreWithId { .. } => "hop_store_with_id",
            Hop::Duplicate { .. } => "hop_duplicate",
            Hop::Top { .. } => "hop_top",
            Hop::CodeInfo { .. } => "hop_code_info",
            Hop::Info { .. } => "hop_contract_info",
            Hop::Data { .. } => "hop_contract_data",
            Hop::Dump { .. } => "hop_dump",
        };
        out.stat(k, 1);
        match o {
            HObs::Id { r, .. } => out.stat(
                &format!("{}_{}", k, match r {
                    IdOut::Ok(_) => "ok",
                    IdOut::Err => "err",
                    IdOut::Panic => "panic",
                }),
                1,
            ),
            HObs::Top(s) => {
                out.stat(&format!("top_{}", crate::outcome_class(&s.outcome)), 1);
                if let Hop::Top { op, .. } = x {
                    let (kind, m) = match op {
                        TopOp::Exec { m, .. } => ("exec", Some(m)),
                        TopOp::HelperInst { .. } => ("helper_inst", None),
                        TopOp::HelperMigrate { .. } => ("helper_migrate", None),
                        TopOp::WasmSudo { .. } => ("wasm_sudo", None),
                        TopOp::Mint { .. } => ("mint", None),
                        _ => ("other", None),
                    };
                    out.stat(&format!("op_{}", kind), 1);
                    if let Some(m) = m {
                        let mk = match m {
                            Msg::Inst { salt: Some(_), .. } => "root_instantiate2",
                            Msg::Inst { .. } => "root_instantiate",
                            Msg::Migrate { .. } => "root_migrate",
                            Msg::UpdateAdmin { .. } => "root_update_admin",
                            Msg::ClearAdmin { .. } => "root_clear_admin",
                            Msg::Exec { .. } => "root_execute",
                            _ => "root_other",
                        };
                        out.stat(&format!("{}_{}", mk, crate::outcome_class(&s.outcome)), 1);
                    }
                }
                for e in &s.trace {
                    if let Entry::Call { ep, .. } = e {
                        out.stat(&format!("call_{:?}", ep), 1);
                    }
                }
            }
            _ => {}
        }
    }
    let steps = hsteps(h, obs);
    let coq = format!("{} {}\n  {}", check, case_env(h, obs), steps);
    out.push(Case {
        key: serde_json::to_string(h).unwrap(),
        json: serde_json::json!({"history": h, "observed": obs, "extra": extra}),
        coq,
        nontrivial,
    });
}

pub fn load_replay_history(p: &std::path::Path) -> History {
    let v: serde_json::Value = serde_json::from_slice(&std::fs::read(p).unwrap()).unwrap();
    let case = v.get("case").unwrap_or(&v);
    serde_json::from_value(case["history"].clone()).unwrap()
}

/// common main of C11 / C12: fixed histories first, then `n` generated ones
pub fn run_reg_prop(
    prop: &str,
    check: &str,
    fixed: Vec<History>,
    gen: &dyn Fn(&mut common::Rng, bool) -> (History, Vec<HObs>),
    n_quick: u64,
    n_thorough: u64,
    rule: &str,
    nontrivial: &dyn Fn(&History, &[HObs]) -> bool,
) {
    let args = common::parse_args(prop);
    let mut out = Out::new(&args.out, REG_HEADER);
    if let Some(p) = &args.replay {
        let h = load_replay_history(p);
        let obs = run_history(&h);
        emit_history(&mut out, &h, &obs, check, serde_json::json!({}), true);
        out.prelude = print::intern_prelude();
        out.finish(50, "replay");
        return;
    }
    for h in &fixed {
        let obs = run_history(h);
        let nt = nontrivial(h, &obs);
        emit_history(&mut out, h, &obs, check, serde_json::json!({"fixed": true}), nt);
    }
    let mut rng = common::Rng::new(args.seed);
    let n = if args.thorough { n_thorough } else { n_quick } * args.scale;
    for _ in 0..n {
        let mut r = rng.fork();
        let (h, obs_live) = gen(&mut r, args.thorough);
        // the history is static: re-run it from scratch; the observations must be the ones seen while generating
        let obs = run_history(&h);
        if obs != obs_live {
            out.stat("replay_differs_from_live_run", 1);
        }
        let nt = nontrivial(&h, &obs);
        emit_history(&mut out, &h, &obs, check, serde_json::json!({}), nt);
    }
    out.prelude = print::intern_prelude();
    out.finish(8, rule);
}

// ---------- building blocks shared by the two generators ----------

pub fn block0() -> BlockS {
    BlockS { height: 12345, time_ns: 1_571_797_419_879_305_533, chain_id: "cosmos-testnet-14002".into() }
}

/// a code of the ContractWrapper flavour: entry points it lacks are not attached to the wrapper
pub fn wrapped_src(tag: u64, has_sudo: bool, has_reply: bool, has_migrate: bool) -> SourceS {
    SourceS { tag, checksum: None, has_sudo, has_reply, has_migrate, wrapped: true }
}

pub fn full_src(tag: u64) -> SourceS {
    SourceS { tag, checksum: None, has_sudo: true, has_reply: true, has_migrate: true, wrapped: false }
}

pub struct Nodes(pub u64);
impl Nodes {
    pub fn next(&mut self) -> u64 {
        self.0 += 1;
        self.0
    }
}

/// a leaf program: marker write, optional extra actions, empty well-formed response
pub fn leaf(nodes: &mut Nodes, extra: Vec<Action>) -> Prog {
    let node = nodes.next();
    let mut acts = vec![Action::Write(format!("m{}", node).into_bytes(), vec![1])];
    acts.extend(extra);
    Prog { node, acts, out: Output::Resp { attrs: vec![], events: vec![], data: None, subs: vec![] } }
}
pub fn failing(nodes: &mut Nodes) -> Prog {
    let node = nodes.next();
    Prog { node, acts: vec![Action::Write(format!("m{}", node).into_bytes(), vec![1])], out: Output::Fail }
}
pub fn malformed(nodes: &mut Nodes) -> Prog {
    let node = nodes.next();
    Prog {
        node,
        acts: vec![Action::Write(format!("m{}", node).into_bytes(), vec![1])],
        out: Output::Resp { attrs: vec![("_reserved".into(), "v".into())], events: vec![], data: None, subs: vec![] },
    }
}
/// a program whose only sub-message is `m`
pub fn with_sub(nodes: &mut Nodes, id: u64, ro: ReplyOnS, m: Msg) -> Prog {
    let node = nodes.next();
    let on_ok = leaf(nodes, vec![]);
    let on_err = leaf(nodes, vec![]);
    Prog {
        node,
        acts: vec![Action::Write(format!("m{}", node).into_bytes(), vec![1])],
        out: Output::Resp { attrs: vec![], events: vec![], data: None, subs: vec![Sub { id, payload: vec![id as u8], ro, m: Box::new(m), on_ok, on_err }] },
    }
}
pub fn mint_all(live: &mut Live, users: &[String]) {
    let b = block0();
    for u in users {
        live.top(&b, TopOp::Mint { to: u.clone(), amt: vec![CoinS { denom: "uatom".into(), amount: 100 }] });
    }
}
pub fn reg_of(live: &Live) -> Vec<(String, CDataS)> {
    live.state().reg
}

/// a well-formed bech32 address of ANOTHER chain (prefix `hrp`): not valid for the default MockApi
pub fn foreign_address(hrp: &str, name: &str) -> String {
    use sha2::{Digest, Sha256};
    let h = Sha256::digest(name.as_bytes()).to_vec();
    bech32::encode::<bech32::Bech32>(bech32::Hrp::parse(hrp).unwrap(), &h).unwrap()
}
/// sender strings that the chain's Api cannot validate / canonicalize: a plain name, a foreign-prefix address,
/// an upper-cased copy of a real address, the empty string (App::execute takes any Addr)
pub fn invalid_senders(real: &str) -> Vec<String> {
    vec!["mallory".to_string(), foreign_address("juno", "mallory"), real.to_uppercase(), String::new()]
}
