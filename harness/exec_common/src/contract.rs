//! The scripted contract (one generic implementation of `Contract`; codes differ by tag and by
//! which optional entry points exist) and the recording custom module.  Everything they see is
//! logged out of band in a thread-local (never rolled back).
use crate::lang::*;
use anyhow::{anyhow, bail, Result as AnyResult};
use cosmwasm_std::{
    to_json_binary, to_json_vec, Addr, Api, Attribute, BankMsg, Binary, BlockInfo, Checksum, Coin, ContractResult, CosmosMsg,
    CustomMsg, CustomQuery, Deps, DepsMut, Empty, Env, Event, MessageInfo, Order, Querier, QuerierWrapper, QueryRequest,
    Reply, ReplyOn, Response, Storage, SubMsg, SubMsgResult, SystemResult, Uint128, WasmMsg, WasmQuery,
};
use cw_multi_test::{AppResponse, Contract, CosmosRouter, Module};
use schemars::JsonSchema;
use serde::{Deserialize, Serialize};
use std::cell::RefCell;

thread_local! {
    pub static LOG: RefCell<Vec<Entry>> = RefCell::new(vec![]);
}
thread_local! {
    /// addresses at which scripted code has run since the last `driver::new_app()` on this thread: the only
    /// contracts that can have created another contract, i.e. the creators the independently derived
    /// instantiate2 address book of the case must cover (print::case_env)
    pub static RAN_AT: RefCell<std::collections::BTreeSet<String>> = RefCell::new(Default::default());
}
pub fn log(e: Entry) {
    if let Entry::Call { callee, .. } = &e {
        RAN_AT.with(|r| {
            r.borrow_mut().insert(callee.clone());
        });
    }
    LOG.with(|l| l.borrow_mut().push(e));
}
pub fn take_log() -> Vec<Entry> {
    LOG.with(|l| std::mem::take(&mut *l.borrow_mut()))
}

/// the chain's custom message type: handled by `RecModule`
#[derive(Serialize, Deserialize, Clone, Debug, PartialEq, JsonSchema)]
pub struct CMsg {
    pub ok: bool,
    pub tag: u64,
}
impl CustomMsg for CMsg {}

pub struct RecModule;
impl Module for RecModule {
    type ExecT = CMsg;
    type QueryT = Empty;
    type SudoT = Empty;
    fn execute<ExecC, QueryC>(
        &self,
        _api: &dyn Api,
        _storage: &mut dyn Storage,
        _router: &dyn CosmosRouter<ExecC = ExecC, QueryC = QueryC>,
        _block: &BlockInfo,
        sender: Addr,
        msg: CMsg,
    ) -> AnyResult<AppResponse>
    where
        ExecC: CustomMsg + serde::de::DeserializeOwned + 'static,
        QueryC: CustomQuery + serde::de::DeserializeOwned + 'static,
    {
        log(Entry::Mod { sender: sender.to_string(), tag: msg.tag });
        if msg.ok {
            Ok(AppResponse::default())
        } else {
            bail!("custom module refuses")
        }
    }
    fn query(&self, _api: &dyn Api, _storage: &dyn Storage, _querier: &dyn Querier, _block: &BlockInfo, _request: Empty) -> AnyResult<Binary> {
        bail!("no custom queries")
    }
    fn sudo<ExecC, QueryC>(
        &self,
        _api: &dyn Api,
        _storage: &mut dyn Storage,
        _router: &dyn CosmosRouter<ExecC = ExecC, QueryC = QueryC>,
        _block: &BlockInfo,
        _msg: Empty,
    ) -> AnyResult<AppResponse>
    where
        ExecC: CustomMsg + serde::de::DeserializeOwned + 'static,
        QueryC: CustomQuery + serde::de::DeserializeOwned + 'static,
    {
        bail!("no custom sudo")
    }
}

pub fn coins_to_std(cs: &[CoinS]) -> Vec<Coin> {
    cs.iter().map(|c| Coin { denom: c.denom.clone(), amount: Uint128::new(c.amount) }).collect()
}
pub fn coins_from_std(cs: &[Coin]) -> Vec<CoinS> {
    cs.iter().map(|c| CoinS { denom: c.denom.clone(), amount: c.amount.u128() }).collect()
}
pub fn block_from_std(b: &BlockInfo) -> BlockS {
    BlockS { height: b.height, time_ns: b.time.nanos(), chain_id: b.chain_id.clone() }
}
pub fn events_from_std(evs: &[Event]) -> Vec<EventS> {
    evs.iter().map(|e| (e.ty.clone(), e.attributes.iter().map(|a| (a.key.clone(), a.value.clone())).collect())).collect()
}

pub fn msg_to_cosmos(m: &Msg) -> CosmosMsg<CMsg> {
    match m {
        Msg::Custom { ok, tag } => CosmosMsg::Custom(CMsg { ok: *ok, tag: *tag }),
        _ => msg_to_cosmos_nc(m).unwrap(),
    }
}

/// every scripted message except `Msg::Custom` (None), for any custom message type of the emitter
pub fn msg_to_cosmos_nc<C: CustomMsg>(m: &Msg) -> Option<CosmosMsg<C>> {
    Some(match m {
        Msg::BankSend { to, amt } => BankMsg::Send { to_address: to.clone(), amount: coins_to_std(amt) }.into(),
        Msg::BankBurn { amt } => BankMsg::Burn { amount: coins_to_std(amt) }.into(),
        Msg::Exec { c, p, funds } => {
            WasmMsg::Execute { contract_addr: c.clone(), msg: to_json_binary(p).unwrap(), funds: coins_to_std(funds) }.into()
        }
        Msg::Inst { code_id, p, funds, label, admin, salt } => match salt {
            None => WasmMsg::Instantiate {
                admin: admin.clone(),
                code_id: *code_id,
                msg: to_json_binary(p).unwrap(),
                funds: coins_to_std(funds),
                label: label.clone(),
            }
            .into(),
            Some(s) => WasmMsg::Instantiate2 {
                admin: admin.clone(),
                code_id: *code_id,
                msg: to_json_binary(p).unwrap(),
                funds: coins_to_std(funds),
                label: label.clone(),
                salt: Binary::from(s.clone()),
            }
            .into(),
        },
        Msg::Migrate { c, new_code, p } => {
            WasmMsg::Migrate { contract_addr: c.clone(), new_code_id: *new_code, msg: to_json_binary(p).unwrap() }.into()
        }
        Msg::UpdateAdmin { c, a } => WasmMsg::UpdateAdmin { contract_addr: c.clone(), admin: a.clone() }.into(),
        Msg::ClearAdmin { c } => WasmMsg::ClearAdmin { contract_addr: c.clone() }.into(),
        Msg::Custom { .. } => return None,
    })
}

fn reply_on(r: ReplyOnS) -> ReplyOn {
    match r {
        ReplyOnS::Success => ReplyOn::Success,
        ReplyOnS::Error => ReplyOn::Error,
        ReplyOnS::Always => ReplyOn::Always,
        ReplyOnS::Never => ReplyOn::Never,
    }
}

pub struct Scripted {
    pub tag: u64,
    pub has_sudo: bool,
    pub has_reply: bool,
    pub has_migrate: bool,
    pub checksum: Option<Checksum>,
}

fn raw_query(q: &QuerierWrapper<Empty>, req: &QueryRequest<Empty>) -> Option<Binary> {
    match q.raw_query(&to_json_vec(req).unwrap()) {
        SystemResult::Ok(ContractResult::Ok(b)) => Some(b),
        _ => None,
    }
}

pub fn run_qact(node: u64, storage: &dyn Storage, querier: &QuerierWrapper<Empty>, q: &QAct) {
    let val = match q {
        QAct::Read(k) => ObsVal::Bytes(storage.get(k)),
        QAct::Dump => ObsVal::Dump(storage.range(None, None, Order::Ascending).collect()),
        QAct::Balance(a, d) => ObsVal::Amount(querier.query_balance(a.clone(), d.clone()).ok().map(|c| c.amount.u128())),
        #[allow(deprecated)]
        QAct::AllBal(a) => ObsVal::Coins(querier.query_all_balances(a.clone()).ok().map(|v| coins_from_std(&v))),
        QAct::Supply(d) => ObsVal::Amount(querier.query_supply(d.clone()).ok().map(|c| c.amount.u128())),
        QAct::Raw(c, k) => ObsVal::Raw(
            raw_query(querier, &QueryRequest::Wasm(WasmQuery::Raw { contract_addr: c.clone(), key: Binary::from(k.clone()) }))
                .map(|b| b.to_vec()),
        ),
        QAct::Info(c) => ObsVal::Info(
            querier.query_wasm_contract_info(c.clone()).ok().map(|i| (i.code_id, i.creator.to_string(), i.admin.map(|a| a.to_string()))),
        ),
        QAct::CodeInfo(id) => {
            ObsVal::CodeInfo(querier.query_wasm_code_info(*id).ok().map(|i| (i.code_id, i.creator.to_string(), i.checksum.as_slice().to_vec())))
        }
        QAct::Smart(c, qp) => ObsVal::Smart(
            raw_query(querier, &QueryRequest::Wasm(WasmQuery::Smart { contract_addr: c.clone(), msg: to_json_binary(qp.as_ref()).unwrap() }))
                .map(|b| b.to_vec()),
        ),
    };
    log(Entry::Obs { node, val });
}

/// the body shared by both flavours of scripted code (`Scripted`: the `Contract` trait implemented directly;
/// `wrapped`: plain functions registered through `ContractWrapper::new_with_empty`): run the actions, then build
/// the response with struct literals; `conv` turns a scripted message into the flavour's `CosmosMsg`
pub fn run_prog<C: CustomMsg>(deps: DepsMut<Empty>, p: &Prog, conv: fn(&Msg) -> AnyResult<CosmosMsg<C>>) -> AnyResult<Response<C>> {
    for a in &p.acts {
        match a {
            Action::Write(k, v) => deps.storage.set(k, v),
            Action::Remove(k) => deps.storage.remove(k),
            Action::Q(q) => run_qact(p.node, deps.storage, &deps.querier, q),
        }
    }
    match &p.out {
        Output::Fail => Err(anyhow!("scripted failure at node {}", p.node)),
        Output::Resp { attrs, events, data, subs } => {
            let mut r = Response::<C>::new();
            // struct literals: reserved keys must reach cw-multi-test, not cosmwasm-std's debug assertion
            r.attributes = attrs.iter().map(|(k, v)| Attribute { key: k.clone(), value: v.clone() }).collect();
            r.events = events
                .iter()
                .map(|(ty, at)| {
                    let mut e = Event::new(ty.clone());
                    e.attributes = at.iter().map(|(k, v)| Attribute { key: k.clone(), value: v.clone() }).collect();
                    e
                })
                .collect();
            r.data = data.clone().map(Binary::from);
            let mut messages = vec![];
            for s in subs {
                messages.push(SubMsg {
                    id: s.id,
                    payload: to_json_binary(&ReplyPayload { tag: s.payload.clone(), on_ok: s.on_ok.clone(), on_err: s.on_err.clone() }).unwrap(),
                    msg: conv(&s.m)?,
                    gas_limit: None,
                    reply_on: reply_on(s.ro),
                });
            }
            r.messages = messages;
            Ok(r)
        }
    }
}

pub fn log_enter(tag: u64, ep: Ep, env: &Env, info: Option<&MessageInfo>, p: &Prog, rep: Option<(u64, B, RRes)>) {
    log(Entry::Call {
        node: p.node,
        ep,
        callee: env.contract.address.to_string(),
        sender: info.map(|i| i.sender.to_string()),
        funds: info.map(|i| coins_from_std(&i.funds)).unwrap_or_default(),
        block: block_from_std(&env.block),
        // cw-multi-test tells every contract `transaction index 0`; anything else (e.g. a counter shared between
        // app instances) shows up as a foreign code tag in the log
        tag: tag + 1_000_000 * env.transaction.as_ref().map(|t| t.index as u64).unwrap_or(0),
        rep,
    });
}

/// the reply entry point of both flavours
pub fn run_reply<C: CustomMsg>(tag: u64, deps: DepsMut<Empty>, env: Env, msg: Reply, conv: fn(&Msg) -> AnyResult<CosmosMsg<C>>) -> AnyResult<Response<C>> {
    let pl: ReplyPayload = match serde_json::from_slice(msg.payload.as_slice()) {
        Ok(pl) => pl,
        Err(e) => {
            // the payload delivered is not the one any scripted sub-message carried: log the delivery under the
            // node number 0 (no program has it) with the raw payload, so that the oracle sees it
            #[allow(deprecated)]
            let res = match &msg.result {
                SubMsgResult::Ok(r) => RRes::Ok(events_from_std(&r.events), r.data.clone().map(|b| b.to_vec())),
                SubMsgResult::Err(_) => RRes::Err,
            };
            let dummy = Prog { node: 0, acts: vec![], out: Output::Fail };
            log_enter(tag, Ep::Reply, &env, None, &dummy, Some((msg.id, msg.payload.to_vec(), res)));
            bail!("undecodable reply payload: {}", e)
        }
    };
    #[allow(deprecated)]
    let (res, p) = match &msg.result {
        SubMsgResult::Ok(r) => (RRes::Ok(events_from_std(&r.events), r.data.clone().map(|b| b.to_vec())), &pl.on_ok),
        SubMsgResult::Err(_) => (RRes::Err, &pl.on_err),
    };
    log_enter(tag, Ep::Reply, &env, None, p, Some((msg.id, pl.tag.clone(), res)));
    run_prog(deps, p, conv)
}

/// the query entry point of both flavours
pub fn run_query(tag: u64, deps: Deps<Empty>, env: Env, q: QProg) -> AnyResult<Binary> {
    log(Entry::Query { node: q.node, callee: env.contract.address.to_string(), block: block_from_std(&env.block), tag });
    for a in &q.acts {
        run_qact(q.node, deps.storage, &deps.querier, a);
    }
    match q.ans {
        Some(b) => Ok(Binary::from(b)),
        None => Err(anyhow!("scripted query failure at node {}", q.node)),
    }
}

fn conv_cmsg(m: &Msg) -> AnyResult<CosmosMsg<CMsg>> {
    Ok(msg_to_cosmos(m))
}

impl Scripted {
    fn run(&self, deps: DepsMut<Empty>, p: &Prog) -> AnyResult<Response<CMsg>> {
        run_prog(deps, p, conv_cmsg)
    }
    fn enter(&self, ep: Ep, env: &Env, info: Option<&MessageInfo>, p: &Prog, rep: Option<(u64, B, RRes)>) {
        log_enter(self.tag, ep, env, info, p, rep)
    }
}

fn decode_prog(msg: &[u8]) -> AnyResult<Prog> {
    serde_json::from_slice(msg).map_err(|e| anyhow!("undecodable program: {}", e))
}

impl Contract<CMsg, Empty> for Scripted {
    fn execute(&self, deps: DepsMut<Empty>, env: Env, info: MessageInfo, msg: Vec<u8>) -> AnyResult<Response<CMsg>> {
        let p = decode_prog(&msg)?;
        self.enter(Ep::Exec, &env, Some(&info), &p, None);
        self.run(deps, &p)
    }
    fn instantiate(&self, deps: DepsMut<Empty>, env: Env, info: MessageInfo, msg: Vec<u8>) -> AnyResult<Response<CMsg>> {
        let p = decode_prog(&msg)?;
        self.enter(Ep::Inst, &env, Some(&info), &p, None);
        self.run(deps, &p)
    }
    fn query(&self, deps: Deps<Empty>, env: Env, msg: Vec<u8>) -> AnyResult<Binary> {
        let q: QProg = serde_json::from_slice(&msg).map_err(|e| anyhow!("undecodable query program: {}", e))?;
        run_query(self.tag, deps, env, q)
    }
    fn sudo(&self, deps: DepsMut<Empty>, env: Env, msg: Vec<u8>) -> AnyResult<Response<CMsg>> {
        if !self.has_sudo {
            bail!("sudo not implemented for contract")
        }
        let p = decode_prog(&msg)?;
        self.enter(Ep::Sudo, &env, None, &p, None);
        self.run(deps, &p)
    }
    fn reply(&self, deps: DepsMut<Empty>, env: Env, msg: Reply) -> AnyResult<Response<CMsg>> {
        if !self.has_reply {
            bail!("reply not implemented for contract")
        }
        run_reply(self.tag, deps, env, msg, conv_cmsg)
    }
    fn migrate(&self, deps: DepsMut<Empty>, env: Env, msg: Vec<u8>) -> AnyResult<Response<CMsg>> {
        if !self.has_migrate {
            bail!("migrate not implemented for contract")
        }
        let p = decode_prog(&msg)?;
        self.enter(Ep::Migrate, &env, None, &p, None);
        self.run(deps, &p)
    }
    fn checksum(&self) -> Option<Checksum> {
        self.checksum
    }
}

/// The second flavour of scripted code: the same behaviour, but written as plain `Response<Empty>` functions and
/// registered through `ContractWrapper::new_with_empty(..).with_sudo_empty(..).with_reply_empty(..)
/// .with_migrate_empty(..)` (+ `with_checksum`), so that every response passes through cw-multi-test's
/// `customize_response` / `customize_msg` and every message through the wrapper's own serde decoding
/// (`cosmwasm_std::from_json::<Prog>` instead of `serde_json::from_slice`).  `ContractWrapper` takes `fn`
/// pointers: the code tag is a const generic.  An Empty-typed contract cannot emit `CosmosMsg::Custom`: a program
/// with a `Msg::Custom` sub-message that reaches a wrapped contract fails (Err) and is counted in
/// `CUSTOM_REACHED` — the generator guarantees that this never happens (`gen::sanitize_wrapped`), the driver
/// asserts it.
pub mod wrapped {
    use super::*;
    use cw_multi_test::ContractWrapper;
    use std::cell::Cell;

    thread_local! {
        pub static CUSTOM_REACHED: Cell<u64> = Cell::new(0);
    }
    pub fn take_custom_reached() -> u64 {
        CUSTOM_REACHED.with(|c| c.replace(0))
    }

    fn conv_empty(m: &Msg) -> AnyResult<CosmosMsg<Empty>> {
        match msg_to_cosmos_nc::<Empty>(m) {
            Some(c) => Ok(c),
            None => {
                CUSTOM_REACHED.with(|c| c.set(c.get() + 1));
                bail!("an Empty-typed contract cannot emit a custom message")
            }
        }
    }

    fn w_execute<const TAG: u64>(deps: DepsMut<Empty>, env: Env, info: MessageInfo, p: Prog) -> AnyResult<Response<Empty>> {
        log_enter(TAG, Ep::Exec, &env, Some(&info), &p, None);
        run_prog(deps, &p, conv_empty)
    }
    fn w_instantiate<const TAG: u64>(deps: DepsMut<Empty>, env: Env, info: MessageInfo, p: Prog) -> AnyResult<Response<Empty>> {
        log_enter(TAG, Ep::Inst, &env, Some(&info), &p, None);
        run_prog(deps, &p, conv_empty)
    }
    fn w_query<const TAG: u64>(deps: Deps<Empty>, env: Env, q: QProg) -> AnyResult<Binary> {
        run_query(TAG, deps, env, q)
    }
    fn w_sudo<const TAG: u64>(deps: DepsMut<Empty>, env: Env, p: Prog) -> AnyResult<Response<Empty>> {
        log_enter(TAG, Ep::Sudo, &env, None, &p, None);
        run_prog(deps, &p, conv_empty)
    }
    fn w_reply<const TAG: u64>(deps: DepsMut<Empty>, env: Env, msg: Reply) -> AnyResult<Response<Empty>> {
        run_reply(TAG, deps, env, msg, conv_empty)
    }
    fn w_migrate<const TAG: u64>(deps: DepsMut<Empty>, env: Env, p: Prog) -> AnyResult<Response<Empty>> {
        log_enter(TAG, Ep::Migrate, &env, None, &p, None);
        run_prog(deps, &p, conv_empty)
    }

    /// an entry point the code lacks is simply not given to the wrapper (its own "not implemented" error answers)
    fn build<const TAG: u64>(has_sudo: bool, has_reply: bool, has_migrate: bool, checksum: Option<Checksum>) -> Box<dyn Contract<CMsg, Empty>> {
        let base = || ContractWrapper::<Prog, Prog, QProg, anyhow::Error, anyhow::Error, anyhow::Error, CMsg, Empty>::new_with_empty(w_execute::<TAG>, w_instantiate::<TAG>, w_query::<TAG>);
        macro_rules! fin {
            ($w:expr) => {{
                let w = $w;
                match checksum {
                    Some(cs) => Box::new(w.with_checksum(cs)) as Box<dyn Contract<CMsg, Empty>>,
                    None => Box::new(w) as Box<dyn Contract<CMsg, Empty>>,
                }
            }};
        }
        match (has_sudo, has_reply, has_migrate) {
            (false, false, false) => fin!(base()),
            (true, false, false) => fin!(base().with_sudo_empty(w_sudo::<TAG>)),
            (false, true, false) => fin!(base().with_reply_empty(w_reply::<TAG>)),
            (true, true, false) => fin!(base().with_sudo_empty(w_sudo::<TAG>).with_reply_empty(w_reply::<TAG>)),
            (false, false, true) => fin!(base().with_migrate_empty(w_migrate::<TAG>)),
            (true, false, true) => fin!(base().with_sudo_empty(w_sudo::<TAG>).with_migrate_empty(w_migrate::<TAG>)),
            (false, true, true) => fin!(base().with_reply_empty(w_reply::<TAG>).with_migrate_empty(w_migrate::<TAG>)),
            (true, true, true) => fin!(base().with_sudo_empty(w_sudo::<TAG>).with_reply_empty(w_reply::<TAG>).with_migrate_empty(w_migrate::<TAG>)),
        }
    }

    /// the tags for which wrapped functions are stamped out (those of `gen::default_codes` / `gen::wrapped_codes`)
    pub const TAGS: [u64; 6] = [101, 102, 104, 105, 107, 109];

    pub fn contract(tag: u64, has_sudo: bool, has_reply: bool, has_migrate: bool, checksum: Option<Checksum>) -> Box<dyn Contract<CMsg, Empty>> {
        match tag {
            101 => build::<101>(has_sudo, has_reply, has_migrate, checksum),
            102 => build::<102>(has_sudo, has_reply, has_migrate, checksum),
            104 => build::<104>(has_sudo, has_reply, has_migrate, checksum),
            105 => build::<105>(has_sudo, has_reply, has_migrate, checksum),
            107 => build::<107>(has_sudo, has_reply, has_migrate, checksum),
            109 => build::<109>(has_sudo, has_reply, has_migrate, checksum),
            _ => panic!("no wrapped flavour is stamped out for code tag {} (see contract::wrapped::TAGS)", tag),
        }
    }
}
