//! C04: events and data composed deterministically per wasmd rules.
use exec_common::gen::Cfg;
use exec_common::*;
fn main() {
    let mut cfg = Cfg::default();
    cfg.big_data = true;
    cfg.migrate_bias = true;
    cfg.p_fail = 8;
    cfg.p_malformed = 1;
    cfg.queries = false;
    cfg.admin_ops = false;
    // two of the six codes are registered through ContractWrapper::new_with_empty(..).with_*_empty(..)
    cfg.wrapped_codes = true;
    run_prop("C04", "c04", cfg, 150, 1500, vec![],
        "scenarios with low failure rate, every combination of attributes (none / some / empty values), custom events, data in {absent, empty, non-empty} at every node and reply handler, all reply_on modes; distinct by SHA-256; non-trivial = a successful top-level call returned at least 3 events and a reply was invoked",
        &|_, obs| obs.iter().any(|o| matches!(&o.outcome, OutcomeS::Ok(v) if v.iter().any(|r| r.0.len() >= 3)) && o.trace.iter().any(|e| matches!(e, Entry::Call { ep: Ep::Reply, .. }))));
}
