//! C19: the simulator is deterministic and instances do not interfere — RELATIONAL runs on the real
//! implementation.  One history (store_code / store_code_with_id / duplicate_code in varying order, set_block,
//! code-info probes, top-level calls with instantiate / instantiate2, queries, failures) is given to a real
//! `App`
//!   (i)    alone,
//!   (ii)   again in this process after three UNRELATED apps ran other histories (and are still alive),
//!   (iii)  interleaved operation by operation with a twin app running the same history (random schedule; both
//!          transcripts are kept), and with a stranger running another history (stranger first / this one first),
//!   (iv)   in a fresh OS process (this binary re-executed with `--child <file>`: fresh RandomState seeds, fresh
//!          statics), once plainly and once with other environment variables and another working directory,
//!   (v)    in another thread of this process while two more threads keep running other histories,
//! and every transcript (per operation: returned code id / probe answers / out-of-band log / responses with
//! events and data or error-ness, the error MESSAGE, the decoded raw store, SHA-256 of the complete raw store)
//! is printed for Coq, where Chk19.c19 decides their equality with run (i) (PropFail) and then the
//! correspondence of run (i) with the instance model of Det.v (Disagree).
use common::{catch, coq_bool, coq_bytes, coq_list, coq_opt, coq_text, Case, Out, Rng};
use cosmwasm_std::testing::{MockApi, MockStorage};
use cosmwasm_std::{Addr, Api, Binary, BlockInfo, Checksum, Coin, CosmosMsg, Decimal, DistributionMsg, Empty, StakingMsg, Storage, Timestamp, Uint128, Validator};
use cw_multi_test::{
    no_init, App, AppBuilder, AppResponse, BankKeeper, BankSudo, Contract, DistributionKeeper, Executor, GovFailingModule, IbcFailingModule,
    MockApiBech32m, StakeKeeper, StakingInfo, StakingSudo, StargateFailing, SudoMsg, WasmKeeper,
};
use exec_common::contract::*;
use exec_common::driver::*;
use exec_common::gen::{Cfg, G};
use exec_common::lang::*;
use exec_common::print;
use serde::{Deserialize, Serialize};
use sha2::{Digest, Sha256};
use std::collections::BTreeMap;
use std::path::{Path, PathBuf};
use std::sync::atomic::{AtomicBool, Ordering};
use std::sync::Arc;

// ---------------------------------------------------------------------------------------------------
// histories and observations (mirror coq/Det.v iop / iout and coq/Chk19.v iobs)
// ---------------------------------------------------------------------------------------------------
#[derive(Serialize, Deserialize, Clone, Debug, PartialEq)]
pub struct CSpec {
    pub tag: u64,
    pub checksum: Option<B>,
    pub has_sudo: bool,
    pub has_reply: bool,
    pub has_migrate: bool,
}

#[derive(Serialize, Deserialize, Clone, Debug, PartialEq)]
pub enum IOp {
    /// `App::store_code` (creator None) / `App::store_code_with_creator`
    Store { creator: Option<String>, spec: CSpec },
    StoreId { creator: String, id: u64, spec: CSpec },
    Dup { id: u64 },
    SetBlock(BlockS),
    /// `App::block_info()` + `wrap().query_wasm_code_info(id)` for each id
    Probe(Vec<u64>),
    Top(TopOp),
    /// operations the executor model does not cover (Det.IOpaque): observed and compared across runs, not predicted
    Opaque(OpaqueOp),
}

#[derive(Serialize, Deserialize, Clone, Debug, PartialEq)]
pub enum OpaqueOp {
    /// `app.init_modules`: StakeKeeper::setup + add_validator (address, commission percent)
    StakingSetup { denom: String, unbonding_secs: u64, apr_percent: u64, validators: Vec<(String, u64)> },
    Delegate { sender: String, validator: String, amount: CoinS },
    Undelegate { sender: String, validator: String, amount: CoinS },
    Redelegate { sender: String, src: String, dst: String, amount: CoinS },
    /// DistributionMsg::WithdrawDelegatorReward
    Withdraw { sender: String, validator: String },
    /// StakingSudo::Slash
    Slash { validator: String, percent: u64 },
    /// App::update_block (processes the unbonding queue)
    UpdateBlock { blocks: u64, secs: u64 },
    /// App::set_block once staking is set up (it processes the unbonding queue, which pays out)
    SetBlock(BlockS),
}
impl OpaqueOp {
    fn tag(&self) -> u64 {
        match self {
            OpaqueOp::StakingSetup { .. } => 1,
            OpaqueOp::Delegate { .. } => 2,
            OpaqueOp::Undelegate { .. } => 3,
            OpaqueOp::Redelegate { .. } => 4,
            OpaqueOp::Withdraw { .. } => 5,
            OpaqueOp::Slash { .. } => 6,
            OpaqueOp::UpdateBlock { .. } => 7,
            OpaqueOp::SetBlock(_) => 8,
        }
    }
    fn name(&self) -> &'static str {
        match self {
            OpaqueOp::StakingSetup { .. } => "staking_setup",
            OpaqueOp::Delegate { .. } => "delegate",
            OpaqueOp::Undelegate { .. } => "undelegate",
            OpaqueOp::Redelegate { .. } => "redelegate",
            OpaqueOp::Withdraw { .. } => "withdraw_rewards",
            OpaqueOp::Slash { .. } => "slash",
            OpaqueOp::UpdateBlock { .. } => "update_block",
            OpaqueOp::SetBlock(_) => "set_block",
        }
    }
}

#[derive(Serialize, Deserialize, Clone, Debug, PartialEq)]
pub enum IdOut {
    Ok(u64),
    Err,
    Panic,
}

#[derive(Serialize, Deserialize, Clone, Debug, PartialEq)]
pub enum IOut {
    Id(IdOut),
    Unit,
    Probe(BlockS, Vec<Option<(u64, String, B)>>),
    Top(Vec<Entry>, OutcomeS),
    /// responses (events + data) or error-ness, and `block_info()` after the operation
    Opaque(OutcomeS, BlockS),
}

#[derive(Serialize, Deserialize, Clone, Debug, PartialEq)]
pub struct IObs {
    pub out: IOut,
    /// canonical error / panic message ("" on success)
    pub err: String,
    pub state: StateS,
    /// SHA-256 (hex, all 32 bytes) of the complete raw root store after the operation
    pub digest: String,
}

#[derive(Serialize, Deserialize, Clone, Debug, PartialEq)]
pub struct Scn {
    pub hist: Vec<IOp>,
    /// the code table the harness PREDICTS (own re-implementation of "next id = largest id + 1"); used for the
    /// address books and the checksum book of the case, never handed to cw-multi-test
    pub codes: Vec<CodeS>,
    pub users: Vec<String>,
}

fn creator_default() -> String {
    user("creator")
}

// ---------------------------------------------------------------------------------------------------
// running one operation on a real App
// ---------------------------------------------------------------------------------------------------
fn scripted(s: &CSpec) -> Box<dyn Contract<CMsg, Empty>> {
    Box::new(Scripted {
        tag: s.tag,
        has_sudo: s.has_sudo,
        has_reply: s.has_reply,
        has_migrate: s.has_migrate,
        checksum: s.checksum.as_ref().map(|b| Checksum::from(<[u8; 32]>::try_from(b.as_slice()).unwrap())),
    })
}

fn resp(r: &AppResponse) -> (Vec<EventS>, Option<B>) {
    (events_from_std(&r.events), r.data.clone().map(|b| b.to_vec()))
}

/// driver::run_op, keeping the error message (full context chain, one line)
fn run_top(app: &mut TApp, op: &TopOp) -> (OutcomeS, String) {
    type R = Result<Vec<(Vec<EventS>, Option<B>)>, String>;
    let r = catch(|| -> R {
        match op {
            TopOp::ExecMulti { sender, ms } => app
                .execute_multi(Addr::unchecked(sender.clone()), ms.iter().map(msg_to_cosmos).collect())
                .map(|v| v.iter().map(resp).collect())
                .map_err(|e| format!("{:#}", e)),
            TopOp::Exec { sender, m } => {
                app.execute(Addr::unchecked(sender.clone()), msg_to_cosmos(m)).map(|r| vec![resp(&r)]).map_err(|e| format!("{:#}", e))
            }
            TopOp::WasmSudo { c, p } => app.wasm_sudo(Addr::unchecked(c.clone()), p).map(|r| vec![resp(&r)]).map_err(|e| format!("{:#}", e)),
            TopOp::Mint { to, amt } => app
                .sudo(SudoMsg::Bank(BankSudo::Mint { to_address: to.clone(), amount: coins_to_std(amt) }))
                .map(|r| vec![resp(&r)])
                .map_err(|e| format!("{:#}", e)),
            TopOp::HelperInst { sender, code_id, p, funds, label, admin, salt } => match salt {
                None => app
                    .instantiate_contract(*code_id, Addr::unchecked(sender.clone()), p, &coins_to_std(funds), label.clone(), admin.clone())
                    .map(|a| vec![(vec![], Some(a.as_bytes().to_vec()))])
                    .map_err(|e| format!("{:#}", e)),
                Some(s) => app
                    .instantiate2_contract(
                        *code_id,
                        Addr::unchecked(sender.clone()),
                        p,
                        &coins_to_std(funds),
                        label.clone(),
                        admin.clone(),
                        Binary::from(s.clone()),
                    )
                    .map(|a| vec![(vec![], Some(a.as_bytes().to_vec()))])
                    .map_err(|e| format!("{:#}", e)),
            },
            TopOp::HelperExec { sender, c, p, funds } => app
                .execute_contract(Addr::unchecked(sender.clone()), Addr::unchecked(c.clone()), p, &coins_to_std(funds))
                .map(|r| vec![resp(&r)])
                .map_err(|e| format!("{:#}", e)),
            TopOp::HelperMigrate { sender, c, new_code, p } => app
                .migrate_contract(Addr::unchecked(sender.clone()), Addr::unchecked(c.clone()), p, *new_code)
                .map(|r| vec![resp(&r)])
                .map_err(|e| format!("{:#}", e)),
            TopOp::HelperSend { sender, to, amt } => app
                .send_tokens(Addr::unchecked(sender.clone()), Addr::unchecked(to.clone()), &coins_to_std(amt))
                .map(|r| vec![resp(&r)])
                .map_err(|e| format!("{:#}", e)),
        }
    });
    match r {
        Ok(Ok(v)) => (OutcomeS::Ok(v), String::new()),
        Ok(Err(m)) => (OutcomeS::Err, m),
        Err(p) => (OutcomeS::Panic, format!("panic: {}", p)),
    }
}

fn run_opaque(app: &mut TApp, op: &OpaqueOp) -> (OutcomeS, String) {
    type R = Result<Vec<(Vec<EventS>, Option<B>)>, String>;
    let std_coin = |c: &CoinS| Coin { denom: c.denom.clone(), amount: Uint128::new(c.amount) };
    let r = catch(|| -> R {
        match op {
            OpaqueOp::StakingSetup { denom, unbonding_secs, apr_percent, validators } => {
                let block = app.block_info();
                app.init_modules(|router, api, storage| -> R {
                    router
                        .staking
                        .setup(storage, StakingInfo { bonded_denom: denom.clone(), unbonding_time: *unbonding_secs, apr: Decimal::percent(*apr_percent) })
                        .map_err(|e| format!("{:#}", e))?;
                    for (v, c) in validators {
                        router
                            .staking
                            .add_validator(api, storage, &block, Validator::create(v.clone(), Decimal::percent(*c), Decimal::one(), Decimal::one()))
                            .map_err(|e| format!("{:#}", e))?;
                    }
                    Ok(vec![])
                })
            }
            OpaqueOp::Delegate { sender, validator, amount } => app
                .execute(Addr::unchecked(sender.clone()), CosmosMsg::<CMsg>::Staking(StakingMsg::Delegate { validator: validator.clone(), amount: std_coin(amount) }))
                .map(|r| vec![resp(&r)])
                .map_err(|e| format!("{:#}", e)),
            OpaqueOp::Undelegate { sender, validator, amount } => app
                .execute(Addr::unchecked(sender.clone()), CosmosMsg::<CMsg>::Staking(StakingMsg::Undelegate { validator: validator.clone(), amount: std_coin(amount) }))
                .map(|r| vec![resp(&r)])
                .map_err(|e| format!("{:#}", e)),
            OpaqueOp::Redelegate { sender, src, dst, amount } => app
                .execute(
                    Addr::unchecked(sender.clone()),
                    CosmosMsg::<CMsg>::Staking(StakingMsg::Redelegate { src_validator: src.clone(), dst_validator: dst.clone(), amount: std_coin(amount) }),
                )
                .map(|r| vec![resp(&r)])
                .map_err(|e| format!("{:#}", e)),
            OpaqueOp::Withdraw { sender, validator } => app
                .execute(Addr::unchecked(sender.clone()), CosmosMsg::<CMsg>::Distribution(DistributionMsg::WithdrawDelegatorReward { validator: validator.clone() }))
                .map(|r| vec![resp(&r)])
                .map_err(|e| format!("{:#}", e)),
            OpaqueOp::Slash { validator, percent } => app
                .sudo(SudoMsg::Staking(StakingSudo::Slash { validator: validator.clone(), percentage: Decimal::percent(*percent) }))
                .map(|r| vec![resp(&r)])
                .map_err(|e| format!("{:#}", e)),
            OpaqueOp::UpdateBlock { blocks, secs } => {
                let (b, t) = (*blocks, *secs);
                app.update_block(move |blk| {
                    blk.height += b;
                    blk.time = blk.time.plus_seconds(t);
                });
                Ok(vec![])
            }
            OpaqueOp::SetBlock(b) => {
                app.set_block(to_block(b));
                Ok(vec![])
            }
        }
    });
    match r {
        Ok(Ok(v)) => (OutcomeS::Ok(v), String::new()),
        Ok(Err(m)) => (OutcomeS::Err, m),
        Err(p) => (OutcomeS::Panic, format!("panic: {}", p)),
    }
}

fn full_digest(raw: &[(B, B)]) -> String {
    let mut h = Sha256::new();
    for (k, v) in raw {
        h.update((k.len() as u64).to_be_bytes());
        h.update(k);
        h.update((v.len() as u64).to_be_bytes());
        h.update(v);
    }
    hex::encode(h.finalize())
}

fn id_out(r: Result<Result<u64, String>, String>) -> (IOut, String) {
    match r {
        Ok(Ok(id)) => (IOut::Id(IdOut::Ok(id)), String::new()),
        Ok(Err(m)) => (IOut::Id(IdOut::Err), m),
        Err(p) => (IOut::Id(IdOut::Panic), format!("panic: {}", p)),
    }
}

fn run_iop(app: &mut TApp, op: &IOp) -> IObs {
    let (out, err) = match op {
        IOp::Store { creator: None, spec } => id_out(catch(|| Ok(app.store_code(scripted(spec))))),
        IOp::Store { creator: Some(c), spec } => id_out(catch(|| Ok(app.store_code_with_creator(Addr::unchecked(c.clone()), scripted(spec))))),
        IOp::StoreId { creator, id, spec } => {
            id_out(catch(|| app.store_code_with_id(Addr::unchecked(creator.clone()), *id, scripted(spec)).map_err(|e| format!("{:#}", e))))
        }
        IOp::Dup { id } => id_out(catch(|| app.duplicate_code(*id).map_err(|e| format!("{:#}", e)))),
        IOp::SetBlock(b) => match catch(|| app.set_block(to_block(b))) {
            Ok(()) => (IOut::Unit, String::new()),
            Err(p) => (IOut::Unit, format!("panic: {}", p)),
        },
        IOp::Probe(ids) => {
            let b = block_from_std(&app.block_info());
            let l = ids
                .iter()
                .map(|id| {
                    catch(|| app.wrap().query_wasm_code_info(*id).ok().map(|i| (i.code_id, i.creator.to_string(), i.checksum.as_slice().to_vec())))
                        .unwrap_or(None)
                })
                .collect();
            (IOut::Probe(b, l), String::new())
        }
        IOp::Top(t) => {
            let _ = take_log();
            let (o, m) = run_top(app, t);
            (IOut::Top(take_log(), o), m)
        }
        IOp::Opaque(o) => {
            let (oc, m) = run_opaque(app, o);
            let _ = take_log();
            (IOut::Opaque(oc, block_from_std(&app.block_info())), m)
        }
    };
    let raw = raw_dump(app.storage());
    IObs { out, err, state: decode_state(&raw), digest: full_digest(&raw) }
}

/// the second Api configuration the histories are transposed to (family `alt`)
pub const OTHER_PREFIX: &str = "juno";

fn new_app_prefixed(prefix: &'static str) -> TApp {
    AppBuilder::new_custom().with_api(MockApi::default().with_prefix(prefix)).with_custom(RecModule).build(no_init)
}

fn app_for(prefix: Option<&str>) -> TApp {
    match prefix {
        None => new_app(),
        Some(p) if p == OTHER_PREFIX => new_app_prefixed(OTHER_PREFIX),
        Some(p) => panic!("unknown prefix {}", p),
    }
}

/// n fresh apps (each built when it is first scheduled, all alive until the end), one history each;
/// `sched[t]` = which app performs its next operation at time t; `prefixes[k]` = Api prefix of app k
fn run_sched_with(hists: &[&[IOp]], sched: &[usize], prefixes: &[Option<&str>]) -> Vec<Vec<IObs>> {
    let n = hists.len();
    let mut apps: Vec<Option<TApp>> = (0..n).map(|_| None).collect();
    let mut pos = vec![0usize; n];
    let mut outs: Vec<Vec<IObs>> = vec![vec![]; n];
    for &k in sched {
        let app = apps[k].get_or_insert_with(|| app_for(prefixes[k]));
        let op = &hists[k][pos[k]];
        pos[k] += 1;
        outs[k].push(run_iop(app, op));
    }
    for k in 0..n {
        assert_eq!(pos[k], hists[k].len(), "schedule does not exhaust history {}", k);
    }
    outs
}

fn run_sched(hists: &[&[IOp]], sched: &[usize]) -> Vec<Vec<IObs>> {
    run_sched_with(hists, sched, &vec![None; hists.len()])
}

fn solo_prefixed(h: &[IOp], prefix: Option<&str>) -> Vec<IObs> {
    run_sched_with(&[h], &vec![0; h.len()], &[prefix]).pop().unwrap()
}

fn solo(h: &[IOp]) -> Vec<IObs> {
    run_sched(&[h], &vec![0; h.len()]).pop().unwrap()
}

fn sched_alternate(l0: usize, l1: usize) -> Vec<usize> {
    let mut s = vec![];
    let (mut a, mut b) = (0, 0);
    while a < l0 || b < l1 {
        if a < l0 {
            s.push(0);
            a += 1;
        }
        if b < l1 {
            s.push(1);
            b += 1;
        }
    }
    s
}

fn sched_random(rng: &mut Rng, l0: usize, l1: usize) -> Vec<usize> {
    let mut s = vec![];
    let (mut a, mut b) = (0, 0);
    while a < l0 || b < l1 {
        let left = if a >= l0 {
            false
        } else if b >= l1 {
            true
        } else {
            rng.chance(1, 2)
        };
        if left {
            s.push(0);
            a += 1;
        } else {
            s.push(1);
            b += 1;
        }
    }
    s
}

fn run_threaded(h: &[IOp], noise: &[&[IOp]]) -> Vec<IObs> {
    let stop = Arc::new(AtomicBool::new(false));
    let mut hs = vec![];
    for nh in noise {
        let nh: Vec<IOp> = nh.to_vec();
        let stop = stop.clone();
        hs.push(std::thread::spawn(move || {
            let mut rounds = 0u32;
            while !stop.load(Ordering::SeqCst) && rounds < 50 {
                let _ = solo(&nh);
                rounds += 1;
            }
        }));
    }
    let h2: Vec<IOp> = h.to_vec();
    let t = std::thread::spawn(move || solo(&h2));
    let r = t.join().unwrap_or_default();
    stop.store(true, Ordering::SeqCst);
    for x in hs {
        let _ = x.join();
    }
    r
}

// ---------------------------------------------------------------------------------------------------
// polluters: apps that differ from the scenario's app in everything an instance can differ in, run BEFORE the
// scenario in a context where the scenario has not run yet (fresh thread, fresh process).  State hidden outside
// the App that a differently configured instance fills (e.g. a memo of humanized addresses keyed by
// (code id, instance number) without the Api prefix) then reaches the scenario's app.
// ---------------------------------------------------------------------------------------------------
type PApp<A> = App<BankKeeper, A, MockStorage, RecModule, WasmKeeper<CMsg, Empty>, StakeKeeper, DistributionKeeper, IbcFailingModule, GovFailingModule, StargateFailing>;

fn polluter_builder_parts(k: usize) -> (MockStorage, BlockInfo) {
    let mut st = MockStorage::new();
    st.set(b"preseeded", &[k as u8 + 1]);
    st.set(b"\x00\x04wasm\x00\x03zzz", b"x");
    (st, BlockInfo { height: 7 + k as u64, time: Timestamp::from_nanos(99 + k as u64), chain_id: format!("polluter-{}", k) })
}

/// other code under the SAME code ids (other checksums, creators, tags), the same (code id, instance number) pairs
/// (round robin over the scenario's table starting at `offset`), the same salts
fn pollute_with<A: Api>(app: &mut PApp<A>, alice: Addr, bob: Addr, scn: &Scn, offset: usize) {
    let mut ids: Vec<u64> = scn.codes.iter().map(|c| c.id).collect();
    if ids.is_empty() {
        ids = vec![1, 2];
    }
    for (k, id) in ids.iter().enumerate() {
        let spec = CSpec {
            tag: 900 + k as u64,
            checksum: if (k + offset) % 2 == 0 { Some(vec![0xA0u8.wrapping_add((k + offset) as u8); 32]) } else { None },
            has_sudo: true,
            has_reply: true,
            has_migrate: true,
        };
        let _ = catch(|| app.store_code_with_id(bob.clone(), *id, scripted(&spec)).map_err(|e| e.to_string()));
    }
    let _ = catch(|| app.store_code_with_creator(bob.clone(), scripted(&CSpec { tag: 999, checksum: None, has_sudo: true, has_reply: true, has_migrate: true })));
    let _ = catch(|| {
        app.sudo(SudoMsg::Bank(BankSudo::Mint { to_address: alice.to_string(), amount: coins_to_std(&[CoinS { denom: "uatom".into(), amount: 77 }]) }))
            .map_err(|e| e.to_string())
    });
    for i in 0..8usize {
        let id = ids[(i + offset) % ids.len()];
        let p = leaf(9000 + i as u64, vec![Action::Write(b"a".to_vec(), vec![200])]);
        let _ = catch(|| app.instantiate_contract(id, alice.clone(), &p, &[], "polluter", Some(alice.to_string())).map_err(|e| e.to_string()));
    }
    for (j, salt) in [vec![1u8], vec![2, 2], vec![9]].iter().enumerate() {
        for id in ids.iter().take(3) {
            let p = leaf(9100 + j as u64, vec![]);
            let _ = catch(|| {
                app.instantiate2_contract(*id, alice.clone(), &p, &[], "polluter2", None, Binary::from(salt.clone())).map_err(|e| e.to_string())
            });
        }
    }
    let _ = take_log();
}

/// builds and runs the polluters; they stay alive as long as the returned value
fn pollute(scn: &Scn) -> Vec<Box<dyn std::any::Any>> {
    let n = scn.codes.len().clamp(2, 6);
    let mut keep: Vec<Box<dyn std::any::Any>> = vec![];
    for k in 0..n {
        let (st, blk) = polluter_builder_parts(k);
        match k % 3 {
            0 => {
                let api = MockApi::default().with_prefix(OTHER_PREFIX);
                let (a, b) = (api.addr_make("alice"), api.addr_make("bob"));
                let mut app: PApp<MockApi> = AppBuilder::new_custom().with_api(api).with_storage(st).with_block(blk).with_custom(RecModule).build(no_init);
                pollute_with(&mut app, a, b, scn, k);
                keep.push(Box::new(app));
            }
            1 => {
                let api = MockApiBech32m::new("osmo");
                let (a, b) = (api.addr_make("alice"), api.addr_make("bob"));
                let mut app: PApp<MockApiBech32m> =
                    AppBuilder::new_custom().with_api(api).with_storage(st).with_block(blk).with_custom(RecModule).build(no_init);
                pollute_with(&mut app, a, b, scn, k);
                keep.push(Box::new(app));
            }
            _ => {
                let api = MockApi::default().with_prefix("stars");
                let (a, b) = (api.addr_make("carol"), api.addr_make("dave"));
                let mut app: PApp<MockApi> = AppBuilder::new_custom().with_api(api).with_storage(st).with_block(blk).with_custom(RecModule).build(no_init);
                pollute_with(&mut app, a, b, scn, k);
                keep.push(Box::new(app));
            }
        }
    }
    keep
}

/// the history with every address of the default prefix re-encoded under `prefix` (same canonical bytes), so that
/// it means the same thing to an app whose Api has that prefix
fn translate(scn: &Scn, prefix: &str) -> Scn {
    fn walk(v: &mut serde_json::Value, prefix: &str) {
        match v {
            serde_json::Value::String(s) => {
                if s.starts_with("cosmwasm1") {
                    if let Ok((hrp, data)) = bech32::decode(s) {
                        if hrp.as_str() == "cosmwasm" {
                            if let Ok(t) = bech32::encode::<bech32::Bech32>(bech32::Hrp::parse(prefix).unwrap(), &data) {
                                *s = t;
                            }
                        }
                    }
                }
            }
            serde_json::Value::Array(a) => a.iter_mut().for_each(|x| walk(x, prefix)),
            serde_json::Value::Object(o) => o.values_mut().for_each(|x| walk(x, prefix)),
            _ => {}
        }
    }
    let mut v = serde_json::to_value(scn).unwrap();
    walk(&mut v, prefix);
    serde_json::from_value(v).unwrap()
}

fn run_in_fresh_thread_after_polluters(scn: &Scn) -> Vec<IObs> {
    let scn = scn.clone();
    std::thread::spawn(move || {
        let _keep = pollute(&scn);
        solo(&scn.hist)
    })
    .join()
    .unwrap_or_default()
}

// ---------------------------------------------------------------------------------------------------
// second OS process
// ---------------------------------------------------------------------------------------------------
#[derive(Serialize, Deserialize, Clone, Debug)]
struct ChildJob {
    scn: Scn,
    /// Api prefix of the app (None = the default MockApi)
    prefix: Option<String>,
    /// run the polluters first
    pollute: bool,
}

fn child_main(file: &str) {
    std::panic::set_hook(Box::new(|_| {}));
    let job: ChildJob = serde_json::from_slice(&std::fs::read(file).expect("child: job file")).expect("child: job json");
    let _keep = if job.pollute { pollute(&job.scn) } else { vec![] };
    let t = solo_prefixed(&job.scn.hist, job.prefix.as_deref());
    println!("{}", serde_json::to_string(&t).unwrap());
}

fn spawn_child(file: &Path, other_env: bool, noise: u64) -> std::io::Result<std::process::Child> {
    let exe = std::env::current_exe()?;
    let mut c = std::process::Command::new(exe);
    c.arg("--child").arg(file).stdin(std::process::Stdio::null()).stdout(std::process::Stdio::piped()).stderr(std::process::Stdio::null());
    if other_env {
        c.env("RUST_TEST_THREADS", "3")
            .env("RUST_BACKTRACE", "1")
            .env("TZ", "Pacific/Kiritimati")
            .env("LANG", "tr_TR.UTF-8")
            .env("LC_ALL", "tr_TR.UTF-8")
            .env("HOME", "/nonexistent")
            .env("USER", "somebody-else")
            .env("C19_NOISE", noise.to_string())
            .env_remove("CARGO_NET_OFFLINE")
            .current_dir("/");
    }
    c.spawn()
}

/// a child that produced no parsable transcript is started again (twice at most): a crash that does not repeat is
/// trouble of the machine, not of the simulator; one that repeats is reported as that run's transcript
fn collect_child(c: std::io::Result<std::process::Child>, respawn: &dyn Fn() -> std::io::Result<std::process::Child>) -> Vec<IObs> {
    let fail = |m: String| vec![IObs { out: IOut::Unit, err: format!("child process failed: {}", m), state: StateS::default(), digest: String::new() }];
    let mut c = c;
    let mut last = String::new();
    for _attempt in 0..3 {
        let res = match c {
            Err(e) => Err(e.to_string()),
            Ok(ch) => match ch.wait_with_output() {
                Err(e) => Err(e.to_string()),
                Ok(o) => match serde_json::from_slice::<Vec<IObs>>(&o.stdout) {
                    Ok(t) if o.status.success() => Ok(t),
                    Ok(_) => Err(format!("exit status {:?}", o.status.code())),
                    Err(e) => Err(format!("unparsable transcript ({}), exit status {:?}", e, o.status.code())),
                },
            },
        };
        match res {
            Ok(t) => return t,
            Err(m) => last = m,
        }
        c = respawn();
    }
    fail(last)
}

// ---------------------------------------------------------------------------------------------------
// generation
// ---------------------------------------------------------------------------------------------------
/// the harness's own prediction of the code table after `op` (not taken from cw-multi-test)
fn predict(tab: &mut Vec<CodeS>, op: &IOp) {
    let next = |t: &Vec<CodeS>| t.iter().map(|c| c.id).max().unwrap_or(0).checked_add(1);
    let mk = |id: u64, creator: String, s: &CSpec| CodeS {
        id,
        tag: s.tag,
        creator,
        checksum: s.checksum.clone(),
        has_sudo: s.has_sudo,
        has_reply: s.has_reply,
        has_migrate: s.has_migrate,
        wrapped: false,
    };
    match op {
        IOp::Store { creator, spec } => {
            if let Some(id) = next(tab) {
                tab.push(mk(id, creator.clone().unwrap_or_else(creator_default), spec));
            }
        }
        IOp::StoreId { creator, id, spec } => {
            if *id != 0 && !tab.iter().any(|c| c.id == *id) {
                tab.push(mk(*id, creator.clone(), spec));
            }
        }
        IOp::Dup { id } => {
            if let (Some(src), Some(nid)) = (tab.iter().find(|c| c.id == *id).cloned(), next(tab)) {
                let cs = code_checksum(&src);
                tab.push(CodeS { id: nid, checksum: Some(cs), ..src });
            }
        }
        _ => {}
    }
}

fn rand_spec(rng: &mut Rng, tag: u64) -> CSpec {
    let checksum = if rng.chance(2, 5) {
        // a small pool (the same checksum under different ids / in different apps) or fresh random bytes
        Some(if rng.chance(1, 2) {
            let k = rng.below(3) as u8;
            (0..32).map(|i| (i as u8).wrapping_mul(7).wrapping_add(k)).collect()
        } else {
            (0..32).map(|_| rng.below(256) as u8).collect()
        })
    } else {
        None
    };
    CSpec { tag, checksum, has_sudo: !rng.chance(1, 4), has_reply: !rng.chance(1, 5), has_migrate: !rng.chance(1, 4) }
}

fn gen_setup(rng: &mut Rng) -> Vec<IOp> {
    let creators = [user("creator"), user("alice"), user("bob")];
    let n = 3 + rng.below(4);
    let mut ops = vec![];
    let mut tab: Vec<CodeS> = vec![];
    for i in 0..n {
        let spec = rand_spec(rng, 100 + i);
        let c = rng.below(100);
        let op = if (i == 0 && c < 50) || (i > 0 && c < 35) {
            IOp::Store { creator: if rng.chance(1, 2) { None } else { Some(rng.pick(&creators).clone()) }, spec }
        } else if i == 0 || c < 78 {
            let mut pool: Vec<u64> = vec![1, 2, 2, 7, 9, 9, 20];
            if i > 0 {
                pool.extend([0, 3, tab.first().map(|c| c.id).unwrap_or(1)]);
            }
            IOp::StoreId { creator: rng.pick(&creators).clone(), id: *rng.pick(&pool), spec }
        } else {
            let mut pool: Vec<u64> = tab.iter().map(|c| c.id).collect();
            pool.extend([0, 3]);
            IOp::Dup { id: *rng.pick(&pool) }
        };
        predict(&mut tab, &op);
        ops.push(op);
    }
    ops
}

fn probe_ids(tab: &[CodeS]) -> Vec<u64> {
    let mut ids: Vec<u64> = tab.iter().map(|c| c.id).collect();
    ids.push(0);
    ids.push(3);
    if let Some(n) = tab.iter().map(|c| c.id).max().unwrap_or(0).checked_add(1) {
        ids.push(n);
    }
    ids.sort();
    ids.dedup();
    ids
}

/// code operations first (the last one possibly postponed into the middle of the calls), probes after the
/// set-up, and at the end; `set_block` only where the scenario's block changes (the first calls run in the
/// block the builder chose)
fn assemble(setup: Vec<IOp>, sc: &Scenario, late: Option<usize>) -> Scn {
    let mut tab = vec![];
    for op in &setup {
        predict(&mut tab, op);
    }
    let ids = probe_ids(&tab);
    let mut setup = setup;
    let late_op = match late {
        Some(_) if matches!(setup.last(), Some(IOp::Store { .. }) | Some(IOp::StoreId { .. })) => setup.pop(),
        _ => None,
    };
    let mut hist = vec![IOp::Probe(vec![0, 1])];
    hist.extend(setup);
    hist.push(IOp::Probe(ids.clone()));
    let mut prev = G::block0();
    let late_at = late.map(|k| k % (sc.steps.len() + 1));
    let mut late_op = late_op;
    for (i, st) in sc.steps.iter().enumerate() {
        if late_at == Some(i) {
            if let Some(op) = late_op.take() {
                hist.push(op);
            }
        }
        if st.block != prev {
            hist.push(IOp::SetBlock(st.block.clone()));
            prev = st.block.clone();
        }
        hist.push(IOp::Top(st.op.clone()));
    }
    if let Some(op) = late_op.take() {
        hist.push(op);
    }
    hist.push(IOp::Probe(ids));
    Scn { hist, codes: tab, users: sc.users.clone() }
}

fn gen_scn(rng: &mut Rng, cfg: &Cfg) -> Scn {
    let setup = gen_setup(rng);
    let mut tab = vec![];
    for op in &setup {
        predict(&mut tab, op);
    }
    let late = if rng.chance(1, 4) { Some(rng.below(16) as usize) } else { None };
    let mut g = G::new(rng, cfg.clone());
    g.codes = tab;
    let k = 2 + g.rng.below(3) as usize;
    let sc = g.scenario(k);
    assemble(setup, &sc, late)
}

fn leaf(node: u64, acts: Vec<Action>) -> Prog {
    let mut a = vec![Action::Write(format!("m{}", node).into_bytes(), vec![1])];
    a.extend(acts);
    Prog { node, acts: a, out: Output::Resp { attrs: vec![], events: vec![], data: None, subs: vec![] } }
}

fn fixed_scenarios() -> Vec<Scn> {
    let spec = |tag: u64, checksum: Option<B>| CSpec { tag, checksum, has_sudo: true, has_reply: true, has_migrate: true };
    let (alice, bob) = (user("alice"), user("bob"));
    let b0 = G::block0();
    let step = |op: TopOp| Step { block: b0.clone(), op };
    let inst = |node: u64, sender: &str, code_id: u64, salt: Option<B>, acts: Vec<Action>| {
        step(TopOp::Exec {
            sender: sender.to_string(),
            m: Msg::Inst { code_id, p: leaf(node, acts), funds: vec![], label: "L".into(), admin: None, salt },
        })
    };
    let users = vec![alice.clone(), bob.clone(), user("carol")];
    let mut v = vec![];
    // F1: the largest code id: store_code panics, duplicate_code fails, the table is unchanged
    v.push(assemble(
        vec![
            IOp::StoreId { creator: alice.clone(), id: u64::MAX, spec: spec(100, None) },
            IOp::Store { creator: None, spec: spec(101, None) },
            IOp::Dup { id: u64::MAX },
            IOp::StoreId { creator: bob.clone(), id: 5, spec: spec(102, Some(vec![3; 32])) },
        ],
        &Scenario { codes: vec![], users: users.clone(), steps: vec![inst(1, &alice, 5, None, vec![Action::Q(QAct::CodeInfo(u64::MAX))]), inst(2, &alice, u64::MAX, None, vec![])] },
        None,
    ));
    // F2: ids out of order: 9, then generated 10, 2, duplicate of 2 = 11, generated 12, 1; every one instantiated
    // (classic and salted addresses), code infos read from inside a contract
    let setup2 = vec![
        IOp::StoreId { creator: bob.clone(), id: 9, spec: spec(100, None) },
        IOp::Store { creator: None, spec: spec(101, None) },
        IOp::StoreId { creator: alice.clone(), id: 2, spec: spec(102, Some((0..32).collect())) },
        IOp::Dup { id: 2 },
        IOp::Store { creator: Some(bob.clone()), spec: spec(104, None) },
        IOp::StoreId { creator: alice.clone(), id: 1, spec: spec(105, None) },
    ];
    let qs: Vec<Action> = [1u64, 2, 9, 10, 11, 12, 13].iter().map(|i| Action::Q(QAct::CodeInfo(*i))).collect();
    let mut steps2 = vec![];
    for (k, id) in [9u64, 10, 2, 11, 12, 1].iter().enumerate() {
        steps2.push(inst(1 + 2 * k as u64, &alice, *id, None, if k == 0 { qs.clone() } else { vec![] }));
        steps2.push(inst(2 + 2 * k as u64, &bob, *id, Some(vec![1]), vec![]));
    }
    v.push(assemble(setup2, &Scenario { codes: vec![], users: users.clone(), steps: steps2 }, None));
    // F3: two code ids with the same explicit checksum: instantiate2 with the same creator and salt collides
    let cs: B = (0..32).map(|i| (i * 3 + 1) as u8).collect();
    v.push(assemble(
        vec![IOp::Store { creator: None, spec: spec(100, Some(cs.clone())) }, IOp::Store { creator: Some(alice.clone()), spec: spec(101, Some(cs)) }],
        &Scenario {
            codes: vec![],
            users: users.clone(),
            steps: vec![inst(1, &alice, 1, Some(vec![2, 2]), vec![]), inst(2, &alice, 2, Some(vec![2, 2]), vec![]), inst(3, &bob, 2, Some(vec![2, 2]), vec![])],
        },
        Some(1),
    ));
    // F4: transfers carrying several denominations (bank send, funds of instantiate / execute, a bank sub-message):
    // the order in which coins are rendered in events is part of the transcript
    let c = |d: &str, a: u128| CoinS { denom: d.into(), amount: a };
    let three = vec![c("uatom", 10), c("btc", 11), c("zeth", 12)];
    let sub_send = Sub {
        id: 1,
        payload: vec![1],
        ro: ReplyOnS::Success,
        m: Box::new(Msg::BankSend { to: bob.clone(), amt: vec![c("zeth", 1), c("btc", 2), c("uatom", 3)] }),
        on_ok: leaf(5, vec![]),
        on_err: leaf(6, vec![]),
    };
    let mut p4 = leaf(4, vec![]);
    if let Output::Resp { subs, .. } = &mut p4.out {
        subs.push(sub_send);
    }
    v.push(assemble(
        vec![IOp::Store { creator: None, spec: spec(100, None) }],
        &Scenario {
            codes: vec![],
            users: users.clone(),
            steps: vec![
                step(TopOp::Mint { to: alice.clone(), amt: vec![c("uatom", 100), c("btc", 100), c("zeth", 100)] }),
                step(TopOp::Exec { sender: alice.clone(), m: Msg::BankSend { to: bob.clone(), amt: three.clone() } }),
                step(TopOp::Exec {
                    sender: alice.clone(),
                    m: Msg::Inst { code_id: 1, p: leaf(1, vec![]), funds: three.clone(), label: "L".into(), admin: None, salt: None },
                }),
                step(TopOp::HelperExec { sender: bob.clone(), c: classic_address(1, 0), p: leaf(2, vec![]), funds: vec![c("zeth", 2), c("uatom", 2)] }),
                step(TopOp::Exec { sender: alice.clone(), m: Msg::Exec { c: classic_address(1, 0), p: p4, funds: vec![c("btc", 5), c("uatom", 5)] } }),
                step(TopOp::HelperSend { sender: bob.clone(), to: alice.clone(), amt: vec![c("uatom", 1), c("zeth", 1), c("btc", 1)] }),
            ],
        },
        None,
    ));
    v.extend(staking_scenarios());
    v
}

fn has_opaque(scn: &Scn) -> bool {
    scn.hist.iter().any(|o| matches!(o, IOp::Opaque(_)))
}

fn validator(name: &str) -> String {
    user(name)
}

/// fixed histories with staking: the executor model does not cover these operations (they are opaque to it), the
/// relational oracle compares everything they return and leave
fn staking_scenarios() -> Vec<Scn> {
    let spec = |tag: u64| CSpec { tag, checksum: None, has_sudo: true, has_reply: true, has_migrate: true };
    let (alice, bob) = (user("alice"), user("bob"));
    let (v1, v2) = (validator("validator1"), validator("validator2"));
    let users = vec![alice.clone(), bob.clone(), user("carol"), v1.clone(), v2.clone()];
    let c = |a: u128| CoinS { denom: "uatom".into(), amount: a };
    let top = |op: TopOp| IOp::Top(op);
    let setup = IOp::Opaque(OpaqueOp::StakingSetup { denom: "uatom".into(), unbonding_secs: 60, apr_percent: 10, validators: vec![(v1.clone(), 10), (v2.clone(), 0)] });
    let inst = |node: u64, sender: &str| {
        top(TopOp::Exec { sender: sender.to_string(), m: Msg::Inst { code_id: 1, p: leaf(node, vec![]), funds: vec![c(3)], label: "L".into(), admin: None, salt: None } })
    };
    let mut v = vec![];
    // S1: delegate, advance, withdraw, undelegate, redelegate, slash, process the queue; modelled calls in between
    let codes1 = {
        let mut t = vec![];
        predict(&mut t, &IOp::Store { creator: None, spec: spec(100) });
        t
    };
    let h1 = vec![
        IOp::Probe(vec![0, 1]),
        IOp::Store { creator: None, spec: spec(100) },
        setup.clone(),
        top(TopOp::Mint { to: alice.clone(), amt: vec![c(5000)] }),
        top(TopOp::Mint { to: bob.clone(), amt: vec![c(500), CoinS { denom: "btc".into(), amount: 5 }] }),
        IOp::Opaque(OpaqueOp::Delegate { sender: alice.clone(), validator: v1.clone(), amount: c(1000) }),
        IOp::Opaque(OpaqueOp::Delegate { sender: bob.clone(), validator: v1.clone(), amount: c(50) }),
        inst(1, &alice),
        IOp::Opaque(OpaqueOp::UpdateBlock { blocks: 10, secs: 31_536_000 }),
        IOp::Opaque(OpaqueOp::Withdraw { sender: alice.clone(), validator: v1.clone() }),
        IOp::Opaque(OpaqueOp::Undelegate { sender: alice.clone(), validator: v1.clone(), amount: c(40) }),
        IOp::Opaque(OpaqueOp::Redelegate { sender: alice.clone(), src: v1.clone(), dst: v2.clone(), amount: c(30) }),
        top(TopOp::Exec { sender: alice.clone(), m: Msg::BankSend { to: bob.clone(), amt: vec![c(7)] } }),
        IOp::Opaque(OpaqueOp::Slash { validator: v1.clone(), percent: 10 }),
        IOp::Opaque(OpaqueOp::UpdateBlock { blocks: 1, secs: 30 }),
        IOp::Opaque(OpaqueOp::Undelegate { sender: bob.clone(), validator: v1.clone(), amount: c(10) }),
        IOp::Opaque(OpaqueOp::UpdateBlock { blocks: 1, secs: 31 }),
        inst(2, &bob),
        IOp::Opaque(OpaqueOp::UpdateBlock { blocks: 5, secs: 31_536_000 }),
        IOp::Opaque(OpaqueOp::Withdraw { sender: bob.clone(), validator: v1.clone() }),
        top(TopOp::HelperExec { sender: bob.clone(), c: classic_address(1, 0), p: leaf(3, vec![Action::Q(QAct::AllBal(alice.clone()))]), funds: vec![] }),
        IOp::Probe(vec![0, 1, 2]),
    ];
    v.push(Scn { hist: h1, codes: codes1.clone(), users: users.clone() });
    // S2: failing staking operations between successful ones
    let h2 = vec![
        IOp::Probe(vec![0, 1]),
        IOp::Opaque(OpaqueOp::Delegate { sender: alice.clone(), validator: v1.clone(), amount: c(1) }), // staking not set up
        setup.clone(),
        IOp::Store { creator: None, spec: spec(100) },
        top(TopOp::Mint { to: alice.clone(), amt: vec![c(200), CoinS { denom: "btc".into(), amount: 9 }] }),
        IOp::Opaque(OpaqueOp::Delegate { sender: alice.clone(), validator: validator("nobody"), amount: c(10) }),
        IOp::Opaque(OpaqueOp::Delegate { sender: alice.clone(), validator: v2.clone(), amount: CoinS { denom: "btc".into(), amount: 1 } }),
        IOp::Opaque(OpaqueOp::Delegate { sender: alice.clone(), validator: v2.clone(), amount: c(0) }),
        IOp::Opaque(OpaqueOp::Delegate { sender: alice.clone(), validator: v2.clone(), amount: c(1000) }),
        IOp::Opaque(OpaqueOp::Delegate { sender: alice.clone(), validator: v2.clone(), amount: c(60) }),
        IOp::Opaque(OpaqueOp::Undelegate { sender: alice.clone(), validator: v2.clone(), amount: c(61) }),
        IOp::Opaque(OpaqueOp::Undelegate { sender: bob.clone(), validator: v2.clone(), amount: c(1) }),
        IOp::Opaque(OpaqueOp::Withdraw { sender: bob.clone(), validator: v2.clone() }),
        IOp::Opaque(OpaqueOp::Redelegate { sender: alice.clone(), src: v2.clone(), dst: validator("nobody"), amount: c(5) }),
        IOp::Opaque(OpaqueOp::Undelegate { sender: alice.clone(), validator: v2.clone(), amount: c(20) }),
        IOp::Opaque(OpaqueOp::SetBlock(BlockS { height: 12400, time_ns: 1_571_797_419_879_305_533 + 70_000_000_000, chain_id: "cosmos-testnet-14002".into() })),
        inst(1, &alice),
        IOp::Opaque(OpaqueOp::Slash { validator: v2.clone(), percent: 50 }),
        IOp::Opaque(OpaqueOp::Undelegate { sender: alice.clone(), validator: v2.clone(), amount: c(5) }),
        IOp::Opaque(OpaqueOp::UpdateBlock { blocks: 1, secs: 61 }),
        IOp::Probe(vec![0, 1, 2]),
    ];
    v.push(Scn { hist: h2, codes: codes1, users });
    v
}

/// thorough tier: a generated history gets a staking set-up and a few staking operations at random places
fn add_staking(rng: &mut Rng, scn: &mut Scn) {
    let (v1, v2) = (validator("validator1"), validator("validator2"));
    let probes: Vec<usize> = scn.hist.iter().enumerate().filter(|(_, o)| matches!(o, IOp::Probe(_))).map(|(i, _)| i).collect();
    if probes.len() < 3 {
        return;
    }
    let first = probes[1] + 1;
    scn.hist.insert(
        first,
        IOp::Opaque(OpaqueOp::StakingSetup { denom: "uatom".into(), unbonding_secs: 20, apr_percent: 10, validators: vec![(v1.clone(), 5), (v2.clone(), 0)] }),
    );
    for o in scn.hist.iter_mut().skip(first) {
        if let IOp::SetBlock(b) = o {
            *o = IOp::Opaque(OpaqueOp::SetBlock(b.clone()));
        }
    }
    let users = scn.users.clone();
    let n = 3 + rng.below(4);
    for _ in 0..n {
        let lo = (first + 4).min(scn.hist.len() - 1);
        let at = lo + rng.below((scn.hist.len() - lo) as u64) as usize;
        let sender = rng.pick(&users).clone();
        let val = if rng.chance(1, 2) { v1.clone() } else { v2.clone() };
        let amount = CoinS { denom: "uatom".into(), amount: 1 + rng.below(30) as u128 };
        let op = match rng.below(10) {
            0..=3 => OpaqueOp::Delegate { sender, validator: val, amount },
            4 | 5 => OpaqueOp::Undelegate { sender, validator: val, amount },
            6 => OpaqueOp::Redelegate { sender, src: v1.clone(), dst: v2.clone(), amount },
            7 => OpaqueOp::Withdraw { sender, validator: val },
            8 => OpaqueOp::Slash { validator: val, percent: 10 },
            _ => OpaqueOp::UpdateBlock { blocks: 1, secs: 5 + rng.below(30) },
        };
        scn.hist.insert(at.min(scn.hist.len() - 1), IOp::Opaque(op));
    }
    scn.users.push(v1);
    scn.users.push(v2);
}

// ---------------------------------------------------------------------------------------------------
// printing for Coq
// ---------------------------------------------------------------------------------------------------
fn p_cspec(s: &CSpec) -> String {
    format!(
        "(Build_cspec {} {} {} {} {})",
        s.tag,
        coq_opt(&s.checksum, |b| coq_bytes(b)),
        coq_bool(s.has_sudo),
        coq_bool(s.has_reply),
        coq_bool(s.has_migrate)
    )
}

fn p_iop(op: &IOp) -> String {
    match op {
        IOp::Store { creator, spec } => format!("IStore {} {}", print::text(&creator.clone().unwrap_or_else(creator_default)), p_cspec(spec)),
        IOp::StoreId { creator, id, spec } => format!("IStoreId {} {} {}", print::text(creator), id, p_cspec(spec)),
        IOp::Dup { id } => format!("IDup {}", id),
        IOp::SetBlock(b) => format!("ISetBlock {}", print::block(b)),
        IOp::Probe(ids) => format!("IProbe {}", coq_list(ids, |i| i.to_string())),
        IOp::Top(t) => format!("ITop {}", print::topop(t)),
        IOp::Opaque(_) => panic!("opaque operations are printed with the observation of run (i): p_iop_obs"),
    }
}

/// an opaque operation carries what run (i) returned and left (Det.IOpaque): the model takes it as given
fn p_iop_obs(op: &IOp, ob: Option<&IObs>, it: &mut Intern) -> String {
    match (op, ob) {
        (IOp::Opaque(o), Some(IObs { out: IOut::Opaque(oc, b), state, .. })) => {
            format!("IOpaque {} {} {} {}", o.tag(), print::outcome(oc), print::block(b), it.chain(state))
        }
        (IOp::Opaque(o), _) => format!("IOpaque {} Panic {} {}", o.tag(), print::block(&G::block0()), it.chain(&StateS::default())),
        _ => p_iop(op),
    }
}

fn p_iout(o: &IOut) -> String {
    match o {
        IOut::Id(IdOut::Ok(n)) => format!("(RId (Ok {}))", n),
        IOut::Id(IdOut::Err) => "(RId Err)".into(),
        IOut::Id(IdOut::Panic) => "(RId Panic)".into(),
        IOut::Unit => "RUnit".into(),
        IOut::Probe(b, l) => format!(
            "(RProbe {} {})",
            print::block(b),
            coq_list(l, |x| coq_opt(x, |(id, cr, cs)| format!("({},{},{})", id, print::text(cr), coq_bytes(cs))))
        ),
        IOut::Top(tr, o) => format!("(RTop {} {})", coq_list(tr, print::entry), print::outcome(o)),
        IOut::Opaque(o, b) => format!("(ROpaque {} {})", print::outcome(o), print::block(b)),
    }
}

/// identical sub-terms (decoded states, whole observations) are printed once per case and named with `let`:
/// a pure compression of the text — Coq still evaluates iobs_eqb on the terms
#[derive(Default)]
struct Intern {
    /// case-unique prefix of the names
    pfx: String,
    chains: Vec<String>,
    chain_ix: BTreeMap<String, usize>,
    obs: Vec<String>,
    obs_ix: BTreeMap<String, usize>,
}
impl Intern {
    fn chain(&mut self, s: &StateS) -> String {
        let t = print::state(s);
        let n = self.chains.len();
        let id = *self.chain_ix.entry(t.clone()).or_insert(n);
        if id == n {
            self.chains.push(t);
        }
        format!("{}ch{}", self.pfx, id)
    }
    fn obs(&mut self, o: &IObs) -> String {
        let t = format!(
            "(Build_iobs {} {} {} {} {})",
            p_iout(&o.out),
            self.chain(&o.state),
            o.state.other.len(),
            coq_bytes(&hex::decode(&o.digest).unwrap_or_default()),
            coq_text(&o.err)
        );
        let n = self.obs.len();
        let id = *self.obs_ix.entry(t.clone()).or_insert(n);
        if id == n {
            self.obs.push(t);
        }
        format!("{}ob{}", self.pfx, id)
    }
    fn run(&mut self, r: &[IObs]) -> String {
        let names: Vec<String> = r.iter().map(|o| self.obs(o)).collect();
        format!("[{}]", names.join("; "))
    }
}

/// runs compared with run (i), in the order of the list handed to Coq (run numbers 1..)
pub const RUN_NAMES: [&str; 11] = [
    "after-unrelated-apps",
    "twin-left",
    "twin-right",
    "stranger-first",
    "self-first",
    "interleaved-with-other-prefix-twin",
    "other-thread",
    "fresh-thread-after-polluters",
    "child-process",
    "child-process-other-env-and-cwd",
    "child-process-after-polluters",
];
/// only for histories with opaque (staking) operations: made more than a second of wall-clock time after run (i)
pub const LATE_NAMES: [&str; 2] = ["late-in-process-after-1.3s", "late-child-process-after-1.3s"];
/// the second family (history transposed to OTHER_PREFIX), compared among themselves; the first is the reference
/// (run numbers continue after RUN_NAMES)
pub const ALT_NAMES: [&str; 3] = [
    "other-prefix-child-process",
    "other-prefix-in-process-after-default-prefix-runs",
    "other-prefix-interleaved-with-default-prefix-twin",
];

/// `idx` = the case number (its Tag).  The named sub-terms travel inside a comment `(*@@ ... @@*)` at the head of
/// the case expression; `postprocess` lifts them out as top-level `Definition`s placed before the `Eval` (top-level
/// definitions with a type annotation elaborate about three times faster than one nest of `let`s)
fn p_case(idx: usize, scn: &Scn, r0: &[IObs], others: &[Vec<IObs>], alt: &[Vec<IObs>]) -> String {
    let top_steps: Vec<Step> = scn
        .hist
        .iter()
        .filter_map(|o| if let IOp::Top(t) = o { Some(Step { block: G::block0(), op: t.clone() }) } else { None })
        .collect();
    let sc = Scenario { codes: scn.codes.clone(), steps: top_steps, users: scn.users.clone() };
    let ce = print::case_env(&sc);
    let mut ck_ids = probe_ids(&scn.codes);
    ck_ids.retain(|i| *i != 0);
    let ck = coq_list(&ck_ids, |i| format!("({},{})", i, coq_bytes(&default_checksum(*i))));
    let mut it = Intern { pfx: format!("k{}_", idx), ..Default::default() };
    let r0s = it.run(r0);
    let hist = format!("[{}]", scn.hist.iter().enumerate().map(|(i, o)| p_iop_obs(o, r0.get(i), &mut it)).collect::<Vec<_>>().join(";\n    "));
    let os: Vec<String> = others.iter().map(|r| it.run(r)).collect();
    let alts: Vec<String> = alt.iter().map(|r| it.run(r)).collect();
    let mut s = String::from("(*@@\n");
    for (i, c) in it.chains.iter().enumerate() {
        s.push_str(&format!("Definition {}ch{} : chain := {}.\n", it.pfx, i, c));
    }
    for (i, o) in it.obs.iter().enumerate() {
        s.push_str(&format!("Definition {}ob{} : iobs := {}.\n", it.pfx, i, o));
    }
    s.push_str("@@*)");
    format!("{} c19x {}\n   {}\n   {}\n   {}\n   [{}]\n   [{}]", s, ce, ck, hist, r0s, os.join(";\n    "), alts.join(";\n    "))
}

// ---------------------------------------------------------------------------------------------------
// main
// ---------------------------------------------------------------------------------------------------
pub const HEADER: &str = "From Verif Require Import Base OMap Text Proto Bank Exec ChkExec ChkX Det Chk19.";

/// the advisory scan of the translator (Generated.nondet_sources): read from the report written next to the
/// out directory, or from coq/Generated.v itself
fn nondet_sources(out: &Path) -> Vec<String> {
    if let Some(rep) = out.parent().map(|p| p.join("translator_report.json")) {
        if let Ok(b) = std::fs::read(&rep) {
            if let Ok(v) = serde_json::from_slice::<serde_json::Value>(&b) {
                if let Some(h) = v["nondeterminism_scan"]["hits"].as_array() {
                    return h.iter().map(|x| x.to_string()).collect();
                }
            }
        }
    }
    if let Ok(t) = std::fs::read_to_string("coq/Generated.v") {
        for l in t.lines() {
            if let Some(rest) = l.strip_prefix("Definition nondet_sources") {
                let body = rest.split(":=").nth(1).unwrap_or("").trim().trim_end_matches('.').trim();
                if body == "[]" {
                    return vec![];
                }
                return body.split("); (").map(|s| s.to_string()).collect();
            }
        }
    }
    vec![]
}

struct Runs {
    r0: Vec<IObs>,
    /// in the order of RUN_NAMES
    others: Vec<Vec<IObs>>,
    /// in the order of ALT_NAMES
    alt: Vec<Vec<IObs>>,
    /// in the order of LATE_NAMES (only for histories with opaque operations); appended to `others`
    late: Vec<Vec<IObs>>,
}

/// everything that runs in this process; the child-process transcripts are filled in later (empty placeholders)
fn in_process_runs(rng: &mut Rng, scn: &Scn, scn_alt: &Scn, strangers: &[&Scn]) -> Runs {
    let h = &scn.hist[..];
    let ha = &scn_alt.hist[..];
    let (s1, s2, s3) = (&strangers[0].hist[..], &strangers[1].hist[..], &strangers[2].hist[..]);
    // (i)
    let r0 = solo(h);
    // (ii) three unrelated apps run their histories to the end and stay alive; then this one
    let mut sched = vec![];
    for (k, l) in [s1.len(), s2.len(), s3.len(), h.len()].iter().enumerate() {
        sched.extend(std::iter::repeat(k).take(*l));
    }
    let after = run_sched(&[s1, s2, s3, h], &sched).pop().unwrap();
    // (iii-a) twin, random schedule
    let mut tw = run_sched(&[h, h], &sched_random(rng, h.len(), h.len()));
    let twin_r = tw.pop().unwrap();
    let twin_l = tw.pop().unwrap();
    // (iii-b) stranger first / this one first, strict alternation
    let stranger_first = run_sched(&[s1, h], &sched_alternate(s1.len(), h.len())).pop().unwrap();
    let self_first = run_sched(&[h, s2], &sched_alternate(h.len(), s2.len())).swap_remove(0);
    // (iii-c) a twin with ANOTHER Api prefix running the transposed history, op by op, the other app first
    let mut hx = run_sched_with(&[ha, h], &sched_alternate(ha.len(), h.len()), &[Some(OTHER_PREFIX), None]);
    let with_other_prefix = hx.pop().unwrap();
    let alt_interleaved = hx.pop().unwrap();
    // (v) another thread, two more threads making noise
    let th = run_threaded(h, &[s1, s2]);
    // (vi) a fresh thread (fresh thread-locals) in which differently configured apps run first
    let polluted_thread = run_in_fresh_thread_after_polluters(scn);
    // second family, in this (main) thread, after all the default-prefix runs above
    let alt_in_process = solo_prefixed(ha, Some(OTHER_PREFIX));
    Runs {
        r0,
        others: vec![after, twin_l, twin_r, stranger_first, self_first, with_other_prefix, th, polluted_thread, vec![], vec![], vec![]],
        alt: vec![vec![], alt_in_process, alt_interleaved],
        late: vec![],
    }
}

fn first_rust_diff(r0: &[IObs], r: &[IObs]) -> Option<usize> {
    if r0 == r {
        return None;
    }
    Some(r0.iter().zip(r.iter()).position(|(a, b)| a != b).unwrap_or(r0.len().min(r.len())))
}

fn stats_for(out: &mut Out, scn: &Scn, r0: &[IObs]) {
    for (op, ob) in scn.hist.iter().zip(r0.iter()) {
        let kind = match op {
            IOp::Store { creator: None, .. } => "op_store_code",
            IOp::Store { .. } => "op_store_code_with_creator",
            IOp::StoreId { .. } => "op_store_code_with_id",
            IOp::Dup { .. } => "op_duplicate_code",
            IOp::SetBlock(_) => "op_set_block",
            IOp::Probe(_) => "op_probe",
            IOp::Top(_) => "op_top",
            IOp::Opaque(_) => "op_opaque",
        };
        out.stat(kind, 1);
        if let (IOp::Opaque(o), IOut::Opaque(oc, _)) = (op, &ob.out) {
            out.stat(&format!("opaque_{}_{}", o.name(), exec_common::outcome_class(oc)), 1);
        }
        match &ob.out {
            IOut::Id(IdOut::Ok(_)) => out.stat("code_id_generated_or_accepted", 1),
            IOut::Id(IdOut::Err) => out.stat("code_op_err", 1),
            IOut::Id(IdOut::Panic) => out.stat("code_op_panic", 1),
            IOut::Top(tr, o) => {
                out.stat(&format!("top_{}", exec_common::outcome_class(o)), 1);
                out.stat("trace_entries", tr.len() as u64);
                for e in tr {
                    match e {
                        Entry::Call { ep: Ep::Inst, .. } => out.stat("instantiate_entered", 1),
                        Entry::Obs { val: ObsVal::CodeInfo(Some(_)), .. } => out.stat("code_info_seen_by_contract", 1),
                        _ => {}
                    }
                }
            }
            IOut::Probe(_, l) => out.stat("code_infos_probed", l.iter().filter(|x| x.is_some()).count() as u64),
            IOut::Unit | IOut::Opaque(..) => {}
        }
        if let IOp::Top(t) = op {
            let salted = match t {
                TopOp::HelperInst { salt: Some(_), .. } => true,
                TopOp::Exec { m: Msg::Inst { salt: Some(_), .. }, .. } => true,
                _ => false,
            };
            if salted {
                out.stat("top_level_instantiate2", 1);
            }
        }
    }
    if let Some(last) = r0.last() {
        out.stat("contracts_at_end", last.state.reg.len() as u64);
    }
}

fn main() {
    let a: Vec<String> = std::env::args().collect();
    if a.len() >= 3 && a[1] == "--child" {
        child_main(&a[2]);
        return;
    }
    let args = common::parse_args("C19");
    let mut out = Out::new(&args.out, HEADER);
    std::fs::create_dir_all(&args.out).unwrap();
    let nondet = nondet_sources(&args.out);

    let mut cfg = Cfg::default();
    cfg.n_steps = (2, 5);
    cfg.max_nodes = 12;
    cfg.p_fail = 12;

    // scenarios (+ the strangers each one is run against)
    let mut scns: Vec<Scn> = vec![];
    let mut replay_strangers: Option<Vec<Scn>> = None;
    if let Some(p) = &args.replay {
        let v: serde_json::Value = serde_json::from_slice(&std::fs::read(p).unwrap()).unwrap();
        let case = v.get("case").unwrap_or(&v);
        scns.push(serde_json::from_value(case["scenario"].clone()).unwrap());
        replay_strangers = Some(serde_json::from_value(case["strangers"].clone()).unwrap());
    } else {
        scns.extend(fixed_scenarios());
        let mut rng = Rng::new(args.seed);
        // a non-empty advisory scan raises the number of generated scenarios, nothing more
        let boost = if nondet.is_empty() { 1 } else { 3 };
        let n = if args.thorough { 500 } else { 50 } * args.scale * boost;
        for _ in 0..n {
            let mut r = rng.fork();
            let mut scn = gen_scn(&mut r, &cfg);
            // histories with staking get two more runs after a wall-clock pause: only in the thorough tier
            if args.thorough && r.chance(1, 10) {
                add_staking(&mut r, &mut scn);
            }
            scns.push(scn);
        }
    }
    let n = scns.len();
    let strangers_of = |j: usize| -> Vec<Scn> {
        match &replay_strangers {
            Some(s) => s.clone(),
            None => (1..=3).map(|d| scns[(j + d) % n].clone()).collect(),
        }
    };

    let mut rng = Rng::new(args.seed ^ 0x5eed_c19);
    let chunk = 8;
    let mut j0 = 0;
    let mut n_mismatch_cases = 0u64;
    while j0 < n {
        let j1 = (j0 + chunk).min(n);
        // fresh OS processes, started now, collected after the in-process runs of this chunk:
        // plain / other environment and cwd / after polluters / the transposed history under the other prefix
        let mut children = vec![];
        let mut alts: Vec<Scn> = vec![];
        for j in j0..j1 {
            let scn_alt = translate(&scns[j], OTHER_PREFIX);
            let write = |name: String, job: &ChildJob| -> PathBuf {
                let f: PathBuf = args.out.join(name);
                std::fs::write(&f, serde_json::to_vec(job).unwrap()).unwrap();
                std::fs::canonicalize(&f).unwrap()
            };
            let f_plain = write(format!("child_{}.json", j), &ChildJob { scn: scns[j].clone(), prefix: None, pollute: false });
            let f_poll = write(format!("child_{}_p.json", j), &ChildJob { scn: scns[j].clone(), prefix: None, pollute: true });
            let f_alt = write(format!("child_{}_a.json", j), &ChildJob { scn: scn_alt.clone(), prefix: Some(OTHER_PREFIX.to_string()), pollute: false });
            let noise = rng.next();
            children.push((
                spawn_child(&f_plain, false, 0),
                spawn_child(&f_plain, true, noise),
                spawn_child(&f_poll, false, 0),
                spawn_child(&f_alt, false, 0),
                [f_plain, f_poll, f_alt],
            ));
            alts.push(scn_alt);
        }
        let mut partial: Vec<Runs> = vec![];
        for j in j0..j1 {
            let st = strangers_of(j);
            let st_refs: Vec<&Scn> = st.iter().collect();
            partial.push(in_process_runs(&mut rng, &scns[j], &alts[j - j0], &st_refs));
        }
        // LATE runs, for histories with opaque (staking) operations: after a wall-clock pause of more than a second
        // since run (i) of every scenario of this chunk — in this process and in a fresh one.  A value taken from
        // the system clock (even rounded to seconds) cannot repeat.
        let staking: Vec<usize> = (j0..j1).filter(|j| has_opaque(&scns[*j])).collect();
        let mut late: BTreeMap<usize, (Vec<IObs>, std::io::Result<std::process::Child>)> = BTreeMap::new();
        if !staking.is_empty() {
            std::thread::sleep(std::time::Duration::from_millis(1300));
            for j in &staking {
                let child = spawn_child(&children[*j - j0].4[0], false, 0);
                late.insert(*j, (solo(&scns[*j].hist), child));
            }
        }
        for (k, (c1, c2, c3, c4, fs)) in children.into_iter().enumerate() {
            if let Some((t_in, ch)) = late.remove(&(j0 + k)) {
                let t_ch = collect_child(ch, &|| spawn_child(&fs[0], false, 0));
                partial[k].late = vec![t_in, t_ch];
            }
            let t1 = collect_child(c1, &|| spawn_child(&fs[0], false, 0));
            let t2 = collect_child(c2, &|| spawn_child(&fs[0], true, 7));
            let t3 = collect_child(c3, &|| spawn_child(&fs[1], false, 0));
            let t4 = collect_child(c4, &|| spawn_child(&fs[2], false, 0));
            for f in fs.iter() {
                let _ = std::fs::remove_file(f);
            }
            let no = RUN_NAMES.len();
            partial[k].others[no - 3] = t1;
            partial[k].others[no - 2] = t2;
            partial[k].others[no - 1] = t3;
            partial[k].alt[0] = t4;
        }
        for (k, runs) in partial.into_iter().enumerate() {
            let j = j0 + k;
            let scn = &scns[j];
            let mut runs = runs;
            assert_eq!(runs.others.len(), RUN_NAMES.len());
            assert_eq!(runs.alt.len(), ALT_NAMES.len());
            let mut other_names: Vec<&str> = RUN_NAMES.to_vec();
            if !runs.late.is_empty() {
                other_names.extend(LATE_NAMES.iter());
                let l = std::mem::take(&mut runs.late);
                runs.others.extend(l);
                out.stat("scenarios_with_late_runs", 1);
            }
            stats_for(&mut out, scn, &runs.r0);
            let mut diffs = serde_json::Map::new();
            for (name, r) in other_names.iter().zip(runs.others.iter()) {
                if let Some(d) = first_rust_diff(&runs.r0, r) {
                    out.stat(&format!("rust_side_mismatch_{}", name), 1);
                    diffs.insert(name.to_string(), serde_json::json!({"first_differing_operation": d,
                        "alone": runs.r0.get(d), "this_run": r.get(d)}));
                }
            }
            for (name, r) in ALT_NAMES.iter().zip(runs.alt.iter()).skip(1) {
                if let Some(d) = first_rust_diff(&runs.alt[0], r) {
                    out.stat(&format!("rust_side_mismatch_{}", name), 1);
                    diffs.insert(name.to_string(), serde_json::json!({"first_differing_operation": d,
                        "reference_of_the_family": runs.alt[0].get(d), "this_run": r.get(d)}));
                }
            }
            // the transposed history must mean the same thing to the other-prefix app: same error-ness, call by call
            let same_shape = runs.r0.len() == runs.alt[0].len()
                && runs.r0.iter().zip(runs.alt[0].iter()).all(|(a, b)| match (&a.out, &b.out) {
                    (IOut::Top(_, x), IOut::Top(_, y)) => exec_common::outcome_class(x) == exec_common::outcome_class(y),
                    (IOut::Id(x), IOut::Id(y)) => x == y,
                    (IOut::Opaque(x, _), IOut::Opaque(y, _)) => exec_common::outcome_class(x) == exec_common::outcome_class(y),
                    (IOut::Unit, IOut::Unit) | (IOut::Probe(..), IOut::Probe(..)) => true,
                    _ => false,
                });
            out.stat(if same_shape { "other_prefix_run_same_outcomes_as_default" } else { "other_prefix_run_other_outcomes_than_default" }, 1);
            if !diffs.is_empty() {
                n_mismatch_cases += 1;
            }
            let coq = p_case(out.cases.len(), scn, &runs.r0, &runs.others, &runs.alt);
            let stores_ok = runs.r0.iter().filter(|o| matches!(o.out, IOut::Id(IdOut::Ok(_)))).count();
            let contracts = runs.r0.last().map(|o| o.state.reg.len()).unwrap_or(0);
            let failing = runs.r0.iter().any(|o| matches!(&o.out, IOut::Top(_, x) if !matches!(x, OutcomeS::Ok(_))) || matches!(o.out, IOut::Id(IdOut::Err) | IOut::Id(IdOut::Panic)));
            let nt = args.replay.is_some() || (stores_ok >= 2 && contracts >= 1 && failing);
            let mut names: Vec<&str> = other_names.clone();
            names.extend(ALT_NAMES.iter());
            // keep the JSON of the case small: run (i) in full, other runs only where they differ
            out.push(Case {
                key: serde_json::to_string(scn).unwrap(),
                json: serde_json::json!({"scenario": scn, "strangers": strangers_of(j),
                                         "runs_numbered_from_1": names, "alone": runs.r0,
                                         "differences_seen_by_the_harness": diffs}),
                coq,
                nontrivial: nt,
            });
        }
        j0 = j1;
    }
    out.stat("scenarios", n as u64);
    out.stat("runs_compared_per_scenario", (RUN_NAMES.len() + ALT_NAMES.len()) as u64);
    out.stat("child_processes_spawned", 4 * n as u64);
    out.stat("nondet_sources_hits", nondet.len() as u64);
    out.stat("cases_with_a_transcript_difference", n_mismatch_cases);
    let rule = format!(
        "history = code operations in varying order (store_code, store_code_with_creator, store_code_with_id incl. id 0 / duplicate / u64::MAX, duplicate_code; explicit and generated checksums; one store possibly postponed between calls) + code-info probes + the exec_common scenario (mint, instantiate 2-4 contracts, 2-5 random top-level calls with instantiate / instantiate2, queries incl. code info, failures) with set_block only where the block changes; each history run alone and in 11 other circumstances ({}; polluters = 2-6 apps with other Api prefixes / bech32m, other block and chain id, pre-seeded storage, other code under the SAME code ids, instantiating the same (code id, instance number) pairs and salts, alive while the scenario runs), histories with operations the executor model does not cover (staking set-up, Delegate / Undelegate / Redelegate, WithdrawDelegatorReward, Slash, update_block / set_block with queue processing: opaque to the model, fully compared across runs; 2 fixed histories, generated ones in the thorough tier) get two LATE runs more than a second of wall-clock time after run (i) ({}); plus a second family compared among themselves: the history transposed to the address prefix 'juno' ({}); distinct by SHA-256 of the history; non-trivial = at least two code ids stored, at least one contract address generated, at least one failing operation.  Advisory nondeterminism scan of /repo/src (Generated.nondet_sources): {}",
        RUN_NAMES.join(", "),
        LATE_NAMES.join(", "),
        ALT_NAMES.join(", "),
        if nondet.is_empty() { "no hit".to_string() } else { format!("{} hit(s): {}", nondet.len(), nondet.join(" ")) }
    );
    out.prelude = print::intern_prelude();
    let dir = args.out.clone();
    out.finish(3, &rule);
    lift_definitions(&dir);
    prune_prelude(&dir);
}

fn shard_files(dir: &Path) -> Vec<PathBuf> {
    let mut v = vec![];
    if let Ok(rd) = std::fs::read_dir(dir) {
        for e in rd.filter_map(|e| e.ok()) {
            let p = e.path();
            let name = p.file_name().unwrap().to_string_lossy().to_string();
            if name.starts_with("cases_") && name.ends_with(".v") {
                v.push(p);
            }
        }
    }
    v
}

/// move the `(*@@ Definition ... @@*)` block of every case in front of its `Eval`
fn lift_definitions(dir: &Path) {
    const EV: &str = "Eval vm_compute in ";
    for p in shard_files(dir) {
        let txt = std::fs::read_to_string(&p).unwrap();
        let mut parts = txt.split(EV);
        let mut o = String::from(parts.next().unwrap_or(""));
        for piece in parts {
            match (piece.find("(*@@\n"), piece.find("@@*)")) {
                (Some(a), Some(b)) if a < b => {
                    o.push_str(&piece[a + 5..b]);
                    o.push_str(EV);
                    o.push_str(&piece[..a]);
                    o.push_str(&piece[b + 4..]);
                }
                _ => {
                    o.push_str(EV);
                    o.push_str(piece);
                }
            }
        }
        std::fs::write(&p, o).unwrap();
    }
}

/// every shard carries the interned strings of ALL cases (common::Out writes one prelude); keep in each shard
/// only the `Definition sN` lines it uses — the shards are evaluated in parallel and their cost is mostly parsing
fn prune_prelude(dir: &Path) {
    for p in shard_files(dir) {
        let txt = std::fs::read_to_string(&p).unwrap();
        let is_def = |l: &str| l.starts_with("Definition s") && l.contains(" : text := ");
        let rest: Vec<&str> = txt.lines().filter(|l| !is_def(l)).collect();
        let mut used = std::collections::BTreeSet::new();
        for l in &rest {
            let b = l.as_bytes();
            let mut i = 0;
            while i < b.len() {
                if b[i] == b's' && (i == 0 || !(b[i - 1].is_ascii_alphanumeric() || b[i - 1] == b'_')) {
                    let mut j = i + 1;
                    while j < b.len() && b[j].is_ascii_digit() {
                        j += 1;
                    }
                    if j > i + 1 && (j == b.len() || !(b[j].is_ascii_alphanumeric() || b[j] == b'_')) {
                        used.insert(l[i..j].to_string());
                    }
                    i = j;
                } else {
                    i += 1;
                }
            }
        }
        let mut o = String::new();
        for l in txt.lines() {
            if is_def(l) {
                let nm = l["Definition ".len()..].split(' ').next().unwrap_or("");
                if used.contains(nm) {
                    o.push_str(l);
                    o.push('\n');
                }
                continue;
            }
            o.push_str(l);
            o.push('\n');
        }
        std::fs::write(&p, o).unwrap();
    }
}
