//! C16: staking / distribution histories run on the real StakeKeeper + DistributionKeeper through
//! the public App API; generator, runner and Coq printer live in the shared crate staking_common.
fn main() {
    let args = common::parse_args("C16");
    staking_common::run(&args, staking_common::Prop::C16);
}
