//! C03: reply invoked exactly when, and with exactly what, the sub-message dictates.
use exec_common::gen::Cfg;
use exec_common::*;
fn main() {
    let mut cfg = Cfg::default();
    cfg.doomed_subs = true;
    cfg.self_admin = true;
    cfg.wrapped_codes = true;
    cfg.migrate_bias = true;
    cfg.p_fail = 20;
    cfg.max_depth = 5;
    cfg.max_nodes = 22;
    cfg.helpers = false;
    cfg.queries = false;
    run_prop("C03", "c03", cfg, 150, 1500, vec![],
        "scenarios as for C02; ids collide on purpose (0, 1, 1, 2, 7, 2^64-1), payload tags empty / short; distinct by SHA-256; non-trivial = at least two reply entry points were invoked in the scenario",
        &|_, obs| obs.iter().map(|o| o.trace.iter().filter(|e| matches!(e, Entry::Call { ep: Ep::Reply, .. })).count()).sum::<usize>() >= 2);
}
