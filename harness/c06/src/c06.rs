//! C06: the transactional KV overlay (private StorageTransaction + transactional(), reached
//! through the `verif` hook wrappers) against the ordered-map spec / the cache-stack model.
use common::*;
use cosmwasm_std::{MemoryStorage, Order, Storage};
use cw_multi_test::verif_hooks::{transactional, Cache};
use serde::{Deserialize, Serialize};

type B = Vec<u8>;

#[derive(Clone, Debug, Serialize, Deserialize)]
pub enum Op {
    Set(B, B),
    Del(B),
    Get(B),
    Range(Option<B>, Option<B>, bool), // bool: ascending
    GetBelow(usize, B),
    RangeBelow(usize, Option<B>, Option<B>, bool),
    Nest(Vec<Op>),
    /// same as Nest but through the manual path Cache::new / prepare / commit
    Fail,
}

#[derive(Clone, Debug, Serialize, Deserialize, PartialEq)]
pub enum Obs {
    Get(Option<B>),
    Range(Vec<(B, B)>),
    Nest(bool),
    Panic,
}

#[derive(Clone, Debug, Serialize, Deserialize)]
pub struct Input {
    pub base: Vec<(B, B)>,
    pub body: Vec<Op>,
}

fn ord(asc: bool) -> Order {
    if asc {
        Order::Ascending
    } else {
        Order::Descending
    }
}

fn exec(ops: &[Op], st: &mut dyn Storage, belows: &[&dyn Storage], obs: &mut Vec<Obs>) -> anyhow::Result<()> {
    for op in ops {
        match op {
            Op::Set(k, v) => st.set(k, v),
            Op::Del(k) => st.remove(k),
            Op::Get(k) => obs.push(Obs::Get(st.get(k))),
            Op::Range(s, e, asc) => {
                obs.push(Obs::Range(st.range(s.as_deref(), e.as_deref(), ord(*asc)).collect()))
            }
            Op::GetBelow(n, k) => obs.push(Obs::Get(belows[*n - 1].get(k))),
            Op::RangeBelow(n, s, e, asc) => {
                obs.push(Obs::Range(belows[*n - 1].range(s.as_deref(), e.as_deref(), ord(*asc)).collect()))
            }
            Op::Nest(body) => {
                let r = transactional(st, |cache, below| {
                    let mut bs: Vec<&dyn Storage> = vec![below];
                    bs.extend_from_slice(belows);
                    exec(body, cache, &bs, obs)
                });
                obs.push(Obs::Nest(r.is_ok()));
            }
            Op::Fail => anyhow::bail!("scripted failure"),
        }
    }
    Ok(())
}

/// Every second case uses the manual path (Cache::new, prepare, commit / drop) at the top level
/// instead of transactional(), so both public shapes of the mechanism are exercised.
fn run_impl(inp: &Input, manual_top: bool) -> (Vec<Obs>, Vec<(B, B)>) {
    let mut root = MemoryStorage::new();
    for (k, v) in &inp.base {
        root.set(k, v);
    }
    let mut obs = vec![];
    let r = catch(|| {
        if manual_top {
            let mut cache = Cache::new(&root);
            let r = exec(&inp.body, &mut cache, &[&root], &mut obs);
            match r {
                Ok(()) => {
                    let p = cache.prepare();
                    p.commit(&mut root);
                    obs.push(Obs::Nest(true));
                }
                Err(_) => {
                    drop(cache);
                    obs.push(Obs::Nest(false));
                }
            }
        } else {
            let r = transactional(&mut root, |cache, below| exec(&inp.body, cache, &[below], &mut obs));
            obs.push(Obs::Nest(r.is_ok()));
        }
    });
    if r.is_err() {
        obs.push(Obs::Panic);
    }
    let fin = root.range(None, None, Order::Ascending).collect();
    (obs, fin)
}

fn coq_order(asc: bool) -> &'static str {
    if asc {
        "Asc"
    } else {
        "Desc"
    }
}
fn coq_script(ops: &[Op]) -> String {
    let mut s = String::from("SNil");
    for op in ops.iter().rev() {
        s = match op {
            Op::Fail => "SFail".to_string(),
            Op::Set(k, v) => format!("(SSet {} {} {})", coq_bytes(k), coq_bytes(v), s),
            Op::Del(k) => format!("(SDel {} {})", coq_bytes(k), s),
            Op::Get(k) => format!("(SGet {} {})", coq_bytes(k), s),
            Op::Range(a, b, o) => {
                format!("(SRange {} {} {} {})", coq_opt(a, |x| coq_bytes(x)), coq_opt(b, |x| coq_bytes(x)), coq_order(*o), s)
            }
            Op::GetBelow(n, k) => format!("(SGetBelow {}%nat {} {})", n, coq_bytes(k), s),
            Op::RangeBelow(n, a, b, o) => format!(
                "(SRangeBelow {}%nat {} {} {} {})",
                n,
                coq_opt(a, |x| coq_bytes(x)),
                coq_opt(b, |x| coq_bytes(x)),
                coq_order(*o),
                s
            ),
            Op::Nest(body) => format!("(SNest {} {})", coq_script(body), s),
        };
    }
    s
}
fn coq_obs(o: &Obs) -> String {
    match o {
        Obs::Get(v) => format!("OGet {}", coq_opt(v, |x| coq_bytes(x))),
        Obs::Range(l) => format!("ORange {}", coq_list(l, coq_kv)),
        Obs::Nest(b) => format!("ONest {}", coq_bool(*b)),
        Obs::Panic => "OPanic".to_string(),
    }
}

fn alphabet() -> Vec<B> {
    vec![
        vec![],
        vec![0],
        vec![0, 0],
        vec![0, 255],
        vec![1],
        vec![1, 0],
        vec![1, 1],
        vec![1, 255],
        vec![2],
        vec![255],
        vec![255, 0],
        vec![255, 255],
        vec![255, 255, 255],
    ]
}

struct Gen<'a> {
    rng: &'a mut Rng,
    keys: Vec<B>,
    max_depth: usize,
}
impl Gen<'_> {
    fn key(&mut self) -> B {
        if self.rng.chance(1, 12) {
            let n = self.rng.below(4) as usize;
            (0..n).map(|_| *self.rng.pick(&[0u8, 1, 2, 127, 254, 255])).collect()
        } else {
            self.rng.pick(&self.keys).clone()
        }
    }
    fn val(&mut self) -> B {
        // mostly from a tiny pool, so that writing a key BACK to the value it has underneath (byte for byte)
        // after an overwrite or a removal is common: the shape a "skip no-op writes" optimisation gets wrong
        if self.rng.chance(7, 8) {
            return self.rng.pick(&[vec![1u8], vec![2], vec![7]]).clone();
        }
        let n = 1 + self.rng.below(2) as usize;
        (0..n).map(|_| self.rng.below(256) as u8).collect()
    }
    fn bound(&mut self) -> Option<B> {
        if self.rng.chance(1, 4) {
            None
        } else {
            Some(self.key())
        }
    }
    fn body(&mut self, depth: usize, len: usize) -> Vec<Op> {
        let mut v = vec![];
        for _ in 0..len {
            let c = self.rng.below(100);
            let op = if c < 22 {
                Op::Set(self.key(), self.val())
            } else if c < 36 {
                Op::Del(self.key())
            } else if c < 46 {
                Op::Get(self.key())
            } else if c < 68 {
                Op::Range(self.bound(), self.bound(), self.rng.chance(1, 2))
            } else if c < 73 {
                Op::GetBelow(1 + self.rng.below(depth as u64) as usize, self.key())
            } else if c < 82 {
                Op::RangeBelow(1 + self.rng.below(depth as u64) as usize, self.bound(), self.bound(), self.rng.chance(1, 2))
            } else if c < 97 && depth < self.max_depth {
                let l = 1 + self.rng.below(6) as usize;
                let mut b = self.body(depth + 1, l);
                if self.rng.chance(1, 3) {
                    b.push(Op::Fail);
                }
                Op::Nest(b)
            } else {
                Op::Range(None, None, self.rng.chance(1, 2))
            };
            v.push(op);
        }
        v
    }
}

fn count(ops: &[Op], st: &mut std::collections::BTreeMap<String, u64>, depth: u64) {
    for op in ops {
        let k = match op {
            Op::Set(..) => "op_set",
            Op::Del(..) => "op_del",
            Op::Get(..) => "op_get",
            Op::Range(..) => "op_range",
            Op::GetBelow(..) => "op_get_below",
            Op::RangeBelow(..) => "op_range_below",
            Op::Nest(b) => {
                count(b, st, depth + 1);
                *st.entry(format!("nest_depth_{}", depth + 1)).or_insert(0) += 1;
                "op_nest"
            }
            Op::Fail => "op_fail",
        };
        *st.entry(k.to_string()).or_insert(0) += 1;
    }
}

fn emit(out: &mut Out, inp: &Input, manual: bool) {
    let (obs, fin) = run_impl(inp, manual);
    // non-trivial: overlay and base keys interleave (some write happened on a non-empty base or
    // inside a nested block) and at least one range was observed with >= 1 item
    let wrote = format!("{:?}", inp.body).contains("Set(") || format!("{:?}", inp.body).contains("Del(");
    let ranged = obs.iter().any(|o| matches!(o, Obs::Range(l) if !l.is_empty()));
    let coq = format!(
        "c06 {} {} {} {}",
        coq_list(&inp.base, coq_kv),
        coq_script(&inp.body),
        coq_list(&obs, coq_obs),
        coq_list(&fin, coq_kv)
    );
    let mut st = std::mem::take(&mut out.stats);
    count(&inp.body, &mut st, 1);
    *st.entry(format!("top_{}", if manual { "manual" } else { "transactional" })).or_insert(0) += 1;
    *st.entry("observations".into()).or_insert(0) += obs.len() as u64;
    if obs.contains(&Obs::Panic) {
        *st.entry("panics".into()).or_insert(0) += 1;
    }
    out.stats = st;
    out.push(Case {
        key: format!("{:?}", inp),
        json: serde_json::json!({"input": inp, "manual_top": manual, "observed": obs, "final": fin}),
        coq,
        nontrivial: wrote && ranged && !inp.base.is_empty(),
    });
}

/// exhaustive family: alphabet of `ks` keys, all write sequences of length <= n placed inside a
/// nested block (commit / fail), every bound pair and order queried inside and after.
fn exhaustive(out: &mut Out, ks: &[B], n: usize) {
    let mut bounds: Vec<Option<B>> = vec![None];
    bounds.extend(ks.iter().cloned().map(Some));
    let mut queries = vec![];
    for s in &bounds {
        for e in &bounds {
            for asc in [true, false] {
                queries.push(Op::Range(s.clone(), e.clone(), asc));
            }
        }
    }
    for k in ks {
        queries.push(Op::Get(k.clone()));
    }
    let mut writes: Vec<Op> = vec![];
    for k in ks {
        writes.push(Op::Set(k.clone(), vec![7]));
        writes.push(Op::Set(k.clone(), vec![1])); // the value the base holds for every second key
        writes.push(Op::Del(k.clone()));
    }
    // base: every second key present
    let base: Vec<(B, B)> = ks.iter().enumerate().filter(|(i, _)| i % 2 == 0).map(|(_, k)| (k.clone(), vec![1])).collect();
    let mut seqs: Vec<Vec<Op>> = vec![vec![]];
    let mut frontier: Vec<Vec<Op>> = vec![vec![]];
    for _ in 0..n {
        let mut next = vec![];
        for s in &frontier {
            for w in &writes {
                let mut t = s.clone();
                t.push(w.clone());
                next.push(t);
            }
        }
        seqs.extend(next.iter().cloned());
        frontier = next;
    }
    let mut below_q: Vec<Op> = vec![Op::RangeBelow(1, None, None, true), Op::RangeBelow(2, None, None, false)];
    below_q.extend(queries.iter().cloned());
    for (i, s) in seqs.iter().enumerate() {
        for fail in [false, true] {
            // writes split between the outer cache and a nested one
            let cut = s.len() / 2;
            let mut inner: Vec<Op> = s[cut..].to_vec();
            inner.extend(below_q.iter().cloned());
            if fail {
                inner.push(Op::Fail);
            }
            let mut body: Vec<Op> = s[..cut].to_vec();
            body.push(Op::Nest(inner));
            body.extend(queries.iter().cloned());
            emit(out, &Input { base: base.clone(), body }, i % 2 == 0);
        }
    }
}

pub fn run(args: &Args) {
    let mut out = Out::new(&args.out, "From Verif Require Import Base OMap Tx Chk06.");
    if let Some(p) = &args.replay {
        let v: serde_json::Value = serde_json::from_slice(&std::fs::read(p).unwrap()).unwrap();
        let case = v.get("case").unwrap_or(&v);
        let inp: Input = serde_json::from_value(case["input"].clone()).unwrap();
        let manual = case["manual_top"].as_bool().unwrap_or(false);
        emit(&mut out, &inp, manual);
        out.finish(100, "replay");
        return;
    }
    let mut rng = Rng::new(args.seed);
    // corpus / adversarial fixed cases first
    let k = |x: &[u8]| x.to_vec();
    let fixed: Vec<Input> = vec![
        // overwrite of a base key + delete of a base key + delete-then-set, queried both ways
        Input {
            base: vec![(k(b"a"), k(b"1")), (k(b"b"), k(b"2")), (k(b"c"), k(b"3"))],
            body: vec![
                Op::Set(k(b"b"), k(b"9")),
                Op::Del(k(b"a")),
                Op::Del(k(b"zz")),
                Op::Range(None, None, true),
                Op::Range(None, None, false),
                Op::Nest(vec![Op::Del(k(b"b")), Op::Set(k(b"b"), k(b"8")), Op::Range(None, None, false), Op::RangeBelow(1, None, None, true), Op::RangeBelow(2, None, None, true)]),
                Op::Range(Some(k(b"b")), Some(k(b"b")), true),
                Op::Range(Some(k(b"c")), Some(k(b"a")), true),
                Op::Range(Some(k(b"c")), Some(k(b"a")), false),
                Op::Range(Some(k(b"")), Some(k(b"b\x00")), false),
            ],
        },
        // empty key, 0x00 / 0xff, prefixes of one another
        Input {
            base: vec![(k(b""), k(b"e")), (k(b"\x00"), k(b"z")), (k(b"\xff"), k(b"f")), (k(b"\xff\xff"), k(b"g"))],
            body: vec![
                Op::Del(k(b"")),
                Op::Set(k(b"\xff\x00"), k(b"h")),
                Op::Nest(vec![Op::Set(k(b""), k(b"E")), Op::Nest(vec![Op::Del(k(b"\xff")), Op::Range(None, None, false), Op::RangeBelow(3, None, None, true), Op::Fail]), Op::Range(None, None, true)]),
                Op::Range(Some(k(b"")), None, true),
                Op::Range(None, Some(k(b"\xff\xff")), false),
                Op::Get(k(b"")),
            ],
        },
    ];
    for (i, inp) in fixed.iter().enumerate() {
        emit(&mut out, inp, i % 2 == 1);
        emit(&mut out, inp, i % 2 == 0);
    }
    let keys = alphabet();
    if args.thorough {
        exhaustive(&mut out, &[vec![], vec![0], vec![1], vec![1, 0]], 3);
    } else {
        exhaustive(&mut out, &[vec![], vec![1], vec![1, 0]], 2);
    }
    let n = if args.thorough { 4000 } else { 300 } * args.scale;
    for i in 0..n {
        let mut r = rng.fork();
        let nbase = r.below(7) as usize;
        let mut g = Gen { rng: &mut r, keys: keys.clone(), max_depth: 5 };
        let mut base = std::collections::BTreeMap::new();
        for _ in 0..nbase {
            base.insert(g.key(), g.val());
        }
        let len = 4 + g.rng.below(14) as usize;
        let mut body = g.body(1, len);
        if g.rng.chance(1, 6) {
            body.push(Op::Fail);
        }
        let inp = Input { base: base.into_iter().collect(), body };
        emit(&mut out, &inp, i % 2 == 0);
    }
    out.finish(
        200,
        "cases = fixed adversarial scripts + exhaustive (small key alphabet x all write sequences up to a length x all bound pairs x both orders x commit/fail) + PRNG-generated scripts (nesting depth <= 5); distinct by SHA-256 of the input; non-trivial = non-empty base, at least one write, at least one non-empty range answer",
    );
}
