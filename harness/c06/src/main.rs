mod c06;
fn main() {
    let args = common::parse_args("C06");
    c06::run(&args);
}
