//! C01: top-level transactions are atomic, ordered.
use exec_common::gen::Cfg;
use exec_common::*;
fn main() {
    let mut cfg = Cfg::default();
    cfg.p_fail = 15;
    cfg.set_remove_bias = true;
    run_prop("C01", "c01", cfg, 150, 1500, vec![],
        "scenarios = setup (mint, instantiate 2-4 contracts) + 2-6 random top-level calls (execute, execute_multi, wasm_sudo, bank sudo, the four Executor helpers) whose message trees (<= 18 nodes, depth <= 4) carry failure injection (explicit failure, malformed response, overdraft, missing contract, unauthorised admin op, failing module); distinct by SHA-256 of the scenario; non-trivial = at least one top-level call failed after contract code had run (something to roll back)",
        &|_, obs| obs.iter().any(|o| !matches!(o.outcome, OutcomeS::Ok(_)) && !o.trace.is_empty()));
}
