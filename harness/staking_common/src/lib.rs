//! Shared by the C14 / C15 / C16 harness binaries: staking + distribution histories run on the real
//! StakeKeeper / DistributionKeeper through the public App API only (AppBuilder::build closure for
//! setup, App::execute for StakingMsg / DistributionMsg, App::sudo for StakingSudo::Slash,
//! App::update_block / App::set_block (alternating) for block advances), observation of everything the three properties talk about
//! after every operation, and the printer of the Coq case terms judged by coq/Chk14.v.
use common::*;
use cosmwasm_std::testing::MockApi;
use cosmwasm_std::{
    coin, Addr, BlockInfo, Coin, Decimal, DistributionMsg, StakingMsg, Timestamp, Uint128, Validator,
};
use cw_multi_test::{App, AppBuilder, Executor, StakingInfo, StakingSudo, SudoMsg};
use cw_storage_plus::Map;
use cw_utils::NativeBalance;
use serde::{Deserialize, Serialize};

/// StakingInfo::default().bonded_denom — what a lookup that misses the configured StakingInfo falls back to
pub const DEFAULT_DENOM: &str = "TOKEN";
/// the bonded denomination most scenarios configure (NOT the default, so that a fallback to the default shows)
pub const BONDED: &str = "ustake";
pub const FOREIGN: &str = "OTHER";
fn default_denom() -> String {
    DEFAULT_DENOM.to_string()
}
pub const D18: u128 = 1_000_000_000_000_000_000;
pub const NS: u64 = 1_000_000_000;
pub const YEAR: u64 = 31_536_000;
/// cosmwasm_std::testing::mock_env().block.time
pub const T0: u64 = 1_571_797_419_879_305_533;

#[derive(Clone, Copy, Debug, PartialEq, Eq)]
pub enum Prop {
    C14,
    C15,
    C16,
}

/// u128 carried as a decimal string in JSON
#[derive(Clone, Copy, Debug, PartialEq, Eq, PartialOrd, Ord, Default)]
pub struct U(pub u128);
impl Serialize for U {
    fn serialize<S: serde::Serializer>(&self, s: S) -> Result<S::Ok, S::Error> {
        s.serialize_str(&self.0.to_string())
    }
}
impl<'de> Deserialize<'de> for U {
    fn deserialize<D: serde::Deserializer<'de>>(d: D) -> Result<Self, D::Error> {
        let s = String::deserialize(d)?;
        s.parse::<u128>().map(U).map_err(serde::de::Error::custom)
    }
}

#[derive(Clone, Debug, Serialize, Deserialize)]
pub struct Setup {
    /// StakingInfo::unbonding_time (seconds)
    pub unbond: u64,
    /// StakingInfo::apr, Decimal atomics
    pub apr: U,
    /// validators: (id, commission atomics); address string = "validator<id>"
    pub vals: Vec<(u64, U)>,
    /// accounts: (id, initial TOKEN balance); address = addr_make("acct<id>"); the first `ndel`
    /// are the delegators observed pairwise, the rest only receive rewards
    pub accts: Vec<(u64, U)>,
    pub ndel: usize,
    /// initial block time (ns)
    pub t0: u64,
    /// StakingInfo::bonded_denom (replay files written before this field existed used the default)
    #[serde(default = "default_denom")]
    pub denom: String,
}

impl Setup {
    /// the other denominations whose supply is observed: the default bonded denom (when it is not the configured
    /// one) and the foreign denom
    pub fn xdenoms(&self) -> Vec<String> {
        let mut v = vec![];
        if self.denom != DEFAULT_DENOM {
            v.push(DEFAULT_DENOM.to_string());
        }
        v.push(FOREIGN.to_string());
        v
    }
}

#[derive(Clone, Debug, Serialize, Deserialize)]
pub enum Op {
    Delegate { d: u64, v: u64, a: U, bonded: bool },
    Undelegate { d: u64, v: u64, a: U, bonded: bool },
    Redelegate { d: u64, src: u64, dst: u64, a: U, bonded: bool },
    Withdraw { d: u64, v: u64 },
    /// w = None: a string that addr_validate rejects ("staking_module")
    SetWithdraw { d: u64, w: Option<u64> },
    /// p: Decimal atomics
    Slash { v: u64, p: U },
    /// update_block(|b| b.time = b.time.plus_nanos(dt))
    Advance { dt: u64 },
}

#[derive(Clone, Copy, Debug, Serialize, Deserialize, PartialEq, Eq)]
pub enum Oc {
    Ok,
    Err,
    Panic,
    /// update_block's `.unwrap()` hit an Err of process_queue
    BlockErr,
}

#[derive(Clone, Debug, Serialize, Deserialize, PartialEq, Eq, Default)]
pub struct Snap {
    /// StakingQuery::Delegation for every (delegator, validator), delegator-major:
    /// Some((amount, accumulated_rewards)) / None
    pub del: Vec<Option<(U, U)>>,
    /// StakingQuery::AllDelegations per delegator: (validator id, amount)
    pub all: Vec<Vec<(u64, U)>>,
    /// StakeKeeper::get_rewards for every pair
    pub rew: Vec<Option<U>>,
    /// bank balance (TOKEN) of every account
    pub bal: Vec<U>,
    /// bank balance of "staking_module", decoded from the bank window of App::storage()
    pub pool: U,
    /// BankQuery::Supply of the bonded denom
    pub sup: U,
    /// BankQuery::AllBalances per account WITHOUT the bonded denom: every other denomination held
    #[serde(default)]
    pub xall: Vec<Vec<(String, U)>>,
    /// BankQuery::Supply of every other watched denomination (Setup::xdenoms)
    #[serde(default)]
    pub xsup: Vec<U>,
}

#[derive(Clone, Debug, Serialize, Deserialize)]
pub struct Ob {
    pub out: Oc,
    pub snap: Snap,
    /// panic message, for the replay file only
    pub msg: Option<String>,
}

pub fn vaddr(id: u64) -> String {
    format!("validator{}", id)
}
pub fn aaddr(id: u64) -> Addr {
    MockApi::default().addr_make(&format!("acct{}", id))
}

pub struct Runner {
    pub app: App,
    pub setup: Setup,
}

impl Runner {
    pub fn new(setup: &Setup) -> Result<Runner, String> {
        let su = setup.clone();
        catch(move || {
            let block = BlockInfo { height: 1, time: Timestamp::from_nanos(su.t0), chain_id: "verif".into() };
            let b2 = block.clone();
            let su2 = su.clone();
            let app = AppBuilder::new().with_block(block).build(move |router, api, storage| {
                for (id, bal) in &su2.accts {
                    let mut cs: Vec<Coin> = vec![coin(1_000_000, FOREIGN)];
                    if bal.0 > 0 {
                        cs.push(coin(bal.0, su2.denom.as_str()));
                    }
                    router.bank.init_balance(storage, &aaddr(*id), cs).unwrap();
                }
                router
                    .staking
                    .setup(
                        storage,
                        StakingInfo { bonded_denom: su2.denom.clone(), unbonding_time: su2.unbond, apr: Decimal::new(Uint128::new(su2.apr.0)) },
                    )
                    .unwrap();
                for (id, c) in &su2.vals {
                    router
                        .staking
                        .add_validator(
                            api,
                            storage,
                            &b2,
                            Validator::create(vaddr(*id), Decimal::new(Uint128::new(c.0)), Decimal::one(), Decimal::one()),
                        )
                        .unwrap();
                }
            });
            Runner { app, setup: su }
        })
    }

    fn pool_balance(&self) -> u128 {
        // "staking_module" is not a bech32 address, so no BankQuery can name it: decode the bank
        // window (namespace "bank", Map "balances") of the root storage
        let st = self.app.prefixed_storage(b"bank");
        let m: Map<&Addr, NativeBalance> = Map::new("balances");
        match m.may_load(&*st, &Addr::unchecked("staking_module")) {
            Ok(Some(nb)) => nb.0.iter().filter(|c| c.denom == self.setup.denom).map(|c| c.amount.u128()).sum(),
            _ => 0,
        }
    }

    /// all observations; Err = some query panicked or failed
    pub fn snap(&self) -> Result<Snap, String> {
        let su = &self.setup;
        let r = catch(|| -> Result<Snap, String> {
            let mut s = Snap::default();
            let block = self.app.block_info();
            for (d, _) in su.accts.iter().take(su.ndel) {
                let da = aaddr(*d);
                for (v, _) in &su.vals {
                    let q = self.app.wrap().query_delegation(da.clone(), vaddr(*v)).map_err(|e| e.to_string())?;
                    if let Some(fd) = &q {
                        // the delegation and its rewards are denominated in the configured bonded denom
                        if fd.amount.denom != su.denom || fd.accumulated_rewards.iter().any(|c| c.denom != su.denom) {
                            return Err("Delegation query answers in another denomination".to_string());
                        }
                    }
                    s.del.push(q.map(|fd| {
                        (U(fd.amount.amount.u128()), U(fd.accumulated_rewards.iter().map(|c| c.amount.u128()).sum()))
                    }));
                    let r = self
                        .app
                        .read_module(|router, _api, storage| router.staking.get_rewards(storage, &block, &da, &vaddr(*v)))
                        .map_err(|e| e.to_string())?;
                    if let Some(c) = &r {
                        if c.denom != su.denom {
                            return Err("get_rewards answers in another denomination".to_string());
                        }
                    }
                    s.rew.push(r.map(|c| U(c.amount.u128())));
                }
                let all = self.app.wrap().query_all_delegations(da.clone()).map_err(|e| e.to_string())?;
                let mut row = vec![];
                for dl in all {
                    let id = su
                        .vals
                        .iter()
                        .find(|(v, _)| vaddr(*v) == dl.validator)
                        .map(|(v, _)| *v)
                        .ok_or_else(|| "AllDelegations names an unknown validator".to_string())?;
                    if dl.amount.denom != su.denom {
                        return Err("AllDelegations answers in another denomination".to_string());
                    }
                    row.push((id, U(dl.amount.amount.u128())));
                }
                s.all.push(row);
            }
            for (a, _) in &su.accts {
                s.bal.push(U(self.app.wrap().query_balance(aaddr(*a), su.denom.as_str()).map_err(|e| e.to_string())?.amount.u128()));
                #[allow(deprecated)]
                let all = self.app.wrap().query_all_balances(aaddr(*a)).map_err(|e| e.to_string())?;
                s.xall.push(all.iter().filter(|c| c.denom != su.denom).map(|c| (c.denom.clone(), U(c.amount.u128()))).collect());
            }
            s.pool = U(self.pool_balance());
            s.sup = U(self.app.wrap().query_supply(su.denom.as_str()).map_err(|e| e.to_string())?.amount.u128());
            for d in su.xdenoms() {
                s.xsup.push(U(self.app.wrap().query_supply(d.as_str()).map_err(|e| e.to_string())?.amount.u128()));
            }
            Ok(s)
        });
        match r {
            Ok(x) => x,
            Err(p) => Err(p),
        }
    }

    pub fn apply(&mut self, op: &Op, last: &Snap) -> Ob {
        let bonded_denom = self.setup.denom.clone();
        let denom = |b: bool| if b { bonded_denom.as_str() } else { FOREIGN };
        let app = &mut self.app;
        let r: Result<Result<(), String>, String> = catch(|| match op {
            Op::Delegate { d, v, a, bonded } => app
                .execute(aaddr(*d), StakingMsg::Delegate { validator: vaddr(*v), amount: coin(a.0, denom(*bonded)) }.into())
                .map(|_| ())
                .map_err(|e| e.root_cause().to_string()),
            Op::Undelegate { d, v, a, bonded } => app
                .execute(aaddr(*d), StakingMsg::Undelegate { validator: vaddr(*v), amount: coin(a.0, denom(*bonded)) }.into())
                .map(|_| ())
                .map_err(|e| e.root_cause().to_string()),
            Op::Redelegate { d, src, dst, a, bonded } => app
                .execute(
                    aaddr(*d),
                    StakingMsg::Redelegate { src_validator: vaddr(*src), dst_validator: vaddr(*dst), amount: coin(a.0, denom(*bonded)) }
                        .into(),
                )
                .map(|_| ())
                .map_err(|e| e.root_cause().to_string()),
            Op::Withdraw { d, v } => app
                .execute(aaddr(*d), DistributionMsg::WithdrawDelegatorReward { validator: vaddr(*v) }.into())
                .map(|_| ())
                .map_err(|e| e.root_cause().to_string()),
            Op::SetWithdraw { d, w } => {
                let address = match w {
                    Some(w) => aaddr(*w).to_string(),
                    None => "staking_module".to_string(),
                };
                app.execute(aaddr(*d), DistributionMsg::SetWithdrawAddress { address }.into())
                    .map(|_| ())
                    .map_err(|e| e.root_cause().to_string())
            }
            Op::Slash { v, p } => app
                .sudo(SudoMsg::Staking(StakingSudo::Slash { validator: vaddr(*v), percentage: Decimal::new(Uint128::new(p.0)) }))
                .map(|_| ())
                .map_err(|e| e.root_cause().to_string()),
            Op::Advance { dt } => {
                let dt = *dt;
                // both public ways of changing the block run the staking end blocker: alternate between them
                let mut nb = app.block_info();
                nb.time = nb.time.plus_nanos(dt);
                nb.height += 1;
                if nb.height % 2 == 0 {
                    app.set_block(nb);
                } else {
                    app.update_block(move |b| {
                        b.time = b.time.plus_nanos(dt);
                        b.height += 1;
                    });
                }
                Ok(())
            }
        });
        let (out, msg) = match r {
            Ok(Ok(())) => (Oc::Ok, None),
            Ok(Err(e)) => (Oc::Err, Some(e)),
            Err(p) => {
                if matches!(op, Op::Advance { .. }) && p.contains("called `Result::unwrap()` on an `Err` value") {
                    (Oc::BlockErr, Some(p))
                } else {
                    (Oc::Panic, Some(p))
                }
            }
        };
        if out == Oc::Panic || out == Oc::BlockErr {
            return Ob { out, snap: last.clone(), msg };
        }
        match self.snap() {
            Ok(snap) => Ob { out, snap, msg: if out == Oc::Ok { None } else { msg } },
            // a query panicked / failed after the op: the simulator panicked as far as the properties go
            Err(e) => Ob { out: Oc::Panic, snap: last.clone(), msg: Some(format!("query after the op: {}", e)) },
        }
    }
}

/// run a fixed op list; stops at the first panic / failed block update
pub fn run_ops(setup: &Setup, ops: &[Op]) -> Option<(Snap, Vec<Ob>)> {
    let mut r = Runner::new(setup).ok()?;
    let s0 = r.snap().ok()?;
    let mut obs: Vec<Ob> = vec![];
    let mut last = s0.clone();
    for op in ops {
        let ob = r.apply(op, &last);
        last = ob.snap.clone();
        let stop = ob.out == Oc::Panic || ob.out == Oc::BlockErr;
        obs.push(ob);
        if stop {
            break;
        }
    }
    Some((s0, obs))
}

// ---------- Coq printing ----------
fn cu(x: &U) -> String {
    x.0.to_string()
}
fn coq_setup(s: &Setup) -> String {
    format!(
        "(mkSetup {} {} {} {} {} {} {} {})",
        s.unbond,
        s.apr.0,
        coq_list(&s.vals, |(v, c)| format!("({},{})", v, c.0)),
        coq_list(&s.accts, |(a, b)| format!("({},{})", a, b.0)),
        coq_list(&s.accts[..s.ndel], |(a, _)| format!("{}", a)),
        s.t0,
        coq_text(&s.denom),
        coq_list(&s.xdenoms(), |d| coq_text(d))
    )
}
fn coq_op(o: &Op) -> String {
    match o {
        Op::Delegate { d, v, a, bonded } => format!("Delegate {} {} {} {}", d, v, a.0, coq_bool(*bonded)),
        Op::Undelegate { d, v, a, bonded } => format!("Undelegate {} {} {} {}", d, v, a.0, coq_bool(*bonded)),
        Op::Redelegate { d, src, dst, a, bonded } => format!("Redelegate {} {} {} {} {}", d, src, dst, a.0, coq_bool(*bonded)),
        Op::Withdraw { d, v } => format!("Withdraw {} {}", d, v),
        Op::SetWithdraw { d, w } => format!("SetWithdraw {} {}", d, coq_opt(w, |x| x.to_string())),
        Op::Slash { v, p } => format!("Slash {} {}", v, p.0),
        Op::Advance { dt } => format!("Advance {}", dt),
    }
}
fn coq_snap(s: &Snap) -> String {
    format!(
        "(mkSnap {} {} {} {} {} {} {} {})",
        coq_list(&s.del, |x| coq_opt(x, |(a, r)| format!("({},{})", a.0, r.0))),
        coq_list(&s.all, |row| coq_list(row, |(v, a)| format!("({},{})", v, a.0))),
        coq_list(&s.rew, |x| coq_opt(x, cu)),
        coq_list(&s.bal, cu),
        s.pool.0,
        s.sup.0,
        coq_list(&s.xall, |row| coq_list(row, |(d, a)| format!("({},{})", coq_text(d), a.0))),
        coq_list(&s.xsup, cu)
    )
}
fn coq_oc(o: Oc) -> &'static str {
    match o {
        Oc::Ok => "OOk",
        Oc::Err => "OErr",
        Oc::Panic => "OPanic",
        Oc::BlockErr => "OBlockErr",
    }
}

pub fn emit(out: &mut Out, prop: Prop, label: &str, setup: &Setup, ops: &[Op]) {
    let (s0, obs) = match run_ops(setup, ops) {
        Some(x) => x,
        None => {
            out.stat("setup_failed", 1);
            return;
        }
    };
    let executed = &ops[..obs.len()];
    let f = match prop {
        Prop::C14 => "c14",
        Prop::C15 => "c15",
        Prop::C16 => "c16",
    };
    let coq = format!(
        "{} {} {} {} {}",
        f,
        coq_setup(setup),
        coq_list(executed, coq_op),
        coq_snap(&s0),
        coq_list(&obs, |o| format!("({},{})", coq_oc(o.out), coq_snap(&o.snap)))
    );
    // distribution
    out.stat(&format!("cases_{}", label), 1);
    out.stat(&format!("n_delegators_{}", setup.ndel), 1);
    out.stat(&format!("n_validators_{}", setup.vals.len()), 1);
    let mut prev = &s0;
    let mut nontrivial_events = 0u64;
    for (op, ob) in executed.iter().zip(obs.iter()) {
        let k = match op {
            Op::Delegate { .. } => "delegate",
            Op::Undelegate { .. } => "undelegate",
            Op::Redelegate { .. } => "redelegate",
            Op::Withdraw { .. } => "withdraw",
            Op::SetWithdraw { .. } => "set_withdraw",
            Op::Slash { .. } => "slash",
            Op::Advance { .. } => "advance",
        };
        let o = match ob.out {
            Oc::Ok => "ok",
            Oc::Err => "err",
            Oc::Panic => "panic",
            Oc::BlockErr => "blockerr",
        };
        out.stat(&format!("op_{}_{}", k, o), 1);
        if ob.out == Oc::Ok {
            match op {
                Op::Advance { .. } => {
                    if ob.snap.pool != prev.pool {
                        out.stat("advance_with_payout", 1);
                        nontrivial_events += 1;
                    }
                }
                Op::Slash { p, .. } => {
                    if ob.snap.del != prev.del {
                        out.stat("slash_changing_a_delegation", 1);
                        nontrivial_events += 1;
                    }
                    if p.0 % (D18 / 100) != 0 {
                        out.stat("slash_fraction_finer_than_percent", 1);
                    }
                }
                Op::Withdraw { .. } => {
                    out.stat("withdraw_paying", 1);
                    nontrivial_events += 1;
                }
                Op::Undelegate { .. } | Op::Redelegate { .. } | Op::Delegate { .. } => {
                    nontrivial_events += 1;
                }
                _ => {}
            }
        }
        if let (Op::Undelegate { d, v, a, bonded: true }, Oc::Err) = (op, ob.out) {
            // refused although <= the displayed delegation (drifted validator total, see F9)
            let di = setup.accts.iter().position(|(x, _)| x == d);
            let vi = setup.vals.iter().position(|(x, _)| x == v);
            if let (Some(di), Some(vi)) = (di, vi) {
                if di < setup.ndel {
                    if let Some((amt, _)) = prev.del[di * setup.vals.len() + vi] {
                        if a.0 > 0 && a.0 <= amt.0 {
                            out.stat("undelegate_within_displayed_refused", 1);
                        }
                    }
                }
            }
        }
        prev = &ob.snap;
    }
    out.stat("ops_total", executed.len() as u64);
    out.push(Case {
        key: format!("{:?}{:?}", setup, executed),
        json: serde_json::json!({"label": label, "setup": setup, "ops": executed, "snap0": s0, "observed": obs}),
        coq,
        nontrivial: nontrivial_events >= 2,
    });
}

// ---------- fixed corpus: the witnesses of the findings (run first in every round) ----------
fn su(unbond: u64, apr: u128, vals: &[(u64, u128)], accts: &[(u64, u128)], ndel: usize, t0: u64) -> Setup {
    Setup {
        unbond,
        apr: U(apr),
        vals: vals.iter().map(|(v, c)| (*v, U(*c))).collect(),
        accts: accts.iter().map(|(a, b)| (*a, U(*b))).collect(),
        ndel,
        t0,
        denom: BONDED.to_string(),
    }
}
fn su_default_denom(mut s: Setup) -> Setup {
    s.denom = DEFAULT_DENOM.to_string();
    s
}
fn del(d: u64, v: u64, a: u128) -> Op {
    Op::Delegate { d, v, a: U(a), bonded: true }
}
fn undel(d: u64, v: u64, a: u128) -> Op {
    Op::Undelegate { d, v, a: U(a), bonded: true }
}
fn slash(v: u64, p: u128) -> Op {
    Op::Slash { v, p: U(p) }
}
fn adv_s(s: u64) -> Op {
    Op::Advance { dt: s * NS }
}

pub fn corpus() -> Vec<(&'static str, Setup, Vec<Op>)> {
    let pc = D18 / 100;
    vec![
        // F6 (fixed in 6bd8f99; must not panic): A delegates 2, B delegates 10, A undelegates 1,
        // slash 50 %, advance past the unbonding period twice, B delegates 1
        (
            "corpus_F6",
            su(60, 10 * pc, &[(1, 10 * pc)], &[(1, 1000), (2, 1000)], 2, T0),
            vec![del(1, 1, 2), del(2, 1, 10), undel(1, 1, 1), slash(1, 50 * pc), adv_s(61), adv_s(61), del(2, 1, 1), adv_s(100), Op::Withdraw { d: 2, v: 1 }],
        ),
        // F7 CommissionRounding: apr 1.000000000000000001, commission 1e-18, stake 31 536 000, 1 s
        (
            "corpus_F7",
            su(60, D18 + 1, &[(1, 1)], &[(1, 100_000_000), (2, 1000)], 2, T0),
            vec![del(1, 1, 31_536_000), adv_s(1), Op::Withdraw { d: 1, v: 1 }],
        ),
        // F8 TotalSlashWithRewards: delegate 1000, one year (90 pending), slash 100 %
        (
            "corpus_F8",
            su(60, 10 * pc, &[(1, 10 * pc)], &[(1, 5000), (2, 1000)], 2, T0),
            vec![del(1, 1, 1000), adv_s(YEAR), slash(1, D18), Op::Withdraw { d: 1, v: 1 }],
        ),
        // F9 DriftWipe: B delegates 19, 6 x slash 10 %, A delegates 2, B undelegates its displayed 10,
        // slash 50 % -> A's delegation None (expected 1)
        (
            "corpus_F9",
            su(60, 10 * pc, &[(1, 10 * pc)], &[(1, 1000), (2, 1000)], 2, T0),
            vec![
                del(2, 1, 19),
                slash(1, 10 * pc),
                slash(1, 10 * pc),
                slash(1, 10 * pc),
                slash(1, 10 * pc),
                slash(1, 10 * pc),
                slash(1, 10 * pc),
                del(1, 1, 2),
                undel(2, 1, 10),
                slash(1, 50 * pc),
            ],
        ),
        // drift, other consequences: the validator total reaches 0 while A still shows 2 staked:
        // A accrues nothing over ten years; then A's undelegation of 1 <= displayed 2 is refused
        (
            "corpus_drift_zero_total",
            su(60, 10 * pc, &[(1, 10 * pc)], &[(1, 1000), (2, 1000)], 2, T0),
            vec![
                del(2, 1, 19),
                slash(1, 10 * pc),
                slash(1, 10 * pc),
                slash(1, 10 * pc),
                slash(1, 10 * pc),
                slash(1, 10 * pc),
                slash(1, 10 * pc),
                del(1, 1, 2),
                undel(2, 1, 10),
                adv_s(10 * YEAR),
                Op::Withdraw { d: 1, v: 1 },
                undel(1, 1, 1),
            ],
        ),
        // invalid operations: zero amounts, foreign denom, unknown validator, over-undelegate /
        // over-redelegate, slash above 1 and of an unknown validator, invalid withdraw address
        (
            "corpus_invalid",
            // this scenario keeps the DEFAULT bonded denom "TOKEN"
            su_default_denom(su(10, 10 * pc, &[(1, 0), (2, 50 * pc)], &[(1, 30), (2, 1000), (3, 0)], 2, T0 - T0 % NS)),
            vec![
                del(1, 1, 0),
                Op::Delegate { d: 1, v: 1, a: U(5), bonded: false },
                del(1, 9, 5),
                del(1, 1, 31),
                del(1, 1, 20),
                undel(1, 1, 21),
                undel(1, 1, 0),
                Op::Undelegate { d: 1, v: 1, a: U(5), bonded: false },
                undel(1, 9, 5),
                undel(2, 1, 1),
                Op::Redelegate { d: 1, src: 1, dst: 2, a: U(21), bonded: true },
                Op::Redelegate { d: 1, src: 1, dst: 9, a: U(1), bonded: true },
                Op::Redelegate { d: 1, src: 9, dst: 1, a: U(1), bonded: true },
                Op::Redelegate { d: 1, src: 1, dst: 2, a: U(1), bonded: false },
                Op::Redelegate { d: 1, src: 1, dst: 2, a: U(0), bonded: true },
                Op::Redelegate { d: 1, src: 1, dst: 1, a: U(3), bonded: true },
                Op::Redelegate { d: 1, src: 1, dst: 2, a: U(7), bonded: true },
                slash(1, D18 + 1),
                slash(9, 10 * pc),
                Op::SetWithdraw { d: 1, w: None },
                Op::Withdraw { d: 1, v: 1 },
                Op::Withdraw { d: 1, v: 9 },
                Op::Withdraw { d: 2, v: 1 },
                Op::SetWithdraw { d: 1, w: Some(3) },
                adv_s(YEAR),
                Op::Withdraw { d: 1, v: 1 },
                Op::SetWithdraw { d: 1, w: Some(1) },
                adv_s(YEAR),
                Op::Withdraw { d: 1, v: 1 },
                undel(1, 1, 13),
                undel(1, 2, 7),
                adv_s(9),
                Op::Advance { dt: NS - 1 },
                Op::Advance { dt: 1 },
            ],
        ),
        // pending unbondings on two validators, slash of one: only its entries shrink
        (
            "corpus_slash_queue",
            su(100, 10 * pc, &[(1, 10 * pc), (2, 20 * pc)], &[(1, 1000), (2, 1000)], 2, T0),
            vec![
                del(1, 1, 15),
                del(1, 2, 15),
                del(2, 1, 7),
                undel(1, 1, 5),
                undel(1, 2, 5),
                undel(2, 1, 3),
                slash(1, D18 / 3),
                adv_s(50),
                undel(1, 1, 3),
                slash(2, 1),
                slash(1, 0),
                adv_s(50),
                adv_s(49),
                adv_s(1),
            ],
        ),
    ]
}

// ---------- generators ----------
struct Gen<'a> {
    rng: &'a mut Rng,
    prop: Prop,
}

fn dec18(rng: &mut Rng, max_whole: u64) -> u128 {
    // an 18-digit fraction, optionally with a small whole part
    let whole = rng.below(max_whole + 1) as u128;
    let frac = (rng.next() as u128 * 7919 + rng.next() as u128) % D18;
    whole * D18 + frac
}

impl Gen<'_> {
    fn setup(&mut self) -> Setup {
        let rng = &mut *self.rng;
        let pc = D18 / 100;
        let ndel = rng.range(2, 4) as usize;
        let nextra = rng.below(2) as usize;
        let nvals = rng.range(1, 3) as usize;
        let unbond = *rng.pick(&[1u64, 10, 60, 60, 3600, 1_814_400]);
        let apr = match self.prop {
            Prop::C15 => match rng.below(8) {
                0 => 10 * pc,
                1 => D18 + 1,
                2 => 1,
                3 => 3 * D18 + 141_592_653_589_793_238,
                4 => 0,
                _ => {
                    let w = if rng.chance(1, 3) { 2 } else { 0 };
                    dec18(rng, w)
                }
            },
            _ => *rng.pick(&[10 * pc, 10 * pc, 0, D18, 75 * pc / 10, D18 + 1, 123_456_789_012_345_678]),
        };
        let mut vals = vec![];
        for i in 0..nvals {
            let c = match rng.below(8) {
                0 => 0,
                1 => 10 * pc,
                2 => 50 * pc,
                3 => D18,
                4 => 1,
                5 => D18 - 1,
                _ => dec18(rng, 0),
            };
            vals.push((i as u64 + 1, U(c)));
        }
        let mut accts = vec![];
        for i in 0..ndel + nextra {
            let b = match rng.below(10) {
                0 => rng.range(0, 25) as u128,
                1 => 100,
                _ => 100_000_000,
            };
            accts.push((i as u64 + 1, U(if i >= ndel { 0 } else { b })));
        }
        let t0 = match rng.below(4) {
            0 => T0,
            1 => T0 - T0 % NS,
            2 => T0 - T0 % NS + NS - 1,
            _ => T0 + rng.below(NS),
        };
        // mostly a non-default bonded denom; sometimes another one; rarely the default
        let denom = match rng.below(12) {
            0 => DEFAULT_DENOM,
            1 | 2 => "uatom",
            _ => BONDED,
        }
        .to_string();
        Setup { unbond, apr: U(apr), vals, accts, ndel, t0, denom }
    }

    fn amount(&mut self, displayed: u128) -> u128 {
        let rng = &mut *self.rng;
        let big = self.prop == Prop::C15 && rng.chance(1, 2);
        if displayed > 0 && rng.chance(1, 2) {
            // within what is delegated
            return rng.range(1, displayed.min(u64::MAX as u128) as u64) as u128;
        }
        match rng.below(20) {
            0 => 0,
            1 | 6 => displayed,
            2 => displayed + 1,
            3 | 7 => displayed.saturating_sub(1),
            4 => rng.range(21, 300) as u128,
            5 => 31_536_000,
            _ => {
                if big {
                    rng.range(50, 5000) as u128
                } else {
                    rng.range(1, 20) as u128
                }
            }
        }
    }

    fn fraction(&mut self) -> u128 {
        let rng = &mut *self.rng;
        let pc = D18 / 100;
        match rng.below(12) {
            0 => 0,
            1 => 1,
            2 => D18 / 3,
            3 => 2 * (D18 / 3),
            4 | 5 => 10 * pc,
            6 | 7 => 50 * pc,
            8 => D18,
            9 => D18 + 1,
            10 => D18 - 1,
            _ => dec18(rng, 0),
        }
    }

    fn dt(&mut self, unbond: u64) -> u64 {
        let rng = &mut *self.rng;
        let u = unbond * NS;
        let long = self.prop == Prop::C15 || rng.chance(1, 4);
        let lo = if self.prop == Prop::C15 && rng.chance(1, 2) { 11 } else { 0 };
        match rng.range(lo, if long { 15 } else { 11 }) {
            0 => 0,
            1 => 1,
            2 => NS - 1,
            3 => NS,
            4 => u - 1,
            5 => u,
            6 => u + 1,
            7 => 2 * u,
            8 => rng.below(2 * u + 1),
            9 => rng.below(2 * unbond + 1) * NS,
            10 => rng.below(NS),
            11 => rng.range(1, 120) * NS,
            12 => YEAR * NS,
            13 => rng.range(1, 400) * 86_400 * NS,
            14 => rng.below(3 * YEAR * NS),
            _ => YEAR * NS / 2 + rng.below(NS),
        }
    }

    fn history(&mut self, label: &str, out: &mut Out) {
        let setup = self.setup();
        let mut runner = match Runner::new(&setup) {
            Ok(r) => r,
            Err(_) => {
                out.stat("setup_failed", 1);
                return;
            }
        };
        let mut last = match runner.snap() {
            Ok(s) => s,
            Err(_) => return,
        };
        let n = self.rng.range(5, 60) as usize;
        let nv = setup.vals.len();
        let mut ops: Vec<Op> = vec![];
        // weights per property: delegate undelegate redelegate withdraw setwithdraw slash advance
        let w: [u64; 7] = match self.prop {
            Prop::C14 => [24, 20, 10, 6, 3, 9, 28],
            Prop::C15 => [18, 8, 6, 22, 6, 5, 35],
            Prop::C16 => [22, 16, 8, 6, 2, 24, 22],
        };
        let total: u64 = w.iter().sum();
        let mut split_left = 0u64; // C15: remaining blocks of a split interval
        let mut split_dt = 0u64;
        while ops.len() < n {
            let rng = &mut *self.rng;
            let mut di = rng.below(setup.ndel as u64) as usize;
            let mut vi = rng.below(nv as u64) as usize;
            // three times out of four aim at a pair that has a delegation (resp. a pending reward)
            if rng.chance(3, 4) {
                let want_reward = rng.chance(1, 2);
                let cands: Vec<usize> = (0..setup.ndel * nv)
                    .filter(|i| match last.del[*i] {
                        Some((a, r)) => a.0 > 0 && (!want_reward || r.0 > 0),
                        None => false,
                    })
                    .collect();
                if !cands.is_empty() {
                    let c = cands[rng.below(cands.len() as u64) as usize];
                    di = c / nv;
                    vi = c % nv;
                }
            }
            let fresh_d = rng.below(setup.ndel as u64) as usize;
            let fresh_v = rng.below(nv as u64) as usize;
            let d = setup.accts[di].0;
            let v = if rng.chance(1, 40) { 99 } else { setup.vals[vi].0 };
            let displayed = last.del[di * nv + vi].map(|x| x.0 .0).unwrap_or(0);
            let bonded = !rng.chance(1, 40);
            let op = if split_left > 0 {
                split_left -= 1;
                if rng.chance(1, 5) {
                    Op::Withdraw { d, v }
                } else {
                    Op::Advance { dt: split_dt }
                }
            } else {
                let mut c = rng.below(total);
                let mut k = 0;
                while c >= w[k] {
                    c -= w[k];
                    k += 1;
                }
                match k {
                    0 => {
                        if self.rng.chance(1, 2) {
                            let a = self.amount(0);
                            Op::Delegate { d: setup.accts[fresh_d].0, v: setup.vals[fresh_v].0, a: U(a), bonded }
                        } else {
                            Op::Delegate { d, v, a: U(self.amount(displayed)), bonded }
                        }
                    }
                    1 => Op::Undelegate { d, v, a: U(self.amount(displayed)), bonded },
                    2 => {
                        let wi = self.rng.below(nv as u64) as usize;
                        let dst = if self.rng.chance(1, 40) { 99 } else { setup.vals[wi].0 };
                        Op::Redelegate { d, src: v, dst, a: U(self.amount(displayed)), bonded }
                    }
                    3 => Op::Withdraw { d, v },
                    4 => {
                        let w = if self.rng.chance(1, 8) {
                            None
                        } else {
                            Some(setup.accts[self.rng.below(setup.accts.len() as u64) as usize].0)
                        };
                        Op::SetWithdraw { d, w }
                    }
                    5 => Op::Slash { v, p: U(self.fraction()) },
                    _ => {
                        if self.prop == Prop::C15 && self.rng.chance(1, 4) {
                            // the same interval cut into 1..50 blocks
                            let parts = self.rng.range(1, 50);
                            let whole = self.dt(setup.unbond).max(parts);
                            split_dt = whole / parts;
                            split_left = parts - 1;
                            Op::Advance { dt: split_dt }
                        } else {
                            Op::Advance { dt: self.dt(setup.unbond) }
                        }
                    }
                }
            };
            let ob = runner.apply(&op, &last);
            let stop = ob.out == Oc::Panic || ob.out == Oc::BlockErr;
            last = ob.snap;
            ops.push(op);
            if stop {
                break;
            }
        }
        drop(runner);
        emit(out, self.prop, label, &setup, &ops);
    }
}

pub fn run(args: &Args, prop: Prop) {
    let mut out = Out::new(&args.out, "From Verif Require Import Base Dec Staking Chk14.");
    if let Some(p) = &args.replay {
        let v: serde_json::Value = serde_json::from_slice(&std::fs::read(p).unwrap()).unwrap();
        let case = v.get("case").unwrap_or(&v);
        let setup: Setup = serde_json::from_value(case["setup"].clone()).unwrap();
        let ops: Vec<Op> = serde_json::from_value(case["ops"].clone()).unwrap();
        emit(&mut out, prop, "replay", &setup, &ops);
        out.finish(50, "replay");
        return;
    }
    for (label, setup, ops) in corpus() {
        emit(&mut out, prop, label, &setup, &ops);
    }
    let mut rng = Rng::new(args.seed ^ ((prop as u64 + 1) << 32));
    let n = if args.thorough { 4000 } else { 320 } * args.scale;
    for _ in 0..n {
        let mut r = rng.fork();
        let mut g = Gen { rng: &mut r, prop };
        g.history("generated", &mut out);
    }
    out.finish(
        25,
        "cases = fixed corpus (witnesses of F6-F9, drift with zero validator total, invalid operations, slashed queues on two validators; bonded denom \"ustake\", the invalid-operations scenario on the default \"TOKEN\") + scenarios with a NON-default bonded denomination (ustake / uatom, 1 in 12 the default) observed in the bonded denom AND in every other denomination (AllBalances, supply of the default and the foreign denom) + PRNG-generated histories of 5-60 operations over 2-4 delegators x 1-3 validators (generated adaptively against the running implementation so that amounts hit the displayed delegation, replayed from the recorded op list); distinct by SHA-256 of setup+ops; non-trivial = at least two successful state-changing operations (delegate / undelegate / redelegate / paying withdrawal / slash changing a delegation / block advance with a payout)",
    );
}
