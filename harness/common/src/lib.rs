//! Shared helpers: PRNG (one xorshift state per run), Coq term printing, case-file writer.
use serde::Serialize;
use std::fmt::Write as _;
use std::io::Write as _;
use std::path::{Path, PathBuf};

#[derive(Clone)]
pub struct Rng(pub u64);
impl Rng {
    pub fn new(seed: u64) -> Self {
        let mut r = Rng(seed.wrapping_mul(0x9E37_79B9_7F4A_7C15).wrapping_add(0x1234_5678_9ABC_DEF1) | 1);
        for _ in 0..8 {
            r.next();
        }
        r
    }
    pub fn next(&mut self) -> u64 {
        let mut x = self.0;
        x ^= x << 13;
        x ^= x >> 7;
        x ^= x << 17;
        self.0 = x;
        x
    }
    pub fn below(&mut self, n: u64) -> u64 {
        if n == 0 {
            0
        } else {
            self.next() % n
        }
    }
    pub fn range(&mut self, lo: u64, hi: u64) -> u64 {
        lo + self.below(hi - lo + 1)
    }
    pub fn chance(&mut self, num: u64, den: u64) -> bool {
        self.below(den) < num
    }
    pub fn pick<'a, T>(&mut self, v: &'a [T]) -> &'a T {
        &v[self.below(v.len() as u64) as usize]
    }
    pub fn fork(&mut self) -> Rng {
        Rng::new(self.next())
    }
}

/// bytes as a Coq `list N` term (N_scope open in the case file); long strings run-length encoded
pub fn coq_bytes(b: &[u8]) -> String {
    if b.len() <= 48 {
        let mut s = String::from("[");
        for (i, x) in b.iter().enumerate() {
            if i > 0 {
                s.push(';');
            }
            write!(s, "{}", x).unwrap();
        }
        s.push(']');
        s
    } else {
        let mut runs: Vec<(u8, usize)> = vec![];
        for &x in b {
            match runs.last_mut() {
                Some((y, n)) if *y == x => *n += 1,
                _ => runs.push((x, 1)),
            }
        }
        let mut s = String::from("(rle [");
        for (i, (x, n)) in runs.iter().enumerate() {
            if i > 0 {
                s.push(';');
            }
            write!(s, "({},{})", x, n).unwrap();
        }
        s.push_str("])");
        s
    }
}
pub fn coq_opt<T, F: Fn(&T) -> String>(o: &Option<T>, f: F) -> String {
    match o {
        None => "None".into(),
        Some(x) => format!("(Some {})", f(x)),
    }
}
pub fn coq_list<T, F: Fn(&T) -> String>(l: &[T], f: F) -> String {
    let mut s = String::from("[");
    for (i, x) in l.iter().enumerate() {
        if i > 0 {
            s.push_str("; ");
        }
        s.push_str(&f(x));
    }
    s.push(']');
    s
}
pub fn coq_kv(kv: &(Vec<u8>, Vec<u8>)) -> String {
    format!("({},{})", coq_bytes(&kv.0), coq_bytes(&kv.1))
}
pub fn coq_bool(b: bool) -> &'static str {
    if b {
        "true"
    } else {
        "false"
    }
}
/// text as list of Unicode scalar values
pub fn coq_text(s: &str) -> String {
    let v: Vec<u32> = s.chars().map(|c| c as u32).collect();
    let mut o = String::from("[");
    for (i, x) in v.iter().enumerate() {
        if i > 0 {
            o.push(';');
        }
        write!(o, "{}", x).unwrap();
    }
    o.push(']');
    o
}

/// One correspondence case: the Coq expression evaluating to a verdict, and the JSON form for
/// replay / evidence samples.
pub struct Case {
    pub coq: String,
    pub json: serde_json::Value,
    /// canonical hash input for distinctness
    pub key: String,
    /// non-trivial by the property's stated rule
    pub nontrivial: bool,
}

pub struct Out {
    pub dir: PathBuf,
    pub header: String,
    pub cases: Vec<Case>,
    pub stats: std::collections::BTreeMap<String, u64>,
    /// extra vernacular lines written after the header of every shard (e.g. interned constants)
    pub prelude: Vec<String>,
}

impl Out {
    pub fn new(dir: &Path, header: &str) -> Self {
        Out { dir: dir.to_path_buf(), header: header.into(), cases: vec![], stats: Default::default(), prelude: vec![] }
    }
    pub fn stat(&mut self, k: &str, n: u64) {
        *self.stats.entry(k.to_string()).or_insert(0) += n;
    }
    pub fn push(&mut self, c: Case) {
        self.cases.push(c);
    }
    /// write cases_<i>.v shards (<= per_shard cases each), cases.json and stats.json
    pub fn finish(self, per_shard: usize, rule: &str) {
        std::fs::create_dir_all(&self.dir).unwrap();
        for e in std::fs::read_dir(&self.dir).unwrap() {
            let p = e.unwrap().path();
            let n = p.file_name().unwrap().to_string_lossy().to_string();
            if n.starts_with("cases_") || n == "cases.json" || n == "stats.json" {
                let _ = std::fs::remove_file(p);
            }
        }
        let mut distinct = std::collections::BTreeSet::new();
        let mut distinct_nt = std::collections::BTreeSet::new();
        for c in &self.cases {
            use sha2::Digest;
            let h = hex::encode(&sha2::Sha256::digest(c.key.as_bytes())[..12]);
            if c.nontrivial {
                distinct_nt.insert(h.clone());
            }
            distinct.insert(h);
        }
        let nshards = (self.cases.len() + per_shard - 1) / per_shard.max(1);
        for sh in 0..nshards {
            let mut f = std::io::BufWriter::new(
                std::fs::File::create(self.dir.join(format!("cases_{}.v", sh))).unwrap(),
            );
            writeln!(f, "{}", self.header).unwrap();
            writeln!(f, "Local Open Scope N_scope.").unwrap();
            for l in &self.prelude {
                writeln!(f, "{}", l).unwrap();
            }
            for (i, c) in self.cases.iter().enumerate().skip(sh * per_shard).take(per_shard) {
                writeln!(f, "Eval vm_compute in (Tag {}, {}).", i, c.coq).unwrap();
            }
        }
        let js: Vec<&serde_json::Value> = self.cases.iter().map(|c| &c.json).collect();
        std::fs::write(self.dir.join("cases.json"), serde_json::to_vec(&js).unwrap()).unwrap();
        #[derive(Serialize)]
        struct Stats<'a> {
            evaluations: usize,
            distinct: usize,
            distinct_nontrivial: usize,
            shards: usize,
            rule: &'a str,
            distribution: &'a std::collections::BTreeMap<String, u64>,
        }
        let st = Stats {
            evaluations: self.cases.len(),
            distinct: distinct.len(),
            distinct_nontrivial: distinct_nt.len(),
            shards: nshards,
            rule,
            distribution: &self.stats,
        };
        std::fs::write(self.dir.join("stats.json"), serde_json::to_vec_pretty(&st).unwrap()).unwrap();
    }
}

pub struct Args {
    pub seed: u64,
    pub thorough: bool,
    pub out: PathBuf,
    pub replay: Option<PathBuf>,
    pub scale: u64,
}

/// run `f` catching panics (the panic message is returned)
pub fn catch<T>(f: impl FnOnce() -> T) -> Result<T, String> {
    match std::panic::catch_unwind(std::panic::AssertUnwindSafe(f)) {
        Ok(x) => Ok(x),
        Err(e) => Err(if let Some(s) = e.downcast_ref::<&str>() {
            s.to_string()
        } else if let Some(s) = e.downcast_ref::<String>() {
            s.clone()
        } else {
            "panic".to_string()
        }),
    }
}

/// `<bin> [--seed N] [--tier quick|thorough] [--out DIR] [--replay FILE] [--scale K]`
/// (also silences the messages of caught panics: they are outcomes, not crashes of the harness)
pub fn parse_args(prop: &str) -> Args {
    let a: Vec<String> = std::env::args().collect();
    let mut args = Args { seed: 1, thorough: false, out: PathBuf::from(format!("out/{}", prop)), replay: None, scale: 1 };
    let mut i = 1;
    while i < a.len() {
        match a[i].as_str() {
            "--seed" => {
                args.seed = a[i + 1].parse().expect("seed");
                i += 2
            }
            "--tier" => {
                args.thorough = a[i + 1] == "thorough";
                i += 2
            }
            "--out" => {
                args.out = PathBuf::from(&a[i + 1]);
                i += 2
            }
            "--replay" => {
                args.replay = Some(PathBuf::from(&a[i + 1]));
                i += 2
            }
            "--scale" => {
                args.scale = a[i + 1].parse().expect("scale");
                i += 2
            }
            x => panic!("unknown argument {}", x),
        }
    }
    // panics inside cw-multi-test are outcomes (caught by `catch`); keep them quiet unless asked
    if std::env::var("VERIF_SHOW_PANICS").is_err() {
        std::panic::set_hook(Box::new(|_| {}));
    }
    args
}
