//! C02: a failed sub-message leaves no trace; caught only if reply_on says so.
use exec_common::gen::Cfg;
use exec_common::*;
fn main() {
    let mut cfg = Cfg::default();
    cfg.doomed_subs = true;
    cfg.self_admin = true;
    cfg.wrapped_codes = true;
    cfg.set_remove_bias = true;
    cfg.p_fail = 25;
    cfg.max_depth = 5;
    cfg.max_nodes = 22;
    cfg.helpers = false;
    cfg.n_steps = (2, 5);
    run_prop("C02", "c02", cfg, 150, 1500, vec![],
        "scenarios as for C01 with body failure probability 25 %, depth <= 5, every reply_on mode; every program writes a unique marker into its own storage first; distinct by SHA-256; non-trivial = a reply with Err was delivered (a failed sub-message was caught) or a top-level call failed below the root",
        &|_, obs| obs.iter().any(|o| o.trace.iter().any(|e| matches!(e, Entry::Call { rep: Some((_, _, RRes::Err)), .. }))));
}
