#!/bin/sh
# Build the framework from files on disk only (offline): Coq models + theorems, harness, translator.
set -e
cd "$(dirname "$0")"
export CARGO_NET_OFFLINE=true
( cd coq && coq_makefile -f _CoqProject -o Makefile >/dev/null && timeout 3000 make -j16 2>&1 | grep -v "^Closed under" | tail -20 )
( cd harness && cargo build --offline 2>&1 | tail -3 )
if [ -d translator ]; then ( cd translator && cargo build --offline --release 2>&1 | tail -3 ); fi
echo setup done
