#!/bin/sh
# Build the framework from files on disk only (offline): Coq models + theorems, harness, translator.
set -e
cd "$(dirname "$0")"
export CARGO_NET_OFFLINE=true
if [ -d translator ]; then
  ( cd translator && cargo build --offline --release 2>&1 | tail -3 ) || true
  if [ -x translator/target/release/translator ]; then mkdir -p out; translator/target/release/translator /repo/src coq/Generated.v out/translator_report.json || true; fi
fi
( cd coq && coq_makefile -f _CoqProject -o Makefile >/dev/null && timeout 3000 make -k -j16 2>&1 | grep -v "^Closed under" | tail -20 ) || true
# one crate per property: a member that does not build must not block the others
( cd harness && for m in $(sed -n 's/^members = \[\(.*\)\]/\1/p' Cargo.toml | tr -d '",'); do cargo build --offline -p "$m" 2>&1 | tail -2 || true; done )
echo setup done
