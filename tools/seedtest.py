#!/usr/bin/env python3
"""seedtest.py <Cxx> <mK> [--checks C01,C02] [--keep]

Confirms a seeded change produced by an independent sub-agent in its scratch worktree /tmp/wt-<Cxx>
(out/<mK>/patch.diff + demo.rs), WITHOUT touching /repo:
  1. demo passes on the unchanged worktree;
  2. with the patch: the crate's own test suite (BASELINE command, default features) still passes,
     and the demo fails;
  3. runs the registered check(s) against the patched worktree (check.py mirror mode, VERIF_REPO) and
     records whether a VIOLATION is reported;
  4. restores the worktree.
With --keep (and 1-2 confirmed) the change is stored as /verif/seeded/<Cxx>-<mK>/ {patch.diff, demo.rs,
notes.md, meta.json}.
"""
import json, os, re, shutil, subprocess, sys, time

ALLF = "staking,stargate,cosmwasm_2_2"


def sh(cmd, cwd, timeout=3600):
    env = dict(os.environ, CARGO_NET_OFFLINE="true")
    env.pop("VERIF_REPO", None)
    p = subprocess.run(cmd, cwd=cwd, shell=isinstance(cmd, str), stdout=subprocess.PIPE, stderr=subprocess.STDOUT,
                       text=True, errors="replace", timeout=timeout, env=env)
    return p.returncode, p.stdout


def restore(wt):
    sh("git checkout -- . ", wt)
    for f in os.listdir(os.path.join(wt, "tests")):
        if f.startswith("demo_"):
            os.remove(os.path.join(wt, "tests", f))


def run_demo(wt, name):
    """returns (ok, features_used, tail); all features first (staking / stargate code only exists with them,
    and a cfg-gated demo would vacuously pass without), default features if that does not compile"""
    feats = ALLF + ",verif"
    rc, out = sh("cargo test --offline --features %s --test %s 2>&1" % (feats, name), wt)
    if rc != 0 and ("error[E" in out or "could not compile" in out):
        rc, out = sh("cargo test --offline --test %s 2>&1" % name, wt)
        feats = ""
    ran = sum(int(x) for x in re.findall(r"test result: \w+\. (\d+) passed", out)) + sum(int(x) for x in re.findall(r"passed; (\d+) failed", out))
    return rc == 0 and ran > 0, feats, out[-1500:]


def main():
    a = sys.argv[1:]
    pid, mk = a[0], a[1]
    checks = [pid]
    keep = "--keep" in a
    if "--checks" in a:
        checks = a[a.index("--checks") + 1].split(",")
    wt = "/tmp/wt-" + pid
    src = os.path.join(wt, "out", mk)
    res = dict(property=pid, change=mk, worktree=wt, at=time.strftime("%Y-%m-%dT%H:%M:%S"))
    restore(wt)
    demo = "demo_%s" % mk
    shutil.copy(os.path.join(src, "demo.rs"), os.path.join(wt, "tests", demo + ".rs"))
    ok, feats, tail = run_demo(wt, demo)
    res["demo_passes_unpatched"] = ok
    res["demo_features"] = feats
    if not ok:
        res["demo_unpatched_tail"] = tail
    rc, out = sh("git apply --whitespace=nowarn %s" % os.path.join(src, "patch.diff"), wt)
    res["patch_applies"] = rc == 0
    if rc != 0:
        res["apply_output"] = out[-800:]
        restore(wt)
        print(json.dumps(res, indent=1))
        return 1
    # baseline suite (demo file moved away so that it is exactly the existing suite)
    os.rename(os.path.join(wt, "tests", demo + ".rs"), os.path.join(wt, "out", demo + ".rs.tmp"))
    rc, out = sh("cargo test --workspace --no-fail-fast --offline 2>&1", wt)
    passed = sum(int(x) for x in re.findall(r"test result: \w+\. (\d+) passed", out))
    failed = sum(int(x) for x in re.findall(r"test result: \w+\. \d+ passed; (\d+) failed", out))
    res["baseline_with_patch"] = dict(rc=rc, passed=passed, failed=failed)
    rc2, out2 = sh("cargo test --no-fail-fast --offline --features %s 2>&1" % ALLF, wt)
    p2 = sum(int(x) for x in re.findall(r"test result: \w+\. (\d+) passed", out2))
    f2 = sum(int(x) for x in re.findall(r"test result: \w+\. \d+ passed; (\d+) failed", out2))
    res["allfeatures_with_patch"] = dict(rc=rc2, passed=p2, failed=f2,
                                         failing=re.findall(r"^test (\S+) \.\.\. FAILED", out2, re.M)[:10])
    os.rename(os.path.join(wt, "out", demo + ".rs.tmp"), os.path.join(wt, "tests", demo + ".rs"))
    ok2, _, tail2 = run_demo(wt, demo)
    res["demo_fails_patched"] = not ok2
    res["demo_patched_tail"] = tail2[-600:]
    os.remove(os.path.join(wt, "tests", demo + ".rs"))
    # our checks against the patched worktree (mirror mode: /repo and /verif untouched)
    res["checks"] = {}
    for c in checks:
        t0 = time.time()
        p = subprocess.run([sys.executable, "/verif/check.py", c, "--tier", "quick"], cwd="/verif",
                           env=dict(os.environ, VERIF_REPO=wt, CARGO_NET_OFFLINE="true"),
                           stdout=subprocess.PIPE, stderr=subprocess.STDOUT, text=True, errors="replace", timeout=7200)
        lines = [l for l in p.stdout.splitlines() if l.startswith(("VIOLATION", "KNOWN-FINDING", "[", "INFRA"))]
        res["checks"][c] = dict(exit=p.returncode, lines=lines[-8:], wall_s=round(time.time() - t0, 1))
        if p.returncode not in (0, 1):
            res["checks"][c]["tail"] = p.stdout[-1500:]
    restore(wt)
    confirmed = (res["demo_passes_unpatched"] and res["demo_fails_patched"] and
                 res["baseline_with_patch"]["rc"] == 0 and res["baseline_with_patch"]["passed"] >= 198)
    res["confirmed"] = confirmed
    res["caught_by"] = [c for c, v in res["checks"].items() if v["exit"] == 1]
    print(json.dumps(res, indent=1))
    if keep and confirmed:
        d = "/verif/seeded/%s-%s" % (pid, mk)
        os.makedirs(d, exist_ok=True)
        for f in ("patch.diff", "demo.rs", "notes.md"):
            if os.path.exists(os.path.join(src, f)):
                shutil.copy(os.path.join(src, f), os.path.join(d, f))
        notes = open(os.path.join(src, "notes.md")).read() if os.path.exists(os.path.join(src, "notes.md")) else ""
        meta = dict(property=pid, change=mk, breaks=pid,
                    needs_to_manifest=notes[:1500],
                    ran=["demo without patch: pass", "demo with patch: fail",
                         "cargo test --workspace --no-fail-fast --offline with patch: %d passed, %d failed" % (passed, failed),
                         "cargo test --features %s with patch: %d passed, %d failed" % (ALLF, p2, f2)] +
                        ["VERIF_REPO=<patched worktree> python3 /verif/check.py %s --tier quick -> exit %d %s" %
                         (c, v["exit"], "; ".join(l for l in v["lines"] if l.startswith("VIOLATION"))) for c, v in res["checks"].items()],
                    caught_by=res["caught_by"], confirmed_at=res["at"])
        json.dump(meta, open(os.path.join(d, "meta.json"), "w"), indent=1)
        print("kept as", d)
    return 0


if __name__ == "__main__":
    sys.exit(main())
