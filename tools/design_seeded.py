#!/usr/bin/env python3
"""Regenerates the table of section 11 of DESIGN.md (between the markers) from seeded/*/meta.json."""
import glob, json, os, re

DESC = {
 'C01-m1': "`execute_multi` maps `execute` over the messages: each message commits separately; a failure at position >= 2 keeps its predecessors' writes",
 'C01-m2': "`StorageTransaction::remove` of a key with a pending Set drops the entry and its log ops and records no Delete: an overwrite-then-remove of a committed key is lost at commit",
 'C01-m3': "`StorageTransaction::set` returns early when the new value equals what the BACKING store holds (ignoring its own pending entry): A -> B -> A within one transaction commits B",
 'C01-m4': "success reply moved inside the sub-message's `transactional` closure: with `ReplyOn::Always` a failing success-reply is rolled back together with the sub-message, reply runs again with Err, the call returns Ok with a partial tree",
 'C02-m1': "per-sub-message cache only for `ReplyOn::Always|Success`: a failure caught with `ReplyOn::Error` leaves the failed subtree's completed work behind",
 'C02-m2': "contract metadata memoised in the keeper outside storage: a rolled-back instantiate / migrate / admin change stays visible",
 'C02-m3': "`execute_submsg` rewritten with `and_then`: an error from the success-reply is treated as a failed sub-message (second reply with Err; parent continues)",
 'C02-m4': "same site and kind as C01-m3 (write elision against the backing store) seen from C02: a restoring write by a reply / sibling is lost",
 'C03-m1': "failure branch replies unless `Never`: a failed sub-message with `ReplyOn::Success` gets an Err reply and the error is swallowed",
 'C03-m2': "the Reply built for a FAILED sub-message carries an empty payload",
 'C03-m3': "same change as C02-m3 seen from C03: reply invoked twice (Ok, then Err) for one sub-message under `ReplyOn::Always`",
 'C03-m4': "messages returned by `migrate` are processed on behalf of the admin: replies are delivered to the admin, not to the migrated contract",
 'C04-m1': "successful sub-message with `ReplyOn::Error` keeps its data: it overrides the parent's own data although no reply ran",
 'C04-m2': "custom events without attributes are filtered out of the response",
 'C04-m3': "`sub_response.data.filter(|d| !d.is_empty()).or(data)`: an empty-but-present reply data no longer overrides earlier data",
 'C04-m4': "`Migrate` wraps the data BEFORE the sub-messages are processed: reply data set during a migrate comes back raw",
 'C05-m1': "messages returned by `migrate` are dispatched with the migrating admin as sender",
 'C05-m2': "attached funds are not transferred (nor checked) when a contract calls itself: an unaffordable self-call runs",
 'C05-m3': "sub-message cache only for `ReplyOn::Error`: a failed `Always` sub-message keeps the attached funds it had received",
 'C05-m4': "`instantiate` runs before its attached funds are moved (own balance 0 at entry; unaffordable deposits run the contract)",
 'C06-m1': "`remove` of a key with a pending Set drops the tombstone (log still has the Delete): base value resurfaces in get/range before commit",
 'C06-m2': "`range_bounds` turns an empty end bound into 'unbounded' on the overlay side only",
 'C06-m3': "merge iterator skips a run of tombstones regardless of order: descending ranges resurrect a removed key",
 'C06-m4': "`set` elides writes equal to the BACKING store's value: remove-then-set-back (or overwrite-then-restore) is lost in get/range and at commit",
 'C07-m1': "`filter(starts_with)` -> `take_while(starts_with)` in `range_with_prefix` (descending, namespace ending in 0xFF, a short raw key below)",
 'C07-m2': "`namespace_upper_bound` carry loop starts at index 1: all-0xFF namespaces of length 255, 511, ... get an empty unbounded range",
 'C07-m3': "read-only multilevel view takes a 'not nested' fast path for <= 1 segment: the zero-segment path gets prefix 00 00 instead of the empty prefix",
 'C07-m4': "an explicit empty end bound `Some(b\"\")` is treated as no end bound in `range_with_prefix`",
 'C08-m1': "`range_with_prefix` skips the raw key equal to the prefix: the record under the empty key vanishes from dumps and iteration",
 'C08-m2': "`contract_namespace` lower-cases the address: contracts whose addresses differ only in case share storage (needs a custom address generator)",
 'C08-m3': "`MergeOverlay`: equal keys no longer drop the record from below unless the overlay entry is a delete: an overwritten key is listed twice while the transaction is open",
 'C08-m4': "`dump_wasm_raw` ranges over [\"\", \"\\xff\"): keys starting with 0xFF are missing from the dump",
 'C09-m1': "`send` loads both balances up front and writes sender then recipient: a self-transfer mints the amount",
 'C09-m2': "`burn` checks each coin against the original balance and subtracts saturating: repeated denominations overdraw and inflate supply",
 'C09-m3': "`get_supply` uses `map_while`: the scan stops at the first account lacking the denomination",
 'C09-m4': "up-front affordability check on the un-normalised coin list: a covered send that also lists a zero coin of an unheld denomination is refused",
 'C10-m1': "instantiate moves the attached funds AFTER calling the contract: a balance query inside `instantiate` does not see them",
 'C10-m2': "same change as C06-m1, seen from C10: later reads in the same transaction see the old value of an overwritten-then-removed key",
 'C10-m3': "same change as C05-m3 seen from C10: queries in `reply` see what a failed `Always` sub-message did",
 'C10-m4': "`App::wasm_sudo` re-routed through `router.sudo` without its write cache: a failing wasm_sudo leaves the handler's writes committed",
 'C11-m1': "`duplicate_code` computes the source index as `code_id - 1`: duplicates of non-contiguous / later codes run other code or panic",
 'C11-m2': "an empty salt is treated as no salt: Instantiate2 with salt \"\" is accepted at a history-dependent classic address",
 'C11-m3': "salted addresses remembered in an in-memory set that is not rolled back: a failed Instantiate2 blocks its retry",
 'C11-m4': "the label is trimmed for the emptiness check and the TRIMMED label is stored; whitespace-only labels are refused",
 'C12-m1': "admin check `is_some_and(|a| a != sender)`: anyone may UpdateAdmin / ClearAdmin a contract WITHOUT admin",
 'C12-m2': "same site as C05-m1 seen from C12: a contract can re-assign its own admin from inside `migrate`",
 'C12-m3': "Migrate's admin check compares canonicalised addresses: 'no admin' == 'sender cannot be canonicalised' lets `mallory` migrate an admin-less contract",
 'C12-m4': "`UpdateAdmin` with an invalid new-admin string silently CLEARS the admin (dropped `?`)",
 'C13-m1': "reserved-key check uses the untrimmed key: ` _k` is accepted",
 'C13-m2': "`call_reply` validates only top-level attributes: malformed events in a reply response are accepted",
 'C13-m3': "event-type length counted in characters: a one-character non-ASCII type such as \"é\" (2 bytes) is rejected",
 'C13-m4': "`customize_response` drops the events of contracts registered through `new_with_empty` / `with_*_empty`: never validated, never surfaced",
 'C14-m1': "over-undelegation guard compares with the validator total instead of the delegator's share: panic (subtract with overflow) with >= 2 delegators",
 'C14-m2': "`break` instead of skipping a zero-amount matured unbonding: later matured entries are not paid by that block update",
 'C14-m3': "`slash` saves the validator record before `stakers.clear()`: after a slash to zero the next reward update panics",
 'C14-m4': "denomination check hoisted out of add/remove_stake but not into Redelegate: a foreign-denom Redelegate moves real stake",
 'C15-m1': "`slash` saves a validator record loaded before `update_rewards`: the interval before the slash is paid twice",
 'C15-m2': "shown reward = floor(credited) + floor(pending) while the payout floors the sum: shown != paid by one token",
 'C15-m3': "elapsed time = floor(now - since) instead of floor(now) - floor(since): sub-second remainders are dropped at every update",
 'C15-m4': "a partial slash rebuilds each share with `..Default::default()`: credited rewards are lost",
 'C16-m1': "a slash that zeroes the bonded total returns before scaling the unbonding queue",
 'C16-m2': "shares scaled by floor(new total)/old total instead of 1 - p",
 'C16-m3': "same change as C15-m1 seen from C16: accrued rewards jump at a slash",
 'C16-m4': "`break` instead of `continue` in the unbonding-queue pass: entries of the slashed validator behind a foreign entry are not scaled",
 'C17-m1': "`customize_msg` lifts `Stargate` as `Any`: the other handler of the stargate module is called",
 'C17-m2': "`execute_multi`: one transaction per message (a failing module at position >= 2 keeps earlier messages' state)",
 'C17-m3': "sub-messages emitted from `migrate` reach their modules with the migrating admin as sender",
 'C17-m4': "funds made only of zero-amount coins never reach the bank module (its verdict is never asked)",
 'C18-m1': "prefix compared by zipping bytes: `cosmos` accepts `cosmosvaloper...` in `addr_canonicalize`",
 'C18-m2': "normalisation compared case-insensitively: an all-uppercase address validates and is returned lower-cased",
 'C18-m3': "length pre-check with a half-open range: a 64-byte canonical address cannot be humanized",
 'C18-m4': "friendlier prefix error splits at the FIRST '1': addresses under a prefix containing '1' are rejected by `addr_validate`",
 'C19-m1': "thread-local memo (code id, instance) -> address ignoring the Api prefix: a second app on the thread gets the first app's addresses",
 'C19-m2': "`coins_to_string` groups through a `HashMap`: order of denominations in the `transfer` event depends on RandomState",
 'C19-m3': "thread-local sub-message depth counter that is not restored on the error path: after ~64 failed sub-message transactions every app on the thread refuses sub-messages",
 'C19-m4': "`completion_time` of the `unbond` event computed from `SystemTime::now()`",
 'C20-m1': "`AppBuilder::with_storage` rebuilds with the default block: `with_block(b).with_storage(s)` loses b",
 'C20-m2': "`with_migrate_empty` rebuilds with `reply_fn: None`",
 'C20-m3': "`build` runs the init function only when the supplied storage is empty",
 'C20-m4': "`new_custom` inlines a default block without the nanosecond part of `mock_env().block.time`",
 'C01-m5': "dropped `?` on the funds transfer of `WasmMsg::Execute`: an unpayable call runs as if paid and the transaction returns Ok",
 'C01-m6': "sudo cache moved from `App` into the wasm keeper one step too late: a failing message of a sudo response leaves the handler's own writes committed",
 'C02-m5': "`WasmKeeper::reply` returns early for id 0 without calling the contract: failures tagged id 0 are absorbed without consulting the handler",
 'C02-m6': "`customize_msg` rebuilt with SubMsg constructors: `ReplyOn::Error` falls into a catch-all and becomes `Never` for contracts registered through `*_empty` constructors",
 'C03-m5': "sub-messages with id 0 bypass `execute_submsg`: never replied to, failures not caught",
 'C03-m6': "same change as C02-m6 seen from C03",
 'C04-m5': "hand-written protobuf encoder with a varint off-by-one: data of exactly 128 bytes gets a one-byte length",
 'C04-m6': "`sudo` applies `data.or(res.data)` with the operands reversed: own data wins over reply data (sudo only)",
 'C05-m5': "`get_env` clamps the block height to i64::MAX: contracts see another block than the simulator's above that",
 'C05-m6': "`info.funds` is sorted and `dedup_by` denom: repeated denominations are dropped from what the contract is told (the transfer moves the full amount)",
 'C06-m5': "`range` fast path `start >= last pending key` (should be `>`): the delta of the greatest pending key is ignored when it is the start bound",
 'C06-m6': "`RepLog::commit` coalesces the log (writes, then removals): remove-then-set of a key is committed as removed",
 'C07-m5': "`to_length_prefixed_nested` fast path writes `[0, len as u8]` for len <= 0x100: a 256-byte segment is encoded with length 0",
 'C07-m6': "`concat` returns the KEY instead of the namespace when the key is empty: point operations on the empty key leave the window",
 'C08-m5': "`query_raw` seeks with `range(Some(key), None).next()`: an absent key answers with the next greater key's value",
 'C08-m6': "`register_contract` 'resets' the storage of the CREATOR instead of the new contract: a contract that instantiates another loses all its records",
 'C09-m5': "`mint` saves the amount verbatim for never-seen accounts (no normalisation): repeated denominations are stored twice and the queries disagree",
 'C09-m6': "`normalize_amount` adds `.dedup()`: two adjacent equal coins count once",
 'C10-m5': "nested-smart-query depth counter on the keeper that is not restored when a smart query fails: after ~10 failing queries every smart query fails",
 'C10-m6': "`MergeOverlay::next` rewritten as a loop: an overwritten key is listed twice (new then old) by range reads inside the transaction",
 'C11-m5': "duplicate check folded into `BTreeMap::insert`: a refused `store_code_with_id` still REPLACES the stored entry",
 'C11-m6': "Migrate saves the new code id after `call_migrate`: the OLD code's migrate entry point runs",
 'C12-m5': "Migrate saves the contract record (loaded before) after `process_response`: admin changes / migrations returned by the new code's migrate are overwritten",
 'C12-m6': "`ContractWrapper::migrate` with a missing migrate_fn returns Ok: Migrate to a code without migrate entry point succeeds",
 'C13-m5': "`App::wasm_sudo` without its write cache: a sudo that writes and returns a malformed response keeps its writes",
 'C13-m6': "custom event types are trimmed when renamed to `wasm-<type>`: padded types do not surface unchanged",
 'C14-m5': "Undelegate merges queue entries of the same delegator and payout time WITHOUT comparing the validator",
 'C14-m6': "`get_stake` returns None for a delegation below one token: with process_queue's None arm the staker set goes stale and the next reward update panics",
 'C15-m5': "`remove_rewards` no longer calls `update_rewards`: a withdrawal moves the validator's reward clock without crediting the other delegators",
 'C15-m6': "apr and commission swapped at the `update_rewards` call site (not on the query path)",
 'C16-m5': "same change as C14-m5 seen from C16: a slash scales (or misses) the merged unbonding of another validator",
 'C16-m6': "`get_stake` rounds up (`to_uint_ceil`): AllDelegations lists more than the slashed amount",
 'C17-m5': "error-arm guard `reply_on != Never`: a failing MODULE under `ReplyOn::Success` is handed to reply instead of aborting",
 'C17-m6': "`Wasm::sudo` returns early when the response HAS messages: messages emitted by sudo are dropped",
 'C18-m5': "`addr_make` returns its input unchanged when it already validates: a name that is an address collides with the name it was made from",
 'C18-m6': "`into_bech32m_with_prefix` shortcut for the default prefix calls `into_bech32()`",
 'C19-m5': "checksum generator builds its text in a thread-local string with `replace_range`: a longer earlier code id leaves its tail behind",
 'C19-m6': "validator staker set stored as a `HashSet`: raw storage order depends on RandomState",
 'C20-m5': "`with_block` keeps the previous chain id when the supplied one is empty",
 'C20-m6': "`with_reply_empty` rebuilds with `sudo_fn: None`",
}


ROOT = os.path.dirname(os.path.dirname(os.path.abspath(__file__)))


def main():
    rows = []
    for d in sorted(glob.glob(os.path.join(ROOT, 'seeded/*'))):
        m = json.load(open(os.path.join(d, 'meta.json')))
        kinds = []
        for x in [x for x in m['ran'] if 'check.py' in x]:
            c = re.search(r'check.py (C\d+)', x).group(1)
            k = 'MISSED' if 'exit 0' in x else ('violation, no failing input' if 'no-failing-input-found' in x else 'violation with failing input')
            kinds.append(c + ': ' + k)
        rows.append((os.path.basename(d), kinds))
    tbl = "\n".join("| %s | %s | %s |" % (n, DESC.get(n, ''), "; ".join(k)) for n, k in rows)
    s = open(os.path.join(ROOT, 'DESIGN.md')).read()
    a = s.index('<!-- seeded-table-begin -->') + len('<!-- seeded-table-begin -->')
    b = s.index('<!-- seeded-table-end -->')
    s = s[:a] + "\n| change | what it does | result of `check.py` (quick tier, seed 1) |\n|---|---|---|\n" + tbl + "\n" + s[b:]
    open(os.path.join(ROOT, 'DESIGN.md'), 'w').write(s)
    n_all = len(rows)
    own_fail = sum(1 for n, k in rows if any(x.startswith(n[:3]) and 'with failing input' in x for x in k))
    own_any = sum(1 for n, k in rows if any(x.startswith(n[:3]) and 'MISSED' not in x for x in k))
    print("%d changes; own check reports a violation: %d; with failing input: %d" % (n_all, own_any, own_fail))
    for n, k in rows:
        if not any(x.startswith(n[:3]) and 'with failing input' in x for x in k):
            print("  ", n, k)


main()
