#!/usr/bin/env python3
"""run_seeded.py <Cxx-mK> [--checks C01,C02] [--tier quick|thorough] [--demo]

Re-runs registered check(s) against one kept seeded change (seeded/<Cxx-mK>/patch.diff) WITHOUT touching
/repo: creates a scratch git worktree of /repo's HEAD under /tmp, applies the patch there, runs
`check.py` in mirror mode (VERIF_REPO=<worktree>), prints the verdict lines, and removes the worktree and
the mirror again.  With --demo the change's demonstration test is run first (must pass without the patch
and fail with it).  Exit status: 0 if every requested check reported a VIOLATION, 1 otherwise.
"""
import hashlib, os, shutil, subprocess, sys

ROOT = os.path.dirname(os.path.dirname(os.path.abspath(__file__)))
ALLF = "staking,stargate,cosmwasm_2_2,verif"


def sh(cmd, cwd=None, env=None):
    p = subprocess.run(cmd, cwd=cwd, shell=isinstance(cmd, str), stdout=subprocess.PIPE, stderr=subprocess.STDOUT,
                       text=True, errors="replace", env=env or dict(os.environ, CARGO_NET_OFFLINE="true"))
    return p.returncode, p.stdout


def main():
    a = sys.argv[1:]
    if not a or a[0].startswith("-"):
        print(__doc__)
        return 2
    sid = a[0]
    d = os.path.join(ROOT, "seeded", sid)
    checks = [sid.split("-")[0]]
    tier = "quick"
    if "--checks" in a:
        checks = a[a.index("--checks") + 1].split(",")
    if "--tier" in a:
        tier = a[a.index("--tier") + 1]
    wt = "/tmp/wt-seeded-" + sid
    sh(["git", "-C", "/repo", "worktree", "remove", "--force", wt])
    rc, out = sh(["git", "-C", "/repo", "worktree", "add", "--detach", wt, "HEAD"])
    if rc != 0:
        print(out)
        return 2
    mirror = "/tmp/verif-mirror-" + hashlib.md5(os.path.abspath(wt).encode()).hexdigest()[:8]
    ok = True
    try:
        if "--demo" in a:
            shutil.copy(os.path.join(d, "demo.rs"), os.path.join(wt, "tests", "demo_seeded.rs"))
            rc0, o0 = sh("cargo test --offline --features %s --test demo_seeded 2>&1 | tail -3" % ALLF, cwd=wt)
            print("demo without the patch:", "PASS" if "test result: ok" in o0 else "FAIL\n" + o0)
        rc, out = sh(["git", "apply", "--whitespace=nowarn", os.path.join(d, "patch.diff")], cwd=wt)
        if rc != 0:
            print("patch does not apply:\n" + out)
            return 2
        if "--demo" in a:
            rc1, o1 = sh("cargo test --offline --features %s --test demo_seeded 2>&1 | tail -3" % ALLF, cwd=wt)
            print("demo with the patch:   ", "FAIL (as it should)" if "test result: ok" not in o1 else "PASS (unexpected)")
            os.remove(os.path.join(wt, "tests", "demo_seeded.rs"))
        for c in checks:
            p = subprocess.run([sys.executable, os.path.join(ROOT, "check.py"), c, "--tier", tier], cwd=ROOT,
                               env=dict(os.environ, VERIF_REPO=wt, CARGO_NET_OFFLINE="true"),
                               stdout=subprocess.PIPE, stderr=subprocess.STDOUT, text=True, errors="replace")
            for l in p.stdout.splitlines():
                if l.startswith(("VIOLATION", "KNOWN-FINDING", "[" + c + "]", "INFRA")):
                    print(l[:240])
            print("%s against %s: exit %d" % (c, sid, p.returncode))
            ok = ok and p.returncode == 1
    finally:
        sh(["git", "-C", "/repo", "worktree", "remove", "--force", wt])
        shutil.rmtree(mirror, ignore_errors=True)
    return 0 if ok else 1


if __name__ == "__main__":
    sys.exit(main())
