(* Text.v — Rust `str::trim`, UTF-8 length, and wasm.rs::verify_attributes / verify_response
   (wasm.rs:453-489).  Lemmas only. *)
From Verif Require Import Base.

Local Open Scope N_scope.

(* char::is_whitespace = Unicode White_Space *)
Definition is_ws (c : N) : bool :=
  ((9 <=? c) && (c <=? 13)) || (c =? 32) || (c =? 133) || (c =? 160) || (c =? 5760)
  || ((8192 <=? c) && (c <=? 8202)) || (c =? 8232) || (c =? 8233) || (c =? 8239) || (c =? 8287) || (c =? 12288).

Fixpoint trim_start (s : text) : text :=
  match s with
  | [] => []
  | c :: s' => if is_ws c then trim_start s' else s
  end.
Definition trim_end (s : text) : text := rev (trim_start (rev s)).
Definition trim (s : text) : text := trim_end (trim_start s).

Definition utf8_char_len (c : N) : N :=
  if c <? 128 then 1 else if c <? 2048 then 2 else if c <? 65536 then 3 else 4.
Definition utf8_len (s : text) : N := fold_right (fun c n => utf8_char_len c + n) 0 s.

Definition underscore : N := 95.

Definition attr := (text * text)%type.
Definition event := (text * list attr)%type.

(* which validation rule fired (error messages themselves are not modelled) *)
Inductive vrule := VEmptyKey | VReservedKey | VShortType.

Definition bad_key (k : text) : option vrule :=
  match trim k with
  | [] => Some VEmptyKey
  | c :: _ => if c =? underscore then Some VReservedKey else None
  end.

(* verify_attributes: first offending attribute, in order *)
Fixpoint verify_attributes (l : list attr) : option vrule :=
  match l with
  | [] => None
  | (k, _) :: l' => match bad_key k with Some r => Some r | None => verify_attributes l' end
  end.

Definition bad_type (ty : text) : bool := utf8_len (trim ty) <? 2.

Fixpoint verify_events (l : list event) : option vrule :=
  match l with
  | [] => None
  | (ty, attrs) :: l' =>
      match verify_attributes attrs with
      | Some r => Some r
      | None => if bad_type ty then Some VShortType else verify_events l'
      end
  end.

(* verify_response: response attributes first, then every event (its attributes, then its type) *)
Definition verify_response (attrs : list attr) (events : list event) : option vrule :=
  match verify_attributes attrs with
  | Some r => Some r
  | None => verify_events events
  end.

(* ---------- lemmas ---------- *)

Lemma trim_start_spec s : exists ws, s = ws ++ trim_start s /\ forallb is_ws ws = true /\
  match trim_start s with [] => True | c :: _ => is_ws c = false end.
Proof.
  induction s as [|c s IH]; cbn.
  - exists []. auto.
  - destruct (is_ws c) eqn:E.
    + destruct IH as (ws & H1 & H2 & H3). exists (c :: ws). cbn. rewrite E, H2. rewrite <- H1. auto.
    + exists []. cbn. auto.
Qed.

Lemma trim_start_no_ws s : match trim_start s with [] => True | c :: _ => is_ws c = false end.
Proof. destruct (trim_start_spec s) as (_ & _ & _ & H). exact H. Qed.

Lemma trim_start_idem s : trim_start (trim_start s) = trim_start s.
Proof.
  pose proof (trim_start_no_ws s) as H. destruct (trim_start s) as [|c t]; [reflexivity|].
  cbn. rewrite H. reflexivity.
Qed.

(* the result is a contiguous middle part of the input, the removed ends are all whitespace,
   and neither end of the result is whitespace *)
Lemma trim_spec s : exists l r, s = l ++ trim s ++ r /\ forallb is_ws l = true /\ forallb is_ws r = true /\
  match trim s with [] => True | c :: _ => is_ws c = false end /\
  match rev (trim s) with [] => True | c :: _ => is_ws c = false end.
Proof.
  unfold trim, trim_end.
  destruct (trim_start_spec s) as (l & Hl & Hlw & Hl1).
  destruct (trim_start_spec (rev (trim_start s))) as (r & Hr & Hrw & Hr1).
  exists l, (rev r). split; [|split; [exact Hlw|split]].
  - rewrite Hl at 1. f_equal. rewrite <- rev_app_distr, <- Hr, rev_involutive. reflexivity.
  - rewrite forallb_forall in *. intros x Hx. apply Hrw. apply in_rev. exact Hx.
  - split.
    + set (m := trim_start (rev (trim_start s))) in *.
      assert (E : trim_start s = rev m ++ rev r).
      { rewrite <- rev_app_distr, <- Hr, rev_involutive. reflexivity. }
      destruct (rev m) as [|c t] eqn:Em; [exact I|].
      rewrite E in Hl1. cbn in Hl1. exact Hl1.
    + rewrite rev_involutive. exact Hr1.
Qed.

Lemma verify_attributes_ok_iff l :
  verify_attributes l = None <-> forall k v, In (k, v) l -> bad_key k = None.
Proof.
  induction l as [|[k v] l IH]; cbn.
  - split; [intros _ ? ? []|reflexivity].
  - destruct (bad_key k) eqn:E.
    + split; [discriminate|]. intros H. rewrite (H k v) in E by (left; reflexivity). discriminate.
    + rewrite IH. split.
      * intros H k' v' [Heq|Hin]; [injection Heq as <- <-; exact E|eapply H; exact Hin].
      * intros H k' v' Hin. eapply H. right. exact Hin.
Qed.

Lemma verify_events_ok_iff l :
  verify_events l = None <->
  forall ty attrs, In (ty, attrs) l -> verify_attributes attrs = None /\ bad_type ty = false.
Proof.
  induction l as [|[ty attrs] l IH]; cbn.
  - split; [intros _ ? ? []|reflexivity].
  - destruct (verify_attributes attrs) eqn:E.
    + split; [discriminate|]. intros H. destruct (H ty attrs) as [H1 _]; [left; reflexivity|]. congruence.
    + destruct (bad_type ty) eqn:B.
      * split; [discriminate|]. intros H. destruct (H ty attrs) as [_ H2]; [left; reflexivity|]. congruence.
      * rewrite IH. split.
        -- intros H ty' a' [Heq|Hin]; [injection Heq as <- <-; auto|eapply H; exact Hin].
        -- intros H ty' a' Hin. eapply H. right. exact Hin.
Qed.

Lemma verify_response_ok_iff attrs events :
  verify_response attrs events = None <->
  (forall k v, In (k, v) attrs -> bad_key k = None) /\
  (forall ty at', In (ty, at') events -> (forall k v, In (k, v) at' -> bad_key k = None) /\ bad_type ty = false).
Proof.
  unfold verify_response. destruct (verify_attributes attrs) eqn:E.
  - split; [discriminate|]. intros [H _]. apply (proj2 (verify_attributes_ok_iff attrs)) in H. congruence.
  - rewrite verify_events_ok_iff. pose proof (proj1 (verify_attributes_ok_iff attrs) E) as E'. split.
    + intros H. split; [exact E'|]. intros ty at' Hin. destruct (H ty at' Hin) as [H1 H2].
      split; [apply (proj1 (verify_attributes_ok_iff at')), H1|exact H2].
    + intros [_ H] ty at' Hin. destruct (H ty at' Hin) as [H1 H2].
      split; [apply (proj2 (verify_attributes_ok_iff at')), H1|exact H2].
Qed.
