(* Chk17.v — C17: the executable per-case check shared with harness/c17.
   Input = the configuration (one behaviour per router slot), the origin, the position and the probes
   (message / query kinds with payload digests) that were run against the real crate with RECORDING
   modules plugged into every slot through AppBuilder; observation = the module log (slot, sender digest,
   payload digest, block height), the outcome of the call, what the caller of each probe was shown, and what
   state survived.  The check evaluates
     (b) the property ORACLE: the observation is what the SPEC routing yields (every kind reaches exactly
         its configured module with sender, payload and block intact; the module's answer is what the
         caller sees; an uncaught failure rolls the transaction back)                    -> PropFail k
         -- unless the observation is exactly the known finding F11 (a Distribution query panics before
            reaching any module)                                                         -> KnownFail 1 k
     (a) the MODEL: the same router run over the routing tables REGENERATED from app.rs / contracts.rs
                                                                                         -> Disagree k
   Every origin is covered by the same clause "the sender recorded by the module = i_sender": the harness
   sets i_sender to the digest of the EMITTING contract's address (instantiate / execute / migrate / sudo /
   reply entry points alike), of the user at top level.  A funded WasmMsg::Execute / Instantiate (PFunded)
   must show the recording bank's Send record before the callee's own record iff the funds are non-empty.
   Sub-messages range over the four reply_on modes x reply handler returns Ok / Err; the contract's reply entry
   point records its INVOCATION out of band (pseudo-slot 9), so a reply under (module err, Success) or
   (module ok, Error) shows in the log whatever the handler returns.
   k: 0.. = index of the first differing log entry, 100 = outcome of the call, 200.. = what a caller saw,
      300 = the earlier write, 400 = the modules' markers.
   This file holds definitions and lemmas that do not depend on the content of a generated table. *)
From Verif Require Import Base Generated Builder Routing.
Local Open Scope N_scope.

Definition entry_eqb (a b : entry) : bool :=
  (e_slot a =? e_slot b) && (e_sender a =? e_sender b) && (e_payload a =? e_payload b) && (e_height a =? e_height b).
Definition optN_eqb (a b : option N) : bool := option_eqb N.eqb a b.
Definition res_eqb (a b : res) : bool :=
  match a, b with
  | ROk x, ROk y => optN_eqb x y
  | RErr, RErr | RPanic, RPanic => true
  | _, _ => false
  end.
(* lenient: where the spec says "the wrapper refuses" (RPanic) an ordinary error is as good *)
Definition tx_eqb (lenient : bool) (expected observed : res) : bool :=
  res_eqb expected observed || (lenient && match expected, observed with RPanic, RErr => true | _, _ => false end).
Definition seen_eqb (a b : N * res) : bool := (fst a =? fst b) && res_eqb (snd a) (snd b).
Definition key_eqb (a b : N * N) : bool := (fst a =? fst b) && (snd a =? snd b).
(* markers are compared as SETS: the harness lists them in storage order, and two funded messages with the
   same callee and the same coins make the bank write the same marker twice *)
Definition keys_eqb (a b : list (N * N)) : bool := incl_b key_eqb a b && incl_b key_eqb b a.

Definition obs_diff (lenient : bool) (expected observed : obs) : option N :=
  match first_diff entry_eqb (o_log expected) (o_log observed) 0 with
  | Some k => Some (N.min k 99)
  | None =>
      if negb (tx_eqb lenient (o_tx expected) (o_tx observed)) then Some 100
      else match first_diff seen_eqb (o_seen expected) (o_seen observed) 200 with
           | Some k => Some (N.min k 299)
           | None => if negb (Bool.eqb (o_pre expected) (o_pre observed)) then Some 300
                     else if negb (keys_eqb (o_keys expected) (o_keys observed)) then Some 400 else None
           end
  end.

Definition has_distribution_query (inp : input) : bool :=
  existsb (fun p => match p with PQuery QDistribution _ _ => true | _ => false end) (i_probes inp).

(* class 1 of known_findings.json, DistributionQueryUnrouted: the program contains a Distribution query and
   the observation is EXACTLY what the spec routing yields when that query panics instead of being routed *)
Definition class_distribution_query_unrouted (inp : input) (o : obs) : bool :=
  has_distribution_query inp && match obs_diff false (run f11_routes inp) o with None => true | Some _ => false end.

Definition c17 (inp : input) (observed : obs) : verdict :=
  match obs_diff true (spec_case inp) observed with
  | Some k => if class_distribution_query_unrouted inp observed then KnownFail 1 k else PropFail k
  | None => match obs_diff false (model_case inp) observed with
            | Some k => Disagree k
            | None => Agree
            end
  end.

(* ---------- reflexivity of the comparisons ---------- *)
Lemma entry_eqb_refl a : entry_eqb a a = true.
Proof. unfold entry_eqb. rewrite !N.eqb_refl. reflexivity. Qed.
Lemma res_eqb_refl a : res_eqb a a = true.
Proof. destruct a as [[x|]| |]; cbn; try reflexivity. apply N.eqb_refl. Qed.
Lemma seen_eqb_refl a : seen_eqb a a = true.
Proof. unfold seen_eqb. rewrite N.eqb_refl, res_eqb_refl. reflexivity. Qed.
Lemma key_eqb_refl a : key_eqb a a = true.
Proof. unfold key_eqb. rewrite !N.eqb_refl. reflexivity. Qed.
Lemma incl_b_refl {A} (eqb : A -> A -> bool) (H : forall a, eqb a a = true) l : incl_b eqb l l = true.
Proof.
  unfold incl_b. apply forallb_forall. intros x Hx. apply existsb_exists. exists x. auto.
Qed.
Lemma keys_eqb_refl a : keys_eqb a a = true.
Proof. unfold keys_eqb. rewrite (incl_b_refl key_eqb key_eqb_refl). reflexivity. Qed.

Lemma obs_diff_refl lenient a : obs_diff lenient a a = None.
Proof.
  unfold obs_diff. rewrite (first_diff_refl entry_eqb entry_eqb_refl).
  unfold tx_eqb. rewrite res_eqb_refl. cbn [orb negb].
  rewrite (first_diff_refl seen_eqb seen_eqb_refl), Bool.eqb_reflx, keys_eqb_refl. reflexivity.
Qed.

(* ---------- the oracle accepts the model's own output, for ALL inputs ---------- *)
(* ... provided the regenerated tables route as the spec does, except for the known finding F11
   (hypotheses discharged in Inst17.v by closed computation on Generated.v) *)
Lemma no_dq_f11_is_spec inp : has_distribution_query inp = false -> run f11_routes inp = run spec_routes inp.
Proof.
  intros H. apply run_ext. split; [reflexivity|]. split; [reflexivity|].
  intros p Hp. destruct p as [k x m h|k x c|ins fc sp cp m h]; auto.
  destruct k; try reflexivity. exfalso.
  unfold has_distribution_query in H. assert (E : existsb (fun p => match p with PQuery QDistribution _ _ => true | _ => false end) (i_probes inp) = true).
  { apply existsb_exists. exists (PQuery QDistribution x c). auto. }
  congruence.
Qed.

Lemma c17_model_ok_gen :
  (forall k, rx table_routes k = rx f11_routes k) ->
  (forall k, rq table_routes k = rq f11_routes k) ->
  (forall k, rl table_routes k = rl f11_routes k) ->
  forall inp,
    c17 inp (model_case inp) = Agree \/
    (has_distribution_query inp = true /\ exists k, c17 inp (model_case inp) = KnownFail 1 k).
Proof.
  intros Hx Hq Hl inp.
  assert (Em : model_case inp = run f11_routes inp) by (apply run_ext_all; assumption).
  unfold c17. destruct (obs_diff true (spec_case inp) (model_case inp)) as [k|] eqn:E.
  - destruct (has_distribution_query inp) eqn:Ed.
    + right. split; [reflexivity|]. exists k. unfold class_distribution_query_unrouted.
      rewrite Ed, <- Em, obs_diff_refl. reflexivity.
    + exfalso. rewrite Em, (no_dq_f11_is_spec inp Ed) in E. unfold spec_case in E. rewrite obs_diff_refl in E. discriminate.
  - left. rewrite obs_diff_refl. reflexivity.
Qed.

(* without a Distribution query the verdict on the model's own output is Agree *)
Lemma c17_model_ok_no_dq :
  (forall k, rx table_routes k = rx f11_routes k) ->
  (forall k, rq table_routes k = rq f11_routes k) ->
  (forall k, rl table_routes k = rl f11_routes k) ->
  forall inp, has_distribution_query inp = false -> c17 inp (model_case inp) = Agree.
Proof.
  intros Hx Hq Hl inp Hd. destruct (c17_model_ok_gen Hx Hq Hl inp) as [H|[H _]]; [exact H|congruence].
Qed.

(* the known-finding verdict is only ever given to a program that contains a Distribution query, and only
   for the class number of DistributionQueryUnrouted *)
Lemma c17_known_only_distribution inp o c k :
  c17 inp o = KnownFail c k -> c = 1 /\ has_distribution_query inp = true /\ obs_diff false (run f11_routes inp) o = None.
Proof.
  unfold c17. destruct (obs_diff true (spec_case inp) o) as [j|].
  - destruct (class_distribution_query_unrouted inp o) eqn:E; [|discriminate].
    intros H. injection H as <- <-. unfold class_distribution_query_unrouted in E.
    apply andb_true_iff in E as [E1 E2]. destruct (obs_diff false (run f11_routes inp) o); [discriminate|]. auto.
  - destruct (obs_diff false (model_case inp) o); discriminate.
Qed.
