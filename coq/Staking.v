(* Staking.v — executable model of StakeKeeper and DistributionKeeper (src/staking.rs of /repo as of
   commit 6bd8f99, i.e. WITH the fix "process_queue removes the staker together with the stake entry").
   Transliteration: same order of effects, same early returns, same floors (Dec.v), SErr where the
   code returns an error, SPanic where an expect/unwrap would fire, SOvf at the 64/128-bit bounds.
   The bonded coins live in the bank (Bank.v) under the address "staking_module".

   Representation.
     delegators / accounts / validators are numbered (N); the harness's strings are
       validator v = "validator<v>", account a = addr_make("acct<a>").  The bank model needs texts:
       [acct a] and [pool] below are injective stand-ins (the bank never orders accounts observably).
     STAKES          : (delegator, validator) |-> shares{stake, rewards}  (Decimal atomics)   staking.rs:98
     VALIDATOR_INFO  : validator |-> {stakers, stake, last_rewards_calculation (ns)}          staking.rs:103
     UNBONDING_QUEUE : list of {delegator, validator, amount, payout_at (ns)}, front first    staking.rs:105
     WITHDRAW_ADDRESS: delegator |-> account                                                  staking.rs:109
     STAKING_INFO / VALIDATOR_MAP / VALIDATORS are written only at setup: [params].
   Finite maps are association lists with find-first lookup; [fset] removes older bindings, so the
   lists stay duplicate-free.  `stakers` is a BTreeSet<Addr>: the loops over it (update_rewards, slash)
   touch one STAKES key per staker with values that do not depend on the other stakers, so the
   iteration order is not observable; modelled as a duplicate-free list.
   Block time is a parameter [now] (nanoseconds), as `block: &BlockInfo` is in the code. *)
From Verif Require Import Base OMap Bank Dec.
Local Open Scope N_scope.

(* ---------- finite maps ---------- *)
Section FMap.
  Context {K : Type} (keqb : K -> K -> bool).

  Fixpoint fget {V} (k : K) (m : list (K * V)) : option V :=
    match m with
    | [] => None
    | (k', v) :: r => if keqb k k' then Some v else fget k r
    end.
  Fixpoint fdel {V} (k : K) (m : list (K * V)) : list (K * V) :=
    match m with
    | [] => []
    | (k', v) :: r => if keqb k k' then fdel k r else (k', v) :: fdel k r
    end.
  Definition fset {V} (k : K) (v : V) (m : list (K * V)) : list (K * V) := (k, v) :: fdel k m.

  Hypothesis keqb_spec : forall a b, keqb a b = true <-> a = b.

  Lemma keqb_refl a : keqb a a = true. Proof. apply keqb_spec. reflexivity. Qed.
  Lemma keqb_sym a b : keqb a b = keqb b a.
  Proof.
    destruct (keqb a b) eqn:E1, (keqb b a) eqn:E2; try reflexivity.
    - apply keqb_spec in E1. subst. rewrite keqb_refl in E2. discriminate.
    - apply keqb_spec in E2. subst. rewrite keqb_refl in E1. discriminate.
  Qed.

  Lemma fget_fdel {V} k x (m : list (K * V)) : fget x (fdel k m) = if keqb x k then None else fget x m.
  Proof.
    induction m as [|[k' v] m IH]; cbn [fdel fget].
    - destruct (keqb x k); reflexivity.
    - destruct (keqb k k') eqn:E.
      + apply keqb_spec in E. subst k'. rewrite IH. destruct (keqb x k); reflexivity.
      + cbn [fget]. rewrite IH. destruct (keqb x k') eqn:E2; [|reflexivity].
        apply keqb_spec in E2. subst k'. rewrite keqb_sym, E. reflexivity.
  Qed.

  Lemma fget_fset {V} k (v : V) x m : fget x (fset k v m) = if keqb x k then Some v else fget x m.
  Proof. unfold fset. cbn [fget]. rewrite fget_fdel. destruct (keqb x k); reflexivity. Qed.
End FMap.

Definition peqb (a b : N * N) : bool := (fst a =? fst b) && (snd a =? snd b).
Lemma peqb_spec a b : peqb a b = true <-> a = b.
Proof.
  destruct a as [a1 a2], b as [b1 b2]. unfold peqb. cbn [fst snd].
  rewrite andb_true_iff, !N.eqb_eq. split; [intros [-> ->]; reflexivity|intros E; injection E; auto].
Qed.
Lemma Neqb_spec a b : N.eqb a b = true <-> a = b. Proof. apply N.eqb_eq. Qed.

(* ---------- state ---------- *)

Record shares := mkSh { sh_stake : N; sh_rew : N }.                    (* staking.rs:47-50 *)
Record vinfo := mkVi { vi_stakers : list N; vi_stake : N; vi_last : N }. (* staking.rs:64-72 *)
Record unb := mkUnb { u_del : N; u_val : N; u_amt : N; u_at : N }.     (* staking.rs:85-94 *)
(* StakingInfo (staking.rs:25-32) and the validators (id, commission) in VALIDATORS order *)
Record params := mkParams { p_unbond : N; p_apr : N; p_vals : list (N * N) }.

Record sstate := mkSt {
  s_stakes : list ((N * N) * shares);
  s_vi : list (N * vinfo);
  s_queue : list unb;
  s_waddr : list (N * N);
  s_bank : bank_state
}.

(* TOKEN is the model's NAME of the scenario's configured bonded denomination (StakingInfo::bonded_denom: "ustake",
   "uatom", "TOKEN", ... — the harness reports balances / supply "in the bonded denom" under this name), exactly as
   [acct a] names the account's bech32 string.  Its text is reserved (no real denomination starts with the code
   point 0), so that the REAL default denomination "TOKEN" — which the code falls back to when a lookup misses the
   configured StakingInfo — is a different, "other" denomination for the model whenever it is not the bonded one. *)
Definition TOKEN : text := [0; 98; 111; 110; 100; 101; 100].
Definition OTHER : text := [79; 84; 72; 69; 82].     (* "OTHER", the foreign denom *)
Definition pool : text := [115; 116; 97; 107; 105; 110; 103; 95; 109; 111; 100; 117; 108; 101]. (* "staking_module", staking.rs:163 *)
Definition acct (a : N) : text := [1; a].

Definition get_stake (d v : N) (s : sstate) : option shares := fget peqb (d, v) (s_stakes s).
Definition get_vi (v : N) (s : sstate) : option vinfo := fget N.eqb v (s_vi s).
Definition get_val (P : params) (v : N) : option N := fget N.eqb v (p_vals P).

Definition set_stakes (s : sstate) x := mkSt x (s_vi s) (s_queue s) (s_waddr s) (s_bank s).
Definition set_vis (s : sstate) x := mkSt (s_stakes s) x (s_queue s) (s_waddr s) (s_bank s).
Definition set_queue (s : sstate) x := mkSt (s_stakes s) (s_vi s) x (s_waddr s) (s_bank s).
Definition set_waddrs (s : sstate) x := mkSt (s_stakes s) (s_vi s) (s_queue s) x (s_bank s).
Definition set_bank (s : sstate) x := mkSt (s_stakes s) (s_vi s) (s_queue s) (s_waddr s) x.

Definition put_stake (d v : N) (sh : shares) (s : sstate) := set_stakes s (fset peqb (d, v) sh (s_stakes s)).
Definition del_stake (d v : N) (s : sstate) := set_stakes s (fdel peqb (d, v) (s_stakes s)).
Definition put_vi (v : N) (vi : vinfo) (s : sstate) := set_vis s (fset N.eqb v vi (s_vi s)).

Definition mem (d : N) (l : list N) : bool := existsb (N.eqb d) l.
Definition stakers_insert (d : N) (l : list N) : list N := if mem d l then l else d :: l.
Definition stakers_remove (d : N) (l : list N) : list N := filter (fun x => negb (x =? d)) l.

(* ---------- rewards ---------- *)

(* Shares::share_of_rewards, staking.rs:54-59: `rewards * self.stake / validator_info.stake`
   (Decimal * Decimal, then Decimal / Uint128) *)
Definition share_of_rewards (sh_st : N) (vstake : N) (rewards : N) : sres N :=
  if vstake =? 0 then SOk 0 else
  x <- dec_mul rewards sh_st ;;
  dec_div_uint x vstake.

(* calculate_rewards, staking.rs:273-291.
   time_diff = current_time.minus_seconds(since.seconds()).seconds(): strict_sub panics if the clock
   ran backwards past the whole second of `since`. *)
Definition calculate_rewards (now since apr comm stake : N) : sres N :=
  let since_ns := (since / NS) * NS in
  if now <? since_ns then SPanic else
  let td := (now - since_ns) / NS in
  sd <- dec_of_uint stake ;;
  x1 <- dec_mul sd apr ;;
  tdd <- dec_of_uint td ;;
  x2 <- dec_mul x1 tdd ;;
  yd <- dec_of_uint YEAR ;;
  reward <- dec_div x2 yd ;;
  c <- dec_mul reward comm ;;
  dec_sub reward c.

(* the loop of update_rewards, staking.rs:330-341 *)
Fixpoint credit_stakers (v : N) (vstake nr : N) (l : list N) (s : sstate) : sres sstate :=
  match l with
  | [] => SOk s
  | d :: r =>
      match get_stake d v s with
      | None => SPanic                                   (* expect("all stakers in validator_info should exist") *)
      | Some sh =>
          x <- share_of_rewards (sh_stake sh) vstake nr ;;
          r' <- dec_add (sh_rew sh) x ;;
          credit_stakers v vstake nr r (put_stake d v (mkSh (sh_stake sh) r') s)
      end
  end.

(* update_rewards, staking.rs:296-344 *)
Definition update_rewards (P : params) (now : N) (s : sstate) (v : N) : sres sstate :=
  match get_vi v s with
  | None => SErr                                         (* "validator does not exist" *)
  | Some vi =>
      match get_val P v with
      | None => SErr                                     (* VALIDATOR_MAP.load *)
      | Some comm =>
          if now <=? vi_last vi then SOk s else
          nr <- calculate_rewards now (vi_last vi) (p_apr P) comm (vi_stake vi) ;;
          let s1 := put_vi v (mkVi (vi_stakers vi) (vi_stake vi) now) s in
          if nr =? 0 then SOk s1 else credit_stakers v (vi_stake vi) nr (vi_stakers vi) s1
      end
  end.

(* get_rewards_internal, staking.rs:244-270 (no `last >= now` guard here) *)
Definition rewards_internal (P : params) (now : N) (sh : shares) (comm : N) (vi : vinfo) : sres N :=
  nr <- calculate_rewards now (vi_last vi) (p_apr P) comm (vi_stake vi) ;;
  x <- share_of_rewards (sh_stake sh) (vi_stake vi) nr ;;
  t <- dec_add (sh_rew sh) x ;;
  SOk (to_uint_floor t).

(* ---------- stake changes ---------- *)

(* update_stake, staking.rs:420-474 (validate_denom of add_stake / remove_stake is done by the callers below) *)
Definition update_stake (P : params) (now : N) (s : sstate) (d v a : N) (sub : bool) : sres sstate :=
  s1 <- update_rewards P now s v ;;
  let vi := match get_vi v s1 with Some x => x | None => mkVi [] 0 now end in
  sh <- (match get_stake d v s1 with
         | Some x => SOk x
         | None => if sub then SErr else SOk (mkSh 0 0)  (* "no delegation for (address, validator) tuple" *)
         end) ;;
  ad <- dec_of_uint a ;;
  p <- (if sub then
          if sh_stake sh <? ad then SErr                 (* "invalid shares amount" *)
          else if vi_stake vi <? a then SErr             (* checked_sub(amount)? *)
          else SOk (sh_stake sh - ad, vi_stake vi - a)
        else
          st' <- dec_add (sh_stake sh) ad ;;
          if U128 <=? vi_stake vi + a then SErr          (* checked_add(amount)? *)
          else SOk (st', vi_stake vi + a)) ;;
  let '(st', vs') := p in
  if st' =? 0 then
    SOk (put_vi v (mkVi (stakers_remove d (vi_stakers vi)) vs' (vi_last vi)) (del_stake d v s1))
  else
    SOk (put_vi v (mkVi (stakers_insert d (vi_stakers vi)) vs' (vi_last vi)) (put_stake d v (mkSh st' (sh_rew sh)) s1)).

(* the two loops of slash over the stakers, staking.rs:498-515 *)
Fixpoint remove_stakers (v : N) (l : list N) (s : sstate) : sstate :=
  match l with [] => s | d :: r => remove_stakers v r (del_stake d v s) end.
Fixpoint scale_stakers (v : N) (rem : N) (l : list N) (s : sstate) : sres sstate :=
  match l with
  | [] => SOk s
  | d :: r =>
      match get_stake d v s with
      | None => SPanic
      | Some sh =>
          st' <- dec_mul (sh_stake sh) rem ;;
          scale_stakers v rem r (put_stake d v (mkSh st' (sh_rew sh)) s)
      end
  end.
(* staking.rs:518-528 *)
Fixpoint scale_queue (v : N) (rem : N) (q : list unb) : sres (list unb) :=
  match q with
  | [] => SOk []
  | u :: r =>
      u' <- (if u_val u =? v then a' <- mul_floor (u_amt u) rem ;; SOk (mkUnb (u_del u) (u_val u) a' (u_at u))
             else SOk u) ;;
      r' <- scale_queue v rem r ;;
      SOk (u' :: r')
  end.

(* sudo Slash = validate_percentage (staking.rs:550-553) then slash (staking.rs:476-532) *)
Definition exec_slash (P : params) (now : N) (s : sstate) (v p : N) : sres sstate :=
  if D18 <? p then SErr else
  s1 <- update_rewards P now s v ;;
  match get_vi v s1 with
  | None => SPanic                                       (* .unwrap() *)
  | Some vi =>
      let rem := D18 - p in
      nv <- mul_floor (vi_stake vi) rem ;;
      s2 <- (if nv =? 0 then SOk (remove_stakers v (vi_stakers vi) s1)
             else scale_stakers v rem (vi_stakers vi) s1) ;;
      q' <- scale_queue v rem (s_queue s2) ;;
      let s3 := set_queue s2 q' in
      SOk (put_vi v (mkVi (if nv =? 0 then [] else vi_stakers vi) nv (vi_last vi)) s3)
  end.

(* ---------- the unbonding queue ---------- *)

Definition tok (a : N) : coins := [(TOKEN, a)].

Fixpoint pending_sum (d v : N) (q : list unb) : N :=
  match q with
  | [] => 0
  | u :: r => (if (u_del u =? d) && (u_val u =? v) then u_amt u else 0) + pending_sum d v r
  end.

(* one iteration of the loop of process_queue for a matured front entry, staking.rs:571-623 *)
Definition pay_entry (s : sstate) (u : unb) (rest : list unb) : sres sstate :=
  let d := u_del u in let v := u_val u in
  s1 <- (match get_stake d v s with
         | Some sh =>
             tot <- fit (to_uint_floor (sh_stake sh) + pending_sum d v rest) ;;   (* `stake.amount += ... .sum()` *)
             if tot =? 0 then
               let s' := del_stake d v s in
               match get_vi v s' with
               | Some vi => SOk (put_vi v (mkVi (stakers_remove d (vi_stakers vi)) (vi_stake vi) (vi_last vi)) s')
               | None => SOk s'
               end
             else SOk s
         | None => SOk (del_stake d v s)
         end) ;;
  if u_amt u =? 0 then SOk s1 else
  b <- of_bank (bank_send (s_bank s1) pool (acct d) (tok (u_amt u))) ;;
  SOk (set_bank s1 b).

(* process_queue, staking.rs:555-631: front first, while the front has matured; the queue is saved at the end *)
Fixpoint process_queue_from (now : N) (q : list unb) (s : sstate) : sres sstate :=
  match q with
  | [] => SOk (set_queue s [])
  | u :: rest =>
      if u_at u <=? now then
        s1 <- pay_entry s u rest ;;
        process_queue_from now rest s1
      else SOk (set_queue s q)
  end.
Definition process_queue (now : N) (s : sstate) : sres sstate := process_queue_from now (s_queue s) s.

(* ---------- StakingMsg (staking.rs:651-771) ---------- *)

Definition exec_delegate (P : params) (now : N) (s : sstate) (d v a : N) (bonded : bool) : sres sstate :=
  if a =? 0 then SErr else                               (* "invalid delegation amount" *)
  if negb bonded then SErr else                          (* add_stake: validate_denom *)
  s1 <- update_stake P now s d v a false ;;
  b <- of_bank (bank_send (s_bank s1) (acct d) pool (tok a)) ;;
  SOk (set_bank s1 b).

Definition exec_undelegate (P : params) (now : N) (s : sstate) (d v a : N) (bonded : bool) : sres sstate :=
  if negb bonded then SErr else                          (* validate_denom *)
  if a =? 0 then SErr else                               (* "invalid shares amount" *)
  s1 <- update_stake P now s d v a true ;;
  (* block.time.plus_seconds(unbonding_time): u64 `*` and strict_add *)
  if U64 <=? p_unbond P * NS then SOvf else
  if U64 <=? now + p_unbond P * NS then SOvf else
  SOk (set_queue s1 (s_queue s1 ++ [mkUnb d v a (now + p_unbond P * NS)])).

Definition exec_redelegate (P : params) (now : N) (s : sstate) (d src dst a : N) (bonded : bool) : sres sstate :=
  if negb bonded then SErr else                          (* remove_stake: validate_denom *)
  s1 <- update_stake P now s d src a true ;;
  update_stake P now s1 d dst a false.

(* ---------- DistributionMsg (staking.rs:903-924, 963-1018) ---------- *)

Definition withdraw_addr (s : sstate) (d : N) : N :=
  match fget N.eqb d (s_waddr s) with Some w => w | None => d end.

Definition exec_withdraw (P : params) (now : N) (s : sstate) (d v : N) : sres sstate :=
  s1 <- update_rewards P now s v ;;
  match get_stake d v s1 with
  | None => SErr                                         (* STAKES.load *)
  | Some sh =>
      let r := to_uint_floor (sh_rew sh) in
      let s2 := put_stake d v (mkSh (sh_stake sh) 0) s1 in
      b <- of_bank (bank_mint (s_bank s2) (acct (withdraw_addr s2 d)) (tok r)) ;;   (* BankSudo::Mint: Err when r = 0 *)
      SOk (set_bank s2 b)
  end.

(* w = None: a string that api.addr_validate rejects *)
Definition exec_set_withdraw (s : sstate) (d : N) (w : option N) : sres sstate :=
  match w with
  | None => SErr
  | Some w => if d =? w then SOk (set_waddrs s (fdel N.eqb d (s_waddr s)))
              else SOk (set_waddrs s (fset N.eqb d w (s_waddr s)))
  end.

(* ---------- queries (staking.rs:773-864, 214-242, 361-376) ---------- *)

(* StakingQuery::Delegation: Some (amount, accumulated reward amount, 0 when the vector is empty) / None *)
Definition q_delegation (P : params) (now : N) (s : sstate) (d v : N) : sres (option (N * N)) :=
  match get_val P v with
  | None => SErr
  | Some comm =>
      let sh := match get_stake d v s with Some x => x | None => mkSh 0 0 end in
      match get_vi v s with
      | None => SErr
      | Some vi =>
          r <- rewards_internal P now sh comm vi ;;
          let amount := to_uint_floor (sh_stake sh) in
          if amount =? 0 then SOk None else SOk (Some (amount, r))
      end
  end.

(* StakingQuery::AllDelegations: over VALIDATORS in order, every validator with a STAKES entry (also a zero one) *)
Definition q_all_delegations (P : params) (s : sstate) (d : N) : list (N * N) :=
  flat_map (fun vc : N * N => match get_stake d (fst vc) s with
                              | Some sh => [(fst vc, to_uint_floor (sh_stake sh))]
                              | None => []
                              end) (p_vals P).

(* StakeKeeper::get_rewards *)
Definition q_rewards (P : params) (now : N) (s : sstate) (d v : N) : sres (option N) :=
  match get_val P v with
  | None => SErr
  | Some comm =>
      match get_stake d v s with
      | None => SOk None
      | Some sh =>
          match get_vi v s with
          | None => SErr
          | Some vi => r <- rewards_internal P now sh comm vi ;; SOk (Some r)
          end
      end
  end.

(* BankQuery::AllBalances without the bonded denom: every OTHER denomination the account holds *)
Definition other_coins (b : bank_state) (a : text) : coins := filter (fun c : coin => negb (beqb (fst c) TOKEN)) (bank_all b a).
(* BankQuery::Supply of another denomination (the reserved name of the bonded one never is another denomination) *)
Definition other_supply (b : bank_state) (d : text) : N := if beqb d TOKEN then 0 else bank_supply b d.

Definition q_balance (s : sstate) (a : N) : N := bank_balance (s_bank s) (acct a) TOKEN.
Definition q_pool (s : sstate) : N := bank_balance (s_bank s) pool TOKEN.
Definition q_supply (s : sstate) : N := bank_supply (s_bank s) TOKEN.

(* ---------- setup (the AppBuilder::build closure of the harness) ---------- *)

(* init_balance(acct, [1000000 OTHER] ++ [bal TOKEN if bal > 0]) per account, then
   StakeKeeper::setup and add_validator (staking.rs:175-207) per validator at block time t0 *)
Fixpoint init_bank (accts : list (N * N)) (b : bank_state) : sres bank_state :=
  match accts with
  | [] => SOk b
  | (a, bal) :: r =>
      b' <- of_bank (bank_init b (acct a) ((OTHER, 1000000) :: (if bal =? 0 then [] else tok bal))) ;;
      init_bank r b'
  end.

(* add_validator fails on a duplicate address: the harness never does that; the model keeps the check *)
Fixpoint init_vis (t0 : N) (vals : list (N * N)) (seen : list N) : sres (list (N * vinfo)) :=
  match vals with
  | [] => SOk []
  | (v, _) :: r =>
      if mem v seen then SErr else
      r' <- init_vis t0 r (v :: seen) ;;
      SOk ((v, mkVi [] 0 t0) :: r')
  end.

Definition init_state (t0 : N) (vals accts : list (N * N)) : sres sstate :=
  b <- init_bank accts bank_empty ;;
  vis <- init_vis t0 vals [] ;;
  SOk (mkSt [] vis [] [] b).

(* ---------- vocabulary of the statements about the queue (not part of the transliteration) ---------- *)

Definition due (now : N) (q : list unb) : list unb := filter (fun u => u_at u <=? now) q.
Definition not_due (now : N) (q : list unb) : list unb := filter (fun u => negb (u_at u <=? now)) q.
Fixpoint sum_for (a : N) (q : list unb) : N :=
  match q with [] => 0 | u :: r => (if u_del u =? a then u_amt u else 0) + sum_for a r end.
Fixpoint sum_all (q : list unb) : N := match q with [] => 0 | u :: r => u_amt u + sum_all r end.
(* a slash of validator v leaving the fraction rem: every pending unbonding from v is scaled and floored *)
Definition scale_q (v rem : N) (q : list unb) : list unb :=
  map (fun u => if u_val u =? v then mkUnb (u_del u) (u_val u) (u_amt u * rem / D18) (u_at u) else u) q.
