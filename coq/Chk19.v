(* Chk19.v — C19: case format shared with harness/c19, the relational oracle p_c19 (equality of the transcripts
   of several runs of the REAL implementation, decided here with the boolean equalities of ChkExec), the
   correspondence of the first run with the instance model of Det.v, and the lemmas that connect the two.

   A case is   c19 <case_env> <checksum book> <history : list iop> <run (i) : list iobs> [<run (ii)>; ...]
   where every run is what one real `App` did when given the history (harness/c19 says in which circumstances:
   alone; after unrelated apps; interleaved with a twin / a stranger; in a fresh OS process; in a fresh OS
   process with another environment and working directory; in another thread).
   PropFail (k * 4096 + j): run number k (1-based in the list) differs from run (i) first at operation j.
   Disagree (j * 8 + c): run (i) differs from the model at operation j; c = 1 returned value / log, 2 outcome,
   3 decoded state, 4 raw keys outside every modelled window, 7 transcript length.

   WHAT IS COMPARED WHERE.  Relational half (p_c19 / p_alt): every operation of every run, the whole observation
   record: returned value (code id / probe answers / log + responses with events and data or error-ness), error
   text, decoded bank / registry / contract-storage windows, number of keys outside them, SHA-256 of the COMPLETE
   raw store (so also the staking and distribution windows, which are not decoded).  Correspondence half (corr19):
   returned value, decoded modelled windows, keys outside the windows — of run (i) only, against the model.  At an
   OPAQUE operation (Det.IOpaque: staking / distribution / update_block) the model predicts nothing: it takes the
   responses, the block and the modelled windows of run (i) as given, so the correspondence holds there by
   construction; the staking / distribution windows are never compared with the model (only across runs, through
   the digest), before or after an opaque step. *)
From Verif Require Import Base OMap Text Proto Bank Exec ChkExec ChkX Det.
Local Open Scope N_scope.

(* what the harness observes per operation *)
Record iobs := {
  io_out : iout;            (* returned code id / probe answers / (out-of-band log, responses or error-ness) *)
  io_state : chain;         (* the raw root store after the operation, partitioned by window and decoded *)
  io_other : N;             (* number of raw keys in no modelled window *)
  io_digest : bytes;        (* SHA-256 of the complete raw root store after the operation (every byte) *)
  io_err : text             (* canonical error / panic message, [] on success: both sides are the implementation *)
}.

(* ---------- boolean equalities and their exactness ---------- *)
Definition cinfo_eqb (p q : N * text * bytes) : bool :=
  (fst (fst p) =? fst (fst q)) && teqb (snd (fst p)) (snd (fst q)) && beqb (snd p) (snd q).

Definition iout_eqb (a b : iout) : bool :=
  match a, b with
  | RId x, RId y => outcome_eqb N.eqb x y
  | RUnit, RUnit => true
  | RProbe b1 l1, RProbe b2 l2 => blk_eqb b1 b2 && list_eqb (option_eqb cinfo_eqb) l1 l2
  | RTop t1 o1, RTop t2 o2 => trace_eqb t1 t2 && out_eqb o1 o2
  | ROpaque o1 b1, ROpaque o2 b2 => out_eqb o1 o2 && blk_eqb b1 b2
  | _, _ => false
  end.

Definition iobs_eqb (a b : iobs) : bool :=
  iout_eqb (io_out a) (io_out b) && chain_eqb (io_state a) (io_state b) && (io_other a =? io_other b)
  && beqb (io_digest a) (io_digest b) && teqb (io_err a) (io_err b).

Ltac fin :=
  split; [ intros; repeat match goal with H : _ /\ _ |- _ => destruct H end; subst; reflexivity
         | intros HH; inversion HH; subst; repeat split; reflexivity ].

Lemma teqb_eq a b : teqb a b = true <-> a = b.
Proof. apply beqb_eq. Qed.

Lemma option_eqb_eq {A} (eqb : A -> A -> bool) :
  (forall a b, eqb a b = true <-> a = b) -> forall x y, option_eqb eqb x y = true <-> x = y.
Proof.
  intros H [x|] [y|]; cbn; try (split; congruence). rewrite H. split; congruence.
Qed.

Lemma outcome_eqb_eq {A} (eqb : A -> A -> bool) :
  (forall a b, eqb a b = true <-> a = b) -> forall x y, outcome_eqb eqb x y = true <-> x = y.
Proof.
  intros H [x| |] [y| |]; cbn; try (split; congruence). rewrite H. split; congruence.
Qed.

Lemma coin_eqb_eq a b : coin_eqb a b = true <-> a = b.
Proof. destruct a, b. unfold coin_eqb. cbn [fst snd]. rewrite andb_true_iff, teqb_eq, N.eqb_eq. fin. Qed.
Lemma coins_eqb_eq a b : coins_eqb a b = true <-> a = b.
Proof. apply list_eqb_eq, coin_eqb_eq. Qed.
Lemma attr_eqb_eq a b : attr_eqb a b = true <-> a = b.
Proof. destruct a, b. unfold attr_eqb. cbn [fst snd]. rewrite andb_true_iff, !teqb_eq. fin. Qed.
Lemma event_eqb_eq a b : event_eqb a b = true <-> a = b.
Proof.
  destruct a, b. unfold event_eqb. cbn [fst snd]. rewrite andb_true_iff, teqb_eq, (list_eqb_eq _ attr_eqb_eq). fin.
Qed.
Lemma events_eqb_eq a b : events_eqb a b = true <-> a = b.
Proof. apply list_eqb_eq, event_eqb_eq. Qed.
Lemma obytes_eqb_eq a b : obytes_eqb a b = true <-> a = b.
Proof. apply option_eqb_eq, beqb_eq. Qed.
Lemma kv_eqb_eq a b : kv_eqb a b = true <-> a = b.
Proof. destruct a, b. unfold kv_eqb. cbn [fst snd]. rewrite andb_true_iff, !beqb_eq. fin. Qed.
Lemma resp_eqb_eq a b : resp_eqb a b = true <-> a = b.
Proof. destruct a, b. unfold resp_eqb. cbn [fst snd]. rewrite andb_true_iff, events_eqb_eq, obytes_eqb_eq. fin. Qed.
Lemma blk_eqb_eq a b : blk_eqb a b = true <-> a = b.
Proof. destruct a as [h1 t1 c1], b as [h2 t2 c2]. unfold blk_eqb. cbn [b_height b_time b_chain]. rewrite !andb_true_iff, !N.eqb_eq, teqb_eq. fin. Qed.
Lemma rres_eqb_eq a b : rres_eqb a b = true <-> a = b.
Proof.
  destruct a, b; cbn [rres_eqb]; try (split; congruence).
  rewrite andb_true_iff, events_eqb_eq, obytes_eqb_eq. fin.
Qed.
Lemma ep_eqb_eq a b : ep_eqb a b = true <-> a = b.
Proof. destruct a, b; cbn; split; congruence. Qed.

Lemma info_eqb_eq (p q : N * text * option text) :
  (fst (fst p) =? fst (fst q)) && teqb (snd (fst p)) (snd (fst q)) && option_eqb teqb (snd p) (snd q) = true <-> p = q.
Proof.
  destruct p as [[a b] c], q as [[a' b'] c']. cbn [fst snd].
  rewrite !andb_true_iff, N.eqb_eq, teqb_eq, (option_eqb_eq _ teqb_eq). fin.
Qed.
Lemma cinfo_eqb_eq p q : cinfo_eqb p q = true <-> p = q.
Proof.
  destruct p as [[a b] c], q as [[a' b'] c']. unfold cinfo_eqb. cbn [fst snd].
  rewrite !andb_true_iff, N.eqb_eq, teqb_eq, beqb_eq. fin.
Qed.

Lemma obsval_eqb_eq a b : obsval_eqb a b = true <-> a = b.
Proof.
  destruct a, b; cbn [obsval_eqb]; try (split; congruence).
  - rewrite obytes_eqb_eq. fin.
  - rewrite (list_eqb_eq _ kv_eqb_eq). fin.
  - rewrite (option_eqb_eq _ N.eqb_eq). fin.
  - rewrite (option_eqb_eq _ coins_eqb_eq). fin.
  - rewrite obytes_eqb_eq. fin.
  - rewrite (option_eqb_eq _ info_eqb_eq). fin.
  - rewrite (option_eqb_eq _ cinfo_eqb_eq). fin.
  - rewrite obytes_eqb_eq. fin.
Qed.

Lemma rep_eqb_eq a b : rep_eqb a b = true <-> a = b.
Proof.
  destruct a as [[i p] r], b as [[i' p'] r']. unfold rep_eqb. cbn [fst snd].
  rewrite !andb_true_iff, N.eqb_eq, beqb_eq, rres_eqb_eq. fin.
Qed.

Lemma rentry_eqb_eq a b : rentry_eqb a b = true <-> a = b.
Proof.
  destruct a, b; cbn [rentry_eqb]; try (split; congruence).
  - rewrite !andb_true_iff, !N.eqb_eq, ep_eqb_eq, teqb_eq, (option_eqb_eq _ teqb_eq), coins_eqb_eq, blk_eqb_eq,
      (option_eqb_eq _ rep_eqb_eq). fin.
  - rewrite !andb_true_iff, !N.eqb_eq, teqb_eq, blk_eqb_eq. fin.
  - rewrite !andb_true_iff, N.eqb_eq, obsval_eqb_eq. fin.
  - rewrite !andb_true_iff, N.eqb_eq, teqb_eq. fin.
Qed.
Lemma trace_eqb_eq a b : trace_eqb a b = true <-> a = b.
Proof. apply list_eqb_eq, rentry_eqb_eq. Qed.

Lemma cdata_eqb_eq a b : cdata_eqb a b = true <-> a = b.
Proof.
  destruct a as [a1 a2 a3 a4 a5], b as [b1 b2 b3 b4 b5]. unfold cdata_eqb. cbn [cd_code cd_creator cd_admin cd_label cd_created].
  rewrite !andb_true_iff, !N.eqb_eq, !teqb_eq, (option_eqb_eq _ teqb_eq). fin.
Qed.

Lemma amap_eqb_eq {A} (eq : A -> A -> bool) :
  (forall a b, eq a b = true <-> a = b) -> forall x y, amap_eqb eq x y = true <-> x = y.
Proof.
  intros H. apply list_eqb_eq. intros [k a] [k' a']. cbn [fst snd]. rewrite andb_true_iff, teqb_eq, H. fin.
Qed.

Lemma chain_eqb_eq a b : chain_eqb a b = true <-> a = b.
Proof.
  destruct a as [a1 a2 a3], b as [b1 b2 b3]. unfold chain_eqb. cbn [bank reg cstore].
  rewrite !andb_true_iff, (amap_eqb_eq _ coins_eqb_eq), (amap_eqb_eq _ cdata_eqb_eq),
    (amap_eqb_eq _ (list_eqb_eq _ kv_eqb_eq)). fin.
Qed.

Lemma out_eqb_eq a b : out_eqb a b = true <-> a = b.
Proof. apply outcome_eqb_eq, list_eqb_eq, resp_eqb_eq. Qed.

Lemma iout_eqb_eq a b : iout_eqb a b = true <-> a = b.
Proof.
  destruct a, b; cbn [iout_eqb]; try (split; congruence).
  - rewrite (outcome_eqb_eq _ N.eqb_eq). fin.
  - rewrite andb_true_iff, blk_eqb_eq, (list_eqb_eq _ (option_eqb_eq _ cinfo_eqb_eq)). fin.
  - rewrite andb_true_iff, trace_eqb_eq, out_eqb_eq. fin.
  - rewrite andb_true_iff, out_eqb_eq, blk_eqb_eq. fin.
Qed.

Lemma iobs_eqb_eq a b : iobs_eqb a b = true <-> a = b.
Proof.
  destruct a as [a1 a2 a3 a4 a5], b as [b1 b2 b3 b4 b5]. unfold iobs_eqb. cbn [io_out io_state io_other io_digest io_err].
  rewrite !andb_true_iff, iout_eqb_eq, chain_eqb_eq, N.eqb_eq, beqb_eq, teqb_eq. fin.
Qed.

Lemma first_diff_none {A} (eqb : A -> A -> bool) (H : forall a b, eqb a b = true <-> a = b) l1 :
  forall l2 i, first_diff eqb l1 l2 i = None <-> l1 = l2.
Proof.
  induction l1 as [|x l1 IH]; intros [|y l2] i; cbn; try (split; congruence).
  destruct (eqb x y) eqn:E.
  - apply H in E. subst y. rewrite IH. split; congruence.
  - split; [discriminate|]. intros HH. injection HH as -> _. rewrite (proj2 (H y y) eq_refl) in E. discriminate.
Qed.

(* ---------- the property oracle: every other run of the implementation equals run (i) ---------- *)
Fixpoint p_c19_from (r0 : list iobs) (others : list (list iobs)) (k : N) : option N :=
  match others with
  | [] => None
  | r :: rest =>
      match first_diff iobs_eqb r0 r 0 with
      | Some j => Some (k * 4096 + j)
      | None => p_c19_from r0 rest (k + 1)
      end
  end.
Definition p_c19 (r0 : list iobs) (others : list (list iobs)) : option N := p_c19_from r0 others 1.

(* the oracle is exact: it accepts iff every run is, entry for entry and byte for byte, run (i) *)
Lemma p_c19_from_spec r0 others : forall k, p_c19_from r0 others k = None <-> Forall (fun r => r = r0) others.
Proof.
  induction others as [|r rest IH]; intros k; cbn [p_c19_from]; [split; [constructor|reflexivity]|].
  destruct (first_diff iobs_eqb r0 r 0) as [j|] eqn:E.
  - split; [discriminate|]. intros HH. inversion HH as [|? ? Hr _]; subst.
    rewrite (proj2 (first_diff_none _ iobs_eqb_eq r0 r0 0) eq_refl) in E. discriminate.
  - apply (first_diff_none _ iobs_eqb_eq) in E. subst r. rewrite IH. split.
    + intros HH. constructor; [reflexivity|exact HH].
    + intros HH. inversion HH; assumption.
Qed.
Lemma p_c19_spec r0 others : p_c19 r0 others = None <-> Forall (fun r => r = r0) others.
Proof. apply p_c19_from_spec. Qed.

(* ---------- correspondence of run (i) with the instance model ---------- *)
Definition iout_diff (m o : iout) : N :=
  match m, o with
  | RTop t1 o1, RTop t2 o2 => if negb (trace_eqb t1 t2) then 1 else if negb (out_eqb o1 o2) then 2 else 0
  | _, _ => if iout_eqb m o then 0 else 1
  end.

Fixpoint corr19 (ce : case_env) (ck : list (N * bytes)) (h : list iop) (r : list iobs) (i : inst) (k : N) : option N :=
  match h, r with
  | [], [] => None
  | o :: h', ob :: r' =>
      let (x, i') := istep ce ck o i in
      let d := iout_diff x (io_out ob) in
      if negb (d =? 0) then Some (k * 8 + d)
      else if negb (chain_eqb (i_chain i') (io_state ob)) then Some (k * 8 + 3)
      else if negb (io_other ob =? 0) then Some (k * 8 + 4)
      else corr19 ce ck h' r' i' (k + 1)
  | _, _ => Some (k * 8 + 7)
  end.

Definition c19 (ce : case_env) (ck : list (N * bytes)) (h : list iop) (r0 : list iobs) (others : list (list iobs)) : verdict :=
  match p_c19 r0 others with
  | Some c => PropFail c
  | None => match corr19 ce ck h r0 init_inst 0 with Some k => Disagree k | None => Agree end
  end.

(* the model's own transcript in the observation format (the model has no raw bytes: digest and message empty) *)
Definition model_obs (l : list (iout * inst)) : list iobs :=
  map (fun p => {| io_out := fst p; io_state := i_chain (snd p); io_other := 0; io_digest := []; io_err := [] |}) l.

Lemma iout_diff_refl x : iout_diff x x = 0.
Proof.
  destruct x; cbn [iout_diff]; try (rewrite (proj2 (iout_eqb_eq _ _) eq_refl); reflexivity).
  rewrite (proj2 (trace_eqb_eq _ _) eq_refl), (proj2 (out_eqb_eq _ _) eq_refl). reflexivity.
Qed.

Lemma iout_diff_zero m o : iout_diff m o = 0 -> m = o.
Proof.
  destruct m as [x| |b l|tr o1|oo bb], o as [y| |b' l'|tr' o2|oo' bb']; cbn [iout_diff];
    try (destruct (iout_eqb _ _) eqn:E; [|discriminate]; intros _; apply iout_eqb_eq in E; exact E).
  destruct (trace_eqb tr tr') eqn:E1; cbn [negb]; [|discriminate].
  destruct (out_eqb o1 o2) eqn:E2; cbn [negb]; [|discriminate].
  intros _. apply trace_eqb_eq in E1. apply out_eqb_eq in E2. subst. reflexivity.
Qed.

Lemma corr19_model ce ck h : forall i k, corr19 ce ck h (model_obs (run_inst ce ck h i)) i k = None.
Proof.
  induction h as [|o h IH]; intros i k; [reflexivity|].
  unfold run_inst in *. cbn [run_gen]. destruct (istep ce ck o i) as [x i'] eqn:E.
  cbn [model_obs map corr19]. rewrite E. cbn [fst snd io_out io_state io_other].
  rewrite iout_diff_refl. cbn [N.eqb negb]. rewrite (proj2 (chain_eqb_eq _ _) eq_refl). cbn [negb N.eqb].
  apply IH.
Qed.

(* Agree is exact as well: run (i) returned what the model returns and left the states the model leaves *)
Lemma corr19_sound ce ck h : forall r i k,
  corr19 ce ck h r i k = None ->
  map io_out r = map fst (run_inst ce ck h i) /\
  map io_state r = map (fun p => i_chain (snd p)) (run_inst ce ck h i) /\
  Forall (fun ob => io_other ob = 0) r.
Proof.
  induction h as [|o h IH]; intros [|ob r] i k H; cbn [corr19] in H; try discriminate.
  - split; [reflexivity|]. split; [reflexivity|constructor].
  - unfold run_inst in *. cbn [run_gen]. destruct (istep ce ck o i) as [x i'] eqn:E.
    destruct (iout_diff x (io_out ob) =? 0) eqn:D; cbn [negb] in H; [|discriminate].
    destruct (chain_eqb (i_chain i') (io_state ob)) eqn:C; cbn [negb] in H; [|discriminate].
    destruct (io_other ob =? 0) eqn:O; cbn [negb] in H; [|discriminate].
    apply N.eqb_eq in D. apply iout_diff_zero in D. apply chain_eqb_eq in C. apply N.eqb_eq in O.
    destruct (IH r i' (k + 1) H) as [A [B F]]. cbn [map fst snd]. rewrite A, B, D, C.
    split; [reflexivity|]. split; [reflexivity|]. constructor; assumption.
Qed.

Lemma c19_agree_sound ce ck h r0 others :
  c19 ce ck h r0 others = Agree ->
  Forall (fun r => r = r0) others /\
  map io_out r0 = map fst (run_inst ce ck h init_inst) /\
  map io_state r0 = map (fun p => i_chain (snd p)) (run_inst ce ck h init_inst).
Proof.
  unfold c19. destruct (p_c19 r0 others) eqn:P; [discriminate|].
  destruct (corr19 ce ck h r0 init_inst 0) eqn:C; [discriminate|]. intros _.
  apply p_c19_spec in P. destruct (corr19_sound _ _ _ _ _ _ C) as [A [B _]]. auto.
Qed.

(* ---------- the oracle accepts the model ----------
   Whatever other history h' a second instance runs and however the two are scheduled (sg), and whichever
   other instances ran before or in between (the n-instance schedule sgN with h as the history of instance k):
   the transcripts the MODEL produces for h in those circumstances are all the transcript of h alone, so the
   oracle accepts them and the whole check answers Agree. *)
Lemma C19_model_ok ce ck h h' sg sg' sgN k :
  interleave h h' sg -> interleave h' h sg' -> sideN k sgN = h ->
  let T := model_obs (run_inst ce ck h init_inst) in
  c19 ce ck h T
      [ T;
        model_obs (side true (run2_inst ce ck sg (init_inst, init_inst)));
        model_obs (side false (run2_inst ce ck sg' (init_inst, init_inst)));
        model_obs (sideN k (runN_inst ce ck sgN (fun _ => init_inst))) ] = Agree.
Proof.
  intros H H' HN T. unfold c19.
  destruct (inst_independent ce ck h h' sg init_inst init_inst H) as [-> _].
  destruct (inst_independent ce ck h' h sg' init_inst init_inst H') as [_ ->].
  rewrite inst_independent_N, HN. fold T.
  rewrite (proj2 (p_c19_spec T [T; T; T; T])) by (repeat constructor).
  unfold T. rewrite corr19_model. reflexivity.
Qed.

(* ---------- a second family of runs: the same history transposed to ANOTHER Api (address prefix) ----------
   Addresses of such runs differ from run (i) by construction, so they are compared AMONG THEMSELVES: the first
   one (made alone in a fresh OS process) is the reference; the others were made in the main thread after apps
   with the default prefix had run.  State hidden outside the App that is filled by a differently configured
   instance (a memo of humanized addresses keyed without the prefix, ...) shows here, and in the runs of
   [others] that were made after differently configured "polluter" apps.
   Run numbers continue: others are 1..n, the reference of the family is n+1, its members n+2, ... *)
Definition p_alt (alt : list (list iobs)) (k : N) : option N :=
  match alt with [] => None | a0 :: rest => p_c19_from a0 rest k end.

Definition all_same (alt : list (list iobs)) : Prop :=
  match alt with [] => True | a0 :: rest => Forall (fun r => r = a0) rest end.

Lemma p_alt_spec alt k : p_alt alt k = None <-> all_same alt.
Proof. destruct alt as [|a0 rest]; cbn; [split; auto|]. apply p_c19_from_spec. Qed.

Definition c19x (ce : case_env) (ck : list (N * bytes)) (h : list iop) (r0 : list iobs)
           (others alt : list (list iobs)) : verdict :=
  match p_c19 r0 others with
  | Some c => PropFail c
  | None =>
      match p_alt alt (N.of_nat (length others) + 2) with
      | Some c => PropFail c
      | None => match corr19 ce ck h r0 init_inst 0 with Some k => Disagree k | None => Agree end
      end
  end.

Lemma c19x_nil ce ck h r0 others : c19x ce ck h r0 others [] = c19 ce ck h r0 others.
Proof. unfold c19x, c19. destruct (p_c19 r0 others); reflexivity. Qed.

Lemma c19x_agree_sound ce ck h r0 others alt :
  c19x ce ck h r0 others alt = Agree ->
  Forall (fun r => r = r0) others /\ all_same alt /\
  map io_out r0 = map fst (run_inst ce ck h init_inst) /\
  map io_state r0 = map (fun p => i_chain (snd p)) (run_inst ce ck h init_inst).
Proof.
  unfold c19x. destruct (p_c19 r0 others) eqn:P; [discriminate|].
  destruct (p_alt alt (N.of_nat (length others) + 2)) eqn:Q; [discriminate|].
  destruct (corr19 ce ck h r0 init_inst 0) eqn:C; [discriminate|]. intros _.
  apply p_c19_spec in P. apply p_alt_spec in Q. destruct (corr19_sound _ _ _ _ _ _ C) as [A [B _]]. auto.
Qed.

(* the oracle accepts the model, second family included: under ANY other configuration cfg j (address books of
   another prefix, ...) the model's transcript of a history hj alone equals its transcript as instance j of any
   schedule sgH of differently configured instances *)
Lemma C19x_model_ok ce ck h h' sg sg' sgN k cfg sgH j :
  interleave h h' sg -> interleave h' h sg' -> sideN k sgN = h ->
  let T := model_obs (run_inst ce ck h init_inst) in
  let T' := model_obs (run_inst (fst (cfg j)) (snd (cfg j)) (sideN j sgH) init_inst) in
  c19x ce ck h T
       [ T;
         model_obs (side true (run2_inst ce ck sg (init_inst, init_inst)));
         model_obs (side false (run2_inst ce ck sg' (init_inst, init_inst)));
         model_obs (sideN k (runN_inst ce ck sgN (fun _ => init_inst))) ]
       [ T'; model_obs (sideN j (runNh_inst cfg sgH (fun _ => init_inst))) ] = Agree.
Proof.
  intros H H' HN T T'. unfold c19x.
  destruct (inst_independent ce ck h h' sg init_inst init_inst H) as [-> _].
  destruct (inst_independent ce ck h' h sg' init_inst init_inst H') as [_ ->].
  rewrite inst_independent_N, HN. fold T.
  rewrite (proj2 (p_c19_spec T [T; T; T; T])) by (repeat constructor).
  rewrite inst_independent_hetero. fold T'.
  rewrite (proj2 (p_alt_spec [T'; T'] _)) by (cbn; repeat constructor).
  unfold T. rewrite corr19_model. reflexivity.
Qed.
