(* Prefix.v — model of /repo/src/prefixed_storage/{length_prefixed,namespace_helpers,mod}.rs:
   length-prefixed namespaces and prefixed (single / multi-level, mutable / read-only) storage
   views over an ordered-map base.  SPEC object: [window ns m] (entries of [m] whose key starts
   with [ns], prefix stripped).  MECHANISM: [v_get v_set v_remove v_range] (transliteration of
   namespace_helpers.rs over the OMap model of the base store) and [lift_view] (a client program
   over the view, rewritten into the program the view runs against its base).
   Lemmas only; the pinned property theorems are in Properties/C07.v. *)
From Verif Require Import Base OMap Tx.
From Coq Require Import Sorted.

Notation srt := (sorted bcmp).

(* ---------- general facts about bytes / bcmp ---------- *)

Lemma bcmp_refl a : bcmp a a = Eq.
Proof. apply bcmp_eq. reflexivity. Qed.

Lemma bcmp_app ns a b : bcmp (ns ++ a) (ns ++ b) = bcmp a b.
Proof. induction ns as [|x ns IH]; cbn; [reflexivity|]. rewrite N.compare_refl. exact IH. Qed.

Lemma bcmp_app_r ns a : bcmp ns (ns ++ a) <> Gt.
Proof.
  induction ns as [|x ns IH]; cbn.
  - destruct a; discriminate.
  - rewrite N.compare_refl. exact IH.
Qed.

Lemma filter_rev {A} (f : A -> bool) l : filter f (rev l) = rev (filter f l).
Proof.
  induction l as [|x l IH]; cbn; [reflexivity|].
  rewrite filter_app, IH. cbn. destruct (f x); cbn; [reflexivity|apply app_nil_r].
Qed.

(* instances at bytes of the ordered-map lemmas *)
Lemma b_insert_sorted {A} k (a : A) l : srt l -> srt (insert bcmp k a l).
Proof. apply insert_sorted; [apply bcmp_eq|apply bcmp_anti|apply bcmp_trans]. Qed.
Lemma b_delete_sorted {A} k (l : list (bytes * A)) : srt l -> srt (delete bcmp k l).
Proof. apply delete_sorted. Qed.
Lemma b_assoc_insert {A} k (a : A) l x : srt l ->
  assoc bcmp x (insert bcmp k a l) = match bcmp x k with Eq => Some a | _ => assoc bcmp x l end.
Proof. apply assoc_insert. apply bcmp_eq. Qed.
Lemma b_assoc_delete {A} k (l : list (bytes * A)) x : srt l ->
  assoc bcmp x (delete bcmp k l) = match bcmp x k with Eq => None | _ => assoc bcmp x l end.
Proof. apply assoc_delete; [apply bcmp_eq|apply bcmp_trans]. Qed.
Lemma b_sorted_ext {A} (l1 l2 : list (bytes * A)) :
  srt l1 -> srt l2 -> (forall k, assoc bcmp k l1 = assoc bcmp k l2) -> l1 = l2.
Proof. apply sorted_ext; [apply bcmp_eq|apply bcmp_anti|apply bcmp_trans]. Qed.
Lemma b_map_range_spec {A} (m : list (bytes * A)) s e o : map_range bcmp m s e o = spec_range bcmp m s e o.
Proof. apply map_range_spec; [apply bcmp_eq|apply bcmp_anti|apply bcmp_trans]. Qed.

(* ---------- length_prefixed.rs ---------- *)

Fixpoint blen (b : bytes) : N := match b with [] => 0%N | _ :: b' => N.succ (blen b') end.

Lemma blen_length b : blen b = N.of_nat (length b).
Proof. induction b as [|x b IH]; cbn [blen length]; [reflexivity|]. rewrite IH. lia. Qed.

(* encode_length, length_prefixed.rs:39-45: panics above 0xFFFF (= None); otherwise bytes 2 and 3 of
   the big-endian u32 *)
Definition enc_len (n : N) : option bytes :=
  if (65535 <? n)%N then None else Some [((n / 256) mod 256)%N; (n mod 256)%N].

(* to_length_prefixed, length_prefixed.rs:13-18 *)
Definition enc_seg (s : bytes) : option bytes :=
  match enc_len (blen s) with Some l => Some (l ++ s) | None => None end.
Definition to_length_prefixed := enc_seg.

(* to_length_prefixed_nested, length_prefixed.rs:24-36: the loop appending to [out] *)
Definition nested_step (out : option bytes) (s : bytes) : option bytes :=
  match out with
  | None => None
  | Some o => match enc_len (blen s) with Some l => Some (o ++ l ++ s) | None => None end
  end.
Definition to_length_prefixed_nested (p : list bytes) : option bytes := fold_left nested_step p (Some []).

(* the same function by structural recursion (used in statements) *)
Definition oapp (a b : option bytes) : option bytes :=
  match a, b with Some x, Some y => Some (x ++ y) | _, _ => None end.
Fixpoint enc_path (p : list bytes) : option bytes :=
  match p with [] => Some [] | s :: p' => oapp (enc_seg s) (enc_path p') end.

Definition seg_ok (s : bytes) : Prop := (blen s <= 65535)%N.
Definition wf_path (p : list bytes) : Prop := Forall seg_ok p.
Definition seg_prefix (p q : list bytes) : Prop := exists r, q = p ++ r.

Lemma oapp_assoc a b c : oapp (oapp a b) c = oapp a (oapp b c).
Proof. destruct a, b, c; cbn; try reflexivity. rewrite app_assoc. reflexivity. Qed.
Lemma oapp_nil_r a : oapp a (Some []) = a.
Proof. destruct a; cbn; [rewrite app_nil_r|]; reflexivity. Qed.

Lemma nested_fold p : forall out, fold_left nested_step p out = oapp out (enc_path p).
Proof.
  induction p as [|s p IH]; intros out; cbn [fold_left enc_path].
  - rewrite oapp_nil_r. reflexivity.
  - rewrite IH. unfold nested_step, enc_seg. destruct out as [o|]; [|destruct (enc_path p); reflexivity].
    destruct (enc_len (blen s)) as [l|]; cbn; [|reflexivity].
    destruct (enc_path p); cbn; [|reflexivity]. rewrite <- !app_assoc. reflexivity.
Qed.

Lemma nested_eq p : to_length_prefixed_nested p = enc_path p.
Proof. unfold to_length_prefixed_nested. rewrite nested_fold. destruct (enc_path p); reflexivity. Qed.

Lemma single_eq s : to_length_prefixed s = enc_path [s].
Proof. cbn. rewrite oapp_nil_r. reflexivity. Qed.

Lemma enc_path_app_lemma p q : enc_path (p ++ q) = oapp (enc_path p) (enc_path q).
Proof.
  induction p as [|s p IH]; cbn [app enc_path].
  - destruct (enc_path q); reflexivity.
  - rewrite IH, oapp_assoc. reflexivity.
Qed.

Lemma enc_len_some n : (n <= 65535)%N -> enc_len n = Some [(n / 256)%N; (n mod 256)%N].
Proof.
  intros H. unfold enc_len. destruct (N.ltb_spec 65535 n) as [L|L]; [lia|].
  rewrite (N.mod_small (n / 256) 256); [reflexivity|].
  apply N.div_lt_upper_bound; lia.
Qed.

Lemma enc_len_none n : (65535 < n)%N -> enc_len n = None.
Proof. intros H. unfold enc_len. destruct (N.ltb_spec 65535 n); [reflexivity|lia]. Qed.

Lemma enc_len_inj n1 n2 l : enc_len n1 = Some l -> enc_len n2 = Some l -> n1 = n2.
Proof.
  unfold enc_len. destruct (N.ltb_spec 65535 n1) as [|L1]; [discriminate|].
  destruct (N.ltb_spec 65535 n2) as [|L2]; [discriminate|].
  intros E1 E2. rewrite <- E1 in E2. injection E2 as Ha Hb.
  rewrite !(N.mod_small (_ / 256) 256) in Ha by (apply N.div_lt_upper_bound; lia).
  rewrite (N.div_mod n1 256), (N.div_mod n2 256) by lia. rewrite Ha, Hb. reflexivity.
Qed.

Lemma enc_len_length n l : enc_len n = Some l -> length l = 2%nat.
Proof. unfold enc_len. destruct (65535 <? n)%N; [discriminate|]. intros E; injection E as <-. reflexivity. Qed.

Lemma enc_path_wf p : wf_path p <-> exists ns, enc_path p = Some ns.
Proof.
  induction p as [|s p IH]; cbn [enc_path].
  - split; [eexists; reflexivity|constructor].
  - split.
    + intros H. inversion H as [|? ? Hs Hp]; subst. apply IH in Hp as [ns Hns]. rewrite Hns.
      unfold enc_seg. rewrite (enc_len_some _ Hs). eexists; reflexivity.
    + intros [ns H]. unfold enc_seg in H.
      destruct (N.le_gt_cases (blen s) 65535) as [L|L].
      * constructor; [exact L|]. apply IH. destruct (enc_path p); [eexists; reflexivity|].
        destruct (enc_len (blen s)); discriminate.
      * rewrite (enc_len_none _ L) in H. discriminate.
Qed.

Lemma app_eq_length {A} (a1 a2 b1 b2 : list A) :
  length a1 = length a2 -> a1 ++ b1 = a2 ++ b2 -> a1 = a2 /\ b1 = b2.
Proof.
  revert a2. induction a1 as [|x a1 IH]; intros [|y a2] L E; cbn in *; try discriminate.
  - auto.
  - injection L as L. injection E as -> E. destruct (IH _ L E) as [-> ->]. auto.
Qed.

(* the code is prefix-free: two encoded paths followed by arbitrary keys can only coincide when
   one path extends the other *)
Lemma prefix_free p1 : forall p2 n1 n2 k1 k2,
  enc_path p1 = Some n1 -> enc_path p2 = Some n2 -> n1 ++ k1 = n2 ++ k2 ->
  seg_prefix p1 p2 \/ seg_prefix p2 p1.
Proof.
  induction p1 as [|s1 p1 IH]; intros p2 n1 n2 k1 k2 E1 E2 E.
  - left. exists p2. reflexivity.
  - destruct p2 as [|s2 p2]; [right; eexists; reflexivity|].
    cbn [enc_path] in E1, E2. unfold enc_seg in E1, E2.
    destruct (enc_len (blen s1)) as [l1|] eqn:L1; [|discriminate].
    destruct (enc_len (blen s2)) as [l2|] eqn:L2; [|discriminate].
    destruct (enc_path p1) as [m1|] eqn:P1; [|discriminate].
    destruct (enc_path p2) as [m2|] eqn:P2; [|discriminate].
    cbn in E1, E2. injection E1 as <-. injection E2 as <-.
    rewrite <- !app_assoc in E.
    assert (Ll : length l1 = length l2).
    { rewrite (enc_len_length _ _ L1), (enc_len_length _ _ L2). reflexivity. }
    destruct (app_eq_length _ _ _ _ Ll E) as [El E']. subst l2.
    pose proof (enc_len_inj _ _ _ L1 L2) as Hlen.
    assert (Ls : length s1 = length s2) by (rewrite !blen_length in Hlen; lia).
    destruct (app_eq_length _ _ _ _ Ls E') as [Es E''].
    subst s2. destruct (IH p2 m1 m2 k1 k2 eq_refl P2 E'') as [[r ->]|[r ->]].
    + left. exists r. reflexivity.
    + right. exists r. reflexivity.
Qed.

(* ---------- namespace_helpers.rs ---------- *)

(* slice::starts_with *)
Fixpoint is_prefix (ns k : bytes) : bool :=
  match ns, k with
  | [], _ => true
  | _ :: _, [] => false
  | x :: ns', y :: k' => (x =? y)%N && is_prefix ns' k'
  end.

(* Some r <-> k = ns ++ r *)
Fixpoint strip (ns k : bytes) : option bytes :=
  match ns, k with
  | [], _ => Some k
  | _ :: _, [] => None
  | x :: ns', y :: k' => if (x =? y)%N then strip ns' k' else None
  end.

(* trim, namespace_helpers.rs:67-70: `key[namespace.len()..]` panics (None) when the key is shorter *)
Definition trim (ns k : bytes) : option bytes :=
  if (length k <? length ns)%nat then None else Some (skipn (length ns) k).

Lemma strip_app ns k : strip ns (ns ++ k) = Some k.
Proof. induction ns as [|x ns IH]; cbn; [reflexivity|]. rewrite N.eqb_refl. exact IH. Qed.

Lemma strip_some ns : forall k r, strip ns k = Some r <-> k = ns ++ r.
Proof.
  induction ns as [|x ns IH]; intros k r; cbn.
  - split; congruence.
  - destruct k as [|y k]; [split; discriminate|].
    destruct (N.eqb_spec x y) as [->|Hne].
    + rewrite IH. split; [intros ->; reflexivity|intros E; injection E; auto].
    + split; [discriminate|]. intros E; injection E; intros; subst; congruence.
Qed.

Lemma is_prefix_strip ns : forall k, is_prefix ns k = match strip ns k with Some _ => true | None => false end.
Proof.
  induction ns as [|x ns IH]; intros k; cbn; [reflexivity|].
  destruct k as [|y k]; [reflexivity|]. destruct (x =? y)%N; cbn; [apply IH|reflexivity].
Qed.

Lemma is_prefix_app ns k : is_prefix ns (ns ++ k) = true.
Proof. rewrite is_prefix_strip, strip_app. reflexivity. Qed.

Lemma is_prefix_true ns k : is_prefix ns k = true <-> exists r, k = ns ++ r.
Proof.
  rewrite is_prefix_strip. destruct (strip ns k) as [r|] eqn:E.
  - apply strip_some in E. split; [eauto|reflexivity].
  - split; [discriminate|]. intros [r Hr]. apply strip_some in Hr. congruence.
Qed.

Lemma trim_app ns k : trim ns (ns ++ k) = Some k.
Proof.
  unfold trim. rewrite app_length. destruct (Nat.ltb_spec (length ns + length k) (length ns)); [lia|].
  rewrite skipn_app, skipn_all, Nat.sub_diag. reflexivity.
Qed.

(* after the starts_with filter the slice index is always in range *)
Lemma trim_strip ns k : is_prefix ns k = true -> trim ns k = strip ns k.
Proof. intros H. apply is_prefix_true in H as [r ->]. rewrite trim_app, strip_app. reflexivity. Qed.

Lemma strip_app_ns a b k : strip (a ++ b) k = match strip a k with Some r => strip b r | None => None end.
Proof.
  revert k. induction a as [|x a IH]; intros k; cbn; [reflexivity|].
  destruct k as [|y k]; [reflexivity|]. destruct (x =? y)%N; [apply IH|reflexivity].
Qed.

(* namespace_upper_bound, namespace_helpers.rs:75-87.  The loop runs from the last byte towards the
   first; [snd] = "the loop has not hit `break` yet" (every byte seen so far was 255). *)
Fixpoint ub_carry (ns : bytes) : bytes * bool :=
  match ns with
  | [] => ([], true)
  | x :: t =>
      let '(t', c) := ub_carry t in
      if c then (if (x =? 255)%N then (0%N :: t', true) else ((x + 1)%N :: t', false))
      else (x :: t', false)
  end.
Definition upper_bound (ns : bytes) : bytes := fst (ub_carry ns).

(* `namespace.iter().all(|b| *b == 255)`, namespace_helpers.rs:47 *)
Definition all_ff (ns : bytes) : bool := forallb (fun b => (b =? 255)%N) ns.

Lemma ub_carry_all_ff ns : snd (ub_carry ns) = all_ff ns.
Proof.
  induction ns as [|x t IH]; cbn [ub_carry all_ff forallb]; [reflexivity|].
  fold (all_ff t). destruct (ub_carry t) as [t' c]. cbn [snd] in IH. subst c.
  destruct (all_ff t); [|rewrite andb_false_r; reflexivity].
  rewrite andb_true_r. destruct (x =? 255)%N; reflexivity.
Qed.

(* every key of the namespace lies strictly below the code's upper bound (unless all bytes are 255,
   where the bound wraps around to 00..00 and the code uses no end bound at all) *)
Lemma below_upper_bound ns : forall r, all_ff ns = false -> bcmp (ns ++ r) (upper_bound ns) = Lt.
Proof.
  unfold upper_bound. induction ns as [|x t IH]; intros r H; [discriminate|].
  cbn [ub_carry app]. pose proof (ub_carry_all_ff t) as C.
  destruct (ub_carry t) as [t' c]. cbn [fst snd] in *. subst c. cbn [all_ff forallb] in H.
  fold (all_ff t) in H. destruct (all_ff t) eqn:At.
  - rewrite andb_true_r in H. rewrite H. cbn [fst bcmp].
    destruct (N.compare_spec x (x + 1)); try lia. reflexivity.
  - cbn [fst bcmp]. rewrite N.compare_refl. apply IH. reflexivity.
Qed.

(* the tight bound: strip trailing 255s, increment the last remaining byte; none if nothing remains *)
Fixpoint tight_upper (ns : bytes) : option bytes :=
  match ns with
  | [] => None
  | x :: t => match tight_upper t with
              | Some u => Some (x :: u)
              | None => if (x =? 255)%N then None else Some [(x + 1)%N]
              end
  end.

Lemma tight_upper_none ns : tight_upper ns = None <-> all_ff ns = true.
Proof.
  induction ns as [|x t IH]; cbn; [split; reflexivity|].
  destruct (tight_upper t) as [u|].
  - split; [discriminate|]. intros H. apply andb_true_iff in H as [_ H]. apply IH in H. discriminate.
  - destruct (x =? 255)%N; cbn; [|split; discriminate]. split; intros _; [apply IH|]; reflexivity.
Qed.

Lemma wf_bytes_cons x r : wf_bytes (x :: r) = true -> (x < 256)%N /\ wf_bytes r = true.
Proof. cbn. intros H. apply andb_true_iff in H as [H1 H2]. apply N.ltb_lt in H1. auto. Qed.

Lemma interval_all_ff ns : forall r, all_ff ns = true -> wf_bytes r = true ->
  (is_prefix ns r = true <-> bcmp ns r <> Gt).
Proof.
  induction ns as [|x t IH]; intros r A W.
  - cbn. destruct r; split; intros; try reflexivity; discriminate.
  - cbn [all_ff forallb] in A. apply andb_true_iff in A as [Ax At]. apply N.eqb_eq in Ax. subst x.
    destruct r as [|y r]; cbn [is_prefix bcmp]; [split; [discriminate|congruence]|].
    apply wf_bytes_cons in W as [Hy W].
    destruct (N.eqb_spec 255 y) as [<-|Hne]; cbn [andb].
    + rewrite N.compare_refl. apply IH; assumption.
    + destruct (N.compare_spec 255 y) as [|L|L]; try lia. split; [discriminate|congruence].
Qed.

Lemma interval_tight ns : forall r u, tight_upper ns = Some u -> wf_bytes r = true ->
  (is_prefix ns r = true <-> bcmp ns r <> Gt /\ bcmp r u = Lt).
Proof.
  induction ns as [|x t IH]; intros r u T W; [discriminate|].
  cbn [tight_upper] in T. destruct r as [|y r].
  - cbn. split; [discriminate|]. intros [H _]. congruence.
  - apply wf_bytes_cons in W as [Hy W]. cbn [is_prefix].
    destruct (tight_upper t) as [u'|] eqn:Tt.
    + injection T as <-. cbn [bcmp]. rewrite (N.compare_antisym x y).
      destruct (N.eqb_spec x y) as [->|Hne]; cbn [andb].
      * rewrite N.compare_refl. cbn. apply IH; [reflexivity|exact W].
      * destruct (N.compare_spec x y) as [|L|L]; try lia; cbn; split; try discriminate.
        -- intros [_ H]; discriminate.
        -- intros [H _]; congruence.
    + destruct (N.eqb_spec x 255) as [|Hx]; [discriminate|]. injection T as <-.
      apply tight_upper_none in Tt. cbn [bcmp].
      destruct (N.eqb_spec x y) as [->|Hne]; cbn [andb].
      * rewrite N.compare_refl. destruct (N.compare_spec y (y + 1)) as [|_|]; try lia.
        rewrite (interval_all_ff t r Tt W). split; [auto|intros [H _]; exact H].
      * destruct (N.compare_spec x y) as [|L|L]; try lia; split; try discriminate.
        -- intros [_ H]. destruct (N.compare_spec y (x + 1)) as [|L'|L']; try lia; try discriminate.
           destruct r; discriminate.
        -- intros [H _]; congruence.
Qed.

(* an explicit end bound never lets a foreign key in: everything in [ns++s, ns++e) starts with ns *)
Lemma bounded_inside ns : forall s e r,
  bcmp (ns ++ s) r <> Gt -> bcmp r (ns ++ e) = Lt -> is_prefix ns r = true.
Proof.
  induction ns as [|x t IH]; intros s e r H1 H2; [reflexivity|].
  destruct r as [|y r]; cbn in *; [congruence|].
  rewrite (N.compare_antisym x y) in H2.
  destruct (N.eqb_spec x y) as [->|Hne]; cbn.
  - rewrite N.compare_refl in *. cbn in H2. eapply IH; eassumption.
  - destruct (N.compare_spec x y) as [|L|L]; try lia; cbn in H2; congruence.
Qed.

(* boolean form: membership in the namespace = membership in [ns, tight_upper ns) *)
Lemma is_prefix_tight_bounds ns r : wf_bytes r = true ->
  in_bounds bcmp (Some ns) (tight_upper ns) r = is_prefix ns r.
Proof.
  intros W. unfold in_bounds, ge_start, lt_end. destruct (tight_upper ns) as [u|] eqn:T.
  - pose proof (interval_tight ns r u T W) as I. destruct (is_prefix ns r).
    + destruct I as [I _]. destruct (I eq_refl) as [I1 I2]. rewrite I2.
      destruct (bcmp ns r); try reflexivity. congruence.
    + destruct (bcmp ns r) eqn:C1; cbn; try reflexivity;
        destruct (bcmp r u) eqn:C2; try reflexivity;
        destruct I as [_ I]; symmetry; apply I; split; congruence.
  - apply tight_upper_none in T. pose proof (interval_all_ff ns r T W) as I. destruct (is_prefix ns r).
    + destruct I as [I _]. specialize (I eq_refl). destruct (bcmp ns r); try reflexivity. congruence.
    + destruct (bcmp ns r) eqn:C1; cbn; try reflexivity; destruct I as [_ I]; symmetry; apply I; congruence.
Qed.

(* ---------- the SPEC: the window of a namespace ---------- *)

Section View.
Context {V : Type}.
Notation omap := (list (bytes * V)).

Fixpoint window (ns : bytes) (m : omap) : omap :=
  match m with
  | [] => []
  | (k, v) :: m' => match strip ns k with Some r => (r, v) :: window ns m' | None => window ns m' end
  end.

(* the entries the view must never read or write *)
Definition outside (ns : bytes) (m : omap) : omap := filter (fun kv => negb (is_prefix ns (fst kv))) m.

(* the base with its [ns]-window replaced by [w] *)
Definition replace_window (ns : bytes) (w : omap) (m : omap) : omap :=
  fold_right (fun kv acc => insert bcmp (ns ++ fst kv) (snd kv) acc) (outside ns m) w.

Lemma assoc_window ns m k : assoc bcmp k (window ns m) = assoc bcmp (ns ++ k) m.
Proof.
  induction m as [|[k' v] m IH]; cbn [window assoc]; [reflexivity|].
  destruct (strip ns k') as [r|] eqn:E.
  - apply strip_some in E. subst k'. cbn [assoc]. rewrite bcmp_app, IH. reflexivity.
  - rewrite IH. destruct (bcmp (ns ++ k) k') eqn:C; try reflexivity.
    apply bcmp_eq in C. subst k'. rewrite strip_app in E. discriminate.
Qed.

Lemma window_keys_bound ns x m : Forall (lt bcmp (ns ++ x)) (keys m) -> Forall (lt bcmp x) (keys (window ns m)).
Proof.
  induction m as [|[k v] m IH]; cbn [window keys map]; intros H; [constructor|].
  inversion H as [|? ? Hk Hm]; subst. destruct (strip ns k) as [r|] eqn:E; [|apply IH, Hm].
  apply strip_some in E. subst k. cbn. constructor; [|apply IH, Hm].
  unfold lt in *. cbn [fst] in Hk. rewrite bcmp_app in Hk. exact Hk.
Qed.

Lemma window_sorted ns m : srt m -> srt (window ns m).
Proof.
  induction m as [|[k v] m IH]; cbn [window]; intros H; [exact H|].
  destruct (sorted_inv bcmp _ _ _ H) as [Hs Hb]. destruct (strip ns k) as [r|] eqn:E; [|apply IH, Hs].
  apply strip_some in E. subst k. apply sorted_cons; [apply IH, Hs|apply window_keys_bound, Hb].
Qed.

Lemma outside_sorted ns m : srt m -> srt (outside ns m).
Proof.
  unfold outside. induction m as [|[k v] m IH]; cbn; intros H; [exact H|].
  destruct (sorted_inv bcmp _ _ _ H) as [Hs Hb]. destruct (negb (is_prefix ns k)); [|apply IH, Hs].
  apply sorted_cons; [apply IH, Hs|apply filter_keys_bound, Hb].
Qed.

Lemma assoc_outside ns m r : srt m ->
  assoc bcmp r (outside ns m) = if is_prefix ns r then None else assoc bcmp r m.
Proof.
  unfold outside. induction m as [|[k v] m IH]; cbn; intros H; [destruct (is_prefix ns r); reflexivity|].
  destruct (sorted_inv bcmp _ _ _ H) as [Hs Hb]. destruct (is_prefix ns k) eqn:P; cbn.
  - rewrite IH by exact Hs. destruct (bcmp r k) eqn:C; try reflexivity.
    apply bcmp_eq in C. subst k. rewrite P. reflexivity.
  - rewrite IH by exact Hs. destruct (bcmp r k) eqn:C; try reflexivity.
    apply bcmp_eq in C. subst k. rewrite P. reflexivity.
Qed.

Lemma replace_window_sorted ns w m : srt m -> srt (replace_window ns w m).
Proof.
  intros H. unfold replace_window. induction w as [|[k v] w IH]; cbn.
  - apply outside_sorted, H.
  - apply b_insert_sorted, IH.
Qed.

Lemma assoc_replace_window ns w m r : srt m ->
  assoc bcmp r (replace_window ns w m) =
  match strip ns r with Some k => assoc bcmp k w | None => assoc bcmp r m end.
Proof.
  intros H. unfold replace_window. induction w as [|[k v] w IH]; cbn [fold_right fst snd].
  - rewrite assoc_outside by exact H. rewrite is_prefix_strip. destruct (strip ns r); reflexivity.
  - rewrite b_assoc_insert by (apply (replace_window_sorted ns w m H)). rewrite IH.
    destruct (strip ns r) as [k0|] eqn:E.
    + apply strip_some in E. subst r. rewrite bcmp_app. reflexivity.
    + destruct (bcmp r (ns ++ k)) eqn:C; try reflexivity.
      apply bcmp_eq in C. subst r. rewrite strip_app in E. discriminate.
Qed.

(* a sorted base is determined by its window and its complement *)
Lemma split_window ns m m' : srt m -> srt m' -> outside ns m' = outside ns m ->
  m' = replace_window ns (window ns m') m.
Proof.
  intros H H' Ho. apply b_sorted_ext; [exact H'|apply replace_window_sorted, H|].
  intros r. rewrite assoc_replace_window by exact H.
  destruct (strip ns r) as [k|] eqn:E.
  - apply strip_some in E. subst r. rewrite assoc_window. reflexivity.
  - pose proof (assoc_outside ns m r H) as A. pose proof (assoc_outside ns m' r H') as A'.
    rewrite is_prefix_strip, E in A, A'. rewrite <- A, <- A', Ho. reflexivity.
Qed.

Lemma window_replace_window ns w m : srt m -> srt w -> window ns (replace_window ns w m) = w.
Proof.
  intros H Hw. apply b_sorted_ext; [apply window_sorted, replace_window_sorted, H|exact Hw|].
  intros k. rewrite assoc_window, assoc_replace_window by exact H. rewrite strip_app. reflexivity.
Qed.

Lemma outside_replace_window ns w m : srt m -> outside ns (replace_window ns w m) = outside ns m.
Proof.
  intros H. apply b_sorted_ext; [apply outside_sorted, replace_window_sorted, H|apply outside_sorted, H|].
  intros r. rewrite !assoc_outside by (auto using replace_window_sorted).
  rewrite assoc_replace_window by exact H. rewrite is_prefix_strip. destruct (strip ns r); reflexivity.
Qed.

(* nesting: the window of a concatenated prefix is the window of the window *)
Lemma window_app a b m : window (a ++ b) m = window b (window a m).
Proof.
  induction m as [|[k v] m IH]; cbn [window]; [reflexivity|].
  rewrite strip_app_ns. destruct (strip a k) as [r|]; cbn [window]; [|exact IH].
  destruct (strip b r); rewrite IH; reflexivity.
Qed.

(* ---------- the MECHANISM: namespace_helpers.rs over an ordered-map base ---------- *)

(* get_with_prefix :4-10, set_with_prefix :12-19, remove_with_prefix :21-23 (concat :26-30) *)
Definition v_get (ns : bytes) (m : omap) (k : bytes) : option V := assoc bcmp (ns ++ k) m.
Definition v_set (ns : bytes) (m : omap) (k : bytes) (v : V) : omap := insert bcmp (ns ++ k) v m.
Definition v_remove (ns : bytes) (m : omap) (k : bytes) : omap := delete bcmp (ns ++ k) m.

(* range_with_prefix :32-65 *)
Definition range_start (ns : bytes) (s : option bytes) : bytes :=
  match s with Some s => ns ++ s | None => ns end.                                   (* :40-43 *)
Definition range_end (ns : bytes) (e : option bytes) : option bytes :=
  match e with
  | Some e => Some (ns ++ e)                                                         (* :45 *)
  | None => if all_ff ns then None else Some (upper_bound ns)                        (* :47, :49 *)
  end.
Definition keep (ns : bytes) (l : omap) : omap := filter (fun kv => is_prefix ns (fst kv)) l.   (* :59-62 *)
Fixpoint trim_all (ns : bytes) (l : omap) : outcome omap :=                          (* :63, trim may panic *)
  match l with
  | [] => Ok []
  | (k, v) :: l' =>
      match trim ns k with
      | None => Panic
      | Some r => match trim_all ns l' with Ok t => Ok ((r, v) :: t) | _ => Panic end
      end
  end.
Definition v_range (ns : bytes) (m : omap) (s e : option bytes) (o : order) : outcome omap :=
  let base_iterator := map_range bcmp m (Some (range_start ns s)) (range_end ns e) o in   (* :53 *)
  trim_all ns (keep ns base_iterator).

(* the same post-processing as a total function (for programs, which have no panic outcome) *)
Definition post_range (ns : bytes) (l : omap) : omap :=
  map (fun kv => (skipn (length ns) (fst kv), snd kv)) (keep ns l).

Lemma trim_all_keep ns l : trim_all ns (keep ns l) = Ok (post_range ns l).
Proof.
  unfold post_range, keep. induction l as [|[k v] l IH]; [reflexivity|].
  cbn [filter fst]. destruct (is_prefix ns k) eqn:P; [|exact IH].
  cbn [trim_all map fst snd]. rewrite IH.
  apply is_prefix_true in P as [r ->].
  rewrite trim_app, skipn_app, skipn_all, Nat.sub_diag. reflexivity.
Qed.

Lemma post_range_window ns l : post_range ns l = window ns l.
Proof.
  unfold post_range, keep. induction l as [|[k v] l IH]; cbn [filter window fst]; [reflexivity|].
  rewrite is_prefix_strip. destruct (strip ns k) as [r|] eqn:E; [|exact IH].
  apply strip_some in E. subst k. cbn [map fst snd]. rewrite IH.
  rewrite skipn_app, skipn_all, Nat.sub_diag. reflexivity.
Qed.

Lemma window_filter (ns : bytes) (f g : bytes * V -> bool) (m : omap) :
  (forall (r : bytes) (v : V), f ((ns ++ r : bytes), v) = g (r, v)) -> window ns (filter f m) = filter g (window ns m).
Proof.
  intros H. induction m as [|[k v] m IH]; [reflexivity|].
  cbn [filter window]. destruct (strip ns k) as [r|] eqn:E.
  - pose proof E as E'. apply strip_some in E'. subst k. rewrite H. cbn [filter].
    destruct (g (r, v)).
    + cbn [window]. rewrite E, IH. reflexivity.
    + exact IH.
  - destruct (f (k, v)); [cbn [window]; rewrite E|]; exact IH.
Qed.

Lemma window_rev ns (m : omap) : window ns (rev m) = rev (window ns m).
Proof.
  rewrite <- !post_range_window. unfold post_range, keep. rewrite filter_rev, map_rev. reflexivity.
Qed.

(* for keys inside the namespace the base bounds computed by the code say exactly what the
   client's bounds say about the stripped key *)
Lemma bounds_inside ns s e r :
  in_bounds bcmp (Some (range_start ns s)) (range_end ns e) (ns ++ r) = in_bounds bcmp s e r.
Proof.
  unfold in_bounds. f_equal.
  - destruct s as [s|]; cbn.
    + rewrite bcmp_app. reflexivity.
    + pose proof (bcmp_app_r ns r). destruct (bcmp ns (ns ++ r)); congruence.
  - destruct e as [e|]; cbn.
    + rewrite bcmp_app. reflexivity.
    + destruct (all_ff ns) eqn:A; cbn; [reflexivity|]. rewrite below_upper_bound by exact A. reflexivity.
Qed.

(* the code's base interval for `end = None`, [ns, upper_bound ns) or [ns, oo), intersected with the
   starts_with filter, is exactly the tight interval, i.e. exactly the keys of the namespace *)
Lemma code_interval ns r : wf_bytes r = true ->
  in_bounds bcmp (Some ns) (range_end ns None) r && is_prefix ns r = in_bounds bcmp (Some ns) (tight_upper ns) r.
Proof.
  intros W. rewrite is_prefix_tight_bounds by exact W. destruct (is_prefix ns r) eqn:P.
  - apply is_prefix_true in P as [k ->]. rewrite andb_true_r.
    apply (bounds_inside ns None None k).
  - apply andb_false_r.
Qed.

Lemma range_window ns m s e o :
  window ns (spec_range bcmp m (Some (range_start ns s)) (range_end ns e) o) = spec_range bcmp (window ns m) s e o.
Proof.
  assert (F : window ns (frange bcmp m (Some (range_start ns s)) (range_end ns e)) = frange bcmp (window ns m) s e).
  { unfold frange. apply window_filter. intros r v. cbn [fst]. apply bounds_inside. }
  destruct o; cbn [spec_range]; [exact F|]. rewrite window_rev, F. reflexivity.
Qed.

(* range through the view = the ordered-map range of the window: every namespace, every base
   content, every bound pair, both orders; never a panic *)
Lemma v_range_spec ns m s e o : v_range ns m s e o = Ok (spec_range bcmp (window ns m) s e o).
Proof.
  unfold v_range. rewrite trim_all_keep, post_range_window, b_map_range_spec, range_window. reflexivity.
Qed.

Lemma v_get_spec ns m k : v_get ns m k = assoc bcmp k (window ns m).
Proof. unfold v_get. rewrite assoc_window. reflexivity. Qed.

Lemma assoc_not_prefix_insert ns k (v : V) (m : omap) r : srt m -> is_prefix ns r = false ->
  assoc bcmp r (insert bcmp (ns ++ k) v m) = assoc bcmp r m.
Proof.
  intros H P. rewrite b_assoc_insert by exact H. destruct (bcmp r (ns ++ k)) eqn:C; try reflexivity.
  apply bcmp_eq in C. subst r. rewrite is_prefix_app in P. discriminate.
Qed.

Lemma assoc_not_prefix_delete ns k (m : omap) r : srt m -> is_prefix ns r = false ->
  assoc bcmp r (delete bcmp (ns ++ k) m) = assoc bcmp r m.
Proof.
  intros H P. rewrite b_assoc_delete by exact H. destruct (bcmp r (ns ++ k)) eqn:C; try reflexivity.
  apply bcmp_eq in C. subst r. rewrite is_prefix_app in P. discriminate.
Qed.

Lemma outside_ext ns m m' : srt m -> srt m' ->
  (forall r, is_prefix ns r = false -> assoc bcmp r m' = assoc bcmp r m) -> outside ns m' = outside ns m.
Proof.
  intros H H' E. apply b_sorted_ext; [apply outside_sorted, H'|apply outside_sorted, H|].
  intros r. rewrite !assoc_outside by assumption. destruct (is_prefix ns r) eqn:P; [reflexivity|apply E, P].
Qed.

(* set through the view = insert into the window; the complement of the window is untouched *)
Lemma v_set_spec ns m k v : srt m ->
  srt (v_set ns m k v) /\
  window ns (v_set ns m k v) = insert bcmp k v (window ns m) /\
  outside ns (v_set ns m k v) = outside ns m.
Proof.
  intros H. unfold v_set. pose proof (b_insert_sorted (ns ++ k) v m H) as H'. split; [exact H'|]. split.
  - apply b_sorted_ext; [apply window_sorted, H'|apply b_insert_sorted, window_sorted, H|].
    intros x. rewrite assoc_window. rewrite !b_assoc_insert by (auto using window_sorted).
    rewrite bcmp_app, assoc_window. reflexivity.
  - apply outside_ext; try assumption. intros r P. apply assoc_not_prefix_insert; assumption.
Qed.

Lemma v_remove_spec ns m k : srt m ->
  srt (v_remove ns m k) /\
  window ns (v_remove ns m k) = delete bcmp k (window ns m) /\
  outside ns (v_remove ns m k) = outside ns m.
Proof.
  intros H. unfold v_remove. pose proof (b_delete_sorted (ns ++ k) m H) as H'. split; [exact H'|]. split.
  - apply b_sorted_ext; [apply window_sorted, H'|apply b_delete_sorted, window_sorted, H|].
    intros x. rewrite assoc_window. rewrite !b_assoc_delete by (auto using window_sorted).
    rewrite bcmp_app, assoc_window. reflexivity.
  - apply outside_ext; try assumption. intros r P. apply assoc_not_prefix_delete; assumption.
Qed.

(* ---------- any client program through the view ---------- *)

Notation bprog := (prog (K := bytes) (V := V)).
Notation bop := (op (K := bytes) (V := V)).

Definition lift_op (ns : bytes) (w : bop) : bop :=
  match w with OSet k v => OSet (ns ++ k) v | ODel k => ODel (ns ++ k) end.

(* what a program written against the view does to the view's base: every Storage call goes
   through namespace_helpers; nested transactional blocks and reads of the stores below them are
   taken through the same namespace (wasm.rs hands contracts prefixed views of both) *)
Fixpoint lift_view {E A} (ns : bytes) (p : bprog E A) : bprog E A :=
  match p with
  | Ret a => Ret a
  | Fail e => Fail e
  | Get k f => Get (ns ++ k) (fun x => lift_view ns (f x))
  | Range s e o f =>
      Range (Some (range_start ns s)) (range_end ns e) o (fun l => lift_view ns (f (post_range ns l)))
  | Write w p' => Write (lift_op ns w) (lift_view ns p')
  | GetBelow n k f => GetBelow n (ns ++ k) (fun x => lift_view ns (f x))
  | RangeBelow n s e o f =>
      RangeBelow n (Some (range_start ns s)) (range_end ns e) o (fun l => lift_view ns (f (post_range ns l)))
  | Nested q f => Nested (lift_view ns q) (fun r => lift_view ns (f r))
  end.

Lemma lift_write_spec ns m w : srt m ->
  srt (map_write bcmp m (lift_op ns w)) /\
  window ns (map_write bcmp m (lift_op ns w)) = map_write bcmp (window ns m) w /\
  outside ns (map_write bcmp m (lift_op ns w)) = outside ns m.
Proof. intros H. destruct w as [k v|k]; cbn [lift_op map_write]; [apply v_set_spec|apply v_remove_spec]; exact H. Qed.

Definition lens_rel {E A} (ns : bytes) (m : omap) (x y : res E A omap) : Prop :=
  match x, y with
  | Done a m', Done a' w' =>
      a = a' /\ srt m' /\ window ns m' = w' /\ outside ns m' = outside ns m /\ m' = replace_window ns w' m
  | Failed e, Failed e' => e = e'
  | _, _ => False
  end.

Lemma nth_window ns (outer : list omap) i : window ns (nth i outer []) = nth i (map (window ns) outer) [].
Proof. change (@nil (bytes * V)) with (window ns []) at 2. rewrite map_nth. reflexivity. Qed.

Lemma nth_sorted (outer : list omap) i : Forall srt outer -> srt (nth i outer []).
Proof.
  intros H. destruct (Nat.lt_ge_cases i (length outer)) as [L|L].
  - rewrite Forall_forall in H. apply H, nth_In, L.
  - rewrite nth_overflow by exact L. constructor.
Qed.

Lemma lens_rel_rebase {E A} ns (m m1 : omap) (x y : res E A omap) :
  srt m -> outside ns m1 = outside ns m -> lens_rel ns m1 x y -> lens_rel ns m x y.
Proof.
  intros Hm Ho. destruct x as [a m'|e], y as [a' w'|e']; unfold lens_rel; try (intros H; exact H).
  intros (Ha & Hs & Hw & Hout & _). split; [exact Ha|]. split; [exact Hs|]. split; [exact Hw|].
  split; [congruence|]. rewrite <- Hw. apply split_window; [exact Hm|exact Hs|congruence].
Qed.

Lemma lens E A (p : bprog E A) ns : forall outer m, srt m -> Forall srt outer ->
  lens_rel ns m (run_flat bcmp (lift_view ns p) outer m)
               (run_flat bcmp p (map (window ns) outer) (window ns m)).
Proof.
  induction p as [a|e|k f IH|s e o f IH|w p IH|n k f IH|n s e o f IH|q IHq f IHf];
    intros outer m Hm Ho; cbn [lift_view run_flat].
  - unfold lens_rel. repeat split; auto. apply split_window; auto.
  - reflexivity.
  - rewrite assoc_window. apply IH; assumption.
  - rewrite <- range_window, <- post_range_window. apply IH; assumption.
  - destruct (lift_write_spec ns m w Hm) as (H1 & H2 & H3).
    specialize (IH outer _ H1 Ho). rewrite H2 in IH.
    eapply lens_rel_rebase; [exact Hm|exact H3|exact IH].
  - rewrite <- nth_window, assoc_window. apply IH; assumption.
  - rewrite <- nth_window, <- range_window, <- post_range_window. apply IH; assumption.
  - specialize (IHq (m :: outer) m Hm (Forall_cons _ Hm Ho)). cbn [map] in IHq.
    match goal with |- lens_rel _ _ (match ?x with _ => _ end) (match ?y with _ => _ end) =>
      change (lens_rel ns m x y) in IHq; destruct x as [b m1|e1]; destruct y as [b' w1|e1'] end;
      unfold lens_rel in IHq; try contradiction.
    + destruct IHq as (-> & Hs1 & Hw1 & Hout1 & _). subst w1.
      eapply lens_rel_rebase; [exact Hm|exact Hout1|]. apply IHf; assumption.
    + subst e1'. apply IHf; assumption.
Qed.

End View.

(* ---------- views for different paths ---------- *)

Section Disjoint.
Context {V : Type}.
Notation omap := (list (bytes * V)).

(* no raw key lies in the windows of two non-comparable paths *)
Lemma no_common_key p1 p2 n1 n2 r :
  enc_path p1 = Some n1 -> enc_path p2 = Some n2 -> ~ seg_prefix p1 p2 -> ~ seg_prefix p2 p1 ->
  is_prefix n1 r = true -> is_prefix n2 r = true -> False.
Proof.
  intros E1 E2 N1 N2 P1 P2. apply is_prefix_true in P1 as [k1 ->]. apply is_prefix_true in P2 as [k2 Hk].
  destruct (prefix_free p1 p2 n1 n2 k1 k2 E1 E2 Hk); contradiction.
Qed.

Lemma window_of_outside n1 n2 (m : omap) :
  (forall r, is_prefix n1 r = true -> is_prefix n2 r = true -> False) ->
  window n2 (outside n1 m) = window n2 m.
Proof.
  intros D. unfold outside. induction m as [|[k v] m IH]; cbn [filter window fst]; [reflexivity|].
  destruct (is_prefix n1 k) eqn:P1; cbn [negb window].
  - destruct (strip n2 k) as [r|] eqn:E; [|exact IH].
    exfalso. apply (D k P1). rewrite is_prefix_strip, E. reflexivity.
  - rewrite IH. reflexivity.
Qed.

(* whatever leaves the complement of window n1 alone leaves every disjoint window alone *)
Lemma disjoint_frame n1 n2 (m m' : omap) :
  (forall r, is_prefix n1 r = true -> is_prefix n2 r = true -> False) ->
  outside n1 m' = outside n1 m -> window n2 m' = window n2 m.
Proof. intros D H. rewrite <- (window_of_outside n1 n2 m' D), H. apply window_of_outside, D. Qed.

(* any client program run through view n1 leaves every disjoint window n2 exactly as it was *)
Lemma disjoint_program {E A} (p : prog (K := bytes) (V := V) E A) n1 n2 outer (m : omap) :
  (forall r, is_prefix n1 r = true -> is_prefix n2 r = true -> False) ->
  srt m -> Forall srt outer ->
  match run_flat bcmp (lift_view n1 p) outer m with
  | Done _ m' => window n2 m' = window n2 m
  | Failed _ => True
  end.
Proof.
  intros D Hm Ho. pose proof (lens E A p n1 outer m Hm Ho) as L.
  destruct (run_flat bcmp (lift_view n1 p) outer m) as [a m'|e]; [|exact I].
  destruct (run_flat bcmp p (map (window n1) outer) (window n1 m)) as [a' w'|e']; [|contradiction].
  destruct L as (_ & _ & _ & Hout & _). eapply disjoint_frame; eassumption.
Qed.

End Disjoint.
