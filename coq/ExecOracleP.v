(* ExecOracleP.v — part 4: the oracles p_c13, p_c03, p_c02, p_c01 (ChkX.v) return None on the step records built
   from the model's own run, for every environment, every state satisfying the scenario invariant and every
   top-level call satisfying the generator's well-formedness. *)
From Coq Require Import Sorted.
From Verif Require Import Base OMap Text Proto Bank Exec ExecFacts ExecInv ExecFacts2 ExecIso ChkExec ChkX Registry ExecReg
  ExecOracle ExecOracleM ExecOracleE.
Local Open Scope N_scope.

(* ---------- lookups under uniqueness ---------- *)
Lemma find_info_unique infos pi : NoDup (map pi_node infos) -> In pi infos -> find_info (pi_node pi) infos = Some pi.
Proof.
  induction infos as [|p r IH]; intros Hn Hi; [contradiction|]. cbn [map] in Hn. inversion Hn as [|x l Hx Hr]; subst.
  cbn [find_info]. destruct (pi_node p =? pi_node pi) eqn:E.
  - apply N.eqb_eq in E. destruct Hi as [->|Hi]; [reflexivity|]. exfalso. apply Hx. rewrite E. apply in_map. exact Hi.
  - destruct Hi as [->|Hi]; [rewrite N.eqb_refl in E; discriminate|]. apply IH; assumption.
Qed.

Lemma find_call_in n tr en : find_call n tr = Some en -> In en tr /\ call_node en = Some n.
Proof.
  induction tr as [|x tr IH]; cbn [find_call]; [discriminate|].
  destruct (call_node x) as [n'|] eqn:E.
  - destruct (n' =? n) eqn:E2.
    + intros H. injection H as <-. apply N.eqb_eq in E2. subst. split; [left; reflexivity|exact E].
    + intros H. destruct (IH H). split; [right|]; assumption.
  - intros H. destruct (IH H). split; [right|]; assumption.
Qed.
Lemma find_call_called n tr en : find_call n tr = Some en -> In n (call_nodes tr).
Proof.
  induction tr as [|x tr IH]; cbn [find_call call_nodes]; [discriminate|].
  destruct (call_node x) as [n'|]; [|exact IH]. destruct (n' =? n) eqn:E2.
  - intros _. apply N.eqb_eq in E2. left. exact E2.
  - intros H. right. apply IH, H.
Qed.
Lemma find_call_unique tr en n : NoDup (call_nodes tr) -> In en tr -> call_node en = Some n -> find_call n tr = Some en.
Proof.
  induction tr as [|x tr IH]; intros Hn Hi Hc; [contradiction|]. cbn [find_call call_nodes] in *.
  destruct Hi as [->|Hi].
  - rewrite Hc, N.eqb_refl. reflexivity.
  - destruct (call_node x) as [n'|] eqn:E; [|apply IH; assumption]. inversion Hn as [|y l Hy Hr]; subst.
    destruct (n' =? n) eqn:E2; [|apply IH; assumption]. apply N.eqb_eq in E2. subst n'. exfalso. apply Hy.
    clear - Hi Hc. induction tr as [|z tr IH]; [contradiction|]. cbn [call_nodes]. destruct Hi as [->|Hi].
    + rewrite Hc. left. reflexivity.
    + destruct (call_node z); [right|]; apply IH, Hi.
Qed.
Lemma calls_find tr d x : NoDup (call_nodes tr) -> In (d, x) (calls tr) ->
  exists pen, find_call d tr = Some pen /\ callee_of pen = x.
Proof.
  intros Hn Hi. apply in_flat_map in Hi as (en & He & Hp).
  destruct en as [n e c sd f b t r| | |]; cbn in Hp; try contradiction. destruct Hp as [Hp|[]]. injection Hp as -> ->.
  eexists. split; [apply find_call_unique; [exact Hn|exact He|reflexivity]|reflexivity].
Qed.

(* ---------- the precondition of one step ---------- *)
Definition step_pre (s : chain) (op : topop) : Prop :=
  st_ok s /\ wf_op op /\ NoDup (map marker (nodes_op op)) /\ fresh s (nodes_op op).

(* not Ok => the state is the state before (every entry point proper; the Executor helpers parse the
   response after the transaction has been committed) *)
Definition atomic_at (e : env) (op : topop) (s : chain) : Prop :=
  is_ok (top_outcome (run_top e op s)) = false -> top_state (run_top e op s) = s.

Definition no_helper (op : topop) : Prop := match op with THelperInst _ _ | THelperExec _ _ => False | _ => True end.
Lemma atomic_no_helper e op s : no_helper op -> atomic_at e op s.
Proof.
  unfold atomic_at, top_outcome, top_state.
  destruct op as [sender ms|sender m|c p|to amt|sender m|sender m]; cbn [no_helper run_top]; intros Hh; try contradiction.
  - destruct (run_msgs e sender ms s) as [tr [[rs s']| |]]; cbn; auto; discriminate.
  - destruct (run_msgs e sender [m] s) as [tr [[rs s']| |]]; cbn; auto; discriminate.
  - destruct (run_prog e ESudo c None [] None 0 true p s) as [tr [[rs s']| |]]; cbn; auto; discriminate.
  - destruct (negb (is_valid e to)); cbn; auto. destruct (bank_mint (bank s) to amt); cbn; auto; discriminate.
Qed.

(* ---------- programs that fail by themselves at the root of a call ---------- *)
Lemma malformed_fails_itself p : prog_malformed p = true -> prog_fails_itself p = true.
Proof. destruct p as [n a [|at0 ev d sb]]; cbn; auto. Qed.

Lemma msg_failing_fails e sender m s0 p : msg_prog m = Some p -> prog_fails_itself p = true ->
  is_ok (outc (run_msg e sender m s0)) = false.
Proof.
  intros Hp Hfl. destruct (run_msg_cases e sender m s0 p Hp) as [[_ H]|(c & s1 & _ & _ & _ & _ & ->)]; [exact H|].
  destruct p as [node acts out].
  pose proof (run_prog_ok_not_failing e (msg_entry m) c (msg_sender m sender) (msg_funds m) None (msg_cid m) true node acts out s1) as H.
  destruct (run_prog e (msg_entry m) c (msg_sender m sender) (msg_funds m) None (msg_cid m) true (Prog node acts out) s1)
    as [t0 [[[ev d] s2]| |]]; cbn [outc snd] in *; try reflexivity.
  rewrite (H _ eq_refl) in Hfl. discriminate.
Qed.
Lemma msgs_failing e sender m : forall ms, In m ms -> (forall s0, is_ok (outc (run_msg e sender m s0)) = false) ->
  forall s0, is_ok (outc (run_msgs e sender ms s0)) = false.
Proof.
  induction ms as [|m0 r IH]; intros Hi H s0; [contradiction|]. rewrite run_msgs_cons.
  destruct Hi as [->|Hi].
  - specialize (H s0). destruct (run_msg e sender m s0) as [t1 [[rs s1]| |]]; cbn in *; try reflexivity. discriminate.
  - destruct (run_msg e sender m0 s0) as [t1 [[rs s1]| |]]; cbn; try reflexivity.
    specialize (IH Hi H s1). destruct (run_msgs e sender r s1) as [t2 [[rss s2]| |]]; cbn in *; try reflexivity. discriminate.
Qed.

(* only the root program of a top-level message has no dispatcher *)
Lemma flat_disp :
  (forall m dd pi, In pi (flat_msg dd m) -> pi_disp pi = None -> dd = None /\ msg_prog m = Some (pi_prog pi)) /\
  (forall p e0 dd rep f t i pi, In pi (flat_prog e0 dd rep f t i p) -> pi_disp pi = None -> dd = None /\ pi_prog pi = p) /\
  (forall o0 d pi, In pi (flat_out d o0) -> pi_disp pi = None -> False) /\
  (forall l d pi, In pi (flat_subs d l) -> pi_disp pi = None -> False) /\
  (forall sb d pi, In pi (flat_sub d sb) -> pi_disp pi = None -> False).
Proof.
  apply exec_mutind; try (intros; cbn [flat_msg flat_out flat_subs In] in *; contradiction).
  - intros c p IH funds dd pi Hi Hd. destruct (IH _ _ _ _ _ _ _ Hi Hd) as [A B]. split; [exact A|]. cbn [msg_prog]. congruence.
  - intros cid p IH funds label admin salt dd pi Hi Hd. destruct (IH _ _ _ _ _ _ _ Hi Hd) as [A B]. split; [exact A|]. cbn [msg_prog]. congruence.
  - intros c nc p IH dd pi Hi Hd. destruct (IH _ _ _ _ _ _ _ Hi Hd) as [A B]. split; [exact A|]. cbn [msg_prog]. congruence.
  - intros node acts o0 IH e0 dd rep f t i pi Hi Hd. cbn [flat_prog] in Hi. fold (flat_out node o0) in Hi.
    destruct Hi as [<-|Hi]; [split; [exact Hd|reflexivity]|]. exfalso. exact (IH node pi Hi Hd).
  - intros attrs events data sbs IH d pi Hi. exact (IH d pi Hi).
  - intros sb IH r IHr d pi Hi Hd. cbn [flat_subs] in Hi. apply in_app_or in Hi as [Hi|Hi]; eauto.
  - intros id payload ro m IHm on_ok IHok on_err IHerr d pi Hi Hd. cbn [flat_sub] in Hi.
    apply in_app_or in Hi as [Hi|Hi]; [|apply in_app_or in Hi as [Hi|Hi]].
    + destruct (IHm (Some d) pi Hi Hd) as [A _]. discriminate.
    + destruct (IHok _ _ _ _ _ _ _ Hi Hd) as [A _]. discriminate.
    + destruct (IHerr _ _ _ _ _ _ _ Hi Hd) as [A _]. discriminate.
Qed.

Lemma root_fails e op s pi : In pi (flat_op op) -> pi_disp pi = None -> prog_fails_itself (pi_prog pi) = true ->
  is_ok (outc (inner e op s)) = false.
Proof.
  intros Hi Hd Hfl. destruct (op_msgs op) as [[sd ms]|] eqn:E.
  - destruct (inner_msgs e op s sd ms E) as (-> & _ & _ & Ef & _). rewrite Ef in Hi.
    apply in_flat_map in Hi as (m & Hm & Hi). destruct (proj1 flat_disp m None pi Hi Hd) as [_ Hp].
    apply (msgs_failing e sd m ms Hm). intros s0. eapply msg_failing_fails; eassumption.
  - destruct op; try discriminate; [|destruct Hi].
    cbn [flat_op inner] in *. destruct (proj1 (proj2 flat_disp) p _ _ _ _ _ _ pi Hi Hd) as [_ Ep]. subst p.
    destruct (pi_prog pi) as [node acts out] eqn:Epp.
    pose proof (run_prog_ok_not_failing e ESudo c None [] None 0 true node acts out s) as H.
    destruct (run_prog e ESudo c None [] None 0 true (Prog node acts out) s) as [t0 [[r0 s0]| |]]; cbn [outc snd] in *; try reflexivity.
    rewrite (H _ eq_refl) in Hfl. discriminate.
Qed.

(* ---------- a successful single-message call ---------- *)
Lemma texec_ok e sd m s rs : top_outcome (run_top e (TExec sd m) s) = Ok rs ->
  exists r s1, run_msg e sd m s = (top_trace (run_top e (TExec sd m) s), Ok (r, s1)) /\ rs = [r] /\
               top_state (run_top e (TExec sd m) s) = s1.
Proof.
  unfold top_outcome, top_trace, top_state. cbn [run_top]. rewrite run_msgs_cons.
  destruct (run_msg e sd m s) as [t1 [[r s1]| |]]; cbn; try discriminate.
  intros H. injection H as <-. exists r, s1. rewrite app_nil_r. auto.
Qed.

Lemma is_prefix_ev_app a b : is_prefix_ev a (a ++ b) = true.
Proof. induction a as [|x a IH]; cbn; [reflexivity|]. rewrite event_eqb_refl, IH. reflexivity. Qed.

(* a successful contract call: the response is the program's own events followed by those of its sub-messages *)
Lemma run_prog_ok_events e entry c sender funds rep cid p s tr0 ev d s2 :
  run_prog e entry c sender funds rep cid true p s = (tr0, Ok ((ev, d), s2)) ->
  prog_fails_itself p = false /\ exists ev_s, ev = leaf_events entry c cid p ++ ev_s /\
  (prog_leaf p = true -> ev_s = [] /\ d = own_data p /\ s2 = body_st e s (node_of p) c match p with Prog _ a _ => a end) /\
  exists co rest, tr0 = hdr e (node_of p) entry c sender funds co rep :: rest.
Proof.
  destruct p as [node acts out]. intros E.
  destruct (run_prog_cases e entry c sender funds rep cid true node acts out s)
    as [[_ E1]|[(co & _ & _ & E1)|(co & attrs & events & data & sbs & _ & -> & Hv & E1)]]; rewrite E1 in E; try discriminate.
  split; [cbn; rewrite Hv; reflexivity|].
  destruct (process_subs e c sbs data (body_st e s node c acts)) as [tr_s [[[ev1 d1] s3]| |]] eqn:Es; try discriminate.
  injection E as <- <- <- <-. exists ev1. split; [reflexivity|]. split; [|eexists; eexists; reflexivity].
  cbn [prog_leaf]. destruct sbs; [|discriminate]. intros _. cbn in Es. injection Es as _ <- <- <-. auto.
Qed.

Lemma texec_call_ok e sd m p s rs : msg_prog m = Some p -> top_outcome (run_top e (TExec sd m) s) = Ok rs ->
  exists c ev d s1 s2, cstore s1 = cstore s /\ (forall t, msg_target m = Some t -> t = c) /\
    run_prog e (msg_entry m) c (msg_sender m sd) (msg_funds m) None (msg_cid m) true p s1 =
      (top_trace (run_top e (TExec sd m) s), Ok ((ev, d), s2)) /\
    rs = [(ev, msg_data m c d)] /\ top_state (run_top e (TExec sd m) s) = s2.
Proof.
  intros Hp Ho. destruct (texec_ok e sd m s rs Ho) as (r & s1 & E & -> & Es).
  remember (top_trace (run_top e (TExec sd m) s)) as T eqn:ET. remember (top_state (run_top e (TExec sd m) s)) as S eqn:ES.
  destruct (run_msg_cases e sd m s p Hp) as [[_ Hx]|(c & s0 & Hc & _ & Ht & _ & E2)].
  { rewrite E in Hx. discriminate. }
  rewrite E in E2.
  destruct (run_prog e (msg_entry m) c (msg_sender m sd) (msg_funds m) None (msg_cid m) true p s0) as [t0 [[[ev d] s2]| |]] eqn:Er;
    try discriminate. injection E2 as E3 E4 E5. exists c, ev, d, s0, s2.
  split; [exact Hc|]. split; [exact Ht|]. split; [rewrite Er, E3; reflexivity|]. split; [rewrite E4; reflexivity|congruence].
Qed.
Lemma tsudo_ok e c p s rs : top_outcome (run_top e (TWasmSudo c p) s) = Ok rs ->
  exists ev d s2, run_prog e ESudo c None [] None 0 true p s = (top_trace (run_top e (TWasmSudo c p) s), Ok ((ev, d), s2)) /\
                  rs = [(ev, d)] /\ top_state (run_top e (TWasmSudo c p) s) = s2.
Proof.
  unfold top_outcome, top_trace, top_state. cbn [run_top].
  destruct (run_prog e ESudo c None [] None 0 true p s) as [t0 [[[ev d] s2]| |]]; cbn; try discriminate.
  intros H. injection H as <-. exists ev, d, s2. auto.
Qed.

Lemma in_call_nodes tr en n : In en tr -> call_node en = Some n -> In n (call_nodes tr).
Proof.
  induction tr as [|x tr IH]; intros Hi Hc; [contradiction|]. cbn [call_nodes]. destruct Hi as [->|Hi].
  - rewrite Hc. left. reflexivity.
  - destruct (call_node x); [right|]; apply IH; assumption.
Qed.

(* ---------- the block, at top level ---------- *)
Lemma msgs_block_ok e sender : forall ms s, Forall (entry_block_ok (blk e)) (trc (run_msgs e sender ms s)).
Proof.
  induction ms as [|m r IH]; intros s; [constructor|]. rewrite run_msgs_cons.
  pose proof (proj1 (exec_block_ok e) m sender s) as H1.
  destruct (run_msg e sender m s) as [tr1 [[rs s1]| |]]; cbn [trc fst] in *; try exact H1.
  specialize (IH s1). destruct (run_msgs e sender r s1) as [tr2 r2]. cbn [trc fst] in *. apply Forall_app. auto.
Qed.
Lemma top_block_ok e op s : Forall (entry_block_ok (blk e)) (top_trace (run_top e op s)).
Proof.
  rewrite (proj1 (top_inner e op s)). destruct (op_msgs op) as [[sd ms]|] eqn:E.
  - destruct (inner_msgs e op s sd ms E) as (-> & _). apply msgs_block_ok.
  - destruct op; try discriminate.
    + cbn [inner]. pose proof (proj1 (proj2 (exec_block_ok e)) p ESudo c None [] None 0 true s) as H.
      destruct (run_prog e ESudo c None [] None 0 true p s) as [t0 r0]. exact H.
    + rewrite inner_mint. constructor.
Qed.

(* ---------- the roots among the called nodes ---------- *)
Lemma filter_none {A} (f : A -> bool) l : (forall x, In x l -> f x = false) -> filter f l = [].
Proof.
  induction l as [|x l IH]; intros H; [reflexivity|]. cbn [filter]. rewrite (H x (or_introl eq_refl)).
  apply IH. intros y Hy. apply H. right. exact Hy.
Qed.
Lemma filter_roots : forall ms (R : list N), NoDup (flat_map nodes_msg ms) ->
  (forall n, In n (flat_map nodes_msg ms) -> (In n R <-> In n (flat_map root_of ms))) ->
  filter (fun n => memN n R) (flat_map nodes_msg ms) = flat_map root_of ms.
Proof.
  induction ms as [|m r IH]; intros R Hn HR; [reflexivity|]. cbn [flat_map] in *. rewrite filter_app.
  destruct (NoDup_app_inv _ _ Hn) as (Hn1 & Hn2 & Hd). f_equal.
  - unfold root_of in *. destruct (msg_prog m) as [p|] eqn:Hp.
    + rewrite (proj1 (proj2 (flat_msg_prog m p None Hp))), nodes_prog_eq in *. cbn [filter app].
      assert (E : memN (node_of p) R = true).
      { apply memN_in, HR; [apply in_or_app; left; left; reflexivity|left; reflexivity]. }
      rewrite E. f_equal. inversion Hn1 as [|x l Hx Hl]; subst.
      apply filter_none. intros n Hin.
      destruct (memN n R) eqn:E2; [|reflexivity]. apply memN_in in E2. exfalso.
      apply HR in E2; [|apply in_or_app; left; right; exact Hin]. destruct E2 as [E2|E2].
      * subst n. contradiction.
      * apply (Hd n); [right; exact Hin|]. apply in_flat_map in E2 as (m' & Hm' & E2).
        apply in_flat_map. exists m'. split; [exact Hm'|]. unfold root_of in E2. apply root_of_nodes. exact E2.
    + rewrite (proj1 (proj2 (flat_msg_leaf m None Hp))). reflexivity.
  - apply IH; [exact Hn2|]. intros n Hin. rewrite (HR n) by (apply in_or_app; right; exact Hin).
    rewrite in_app_iff. split; [|auto]. intros [H|H]; [|exact H]. exfalso. apply (Hd n); [|exact Hin].
    apply root_of_nodes. exact H.
Qed.

(* ---------- what a body leaves for each key it touched ---------- *)
Lemma fold_wr_last k acts : forall own cur, sorted bcmp own -> (cur = None \/ cur = Some (assoc bcmp k own)) ->
  match last_write k acts cur with Some v => assoc bcmp k (fold_left wr acts own) = v | None => True end.
Proof.
  induction acts as [|a r IH]; intros own cur Hs Hc; cbn [last_write fold_left].
  - destruct Hc as [->| ->]; auto.
  - destruct a as [k' v|k'|q]; cbn [wr].
    + apply IH; [apply b_insert_sorted; exact Hs|]. rewrite B_assoc_insert by exact Hs. unfold beqb.
      destruct (bcmp k k'); auto.
    + apply IH; [apply B_delete_sorted; exact Hs|]. rewrite B_assoc_delete by exact Hs. unfold beqb.
      destruct (bcmp k k'); auto.
    + apply IH; assumption.
Qed.

Lemma leaf_persisted e s1 c node acts attrs events data : st_ok s1 ->
  leaf_effects_persisted (body_st e s1 node c acts) c (Prog node acts (OResp attrs events data SNil)) = true.
Proof.
  intros [H1 H2]. cbn [leaf_effects_persisted]. apply forallb_forall. intros k _.
  unfold body_st. rewrite cstore_get_set_same by exact H1. rewrite body_store.
  pose proof (fold_wr_last k acts (cstore_get s1 c) None (H2 c) (or_introl eq_refl)) as H.
  destruct (last_write k acts None) as [v|]; [|reflexivity]. rewrite H. apply obytes_eqb_refl.
Qed.

Lemma resp_count e op s rs : top_outcome (run_top e op s) = Ok rs ->
  match op with TExecMulti _ ms => length rs = length ms | _ => length rs = 1%nat end.
Proof.
  unfold top_outcome. destruct op as [sd ms|sd m|c p|to amt|sd m|sd m]; cbn [run_top].
  - destruct (run_msgs e sd ms s) as [t0 [[rs0 s0]| |]] eqn:E; cbn; intros H; try discriminate. injection H as <-.
    exact (proj2 (run_msgs_ok_spec e sd ms s t0 rs0 s0 E)).
  - destruct (run_msgs e sd [m] s) as [t0 [[rs0 s0]| |]]; cbn; intros H; try discriminate. injection H as <-. reflexivity.
  - destruct (run_prog e ESudo c None [] None 0 true p s) as [t0 [[rs0 s0]| |]]; cbn; intros H; try discriminate. injection H as <-. reflexivity.
  - destruct (negb (is_valid e to)); cbn; [discriminate|]. destruct (bank_mint (bank s) to amt); cbn; intros H; try discriminate.
    injection H as <-. reflexivity.
  - destruct (run_msgs e sd [m] s) as [t0 [[rs0 s0]| |]]; cbn; try discriminate.
    destruct (helper_inst_addr (snd (first_resp rs0))); cbn; intros H; try discriminate. injection H as <-. reflexivity.
  - destruct (run_msgs e sd [m] s) as [t0 [[rs0 s0]| |]]; cbn; try discriminate.
    destruct (helper_exec_data (snd (first_resp rs0))); cbn; intros H; try discriminate. injection H as <-. reflexivity.
Qed.

(* a leaf program with a well-formed response, run as the only message of a call: if its body ran, the call succeeds *)
Lemma leaf_prog_ok e entry c sender funds rep cid rok p s :
  prog_leaf p = true -> prog_malformed p = false ->
  run_prog e entry c sender funds rep cid rok p s = ([], Err) \/
  exists tr0 r, run_prog e entry c sender funds rep cid rok p s = (tr0, Ok r).
Proof.
  destruct p as [node acts out]. intros Hl Hm.
  destruct (run_prog_cases e entry c sender funds rep cid rok node acts out s)
    as [[_ E]|[(co & _ & Hf & E)|(co & attrs & events & data & sbs & _ & -> & Hv & E)]].
  - left. exact E.
  - exfalso. destruct out as [|a0 e0 d0 sb0]; [discriminate Hl|]. cbn in Hf. cbn in Hm. congruence.
  - right. rewrite E. destruct sbs; [|discriminate Hl]. cbn. eexists. eexists. reflexivity.
Qed.
Lemma leaf_exec_ok e sd c p f s : prog_leaf p = true -> prog_malformed p = false ->
  find_call (node_of p) (top_trace (run_top e (TExec sd (MExec c p f)) s)) <> None ->
  is_ok (top_outcome (run_top e (TExec sd (MExec c p f)) s)) = true.
Proof.
  intros Hl Hm. unfold top_trace, top_outcome. cbn [run_top]. rewrite run_msgs_cons.
  destruct (run_msg_cases e sd (MExec c p f) s p eq_refl) as [[E1 E2]|(c0 & s1 & _ & _ & _ & _ & E)].
  - destruct (run_msg e sd (MExec c p f) s) as [t0 [[r0 s0]| |]]; cbn in *; try discriminate; subst t0; cbn; intros H; contradiction.
  - rewrite E. cbn [msg_entry msg_sender msg_funds msg_cid].
    destruct (leaf_prog_ok e EExec c0 (Some sd) f None 0 true p s1 Hl Hm) as [->|(t0 & [[ev d] s2] & ->)]; cbn; [intros H; contradiction|reflexivity].
Qed.
Lemma leaf_sudo_ok e c p s : prog_leaf p = true -> prog_malformed p = false ->
  find_call (node_of p) (top_trace (run_top e (TWasmSudo c p) s)) <> None ->
  is_ok (top_outcome (run_top e (TWasmSudo c p) s)) = true.
Proof.
  intros Hl Hm. unfold top_trace, top_outcome. cbn [run_top].
  destruct (leaf_prog_ok e ESudo c None [] None 0 true p s Hl Hm) as [->|(t0 & [[ev d] s2] & ->)]; cbn; [intros H; contradiction|reflexivity].
Qed.

Section Step.
Variable ce : case_env.
Variable st : step.
Variable s : chain.
Let e := mk_env ce (st_blk st).
Let op := st_op st.
Let tr := top_trace (run_top e op s).
Let o := top_outcome (run_top e op s).
Let s' := top_state (run_top e op s).

Lemma model_step_eq :
  model_step ce st s = {| st_blk := st_blk st; st_op := op; st_trace := tr; st_outcome := o; st_state := s'; st_other := 0;
                          st_raw_same := chain_eqb s s' |}.
Proof.
  unfold model_step, tr, o, s', top_trace, top_outcome, top_state, e, op.
  destruct (run_top (mk_env ce (st_blk st)) (st_op st) s) as [[t0 o0] s0]. reflexivity.
Qed.

Lemma ok_is : match o with Ok _ => true | _ => false end = is_ok o.
Proof. destruct o; reflexivity. Qed.

Hypothesis Hpre : step_pre s op.
Let Hs : st_ok s := proj1 Hpre.
Let Hw : wf_op op := proj1 (proj2 Hpre).
Let Hm : NoDup (map marker (nodes_op op)) := proj1 (proj2 (proj2 Hpre)).
Let Hf : fresh s (nodes_op op) := proj2 (proj2 (proj2 Hpre)).

Lemma Hn : NoDup (nodes_op op). Proof. exact (NoDup_map_inv marker _ Hm). Qed.
Lemma Hni : NoDup (map pi_node (flat_op op)). Proof. rewrite flat_op_nodes. exact Hn. Qed.
Lemma Hnc : NoDup (call_nodes tr). Proof. eapply subl_NoDup; [apply top_call_nodes|exact Hn]. Qed.
Lemma Hdead : dead (flat_op op) tr s'.
Proof. apply top_dead. split; [exact Hw|]. split; [exact Hm|]. split; [exact Hs|exact Hf]. Qed.

Lemma no_marker_of_call (n : N) : (forall c, has_marker s' c n = false) ->
  match find_call n tr with Some en => negb (has_marker s' (callee_of en) n) | None => true end = true.
Proof. intros H. destruct (find_call n tr); [rewrite H|]; reflexivity. Qed.

(* ---------- C13 ---------- *)
Lemma p_c13_model : p_c13 (model_step ce st s) = None.
Proof.
  rewrite model_step_eq. unfold p_c13. apply first_fail_all_true.
  cbn [st_op st_trace st_outcome st_state st_raw_same forallb snd]. rewrite ok_is.
  repeat (apply andb_true_iff; split); try reflexivity.
  - (* 5 *) apply forallb_forall. intros pi Hi. destruct (pi_disp pi) eqn:Ed; [reflexivity|].
    destruct (prog_malformed (pi_prog pi)) eqn:Em; [|reflexivity]. cbn [negb orb].
    destruct (top_fail_unchanged e op s (root_fails e op s pi Hi Ed (malformed_fails_itself _ Em))) as [E1 E2].
    fold s' in E1. fold o in E2. rewrite E1, E2, chain_eqb_refl. destruct (find_call (pi_node pi) tr); reflexivity.
  - (* 6 *) apply forallb_forall. intros pi Hi. destruct (prog_malformed (pi_prog pi)) eqn:Em; [|reflexivity]. cbn [negb orb].
    apply no_marker_of_call. exact (proj1 (Hdead pi Hi) (malformed_fails_itself _ Em)).
  - (* 7 *) apply forallb_forall. intros pi Hi. destruct (prog_malformed (pi_prog pi)) eqn:Em; [|reflexivity]. cbn [negb orb].
    pose proof (top_no_dispatch e op s Hn pi Hi (malformed_fails_itself _ Em)) as H. fold tr in H.
    destruct (pi_prog pi) as [node acts [|attrs events data sbs]]; [reflexivity|]. cbn [subs_nodes_of nodes_out] in H.
    apply forallb_forall. intros n Hin. destruct (memN n (call_nodes tr)) eqn:E; [|reflexivity].
    apply memN_in in E. exfalso. exact (H n Hin E).
  - (* 8 *) destruct o as [rs| |] eqn:Eo; try reflexivity. destruct rs as [|[ev d] [|]]; try reflexivity.
    destruct op as [sd ms|sd m|c p|to amt|sd m|sd m] eqn:Eop; try reflexivity. destruct m; try reflexivity.
    destruct (texec_call_ok e sd (MExec c p funds) p s _ eq_refl Eo) as (c0 & ev0 & d0 & s1 & s2 & _ & Ht & Er & E1 & _).
    specialize (Ht c eq_refl). subst c0. injection E1 as -> _.
    destruct (run_prog_ok_events _ _ _ _ _ _ _ _ _ _ _ _ _ Er) as (_ & ev_s & -> & _).
    cbn [msg_entry msg_cid]. rewrite is_prefix_ev_app. apply orb_true_r.
  - (* 9 *) destruct op as [sd ms|sd m|c p|to amt|sd m|sd m] eqn:Eop; try reflexivity.
    + destruct m; try reflexivity. destruct (prog_leaf p) eqn:El; [|reflexivity]. destruct (prog_malformed p) eqn:Em; [reflexivity|].
      cbn [negb orb]. pose proof (leaf_exec_ok e sd c p funds s El Em) as H. fold tr o in H. change (node_of p) with (match p with Prog n _ _ => n end) in H.
      destruct (find_call (match p with Prog n _ _ => n end) tr); [apply H; discriminate|reflexivity].
    + destruct (prog_leaf p) eqn:El; [|reflexivity]. destruct (prog_malformed p) eqn:Em; [reflexivity|].
      cbn [negb orb]. pose proof (leaf_sudo_ok e c p s El Em) as H. fold tr o in H. change (node_of p) with (match p with Prog n _ _ => n end) in H.
      destruct (find_call (match p with Prog n _ _ => n end) tr); [apply H; discriminate|reflexivity].
Qed.

(* ---------- C03 ---------- *)
Lemma entry_of en : In en tr -> entry_ok None (top_sender op) (flat_op op) (calls tr) en.
Proof. intros H. pose proof (top_entries e op s) as A. unfold all_ok in A. rewrite Forall_forall in A. exact (A en H). Qed.

Lemma p_c03_model_with :
  negb (nomig_op op) || forallb (fun ds => due_ok (ce_codes ce) tr (fst ds) (snd ds)) (dsubs_op op) = true ->
  p_c03 ce (model_step ce st s) = None.
Proof.
  intros H9. rewrite model_step_eq. unfold p_c03. apply first_fail_all_true.
  cbn [st_op st_trace forallb snd].
  repeat (apply andb_true_iff; split); try reflexivity.
  - apply nodup_NoDup, Hnc.
  - rewrite flat_op_nodes. apply subl_subseq, top_call_nodes.
  - apply forallb_forall. intros en Hen. pose proof (entry_of en Hen) as A.
    destruct en as [n ep c sender funds b tag rep| | |]; try reflexivity.
    cbn [entry_ok] in A. destruct A as (pi & Hi & Hnode & Hep & Ht & Hmm).
    pose proof (find_info_unique _ _ Hni Hi) as Fi. rewrite Hnode in Fi.
    destruct ep.
    + destruct Hmm as (-> & _). reflexivity.
    + destruct Hmm as (-> & _). reflexivity.
    + destruct Hmm as (-> & -> & (id & pl & res & ro & okb & -> & Hr & Hres & _) & (d & Hd & Hdd)).
      rewrite Fi, Hr, Hd. rewrite N.eqb_refl, beqb_refl.
      destruct Hdd as [[Hx _]|Hdd]; [discriminate|].
      destruct (calls_find tr d c Hnc Hdd) as (pen & -> & <-). rewrite teqb_refl.
      destruct res; cbn in Hres; destruct Hres as [-> ->]; reflexivity.
    + destruct Hmm as (-> & _). reflexivity.
    + destruct Hmm as (-> & _). reflexivity.
  - (* 8 *) apply forallb_forall. intros [a b] Hi. cbn [fst snd].
    destruct (memN a (call_nodes tr)) eqn:Ea; [|reflexivity]. destruct (memN b (call_nodes tr)) eqn:Eb; [|reflexivity].
    apply memN_in in Ea. apply memN_in in Eb. exfalso. exact (top_once e op s Hn a b Hi (conj Ea Eb)).
  - exact H9.
Qed.

(* ---------- C05, clauses 5 and 6 ---------- *)
Lemma c05_block :
  forallb (fun en => match en with
                     | RCall _ _ _ _ _ b _ _ => blk_eqb b (st_blk st)
                     | RQuery _ _ b _ => blk_eqb b (st_blk st)
                     | _ => true end) tr = true.
Proof.
  apply forallb_forall. intros en Hen. pose proof (top_block_ok e op s) as B. rewrite Forall_forall in B.
  specialize (B en Hen). destruct en; cbn in B; try reflexivity; subst; apply blk_eqb_refl.
Qed.

Lemma c05_entries :
  forallb (fun en =>
     match en with
     | RCall n e0 c sender funds _ _ _ =>
         match find_info n (flat_op op) with
         | Some pi =>
             ep_eqb e0 (pi_ep pi)
             && (match pi_target pi with Some t => teqb t c | None => true end)
             && (match e0 with
                 | EExec | EInst =>
                     coins_eqb funds (pi_funds pi) &&
                     match pi_disp pi, sender with
                     | None, Some x => option_eqb teqb (top_sender op) (Some x)
                     | Some d, Some x => match find_call d tr with Some pen => teqb (callee_of pen) x | None => false end
                     | _, None => false
                     end
                 | _ => (match sender with None => true | Some _ => false end)
                        && (match funds with [] => true | _ => false end)
                 end)
         | None => false
         end
     | _ => true
     end) tr = true.
Proof.
  apply forallb_forall. intros en Hen. pose proof (entry_of en Hen) as A.
  destruct en as [n ep c sender funds b tag rep| | |]; try reflexivity.
  cbn [entry_ok] in A. destruct A as (pi & Hi & Hnode & Hep & Ht & Hmm).
  pose proof (find_info_unique _ _ Hni Hi) as Fi. rewrite Hnode in Fi. rewrite Fi, Hep, ep_eqb_refl.
  assert (Etg : match pi_target pi with Some t => teqb t c | None => true end = true).
  { destruct (pi_target pi) as [t|]; [|reflexivity]. rewrite (Ht t eq_refl). apply teqb_refl. }
  rewrite Etg. cbn [andb].
  assert (Hsend : forall x, (pi_disp pi = None /\ top_sender op = Some x) \/ (exists d, pi_disp pi = Some d /\ In (d, x) (calls tr)) ->
            match pi_disp pi with
            | None => option_eqb teqb (top_sender op) (Some x)
            | Some d => match find_call d tr with Some pen => teqb (callee_of pen) x | None => false end
            end = true).
  { intros x [[-> ->]|(d & -> & Hd)]; [cbn; apply teqb_refl|].
    destruct (calls_find tr d x Hnc Hd) as (pen & -> & <-). apply teqb_refl. }
  destruct ep.
  - destruct Hmm as (_ & -> & x & -> & Hx). rewrite coins_eqb_refl. cbn [andb]. apply Hsend. exact Hx.
  - destruct Hmm as (_ & -> & x & -> & Hx). rewrite coins_eqb_refl. cbn [andb]. apply Hsend. exact Hx.
  - destruct Hmm as (-> & -> & _). reflexivity.
  - destruct Hmm as (_ & -> & ->). reflexivity.
  - destruct Hmm as (_ & -> & ->). reflexivity.
Qed.

(* ---------- C02 ---------- *)
Hypothesis Hat : atomic_at e op s.

Lemma failed_same : is_ok o = false -> s' = s.
Proof. exact Hat. Qed.

Lemma p_c02_model : p_c02 (model_step ce st s) = None.
Proof.
  rewrite model_step_eq. unfold p_c02. apply first_fail_all_true.
  cbn [st_op st_trace st_outcome st_state st_raw_same forallb snd]. rewrite ok_is.
  repeat (apply andb_true_iff; split); try reflexivity.
  - (* 5 *) apply forallb_forall. intros en Hen. pose proof (entry_of en Hen) as A.
    destruct en as [n ep c sender funds b tag rep| | |]; try reflexivity.
    destruct ep; try reflexivity. destruct rep as [[[id pl] res]|]; try reflexivity. destruct res; try reflexivity.
    cbn [entry_ok] in A. destruct A as (pi & Hi & Hnode & Hep & Ht & Hmm).
    pose proof (find_info_unique _ _ Hni Hi) as Fi. rewrite Hnode in Fi. rewrite Fi.
    destruct Hmm as (_ & _ & (id' & pl' & res' & ro & okb & Er & Hr & Hres & _) & _).
    injection Er as <- <- <-. cbn in Hres. destruct Hres as [-> _].
    apply forallb_forall. intros n' Hin'. apply no_marker_of_call.
    apply (proj2 (Hdead pi Hi) id pl ro Hr); [|exact Hin']. rewrite Hnode. eapply in_call_nodes; [exact Hen|reflexivity].
  - (* 6 *) destruct (is_ok o) eqn:Eo; [reflexivity|]. cbn [orb]. rewrite (failed_same Eo), chain_eqb_refl. cbn [andb].
    rewrite flat_op_nodes. apply forallb_forall. intros n Hin. destruct (find_call n tr); [|reflexivity].
    rewrite (Hf n Hin). reflexivity.
  - (* 7 *) apply forallb_forall. intros pi Hi. destruct (prog_fails_itself (pi_prog pi)) eqn:Em; [|reflexivity]. cbn [negb orb].
    apply no_marker_of_call. exact (proj1 (Hdead pi Hi) Em).
Qed.

(* ---------- C01 ---------- *)
Lemma p_c01_model : p_c01 (model_step ce st s) = None.
Proof.
  rewrite model_step_eq. unfold p_c01. apply first_fail_all_true.
  cbn [st_op st_trace st_outcome st_state st_raw_same forallb snd]. rewrite ok_is.
  repeat (apply andb_true_iff; split); try reflexivity.
  - (* 5 *) destruct (is_ok o) eqn:Eo; [reflexivity|]. cbn [orb]. rewrite (failed_same Eo). apply chain_eqb_refl.
  - (* 6 *) pose proof (resp_count e op s) as R. fold o in R. destruct o as [rs| |]; try reflexivity.
    specialize (R rs eq_refl). destruct op; rewrite R; apply N.eqb_refl.
  - (* 7 *) apply subl_subseq.
    destruct (op_msgs op) as [[sd ms]|] eqn:E.
    + pose proof (top_call_nodes e op s) as C. fold tr in C. pose proof Hn as Hn'.
      destruct (inner_msgs e op s sd ms E) as (_ & Et & _ & _ & En & _). rewrite En in C, Hn'.
      rewrite root_nodes_eq, Et.
      pose proof (filter_roots ms (flat_map root_of ms) Hn' (fun n _ => iff_refl _)) as Eq.
      set (f := fun n => memN n (flat_map root_of ms)) in *. rewrite <- Eq. apply subl_filter. exact C.
    + assert (Er : root_nodes op = []) by (destruct op; try discriminate; reflexivity). rewrite Er.
      rewrite filter_none; [constructor|]. intros x _. reflexivity.
  - (* 8 *) destruct (is_ok o) eqn:Eo; [|reflexivity]. cbn [negb orb].
    apply forallb_forall. intros n Hin. pose proof (top_roots_marked e op s Hw Hs Hn Eo n Hin) as R. fold tr s' in R.
    destruct (find_call n tr) as [en|]; [|reflexivity]. exact (R en eq_refl).
  - (* 9 *) destruct o as [rs| |] eqn:Eo; try reflexivity.
    destruct op as [sd ms|sd m|c p|to amt|sd m|sd m] eqn:Eop; try reflexivity.
    + destruct m; try reflexivity.
      destruct (texec_call_ok e sd (MExec c p funds) p s _ eq_refl Eo) as (c0 & ev0 & d0 & s1 & s2 & Hc & Ht & Er & _ & Es).
      specialize (Ht c eq_refl). subst c0. fold s' in Es. rewrite Es.
      destruct (run_prog_ok_events _ _ _ _ _ _ _ _ _ _ _ _ _ Er) as (_ & ev_s & _ & Hl & _).
      destruct p as [node acts [|attrs events data [|]]]; try reflexivity.
      destruct (Hl eq_refl) as (_ & _ & ->). apply leaf_persisted. eapply st_ok_same_cstore; eassumption.
    + destruct (tsudo_ok e c p s _ Eo) as (ev0 & d0 & s2 & Er & _ & Es). fold s' in Es. rewrite Es.
      destruct (run_prog_ok_events _ _ _ _ _ _ _ _ _ _ _ _ _ Er) as (_ & ev_s & _ & Hl & _).
      destruct p as [node acts [|attrs events data [|]]]; try reflexivity.
      destruct (Hl eq_refl) as (_ & _ & ->). apply leaf_persisted. exact Hs.
Qed.
End Step.
