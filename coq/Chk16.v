(* Chk16.v — lemmas behind Properties/C16.v: what a successful slash does (frame, queue, shares,
   totals), the bounds on the displayed delegation, the accrued rewards, and the two refuted clauses
   (findings F8, F9) with their class-guarded versions.  No pinned theorems here. *)
From Verif Require Import Base OMap Bank Dec Staking StakingInv Chk14 StakingHist.
Local Open Scope N_scope.

(* the validator's total after the slash (staking.rs:493) *)
Definition new_total (s : sstate) (v p : N) : N := vstake s v * (D18 - p) / D18.

Lemma slash_facts P now s v p s' : stakers_ok s -> exec_slash P now s v p = SOk s' ->
  p <= D18 /\ get_val P v <> None /\
  s_bank s' = s_bank s /\ s_waddr s' = s_waddr s /\ s_queue s' = scale_q v (D18 - p) (s_queue s) /\
  (forall v', v' <> v -> get_vi v' s' = get_vi v' s) /\
  (forall d' v', v' <> v -> get_stake d' v' s' = get_stake d' v' s) /\
  vstake s' v = new_total s v p /\
  (forall d, stake_of s' d v = if new_total s v p =? 0 then 0 else stake_of s d v * (D18 - p) / D18) /\
  (forall d, get_stake d v s' = None <-> (new_total s v p = 0 \/ get_stake d v s = None)).
Proof.
  intros Hs H. apply slash_spec in H as (s1 & vi & Hu & Gv & Lp & Kv & H); [|exact Hs]. cbn zeta in H.
  destruct H as (Ev & B & W & Q & Vo & So & Vv & Sv).
  apply update_rewards_spec in Hu as (vi0 & comm & Gv0 & Gc & SB & _ & _).
  pose proof (same_but_rewards_stake_of _ _ _ SB) as St. pose proof (same_but_rewards_dom _ _ _ SB) as Dm.
  unfold new_total. rewrite <- Ev.
  split; [exact Lp|]. split; [exact Kv|]. split; [exact B|]. split; [exact W|]. split; [exact Q|].
  split; [exact Vo|]. split; [exact So|]. split; [unfold vstake; rewrite Vv; reflexivity|]. split.
  - intros d. unfold stake_of at 1. rewrite Sv. destruct (_ =? 0); [reflexivity|].
    rewrite <- St. unfold stake_of. destruct (get_stake d v s1); reflexivity.
  - intros d. rewrite Sv. destruct (_ =? 0) eqn:Z.
    + apply N.eqb_eq in Z. tauto.
    + apply N.eqb_neq in Z. rewrite <- Dm. destruct (get_stake d v s1); cbn [option_map].
      * split; [discriminate|]. intros [C|C]; [contradiction|discriminate].
      * split; [intros _; right; reflexivity|reflexivity].
Qed.

(* 1. invalid slashes are rejected *)
Lemma slash_invalid_rejected_lemma P now s v p : D18 < p \/ get_val P v = None -> exec_slash P now s v p = SErr.
Proof. apply slash_invalid_err. Qed.

Lemma scale_q_forall2 v rem q : rem <= D18 ->
  Forall2 (fun u' u => u_del u' = u_del u /\ u_val u' = u_val u /\ u_at u' = u_at u /\
                       u_amt u' = (if u_val u =? v then u_amt u * rem / D18 else u_amt u) /\ u_amt u' <= u_amt u)
          (scale_q v rem q) q.
Proof.
  intros H. induction q as [|u q IH]; cbn [scale_q map]; constructor; [|exact IH].
  destruct (u_val u =? v); cbn [u_del u_val u_at u_amt]; repeat split; try lia. apply scale_le, H.
Qed.

(* 2./3./4. nothing grows; queue entries of the validator are scaled and floored, the others untouched;
   other validators, the bank and the withdraw addresses are untouched *)
Lemma slash_never_increases_lemma P now s v p s' : stakers_ok s -> exec_slash P now s v p = SOk s' ->
  (forall d' v', stake_of s' d' v' <= stake_of s d' v' /\ disp s' d' v' <= disp s d' v') /\
  (forall v', vstake s' v' <= vstake s v') /\
  Forall2 (fun u' u => u_del u' = u_del u /\ u_val u' = u_val u /\ u_at u' = u_at u /\
                       u_amt u' = (if u_val u =? v then u_amt u * (D18 - p) / D18 else u_amt u) /\ u_amt u' <= u_amt u)
          (s_queue s') (s_queue s).
Proof.
  intros Hs H. apply slash_facts in H as (Lp & Kv & B & W & Q & Vo & So & Vv & Sv & Dm); [|exact Hs].
  assert (Hst : forall d' v', stake_of s' d' v' <= stake_of s d' v').
  { intros d' v'. destruct (N.eq_dec v' v) as [->|Hn].
    - rewrite Sv. destruct (_ =? 0); [lia|]. apply scale_le. lia.
    - unfold stake_of. rewrite (So d' v' Hn). lia. }
  split; [|split].
  - intros d' v'. split; [apply Hst|apply floor_mono, Hst].
  - intros v'. destruct (N.eq_dec v' v) as [->|Hn].
    + rewrite Vv. unfold new_total. apply scale_le. lia.
    + unfold vstake. rewrite (Vo v' Hn). lia.
  - rewrite Q. apply scale_q_forall2. lia.
Qed.

Lemma slash_frame_lemma P now s v p s' : stakers_ok s -> exec_slash P now s v p = SOk s' ->
  s_bank s' = s_bank s /\ s_waddr s' = s_waddr s /\
  (forall v', v' <> v -> get_vi v' s' = get_vi v' s) /\
  (forall d' v', v' <> v -> get_stake d' v' s' = get_stake d' v' s).
Proof. intros Hs H. apply slash_facts in H; [|exact Hs]. tauto. Qed.

(* 5. while the new total is positive every share is scaled to 18 decimals, no entry appears or disappears *)
Lemma slash_share_exact_lemma P now s v p s' : stakers_ok s -> exec_slash P now s v p = SOk s' ->
  new_total s v p <> 0 ->
  vstake s' v = new_total s v p /\
  (forall d, stake_of s' d v = stake_of s d v * (D18 - p) / D18) /\
  (forall d, get_stake d v s' = None <-> get_stake d v s = None).
Proof.
  intros Hs H Hn. apply slash_facts in H as (Lp & Kv & B & W & Q & Vo & So & Vv & Sv & Dm); [|exact Hs].
  apply N.eqb_neq in Hn. split; [exact Vv|]. split.
  - intros d. rewrite Sv, Hn. reflexivity.
  - intros d. rewrite Dm. apply N.eqb_neq in Hn. tauto.
Qed.

(* ... so the displayed delegation lies between the floors of the scaled displayed value and of the scaled
   next whole value *)
Lemma slash_display_bounds_lemma P now s v p s' : stakers_ok s -> exec_slash P now s v p = SOk s' ->
  new_total s v p <> 0 ->
  forall d, disp s d v * (D18 - p) / D18 <= disp s' d v /\ disp s' d v <= (disp s d v + 1) * (D18 - p) / D18.
Proof.
  intros Hs H Hn d. pose proof (slash_share_exact_lemma _ _ _ _ _ _ Hs H Hn) as (_ & St & _).
  unfold disp. rewrite St. set (x := stake_of s d v). set (r := D18 - p).
  pose proof (floor_le x) as L1. pose proof (floor_lt x) as L2. fold (to_uint_floor x) in *.
  split.
  - unfold to_uint_floor at 2. apply N.div_le_mono; [apply D18_neq|].
    apply N.div_le_lower_bound; [apply D18_neq|]. 
    assert (to_uint_floor x * D18 * r <= x * r) by (apply N.mul_le_mono_r; exact L1). lia.
  - unfold to_uint_floor at 1. apply N.div_le_mono; [apply D18_neq|].
    apply N.div_le_upper_bound; [apply D18_neq|].
    assert (x * r <= (to_uint_floor x + 1) * D18 * r) by (apply N.mul_le_mono_r; lia). lia.
Qed.

(* 7. whole shares: exactly (1 - p) * displayed at 18 decimals, displayed = its floor *)
Lemma slash_whole_exact_lemma P now s v p s' : stakers_ok s -> exec_slash P now s v p = SOk s' ->
  new_total s v p <> 0 ->
  forall d k, stake_of s d v = k * D18 ->
    stake_of s' d v = k * (D18 - p) /\ disp s d v = k /\ disp s' d v = k * (D18 - p) / D18.
Proof.
  intros Hs H Hn d k Hk. pose proof (slash_share_exact_lemma _ _ _ _ _ _ Hs H Hn) as (_ & St & _).
  assert (E : stake_of s' d v = k * (D18 - p)).
  { rewrite St, Hk. rewrite <- N.mul_assoc, (N.mul_comm D18), N.mul_assoc. apply N.div_mul, D18_neq. }
  split; [exact E|]. split; [unfold disp; rewrite Hk; apply floor_whole|]. unfold disp. rewrite E. reflexivity.
Qed.

(* 6. a slash flooring the total to zero (in particular p = 1) removes every delegation to the validator *)
Lemma slash_total_removes_lemma P now s v p s' : stakers_ok s -> exec_slash P now s v p = SOk s' ->
  new_total s v p = 0 ->
  vstake s' v = 0 /\ forall d, get_stake d v s' = None /\ disp s' d v = 0.
Proof.
  intros Hs H Hz. apply slash_facts in H as (Lp & Kv & B & W & Q & Vo & So & Vv & Sv & Dm); [|exact Hs].
  split; [rewrite Vv; exact Hz|]. intros d. split; [apply Dm; left; exact Hz|].
  unfold disp. rewrite Sv, Hz. reflexivity.
Qed.
Lemma full_slash_total s v : new_total s v D18 = 0.
Proof. unfold new_total. rewrite N.sub_diag, N.mul_0_r. reflexivity. Qed.

(* 8. accrued rewards: while the new total is positive the pending reward shown for every delegator of
   the validator is what it was *)
Lemma slash_rewards_kept_lemma P now s v p s' : stakers_ok s -> last_ok now s -> exec_slash P now s v p = SOk s' ->
  new_total s v p <> 0 ->
  forall d x, q_rewards P now s d v = SOk x -> q_rewards P now s' d v = SOk x.
Proof.
  intros Hs Hl H Hn d x Hq.
  apply slash_spec in H as (s1 & vi & Hu & Gv & Lp & Kv & H); [|exact Hs]. cbn zeta in H.
  destruct H as (Ev & B & W & Q & Vo & So & Vv & Sv).
  destruct (update_rewards_shown _ _ _ _ _ Hs Hu d v) as [E1 _]. rewrite <- E1 in Hq. clear E1.
  pose proof (update_rewards_last_ok _ _ _ _ _ Hl Hu v vi Gv) as Ll.
  assert (Ln : now <= vi_last vi).
  { apply update_rewards_spec in Hu as (vi0 & comm & Gv0 & Gc & SB & _ & Vv1). rewrite Vv1 in Gv. injection Gv as <-. cbn. lia. }
  assert (El : vi_last vi = now) by lia.
  unfold new_total in Hn. rewrite <- Ev in Hn. apply N.eqb_neq in Hn.
  unfold q_rewards in *. destruct (get_val P v) as [comm|]; [|discriminate].
  rewrite Sv, Hn, Vv. rewrite Gv in Hq. destruct (get_stake d v s1) as [sh|]; cbn [option_map]; [|exact Hq].
  unfold rewards_internal in *. cbn [vi_last vi_stake sh_stake sh_rew] in *. rewrite El in *.
  destruct (calculate_rewards now now (p_apr P) comm (vi_stake vi)) as [r0| | |] eqn:C; cbn [sbind] in Hq; try discriminate.
  pose proof (calc_ok_bounds _ _ _ _ _ _ C) as [B1 B2].
  assert (C0 : r0 = 0).
  { pose proof (calc_zero_td now now (p_apr P) comm (vi_stake vi) ltac:(lia) eq_refl B1 B2) as C'. congruence. }
  subst r0.
  set (nv := vi_stake vi * (D18 - p) / D18) in *.
  assert (Lnv : nv <= vi_stake vi) by (apply scale_le; lia).
  assert (C1 : calculate_rewards now now (p_apr P) comm nv = SOk 0).
  { apply calc_zero_td; [lia|reflexivity| |].
    - assert (nv * D18 <= vi_stake vi * D18) by (apply N.mul_le_mono_r; exact Lnv). lia.
    - assert (nv * D18 * p_apr P / D18 <= vi_stake vi * D18 * p_apr P / D18).
      { apply N.div_le_mono; [apply D18_neq|]. apply N.mul_le_mono_r, N.mul_le_mono_r. exact Lnv. } lia. }
  rewrite C1. cbn [sbind]. rewrite share_of_zero in *. exact Hq.
Qed.

(* ---------- the class predicate of Chk14 is "the new total is zero" ---------- *)
Lemma class_is_zero_total su w v p w' : winv su w -> step su w (Slash v p) = SOk w' ->
  slash_floors_total_to_zero su w (Some (Slash v p)) = (new_total (w_st w) v p =? 0).
Proof.
  unfold winv. intros I H. cbn [step] in H. inv_bind H as s' Hs. clear H.
  apply slash_spec in Hs as (s1 & vi & Hu & Gv & Lp & Kv & H); [|apply (inv_stakers _ _ _ I)]. cbn zeta in H.
  destruct H as (Ev & _). unfold slash_floors_total_to_zero. rewrite Hu, Gv.
  replace (p <=? D18) with true by (symmetry; apply N.leb_le, Lp). cbn [andb]. unfold new_total. rewrite Ev. reflexivity.
Qed.

Lemma slash_unbonding_exact_lemma P now s v p s' : stakers_ok s -> exec_slash P now s v p = SOk s' ->
  s_queue s' = scale_q v (D18 - p) (s_queue s).
Proof. intros Hs H. apply slash_facts in H; [|exact Hs]. tauto. Qed.

(* ---------- the two clauses that the faithful model falsifies ---------- *)

(* "already accrued rewards are unchanged by any slash" (full statement) *)
Definition slash_rewards_kept_always : Prop :=
  forall su w0 w v p w' d x, init_world su = SOk w0 -> reach su w0 w -> step su w (Slash v p) = SOk w' ->
    q_rewards (params_of su) (w_now w) (w_st w) d v = SOk x ->
    q_rewards (params_of su) (w_now w') (w_st w') d v = SOk x.

(* "every delegation keeps at least its scaled value rounded down to whole tokens" (full statement) *)
Definition slash_scaled_value_kept : Prop :=
  forall su w0 w v p w' d, init_world su = SOk w0 -> reach su w0 w -> step su w (Slash v p) = SOk w' ->
    disp (w_st w) d v * (D18 - p) / D18 <= disp (w_st w') d v.

(* F8: delegate 1000, one year (90 pending), slash 100 % *)
Definition f8_su : setup :=
  mkSetup 60 100000000000000000 [(1, 100000000000000000)] [(1, 5000); (2, 1000)] [1; 2] 1571797419879305533 USTAKE XDEN.
Definition f8_ops : list op := [Delegate 1 1 1000 true; Advance 31536000000000000].
(* F9: B delegates 19, six slashes of 10 %, A delegates 2, B undelegates its displayed 10; then slash 50 % *)
Definition f9_su : setup :=
  mkSetup 60 100000000000000000 [(1, 100000000000000000)] [(1, 1000); (2, 1000)] [1; 2] 1571797419879305533 USTAKE XDEN.
Definition f9_ops : list op :=
  [Delegate 2 1 19 true; Slash 1 100000000000000000; Slash 1 100000000000000000; Slash 1 100000000000000000;
   Slash 1 100000000000000000; Slash 1 100000000000000000; Slash 1 100000000000000000;
   Delegate 1 1 2 true; Undelegate 2 1 10 true].

Definition dummy_world : world := mkW 0 (mkSt [] [] [] [] []).
Definition world_of (su : setup) (ops : list op) : world :=
  match init_world su with
  | SOk w0 => match run_all su w0 ops with Some w => w | None => w0 end
  | _ => dummy_world
  end.
Definition ok_or_dummy (r : sres world) : world := match r with SOk w => w | _ => dummy_world end.

(* the witness worlds as computed constants *)
Definition f8_w0 : world := Eval vm_compute in ok_or_dummy (init_world f8_su).
Definition f8_w : world := Eval vm_compute in world_of f8_su f8_ops.
Definition f8_w' : world := Eval vm_compute in ok_or_dummy (step f8_su f8_w (Slash 1 D18)).
Lemma f8_init : init_world f8_su = SOk f8_w0. Proof. vm_compute. reflexivity. Qed.
Lemma f8_reach : reach f8_su f8_w0 f8_w. Proof. apply (run_all_reach f8_su f8_ops). vm_compute. reflexivity. Qed.
Lemma f8_step : step f8_su f8_w (Slash 1 D18) = SOk f8_w'. Proof. vm_compute. reflexivity. Qed.

Definition f9_w0 : world := Eval vm_compute in ok_or_dummy (init_world f9_su).
Definition f9_w : world := Eval vm_compute in world_of f9_su f9_ops.
Definition f9_w' : world := Eval vm_compute in ok_or_dummy (step f9_su f9_w (Slash 1 500000000000000000)).
Lemma f9_init : init_world f9_su = SOk f9_w0. Proof. vm_compute. reflexivity. Qed.
Lemma f9_reach : reach f9_su f9_w0 f9_w. Proof. apply (run_all_reach f9_su f9_ops). vm_compute. reflexivity. Qed.
Lemma f9_step : step f9_su f9_w (Slash 1 500000000000000000) = SOk f9_w'. Proof. vm_compute. reflexivity. Qed.

(* the witnesses, spelled out: F8 loses 90 pending tokens (and the later withdrawal fails);
   F9: the validator total has drifted to 0 below the shares 2 + 0.097379, the 50 % slash wipes the delegation of 2 *)
Lemma f8_witness :
  q_rewards (params_of f8_su) (w_now f8_w) (w_st f8_w) 1 1 = SOk (Some 90) /\
  new_total (w_st f8_w) 1 D18 = 0 /\
  q_rewards (params_of f8_su) (w_now f8_w') (w_st f8_w') 1 1 = SOk None /\
  exec_withdraw (params_of f8_su) (w_now f8_w') (w_st f8_w') 1 1 = SErr.
Proof. repeat split; vm_compute; reflexivity. Qed.
Lemma f9_witness :
  disp (w_st f9_w) 1 1 = 2 /\ stake_of (w_st f9_w) 1 1 = 2 * D18 /\ stake_of (w_st f9_w) 2 1 = 97379000000000000 /\
  vstake (w_st f9_w) 1 = 0 /\ new_total (w_st f9_w) 1 500000000000000000 = 0 /\
  disp (w_st f9_w') 1 1 = 0 /\ get_stake 1 1 (w_st f9_w') = None.
Proof. repeat split; vm_compute; reflexivity. Qed.

Lemma slash_rewards_kept_always_refuted_lemma : ~ slash_rewards_kept_always.
Proof.
  intros H.
  pose proof (H f8_su f8_w0 f8_w 1 D18 f8_w' 1 (Some 90) f8_init f8_reach f8_step (proj1 f8_witness)) as C.
  rewrite (proj1 (proj2 (proj2 f8_witness))) in C. discriminate.
Qed.

Lemma slash_scaled_value_kept_refuted_lemma : ~ slash_scaled_value_kept.
Proof.
  intros H.
  pose proof (H f9_su f9_w0 f9_w 1 500000000000000000 f9_w' 1 f9_init f9_reach f9_step) as C.
  destruct f9_witness as (E1 & _ & _ & _ & _ & E2 & _). rewrite E1, E2 in C. vm_compute in C. apply C. reflexivity.
Qed.

(* ---------- class-guarded versions over all histories ---------- *)

Lemma slash_scaled_value_kept_guarded_lemma su w0 w v p w' :
  init_world su = SOk w0 -> reach su w0 w -> step su w (Slash v p) = SOk w' ->
  slash_floors_total_to_zero su w (Some (Slash v p)) = false ->
  forall d, disp (w_st w) d v * (D18 - p) / D18 <= disp (w_st w') d v /\
            disp (w_st w') d v <= (disp (w_st w) d v + 1) * (D18 - p) / D18.
Proof.
  intros H0 R S C. pose proof (reach_inv su w0 w (init_world_inv su w0 H0) R) as I.
  rewrite (class_is_zero_total su w v p w' I S) in C. apply N.eqb_neq in C.
  cbn [step] in S. inv_bind S as s' Hs. injection S as <-. cbn [w_st].
  apply (slash_display_bounds_lemma _ _ _ _ _ _ (inv_stakers _ _ _ I) Hs C).
Qed.

Lemma slash_rewards_kept_guarded_lemma su w0 w v p w' :
  init_world su = SOk w0 -> reach su w0 w -> step su w (Slash v p) = SOk w' ->
  slash_floors_total_to_zero su w (Some (Slash v p)) = false ->
  forall d x, q_rewards (params_of su) (w_now w) (w_st w) d v = SOk x ->
              q_rewards (params_of su) (w_now w') (w_st w') d v = SOk x.
Proof.
  intros H0 R S C. pose proof (reach_inv su w0 w (init_world_inv su w0 H0) R) as I.
  rewrite (class_is_zero_total su w v p w' I S) in C. apply N.eqb_neq in C.
  cbn [step] in S. inv_bind S as s' Hs. injection S as <-. cbn [w_st w_now].
  apply (slash_rewards_kept_lemma _ _ _ _ _ _ (inv_stakers _ _ _ I) (inv_last _ _ _ I) Hs C).
Qed.
