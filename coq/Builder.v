(* Builder.v — C20: interpretation of the field-flow tables that the translator regenerates from
   app_builder.rs / contracts.rs / app.rs (Generated.v), the boolean well-formedness checks that are
   decided by computation on the regenerated tables, and the generic lemmas (for ALL step lists, by
   induction) that turn such a check into the statements of Properties/C20.v.
   No pinned theorems here; nothing in this file mentions a concrete generated table, so this file
   compiles whatever the translator produced (the instances live in Inst20.v). *)
From Verif Require Import Base Generated.
From Coq Require Import String.
Local Open Scope string_scope.

Fixpoint assoc_s {A} (k : string) (l : list (string * A)) : option A :=
  match l with
  | [] => None
  | (k', v) :: l' => if String.eqb k' k then Some v else assoc_s k l'
  end.

Definition mem_s (x : string) (l : list string) : bool := existsb (String.eqb x) l.

Lemma mem_s_In x l : mem_s x l = true <-> In x l.
Proof.
  unfold mem_s. rewrite existsb_exists. split.
  - intros (y & Hy & E). apply String.eqb_eq in E. subst. exact Hy.
  - intros H. exists x. split; [exact H|apply String.eqb_refl].
Qed.

Lemma assoc_s_In {A} k (l : list (string * A)) v : assoc_s k l = Some v -> In (k, v) l.
Proof.
  induction l as [|[k' v'] l IH]; cbn; [discriminate|].
  destruct (String.eqb_spec k' k) as [->|N].
  - intros E; injection E as ->. left; reflexivity.
  - intros E. right. apply IH, E.
Qed.

Definition find_flow (n : string) (tbl : list flow) : option flow :=
  find (fun fl => String.eqb (f_name fl) n) tbl.

(* ------------------------------------------------------------------------------------------ *)
(* Interpretation over an ABSTRACT type of component values                                    *)
(* ------------------------------------------------------------------------------------------ *)
Section Interp.
  Variable V : Type.
  Variable opq : string -> V.    (* meaning of what the translator did not recognise: arbitrary *)
  Variable none : V.             (* meaning of the literal None *)

  (* a builder / wrapper value: every field holds a component value *)
  Definition state := string -> V.

  Definition eval_src (s : state) (ps : list V) (x : src) : V :=
    match x with
    | Old f => s f
    | Param i _ => nth i ps (opq "<no such parameter>")
    | NoneLit => none
    | Opaque e => opq e
    end.

  (* one call of a constructor / with_* function: the struct that the function returns *)
  Definition apply_flow (fl : flow) (ps : list V) (s : state) : state :=
    fun f => match assoc_s f (f_fields fl) with Some x => eval_src s ps x | None => opq "<field not built>" end.

  (* a step = (function name, the argument supplied) *)
  Definition step := (string * V)%type.

  Definition apply_step (tbl : list flow) (st : step) (s : state) : state :=
    match find_flow (fst st) tbl with
    | Some fl => apply_flow fl [snd st] s
    | None => fun _ => opq "<unknown step>"
    end.

  Definition run_steps (tbl : list flow) (steps : list step) (s : state) : state :=
    fold_left (fun s st => apply_step tbl st s) steps s.

  (* ---------- the SPEC: each step overwrites its own field and nothing else ---------- *)
  Definition upd (s : state) (f : string) (v : V) : state := fun g => if String.eqb g f then v else s g.

  (* targets : step name -> the field it is meant to set *)
  Fixpoint last_for (targets : list (string * string)) (f : string) (steps : list step) : option V :=
    match steps with
    | [] => None
    | st :: r =>
        match last_for targets f r with
        | Some v => Some v
        | None => match assoc_s (fst st) targets with
                  | Some g => if String.eqb f g then Some (snd st) else None
                  | None => None
                  end
        end
    end.

  (* ---------- boolean checks, decided by computation on the regenerated table ---------- *)
  Definition src_is_param0 (x : src) : bool := match x with Param O _ => true | _ => false end.
  Definition src_is_old (g : string) (x : src) : bool := match x with Old h => String.eqb h g | _ => false end.

  (* the flow sets [target] to its single argument and forwards every other field of [fields] *)
  Definition flow_sets (fields : list string) (target : string) (fl : flow) : bool :=
    f_ok fl && Nat.eqb (List.length (f_params fl)) 1 && mem_s target fields &&
    forallb (fun g => match assoc_s g (f_fields fl) with
                      | Some x => if String.eqb g target then src_is_param0 x else src_is_old g x
                      | None => false
                      end) fields.

  Definition table_ok (fields : list string) (targets : list (string * string)) (tbl : list flow) : bool :=
    forallb (fun nt => match find_flow (fst nt) tbl with
                       | Some fl => flow_sets fields (snd nt) fl
                       | None => false
                       end) targets.

  Lemma flow_sets_spec fields target fl v s g :
    flow_sets fields target fl = true -> In g fields ->
    apply_flow fl [v] s g = upd s target v g.
  Proof.
    unfold flow_sets. intros H Hg.
    apply andb_true_iff in H as [H Hall]. rewrite forallb_forall in Hall. specialize (Hall g Hg).
    unfold apply_flow, upd. destruct (assoc_s g (f_fields fl)) as [x|]; [|discriminate].
    destruct (String.eqb g target).
    - destruct x as [| [|i] w | |]; try discriminate. reflexivity.
    - destruct x as [h| | |]; try discriminate. cbn in Hall. apply String.eqb_eq in Hall. subst h. reflexivity.
  Qed.

  Section Table.
    Variable fields : list string.
    Variable targets : list (string * string).
    Variable tbl : list flow.
    Hypothesis Hok : table_ok fields targets tbl = true.

    Lemma step_spec name f v s g :
      In (name, f) targets -> In g fields ->
      apply_step tbl (name, v) s g = upd s f v g.
    Proof.
      intros Hn Hg. unfold table_ok in Hok. rewrite forallb_forall in Hok. specialize (Hok _ Hn).
      unfold apply_step. cbn [fst snd] in *. destruct (find_flow name tbl) as [fl|]; [|discriminate].
      apply flow_sets_spec with (fields := fields); assumption.
    Qed.

    Lemma target_in_fields name f : In (name, f) targets -> In f fields.
    Proof.
      intros Hn. unfold table_ok in Hok. rewrite forallb_forall in Hok. specialize (Hok _ Hn).
      cbn [fst snd] in Hok. destruct (find_flow name tbl) as [fl|]; [|discriminate].
      unfold flow_sets in Hok. apply andb_true_iff in Hok as [Hok _]. apply andb_true_iff in Hok as [_ Hm].
      apply mem_s_In, Hm.
    Qed.

    (* with_sets *)
    Lemma step_sets name f v s : In (name, f) targets -> apply_step tbl (name, v) s f = v.
    Proof.
      intros Hn. rewrite (step_spec name f v s f Hn (target_in_fields _ _ Hn)).
      unfold upd. rewrite String.eqb_refl. reflexivity.
    Qed.

    (* with_frame: EVERY other field is forwarded *)
    Lemma step_frame name f v s g : In (name, f) targets -> In g fields -> g <> f ->
      apply_step tbl (name, v) s g = s g.
    Proof.
      intros Hn Hg Hne. rewrite (step_spec name f v s g Hn Hg). unfold upd.
      destruct (String.eqb_spec g f); [contradiction|reflexivity].
    Qed.

    (* with_commute *)
    Lemma step_commute n1 f1 v1 n2 f2 v2 s g : In (n1, f1) targets -> In (n2, f2) targets -> f1 <> f2 ->
      In g fields ->
      apply_step tbl (n1, v1) (apply_step tbl (n2, v2) s) g = apply_step tbl (n2, v2) (apply_step tbl (n1, v1) s) g.
    Proof.
      intros H1 H2 Hne Hg.
      rewrite (step_spec n1 f1 v1 _ g H1 Hg), (step_spec n2 f2 v2 _ g H2 Hg). unfold upd.
      rewrite (step_spec n2 f2 v2 s g H2 Hg), (step_spec n1 f1 v1 s g H1 Hg). unfold upd.
      destruct (String.eqb_spec g f1), (String.eqb_spec g f2); try reflexivity. congruence.
    Qed.

    (* with_override: the last call wins *)
    Lemma step_override n1 n2 f v1 v2 s g : In (n1, f) targets -> In (n2, f) targets -> In g fields ->
      apply_step tbl (n2, v2) (apply_step tbl (n1, v1) s) g = apply_step tbl (n2, v2) s g.
    Proof.
      intros H1 H2 Hg.
      rewrite (step_spec n2 f v2 _ g H2 Hg), (step_spec n2 f v2 s g H2 Hg). unfold upd.
      destruct (String.eqb_spec g f); [reflexivity|]. apply step_frame with (f := f); assumption.
    Qed.

    Definition known (targets0 : list (string * string)) (st : step) : Prop := In (fst st) (map fst targets0).

    Hypothesis Hfun : forall n f f', In (n, f) targets -> In (n, f') targets -> f = f'.

    Lemma assoc_targets n f : In (n, f) targets -> assoc_s n targets = Some f.
    Proof.
      intros Hn. destruct (assoc_s n targets) as [f'|] eqn:E.
      - f_equal. apply (Hfun n); [apply assoc_s_In, E|exact Hn].
      - exfalso. clear Hok Hfun. induction targets as [|[k v] t IH]; [contradiction|]. cbn in E.
        destruct (String.eqb_spec k n) as [->|Nk]; [discriminate|]. destruct Hn as [Hn|Hn]; [congruence|]. auto.
    Qed.

    (* any_order: for ANY list of steps (any subset, any order, any repetition) every field of the
       result holds the last value supplied for it, or what the starting value held.  Induction over
       the step list. *)
    Lemma run_any_order (steps : list step) : forall s g,
      Forall (known targets) steps -> In g fields ->
      run_steps tbl steps s g = match last_for targets g steps with Some v => v | None => s g end.
    Proof.
      induction steps as [|[n v] r IH]; intros s g Hk Hg; [reflexivity|].
      inversion Hk as [|x l Hn Hr]; subst x l. unfold run_steps in *. cbn [fold_left last_for fst snd].
      rewrite (IH _ g Hr Hg).
      destruct (last_for targets g r) as [w|]; [reflexivity|].
      unfold known in Hn. cbn [fst] in Hn. apply in_map_iff in Hn as ([n' f] & E & Hin). cbn in E. subst n'.
      rewrite (assoc_targets n f Hin), (step_spec n f v s g Hin Hg). unfold upd.
      destruct (String.eqb g f); reflexivity.
    Qed.

    (* consequence: two step lists that supply the same last value for every field (e.g. any two
       orders of steps for distinct fields) build the same thing *)
    Lemma run_order_irrelevant steps1 steps2 s g :
      Forall (known targets) steps1 -> Forall (known targets) steps2 -> In g fields ->
      last_for targets g steps1 = last_for targets g steps2 ->
      run_steps tbl steps1 s g = run_steps tbl steps2 s g.
    Proof.
      intros H1 H2 Hg E. rewrite (run_any_order steps1 s g H1 Hg), (run_any_order steps2 s g H2 Hg), E. reflexivity.
    Qed.
  End Table.
End Interp.

Arguments apply_step {V} opq none tbl st s _.
Arguments apply_flow {V} opq none fl ps s _.
Arguments run_steps {V} opq none tbl steps s _.
Arguments last_for {V} targets f steps.
Arguments upd {V} s f v _.
Arguments known {V} targets0 st.

(* permutations of steps for pairwise distinct fields supply the same last value *)
Lemma last_for_app {V} targets f (a b : list (string * V)) :
  last_for targets f (a ++ b) = match last_for targets f b with Some v => Some v | None => last_for targets f a end.
Proof.
  induction a as [|st a IH]; cbn [app last_for].
  - destruct (last_for targets f b); reflexivity.
  - rewrite IH. destruct (last_for targets f b); reflexivity.
Qed.

(* ------------------------------------------------------------------------------------------ *)
(* The SPEC tables (hand-written: this is what the property expects of the code)               *)
(* ------------------------------------------------------------------------------------------ *)
Definition builder_fields : list string :=
  ["api"; "block"; "storage"; "bank"; "wasm"; "custom"; "staking"; "distribution"; "ibc"; "gov"; "stargate"].

Definition builder_targets : list (string * string) :=
  [("with_api", "api"); ("with_block", "block"); ("with_storage", "storage"); ("with_bank", "bank");
   ("with_wasm", "wasm"); ("with_custom", "custom"); ("with_staking", "staking");
   ("with_distribution", "distribution"); ("with_ibc", "ibc"); ("with_gov", "gov"); ("with_stargate", "stargate")].

Definition wrapper_fields : list string :=
  ["execute_fn"; "instantiate_fn"; "query_fn"; "sudo_fn"; "reply_fn"; "migrate_fn"; "checksum"].

Definition wrapper_targets : list (string * string) :=
  [("with_sudo", "sudo_fn"); ("with_sudo_empty", "sudo_fn"); ("with_reply", "reply_fn"); ("with_reply_empty", "reply_fn");
   ("with_migrate", "migrate_fn"); ("with_migrate_empty", "migrate_fn"); ("with_checksum", "checksum")].

(* entry point of `impl Contract for ContractWrapper` -> the field it must dispatch to *)
Definition wrapper_entry_points : list (string * string) :=
  [("execute", "execute_fn"); ("instantiate", "instantiate_fn"); ("query", "query_fn"); ("sudo", "sudo_fn");
   ("reply", "reply_fn"); ("migrate", "migrate_fn"); ("checksum", "checksum")].

(* the constructor calls that may surround a supplied argument (they store it, possibly lifted from
   the empty message type to the chain's; anything else is not accepted) *)
Definition allowed_wrappers : list string :=
  [""; "Box::new(_)"; "Some(_)"; "Some(Box::new(_))"; "customize_contract_fn(_)"; "customize_query_fn(_)";
   "Some(customize_permissioned_fn(_))"].

Definition list_s_eqb (a b : list string) : bool := list_eqb String.eqb a b.

Lemma list_s_eqb_eq a b : list_s_eqb a b = true <-> a = b.
Proof. apply list_eqb_eq. intros x y. apply String.eqb_eq. Qed.

Definition same_set (a b : list string) : bool := forallb (fun x => mem_s x b) a && forallb (fun x => mem_s x a) b.

Definition wrappers_allowed (tbl : list flow) : bool :=
  forallb (fun fl => forallb (fun fs => match snd fs with Param _ w => mem_s w allowed_wrappers | _ => true end) (f_fields fl)) tbl.

(* the generated table covers exactly the steps and the struct fields the spec knows:
   a new with_* function or a new field has to be looked at by a person *)
Definition steps_complete (fields : list string) (targets : list (string * string)) (struct_fields : list string) (tbl : list flow) : bool :=
  same_set (map f_name tbl) (map fst targets) && same_set struct_fields fields &&
  Nat.eqb (List.length struct_fields) (List.length fields) && wrappers_allowed tbl.

Definition targets_functional (targets : list (string * string)) : bool :=
  forallb (fun nt => match assoc_s (fst nt) targets with Some f => String.eqb f (snd nt) | None => false end) targets.

Lemma targets_functional_spec targets : targets_functional targets = true ->
  forall n f f', In (n, f) targets -> In (n, f') targets -> f = f'.
Proof.
  unfold targets_functional. rewrite forallb_forall. intros H n f f' H1 H2.
  pose proof (H _ H1) as A. pose proof (H _ H2) as B. cbn [fst snd] in *.
  destruct (assoc_s n targets) as [x|]; [|discriminate].
  apply String.eqb_eq in A, B. congruence.
Qed.

(* ------------------------------------------------------------------------------------------ *)
(* ContractWrapper constructors                                                                *)
(* ------------------------------------------------------------------------------------------ *)
Definition src_eqb (a b : src) : bool :=
  match a, b with
  | Old x, Old y => String.eqb x y
  | Param i w, Param j v => Nat.eqb i j && String.eqb w v
  | NoneLit, NoneLit => true
  | Opaque x, Opaque y => String.eqb x y
  | _, _ => false
  end.

(* new / new_with_empty: the three mandatory entry points are the three arguments in order, the
   optional entry points and the checksum start as None *)
Definition ctor_ok (fl : flow) : bool :=
  f_ok fl && Nat.eqb (List.length (f_params fl)) 3 &&
  list_eqb (fun (a b : string * nat) => String.eqb (fst a) (fst b) && Nat.eqb (snd a) (snd b))
    (map (fun fs => (fst fs, match snd fs with Param i _ => i | NoneLit => 100 | _ => 200 end)) (f_fields fl))
    [("execute_fn", 0); ("instantiate_fn", 1); ("query_fn", 2); ("sudo_fn", 100); ("reply_fn", 100);
     ("migrate_fn", 100); ("checksum", 100)]%nat.

Definition wrapper_ctors_ok (ctors : list flow) : bool :=
  same_set (map f_name ctors) ["new"; "new_with_empty"] && forallb ctor_ok ctors && wrappers_allowed ctors.

Definition dispatch_ok (d : list (string * list string)) : bool :=
  forallb (fun ef => match assoc_s (fst ef) d with Some [f] => String.eqb f (snd ef) | _ => false end) wrapper_entry_points.

(* AppBuilder::new and ::new_custom start from the same defaults *)
Definition builder_ctors_ok (ctors : list flow) : bool :=
  match ctors with
  | [a; b] => f_ok a && f_ok b && same_set [f_name a; f_name b] ["new"; "new_custom"] &&
              list_eqb (fun x y => String.eqb (fst x) (fst y) && src_eqb (snd x) (snd y)) (f_fields a) (f_fields b) &&
              list_s_eqb (map fst (f_fields a)) builder_fields
  | _ => false
  end.

(* ------------------------------------------------------------------------------------------ *)
(* AppBuilder::build and App::init_modules                                                     *)
(* ------------------------------------------------------------------------------------------ *)
Record built := mk_built {
  b_var : string;                       (* the local that holds the App and is returned *)
  b_fields : list (string * src);       (* App / Router field (dotted) -> where its value comes from *)
  b_inits : list (list arg) }.          (* one entry per application of the init function: its arguments,
                                           relative to the App being built *)

Fixpoint arg_eqb (a b : arg) : bool :=
  match a, b with
  | AParam i, AParam j => Nat.eqb i j
  | ABind i, ABind j => Nat.eqb i j
  | ALocal x, ALocal y => String.eqb x y
  | ASelf, ASelf => true
  | ASelfField x, ASelfField y => String.eqb x y
  | ARef x, ARef y => arg_eqb x y
  | ARefMut x, ARefMut y => arg_eqb x y
  | AOpaque x, AOpaque y => String.eqb x y
  | _, _ => false
  end.

Lemma arg_eqb_eq a : forall b, arg_eqb a b = true <-> a = b.
Proof.
  induction a; intros []; cbn; try (split; congruence);
    try (rewrite Nat.eqb_eq; split; congruence);
    try (rewrite String.eqb_eq; split; congruence);
    rewrite IHa; split; congruence.
Qed.

(* statement-by-statement interpretation of build; None = a shape that is not understood *)
Fixpoint build_run (init_body : body) (stmts : list bstmt) (cur : option built) : option built :=
  match stmts with
  | [] => None                                              (* no tail expression *)
  | SLetStruct v ty fields nested :: r =>
      match cur with
      | None => if String.eqb ty "App" &&
                   list_eqb (fun (a b : string * string) => String.eqb (fst a) (fst b) && String.eqb (snd a) (snd b))
                            nested [("router", "Router")]
                then build_run init_body r (Some (mk_built v fields []))
                else None
      | Some _ => None
      end
  | SMethodCall recv m args :: r =>
      match cur with
      | Some b =>
          if String.eqb recv (b_var b) && String.eqb m "init_modules" && list_eqb arg_eqb args [AParam 0] then
            match init_body with
            | BParamCall O a => build_run init_body r (Some (mk_built (b_var b) (b_fields b) (b_inits b ++ [a])))
            | _ => None
            end
          else None
      | None => None
      end
  | [SReturnVar v] => match cur with Some b => if String.eqb v (b_var b) then Some b else None | None => None end
  | _ => None
  end.

Definition build_interp : option built :=
  if Nat.eqb (List.length build_params) 1 && Nat.eqb (List.length init_modules_params) 1
  then build_run init_modules_body build_body None else None.

(* builder field -> the App field it must end up in *)
Definition app_path (f : string) : string :=
  if mem_s f ["api"; "block"; "storage"] then f else "router." ++ f.

Definition build_moves_ok (b : built) : bool :=
  forallb (fun f => match assoc_s (app_path f) (b_fields b) with Some x => src_is_old f x | None => false end) builder_fields &&
  Nat.eqb (List.length (b_fields b)) (List.length builder_fields) &&
  same_set app_struct_fields ["router"; "api"; "storage"; "block"] &&
  same_set router_struct_fields ["wasm"; "bank"; "custom"; "staking"; "distribution"; "ibc"; "gov"; "stargate"].

(* exactly one application, to (&mut router, &api, &mut storage) of the App that is returned, and the
   init parameter is mentioned nowhere else *)
Definition init_args_spec : list arg := [ARefMut (ASelfField "router"); ARef (ASelfField "api"); ARefMut (ASelfField "storage")].

Definition init_once_ok (b : built) : bool :=
  list_eqb (list_eqb arg_eqb) (b_inits b) [init_args_spec] &&
  Nat.eqb build_init_mentions 1 && Nat.eqb init_modules_mentions 1.

(* the App observed through the built record: builder state -> value of the App field fed by field f *)
Definition built_field {V} (opq : string -> V) (none : V) (b : built) (s : state V) (f : string) : V :=
  match assoc_s (app_path f) (b_fields b) with
  | Some x => eval_src V opq none s [] x
  | None => opq "<App field not built>"
  end.

Lemma built_field_moves {V} opq none b (s : state V) f :
  build_moves_ok b = true -> In f builder_fields -> built_field opq none b s f = s f.
Proof.
  unfold build_moves_ok. intros H Hf. do 3 (apply andb_true_iff in H as [H _]).
  rewrite forallb_forall in H. specialize (H f Hf). unfold built_field.
  destruct (assoc_s (app_path f) (b_fields b)) as [x|]; [|discriminate].
  destruct x as [h| | |]; try discriminate. cbn in H. apply String.eqb_eq in H. subst h. reflexivity.
Qed.
