(* Inst20.v — C20: the lemmas of Builder.v INSTANTIATED at the tables that the translator regenerated
   from app_builder.rs / contracts.rs / app.rs on this run.  The boolean checks below are closed finite
   computations on Generated.v; they are the proof obligations that break when a with_* function stops
   forwarding a field, build() stops moving one, or the init function is applied to something else.
   (Requires Chk20 so that the case evaluator is always built before a broken table stops make.) *)
From Verif Require Import Base Generated Builder Chk20.
From Coq Require Import String.
Local Open Scope string_scope.

(* the translator recognised every shape it relies on *)
Lemma translation_recognised : translation_ok = true.
Proof. vm_compute. reflexivity. Qed.

(* ---------- AppBuilder ---------- *)
Lemma builder_table_ok : table_ok builder_fields builder_targets builder_steps = true.
Proof. vm_compute. reflexivity. Qed.

Lemma builder_complete : steps_complete builder_fields builder_targets builder_struct_fields builder_steps = true.
Proof. vm_compute. reflexivity. Qed.

Lemma builder_targets_fun n f f' : In (n, f) builder_targets -> In (n, f') builder_targets -> f = f'.
Proof. apply targets_functional_spec. vm_compute. reflexivity. Qed.

Lemma builder_defaults_ok : builder_ctors_ok builder_ctors = true.
Proof. vm_compute. reflexivity. Qed.

Section B.
  Variable V : Type.
  Variable opq : string -> V.
  Variable none : V.
  Notation ap := (apply_step opq none builder_steps).

  Lemma B_with_sets name f v (s : state V) : In (name, f) builder_targets -> ap (name, v) s f = v.
  Proof. apply step_sets with (fields := builder_fields). exact builder_table_ok. Qed.

  Lemma B_with_frame name f v (s : state V) g :
    In (name, f) builder_targets -> In g builder_fields -> g <> f -> ap (name, v) s g = s g.
  Proof. apply step_frame. exact builder_table_ok. Qed.

  Lemma B_with_commute n1 f1 v1 n2 f2 v2 (s : state V) g :
    In (n1, f1) builder_targets -> In (n2, f2) builder_targets -> f1 <> f2 -> In g builder_fields ->
    ap (n1, v1) (ap (n2, v2) s) g = ap (n2, v2) (ap (n1, v1) s) g.
  Proof. apply step_commute. exact builder_table_ok. Qed.

  Lemma B_with_override n1 n2 f v1 v2 (s : state V) g :
    In (n1, f) builder_targets -> In (n2, f) builder_targets -> In g builder_fields ->
    ap (n2, v2) (ap (n1, v1) s) g = ap (n2, v2) s g.
  Proof. apply step_override. exact builder_table_ok. Qed.

  Lemma B_any_order (steps : list (string * V)) (b : state V) f :
    Forall (known builder_targets) steps -> In f builder_fields ->
    run_steps opq none builder_steps steps b f =
    match last_for builder_targets f steps with Some v => v | None => b f end.
  Proof. apply run_any_order; [exact builder_table_ok|exact builder_targets_fun]. Qed.

  Lemma B_order_irrelevant (steps1 steps2 : list (string * V)) (b : state V) f :
    Forall (known builder_targets) steps1 -> Forall (known builder_targets) steps2 -> In f builder_fields ->
    last_for builder_targets f steps1 = last_for builder_targets f steps2 ->
    run_steps opq none builder_steps steps1 b f = run_steps opq none builder_steps steps2 b f.
  Proof. apply run_order_irrelevant; [exact builder_table_ok|exact builder_targets_fun]. Qed.
End B.

(* ---------- build / init_modules ---------- *)
Lemma build_interp_ok : exists b, build_interp = Some b /\ build_moves_ok b = true /\ init_once_ok b = true.
Proof.
  destruct build_interp as [b|] eqn:E; [|vm_compute in E; discriminate].
  exists b. split; [reflexivity|]. vm_compute in E. injection E as <-. vm_compute. split; reflexivity.
Qed.

Lemma B_build_moves_fields :
  exists b, build_interp = Some b /\
    forall V (opq : string -> V) (none : V) (s : state V) f, In f builder_fields -> built_field opq none b s f = s f.
Proof.
  destruct build_interp_ok as (b & E & Hm & _). exists b. split; [exact E|].
  intros V opq none s f Hf. apply built_field_moves; assumption.
Qed.

Lemma init_once_spec b : init_once_ok b = true ->
  b_inits b = [init_args_spec] /\ build_init_mentions = 1%nat /\ init_modules_mentions = 1%nat.
Proof.
  unfold init_once_ok. intros H. apply andb_true_iff in H as [H H3]. apply andb_true_iff in H as [H1 H2].
  apply Nat.eqb_eq in H2, H3. repeat split; try assumption.
  apply (list_eqb_eq (list_eqb arg_eqb)); [|exact H1].
  intros x y. apply list_eqb_eq. intros a c. apply arg_eqb_eq.
Qed.

Lemma B_init_once :
  exists b, build_interp = Some b /\ b_inits b = [init_args_spec] /\
            build_init_mentions = 1%nat /\ init_modules_mentions = 1%nat.
Proof.
  destruct build_interp_ok as (b & E & _ & Hi). exists b. split; [exact E|]. apply init_once_spec, Hi.
Qed.

(* ---------- ContractWrapper ---------- *)
Lemma wrapper_table_ok : table_ok wrapper_fields wrapper_targets wrapper_steps = true.
Proof. vm_compute. reflexivity. Qed.

Lemma wrapper_complete : steps_complete wrapper_fields wrapper_targets wrapper_struct_fields wrapper_steps = true.
Proof. vm_compute. reflexivity. Qed.

Lemma wrapper_targets_fun n f f' : In (n, f) wrapper_targets -> In (n, f') wrapper_targets -> f = f'.
Proof. apply targets_functional_spec. vm_compute. reflexivity. Qed.

Lemma wrapper_ctors_checked : wrapper_ctors_ok wrapper_ctors = true.
Proof. vm_compute. reflexivity. Qed.

Lemma wrapper_dispatch_checked : dispatch_ok wrapper_dispatch = true.
Proof. vm_compute. reflexivity. Qed.

Section W.
  Variable V : Type.
  Variable opq : string -> V.
  Variable none : V.
  Notation ap := (apply_step opq none wrapper_steps).

  Lemma W_with_sets name f v (s : state V) : In (name, f) wrapper_targets -> ap (name, v) s f = v.
  Proof. apply step_sets with (fields := wrapper_fields). exact wrapper_table_ok. Qed.

  Lemma W_with_frame name f v (s : state V) g :
    In (name, f) wrapper_targets -> In g wrapper_fields -> g <> f -> ap (name, v) s g = s g.
  Proof. apply step_frame. exact wrapper_table_ok. Qed.

  Lemma W_with_commute n1 f1 v1 n2 f2 v2 (s : state V) g :
    In (n1, f1) wrapper_targets -> In (n2, f2) wrapper_targets -> f1 <> f2 -> In g wrapper_fields ->
    ap (n1, v1) (ap (n2, v2) s) g = ap (n2, v2) (ap (n1, v1) s) g.
  Proof. apply step_commute. exact wrapper_table_ok. Qed.

  Lemma W_with_override n1 n2 f v1 v2 (s : state V) g :
    In (n1, f) wrapper_targets -> In (n2, f) wrapper_targets -> In g wrapper_fields ->
    ap (n2, v2) (ap (n1, v1) s) g = ap (n2, v2) s g.
  Proof. apply step_override. exact wrapper_table_ok. Qed.

  Lemma W_any_order (steps : list (string * V)) (b : state V) f :
    Forall (known wrapper_targets) steps -> In f wrapper_fields ->
    run_steps opq none wrapper_steps steps b f =
    match last_for wrapper_targets f steps with Some v => v | None => b f end.
  Proof. apply run_any_order; [exact wrapper_table_ok|exact wrapper_targets_fun]. Qed.

  (* the two constructors: the three mandatory entry points are the three arguments, everything
     optional starts as None (whatever the starting state [s] is: nothing is read from it) *)
  Lemma W_ctor c fl e i q (s : state V) : In c ["new"; "new_with_empty"] -> find_flow c wrapper_ctors = Some fl ->
    let w := apply_flow opq none fl [e; i; q] s in
    w "execute_fn" = e /\ w "instantiate_fn" = i /\ w "query_fn" = q /\
    w "sudo_fn" = none /\ w "reply_fn" = none /\ w "migrate_fn" = none /\ w "checksum" = none.
  Proof.
    intros Hc Hf. destruct Hc as [<-|[<-|[]]]; vm_compute in Hf; injection Hf as <-; vm_compute; repeat split.
  Qed.

  Lemma W_ctor_exists c : In c ["new"; "new_with_empty"] -> exists fl, find_flow c wrapper_ctors = Some fl.
  Proof. intros [<-|[<-|[]]]; vm_compute; eexists; reflexivity. Qed.
End W.

(* every entry point of `impl Contract for ContractWrapper` reads exactly its own field *)
Lemma W_dispatch e f : In (e, f) wrapper_entry_points -> assoc_s e wrapper_dispatch = Some [f].
Proof.
  intros H. pose proof wrapper_dispatch_checked as D. unfold dispatch_ok in D. rewrite forallb_forall in D.
  specialize (D _ H). cbn [fst snd] in D. destruct (assoc_s e wrapper_dispatch) as [[|x [|y l]]|]; try discriminate.
  apply String.eqb_eq in D. subst. reflexivity.
Qed.

(* ---------- the oracle accepts the model's own output, for ALL step lists ---------- *)
Lemma app_model_is_spec steps : Forall (known builder_targets) steps -> app_model steps = app_spec steps.
Proof.
  intros Hk. destruct build_interp_ok as (b & E & Hm & Hi). apply init_once_spec in Hi as (Hi & _ & _).
  unfold app_model, app_spec. rewrite E, Hi.
  assert (F : forall f, In f builder_fields ->
                built_field opqN 0%N b (app_model_state steps) f =
                match last_for builder_targets f steps with Some v => v | None => 0%N end).
  { intros f Hf. rewrite (built_field_moves opqN 0%N b _ f Hm Hf). unfold app_model_state.
    rewrite (B_any_order N opqN 0%N steps _ f Hk Hf). reflexivity. }
  cbn [List.length N.of_nat Pos.of_succ_nat].
  replace (list_eqb arg_eqb init_args_spec init_args_spec) with true by (vm_compute; reflexivity).
  rewrite (map_ext_in _ _ _ F).
  rewrite !F by (vm_compute; tauto). reflexivity.
Qed.

Lemma C20_app_model_ok steps : Forall (known builder_targets) steps -> c20_app steps (app_model steps) = Agree.
Proof.
  intros Hk. unfold c20_app. rewrite (app_model_is_spec steps Hk), app_obs_diff_refl. reflexivity.
Qed.

Lemma wrap_model_is_spec c e i q steps : In c ["new"; "new_with_empty"] -> Forall (known wrapper_targets) steps ->
  wrap_model c [e; i; q] steps = wrap_spec [e; i; q] steps.
Proof.
  intros Hc Hk. unfold wrap_model, wrap_spec. apply map_ext_in. intros f Hf.
  assert (Hk' : Forall (known wrapper_targets) (lift_steps steps)).
  { unfold lift_steps. rewrite Forall_map. eapply Forall_impl; [|exact Hk]. intros [n v] H. exact H. }
  rewrite (W_any_order (option N) opqO None (lift_steps steps) _ f Hk' Hf).
  destruct (last_for wrapper_targets f (lift_steps steps)); [reflexivity|].
  unfold wrap_state0. destruct (W_ctor_exists c Hc) as (fl & Efl). rewrite Efl.
  destruct (W_ctor (option N) opqO None c fl (Some e) (Some i) (Some q) (fun _ => None) Hc Efl)
    as (H1 & H2 & H3 & H4 & H5 & H6 & H7).
  cbn [map]. destruct Hf as [<-|[<-|[<-|[<-|[<-|[<-|[<-|[]]]]]]]]; cbn; assumption.
Qed.

Lemma C20_wrap_model_ok c e i q steps : In c ["new"; "new_with_empty"] -> Forall (known wrapper_targets) steps ->
  c20_wrap c [e; i; q] steps (wrap_model c [e; i; q] steps) = Agree.
Proof.
  intros Hc Hk. unfold c20_wrap. rewrite (wrap_model_is_spec c e i q steps Hc Hk).
  rewrite (first_diff_refl (option_eqb N.eqb) opt_eqb_refl). reflexivity.
Qed.
