(* Chk06.v — C06: the script language shared with the harness, its compilation to Tx.prog,
   the two executable semantics instantiated at bytes, and the per-case check. *)
From Verif Require Import Base OMap Tx.
From Coq Require Import Sorted.

Notation kv := (bytes * bytes)%type.

(* cons-style scripts: every constructor carries the rest of the program *)
Inductive script :=
| SNil
| SFail                                                   (* `?` early return with an error *)
| SSet (k v : bytes) (r : script)
| SDel (k : bytes) (r : script)
| SGet (k : bytes) (r : script)
| SRange (s e : option bytes) (o : order) (r : script)
| SGetBelow (n : nat) (k : bytes) (r : script)            (* read the n-th store below the current cache *)
| SRangeBelow (n : nat) (s e : option bytes) (o : order) (r : script)
| SNest (body : script) (r : script).                     (* transactional(current, body); then r *)

Inductive obs :=
| OGet (v : option bytes)
| ORange (l : list kv)
| ONest (ok : bool)
| OPanic.                                                 (* the implementation panicked; the models never do *)

Definition P := prog (K := bytes) (V := bytes) (list obs) (list obs).

Fixpoint comp (s : script) (acc : list obs) (fin : list obs -> P) : P :=
  match s with
  | SNil => fin acc
  | SFail => Fail acc
  | SSet k v r => Write (OSet k v) (comp r acc fin)
  | SDel k r => Write (ODel k) (comp r acc fin)
  | SGet k r => Get k (fun x => comp r (OGet x :: acc) fin)
  | SRange s e o r => Range s e o (fun x => comp r (ORange x :: acc) fin)
  | SGetBelow n k r => GetBelow n k (fun x => comp r (OGet x :: acc) fin)
  | SRangeBelow n s e o r => RangeBelow n s e o (fun x => comp r (ORange x :: acc) fin)
  | SNest body r =>
      Nested (comp body acc (fun a => Ret a))
             (fun res => match res with
                         | inl a => comp r (ONest false :: a) fin
                         | inr a => comp r (ONest true :: a) fin
                         end)
  end.

Fixpoint script_ok (d : nat) (s : script) : bool :=
  match s with
  | SNil | SFail => true
  | SSet _ _ r | SDel _ r | SGet _ r | SRange _ _ _ r => script_ok d r
  | SGetBelow n _ r | SRangeBelow n _ _ _ r => Nat.leb 1 n && Nat.leb n d && script_ok d r
  | SNest body r => script_ok (S d) body && script_ok d r
  end.

Lemma comp_below_ok s : forall d acc fin,
  script_ok d s = true -> (forall a, below_ok d (fin a)) -> below_ok d (comp s acc fin).
Proof.
  induction s as [| |k v r IH|k r IH|k r IH|s0 e o r IH|n k r IH|n s0 e o r IH|body IHb r IHr];
    intros d acc fin Hs Hf; cbn [script_ok comp below_ok] in *; auto.
  - apply andb_true_iff in Hs as [Hs H3]. apply andb_true_iff in Hs as [H1 H2].
    apply Nat.leb_le in H1, H2. split; [lia|]. intros x. apply IH; assumption.
  - apply andb_true_iff in Hs as [Hs H3]. apply andb_true_iff in Hs as [H1 H2].
    apply Nat.leb_le in H1, H2. split; [lia|]. intros x. apply IH; assumption.
  - apply andb_true_iff in Hs as [H1 H2]. split.
    + apply IHb; [exact H1|]. intros a. exact I.
    + intros [a|a]; apply IHr; assumption.
Qed.

Definition of_list (l : list kv) : list kv := fold_left (fun m p => insert bcmp (fst p) (snd p) m) l [].

Lemma of_list_sorted l : sorted bcmp (of_list l).
Proof.
  unfold of_list. assert (G : forall m, sorted bcmp m -> sorted bcmp (fold_left (fun m p => insert bcmp (fst p) (snd p) m) l m)).
  { induction l as [|p l IH]; cbn; intros m H; [exact H|]. apply IH, insert_sorted; [apply bcmp_eq|apply bcmp_anti|apply bcmp_trans|exact H]. }
  apply G. constructor.
Qed.

(* MECHANISM: a MemoryStorage holding `base`; transactional(&mut root, body); dump root *)
Definition run_case_layered (base : list kv) (body : script) : list obs * list kv :=
  let b := of_list base in
  match run_layered bcmp (comp body [] (fun a => Ret a)) (push ([], b)) with
  | Done acc (l :: ls, b') => (rev (ONest true :: acc), view bcmp (commit bcmp l (ls, b')))
  | Done acc ([], b') => (rev (ONest true :: acc), b')
  | Failed acc => (rev (ONest false :: acc), b)
  end.

(* SPEC: a plain ordered map, nested blocks by copy / keep-or-forget *)
Definition run_case_flat (base : list kv) (body : script) : list obs * list kv :=
  let b := of_list base in
  match run_flat bcmp (comp body [] (fun a => Ret a)) [b] b with
  | Done acc m' => (rev (ONest true :: acc), m')
  | Failed acc => (rev (ONest false :: acc), b)
  end.

Lemma case_layered_eq_flat base body : script_ok 1 body = true ->
  run_case_layered base body = run_case_flat base body.
Proof.
  intros Hok. unfold run_case_layered, run_case_flat.
  pose proof (of_list_sorted base) as Hb. set (b := of_list base) in *.
  assert (Hw : store_wf bcmp (push ([], b))).
  { apply push_wf. split; cbn; [constructor|exact Hb]. }
  pose proof (refines bcmp bcmp_eq bcmp_anti bcmp_trans _ _ (comp body [] (fun a => Ret a))
                empty_layer [] b Hw (comp_below_ok body 1 [] (fun a => Ret a) Hok (fun a => I))) as R.
  unfold push in *. cbn [fst snd] in *.
  change (outer_views bcmp [empty_layer] b) with [b] in R.
  change (view bcmp ([empty_layer], b)) with b in R.
  match type of R with agrees _ ?x ?y _ => destruct x as [a [ls1 b1]|e]; destruct y as [a' m'|e'] end;
    cbn in R; try contradiction.
  - destruct R as (-> & Hv & Hbel & Hd & Hw1). destruct ls1 as [|l1 ls1]; [discriminate|].
    unfold below in Hbel. cbn in Hbel. injection Hbel as -> ->.
    destruct Hw1 as [Hl1 Hb1]. cbn in Hl1. inversion Hl1 as [|xx yy Hl1a Hl1b]; subst xx yy.
    rewrite (commit_view bcmp bcmp_eq bcmp_anti bcmp_trans) by (try assumption; split; assumption).
    f_equal. exact Hv.
  - subst e'. reflexivity.
Qed.

(* ---------- the per-case check ---------- *)
Definition kv_eqb : kv -> kv -> bool := pair_eqb beqb beqb.
Definition obs_eqb (a b : obs) : bool :=
  match a, b with
  | OGet x, OGet y => option_eqb beqb x y
  | ORange x, ORange y => list_eqb kv_eqb x y
  | ONest x, ONest y => Bool.eqb x y
  | _, _ => false
  end.

(* observed = what the implementation answered (program order) and the final root contents.
   (a) correspondence: the mechanism model reproduces it;
   (b) property oracle on the implementation: the ordered-map SPEC reproduces it. *)
Definition c06 (base : list kv) (body : script) (observed : list obs) (final : list kv) : verdict :=
  let '(so, sf) := run_case_flat base body in
  match first_diff obs_eqb so observed 0 with
  | Some i => PropFail i
  | None =>
      if negb (list_eqb kv_eqb sf final) then PropFail (N.of_nat (length observed))
      else
        let '(lo, lf) := run_case_layered base body in
        match first_diff obs_eqb lo observed 0 with
        | Some i => Disagree i
        | None => if list_eqb kv_eqb lf final then Agree else Disagree (N.of_nat (length observed))
        end
  end.

(* ---------- instances at bytes of the generic lemmas (used by Properties/C06.v) ---------- *)
Notation bstore := (store (K := bytes) (V := bytes)).
Notation blayer := (layer (K := bytes) (V := bytes)).
Ltac laws := first [apply bcmp_eq | apply bcmp_anti | apply bcmp_trans
                   | apply dcmp_eq; apply bcmp_eq | apply dcmp_anti; apply bcmp_anti
                   | apply dcmp_trans; apply bcmp_trans | assumption].

Lemma B_merge_spec (o : order) (l : list (bytes * delta bytes)) (r : list kv) :
  sorted (dcmp bcmp o) l -> sorted (dcmp bcmp o) r ->
  sorted (dcmp bcmp o) (merge (dcmp bcmp o) l r) /\
  forall k, assoc bcmp k (merge (dcmp bcmp o) l r) =
            match assoc bcmp k l with Some (DSet v) => Some v | Some DDel => None | None => assoc bcmp k r end.
Proof.
  intros Hl Hr. split.
  - apply merge_sorted; laws.
  - intros k. rewrite <- !(assoc_dcmp bcmp bcmp_anti o). apply merge_assoc; laws.
Qed.

Lemma B_get_view (st : bstore) k : store_wf bcmp st -> st_get bcmp st k = assoc bcmp k (view bcmp st).
Proof. apply get_view; laws. Qed.

Lemma B_range_view (st : bstore) s e o : store_wf bcmp st ->
  st_range bcmp st s e o = spec_range bcmp (view bcmp st) s e o.
Proof. apply range_view; laws. Qed.

Lemma B_range_strict (st : bstore) s e o : store_wf bcmp st ->
  sorted (dcmp bcmp o) (st_range bcmp st s e o) /\
  forall k, assoc bcmp k (st_range bcmp st s e o) =
            if in_bounds bcmp s e k then assoc bcmp k (view bcmp st) else None.
Proof.
  intros H. rewrite B_range_view by exact H.
  assert (Hv : sorted bcmp (view bcmp st)) by (apply view_sorted; laws). split.
  - apply spec_range_sorted; laws.
  - intros k. apply assoc_spec_range; laws.
Qed.

Lemma B_write_view (st : bstore) w : store_wf bcmp st ->
  view bcmp (st_write bcmp st w) = map_write bcmp (view bcmp st) w /\ store_wf bcmp (st_write bcmp st w).
Proof. intros H. split; [apply write_view|apply write_wf]; laws. Qed.

Lemma B_commit_view (l : blayer) ls b : layer_wf bcmp l -> store_wf bcmp (ls, b) ->
  view bcmp (commit bcmp l (ls, b)) = view bcmp (l :: ls, b).
Proof. apply commit_view; laws. Qed.

Lemma B_refines E A (p : prog (K := bytes) (V := bytes) E A) (l : blayer) ls b :
  store_wf bcmp (l :: ls, b) -> below_ok (S (length ls)) p ->
  agrees bcmp (run_layered bcmp p (l :: ls, b))
         (run_flat bcmp p (outer_views bcmp (l :: ls) b) (view bcmp (l :: ls, b)))
         (ls, b).
Proof. apply refines; laws. Qed.

Lemma B_layer_write_wf (l : blayer) w : layer_wf bcmp l -> layer_wf bcmp (layer_write bcmp l w).
Proof. apply layer_write_wf; laws. Qed.
