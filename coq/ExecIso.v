(* ExecIso.v — C08 at the level of the executor model (L4): a contract body touches its own key space
   only (ExecFacts2.run_actions_own_only) LIFTED TO WHOLE CALL TREES by mutual induction over the message
   tree: whatever the tree, whatever fails or is caught inside it,
     * the storage of a contract can differ afterwards only if that contract was actually invoked in the
       tree (its address is the callee of some entry-point call in the log),
     * the bank ledger can differ only if the tree contains a bank message or attached funds,
     * the registry can differ only if the tree contains an instantiate / migrate / admin message;
   and what a body reads (get / range over its own store) is a function of its own store alone, while
   every other query it makes is a function of the ENCLOSING state alone (not of its pending writes). *)
From Verif Require Import Base OMap Text Proto Bank Exec ExecFacts ExecInv ExecFacts2.
Local Open Scope N_scope.

(* ---------- who ran ---------- *)
Definition callee_of_entry (en : rentry) : list text :=
  match en with RCall _ _ c _ _ _ _ _ => [c] | _ => [] end.
Definition ran (tr : trace) : list text := flat_map callee_of_entry tr.

Lemma ran_app a b : ran (a ++ b) = ran a ++ ran b.
Proof. apply flat_map_app. Qed.

(* ---------- what a tree may touch, read off its syntax ---------- *)
Definition nonempty {A} (l : list A) : bool := match l with [] => false | _ => true end.

Fixpoint tb_msg (m : msg) : bool :=
  match m with
  | MBankSend _ _ | MBankBurn _ => true
  | MExec _ p funds => nonempty funds || tb_prog p
  | MInst _ p funds _ _ _ => nonempty funds || tb_prog p
  | MMigrate _ _ p => tb_prog p
  | MUpdateAdmin _ _ | MClearAdmin _ | MCustom _ _ => false
  end
with tb_prog (p : prog) : bool := match p with Prog _ _ out => tb_out out end
with tb_out (o : output) : bool := match o with OFail => false | OResp _ _ _ sbs => tb_subs sbs end
with tb_subs (l : subs) : bool := match l with SNil => false | SCons sb r => tb_sub sb || tb_subs r end
with tb_sub (sb : sub) : bool :=
  match sb with Sub _ _ _ m on_ok on_err => tb_msg m || tb_prog on_ok || tb_prog on_err end.

Fixpoint tg_msg (m : msg) : bool :=
  match m with
  | MInst _ _ _ _ _ _ | MMigrate _ _ _ | MUpdateAdmin _ _ | MClearAdmin _ => true
  | MExec _ p _ => tg_prog p
  | MBankSend _ _ | MBankBurn _ | MCustom _ _ => false
  end
with tg_prog (p : prog) : bool := match p with Prog _ _ out => tg_out out end
with tg_out (o : output) : bool := match o with OFail => false | OResp _ _ _ sbs => tg_subs sbs end
with tg_subs (l : subs) : bool := match l with SNil => false | SCons sb r => tg_sub sb || tg_subs r end
with tg_sub (sb : sub) : bool :=
  match sb with Sub _ _ _ m on_ok on_err => tg_msg m || tg_prog on_ok || tg_prog on_err end.

(* ---------- the frame relation ---------- *)
(* [rn]: the contracts that ran; [tb] / [tg]: the tree may touch the bank / the registry *)
Definition frame (rn : list text) (tb tg : bool) (s s' : chain) : Prop :=
  sorted_cstore s ->
  sorted_cstore s' /\
  (forall c, ~ In c rn -> cstore_get s' c = cstore_get s c) /\
  (tb = false -> bank s' = bank s) /\
  (tg = false -> reg s' = reg s).

Lemma frame_refl rn tb tg s : frame rn tb tg s s.
Proof. intros H. auto. Qed.

Lemma frame_trans rn1 rn2 tb1 tb2 tg1 tg2 s s1 s2 :
  frame rn1 tb1 tg1 s s1 -> frame rn2 tb2 tg2 s1 s2 -> frame (rn1 ++ rn2) (tb1 || tb2) (tg1 || tg2) s s2.
Proof.
  intros F1 F2 H. destruct (F1 H) as (H1 & C1 & B1 & G1). destruct (F2 H1) as (H2 & C2 & B2 & G2).
  split; [exact H2|]. split; [|split].
  - intros c N. rewrite C2 by (intros I; apply N; apply in_or_app; auto).
    rewrite C1 by (intros I; apply N; apply in_or_app; auto). reflexivity.
  - intros E. apply orb_false_iff in E as [E1 E2]. rewrite B2, B1; auto.
  - intros E. apply orb_false_iff in E as [E1 E2]. rewrite G2, G1; auto.
Qed.

Lemma frame_weaken rn rn' (tb tb' tg tg' : bool) s s' :
  incl rn rn' -> (tb' = false -> tb = false) -> (tg' = false -> tg = false) ->
  frame rn tb tg s s' -> frame rn' tb' tg' s s'.
Proof.
  intros I Hb Hg F H. destruct (F H) as (H1 & C & B & G). split; [exact H1|]. split; [|split; auto].
  intros c N. apply C. intros J. apply N, I, J.
Qed.

Lemma B_delete_sorted {A} k (l : list (bytes * A)) : sorted bcmp l -> sorted bcmp (delete bcmp k l).
Proof. intros H. apply delete_sorted; blaws. Qed.

Lemma cstore_set_sorted s c m : sorted_cstore s -> sorted_cstore (cstore_set s c m).
Proof.
  unfold sorted_cstore, cstore_set. cbn [cstore]. intros H. destruct m; [apply B_delete_sorted|apply b_insert_sorted]; exact H.
Qed.

(* a contract body's flush: only the callee's own entry of the contract-storage map *)
Lemma frame_cstore_set s c m : frame [c] false false s (cstore_set s c m).
Proof.
  intros H. split; [apply cstore_set_sorted; exact H|]. split; [|split; reflexivity].
  intros c' N. apply cstore_get_set_other; [exact H|]. intros ->. apply N. left. reflexivity.
Qed.

Lemma frame_set_bank s b : frame [] true false s (set_bank s b).
Proof. intros H. split; [exact H|]. split; [reflexivity|]. split; [discriminate|reflexivity]. Qed.

Lemma frame_set_reg s r : frame [] false true s (set_reg s r).
Proof. intros H. split; [exact H|]. split; [reflexivity|]. split; [reflexivity|discriminate]. Qed.

Lemma frame_same_cstore tb tg s s1 :
  cstore s1 = cstore s -> (tb = false -> bank s1 = bank s) -> (tg = false -> reg s1 = reg s) -> frame [] tb tg s s1.
Proof.
  intros C B G H. split; [unfold sorted_cstore; rewrite C; exact H|]. split; [|split; assumption].
  intros c _. unfold cstore_get. rewrite C. reflexivity.
Qed.

Lemma frame_move_funds s from to funds s1 :
  move_funds s from to funds = Ok s1 -> frame [] (nonempty funds) false s s1.
Proof.
  intros E. destruct (move_funds_spec _ _ _ _ _ E) as (G & C & B). apply frame_same_cstore; auto.
  destruct funds; [auto|discriminate].
Qed.

Lemma frame_register e s code_id creator admin label salt a s1 :
  register_contract e s code_id creator admin label salt = Ok (a, s1) -> frame [] false true s s1.
Proof.
  intros E. destruct (register_fresh _ _ _ _ _ _ _ _ _ E) as (_ & _ & _ & B & C). apply frame_same_cstore; auto. discriminate.
Qed.

Ltac incl_tac :=
  let x := fresh "x" in let Hx := fresh "Hx" in
  intros x Hx; unfold ran in *; repeat rewrite flat_map_app in *;
  cbn [flat_map callee_of_entry app] in *; repeat rewrite flat_map_app in *;
  cbn [In app] in *; repeat rewrite in_app_iff in *; cbn [In app] in *; repeat rewrite in_app_iff in *; tauto.
Ltac bool_tac := cbn [orb]; intros; rewrite ?orb_false_iff in *; intuition congruence.
Ltac weaken F := eapply frame_weaken; [| | |exact F]; [incl_tac|bool_tac|bool_tac].

(* ---------- the theorem: mutual induction over the message tree ---------- *)
Lemma exec_frame e :
  (forall m sender s r s', outc (run_msg e sender m s) = Ok (r, s') ->
     frame (ran (trc (run_msg e sender m s))) (tb_msg m) (tg_msg m) s s') /\
  (forall p entry c sender funds rep cid rok s r s', outc (run_prog e entry c sender funds rep cid rok p s) = Ok (r, s') ->
     frame (ran (trc (run_prog e entry c sender funds rep cid rok p s))) (tb_prog p) (tg_prog p) s s') /\
  (forall o : output, match o with
     | OFail => True
     | OResp _ _ _ sbs => forall c data s r s', outc (process_subs e c sbs data s) = Ok (r, s') ->
         frame (ran (trc (process_subs e c sbs data s))) (tb_subs sbs) (tg_subs sbs) s s' end) /\
  (forall l c data s r s', outc (process_subs e c l data s) = Ok (r, s') ->
     frame (ran (trc (process_subs e c l data s))) (tb_subs l) (tg_subs l) s s') /\
  (forall sb c s r s', outc (run_sub e c sb s) = Ok (r, s') ->
     frame (ran (trc (run_sub e c sb s))) (tb_sub sb) (tg_sub sb) s s').
Proof.
  apply exec_mutind; try (intros; exact I).
  - (* MBankSend *) intros to amt sender s r s'. cbn [run_msg tb_msg tg_msg].
    destruct (bank_send (bank s) sender to amt) as [b| |]; cbn [outc trc fst snd]; intros H; try discriminate.
    injection H as <- <-. apply frame_set_bank.
  - (* MBankBurn *) intros amt sender s r s'. cbn [run_msg tb_msg tg_msg].
    destruct (bank_burn (bank s) sender amt) as [b| |]; cbn [outc trc fst snd]; intros H; try discriminate.
    injection H as <- <-. apply frame_set_bank.
  - (* MExec *) intros c p IH funds sender s r s'. cbn [run_msg tb_msg tg_msg].
    destruct (negb (is_valid e c)); [cbn; discriminate|].
    destruct (move_funds s sender c funds) as [s1| |] eqn:Em; try (cbn; discriminate).
    specialize (IH EExec c (Some sender) funds None 0 true s1).
    destruct (run_prog e EExec c (Some sender) funds None 0 true p s1) as [tr [[[ev d] s2]| |]];
      cbn [outc trc fst snd] in *; intros H; try discriminate.
    injection H as <- <-. specialize (IH _ _ eq_refl).
    pose proof (frame_trans _ _ _ _ _ _ _ _ _ (frame_move_funds _ _ _ _ _ Em) IH) as F. weaken F.
  - (* MInst *) intros code_id p IH funds label admin salt sender s r s'. cbn [run_msg tb_msg tg_msg].
    destruct label as [|l0 lr]; [cbn; discriminate|].
    destruct (register_contract e s code_id sender admin (l0 :: lr) salt) as [[a s1]| |] eqn:Er; try (cbn; discriminate).
    destruct (move_funds s1 sender a funds) as [s2| |] eqn:Em; try (cbn; discriminate).
    specialize (IH EInst a (Some sender) funds None code_id true s2).
    destruct (run_prog e EInst a (Some sender) funds None code_id true p s2) as [tr [[[ev d] s3]| |]];
      cbn [outc trc fst snd] in *; intros H; try discriminate.
    injection H as <- <-. specialize (IH _ _ eq_refl).
    pose proof (frame_trans _ _ _ _ _ _ _ _ _ (frame_register _ _ _ _ _ _ _ _ _ Er)
                  (frame_trans _ _ _ _ _ _ _ _ _ (frame_move_funds _ _ _ _ _ Em) IH)) as F. weaken F.
  - (* MMigrate *) intros c new_code p IH sender s r s'. cbn [run_msg tb_msg tg_msg].
    destruct (negb (is_valid e c)); [cbn; discriminate|].
    destruct (find_code new_code (codes e)); [|cbn; discriminate].
    destruct (lookup c (reg s)) as [cd|]; [|cbn; discriminate].
    destruct (negb (option_eqb beqb (cd_admin cd) (Some sender))); [cbn; discriminate|].
    match goal with |- context [run_prog e EMigrate c None [] None new_code true p ?s1] =>
      specialize (IH EMigrate c None [] None new_code true s1);
      destruct (run_prog e EMigrate c None [] None new_code true p s1) as [tr [[[ev d] s2]| |]];
      cbn [outc trc fst snd] in *; intros H; try discriminate;
      injection H as <- <-; specialize (IH _ _ eq_refl);
      pose proof (frame_trans _ _ _ _ _ _ _ _ _ (frame_set_reg s _) IH) as F end.
    weaken F.
  - (* MUpdateAdmin *) intros c a sender s r s'. cbn [run_msg tb_msg tg_msg].
    destruct (negb (is_valid e c)); [cbn; discriminate|]. destruct (negb (is_valid e a)); [cbn; discriminate|].
    destruct (lookup c (reg s)) as [cd|]; [|cbn; discriminate].
    destruct (negb (option_eqb beqb (cd_admin cd) (Some sender))); cbn [outc trc fst snd]; intros H; try discriminate.
    injection H as <- <-. apply frame_set_reg.
  - (* MClearAdmin *) intros c sender s r s'. cbn [run_msg tb_msg tg_msg].
    destruct (negb (is_valid e c)); [cbn; discriminate|].
    destruct (lookup c (reg s)) as [cd|]; [|cbn; discriminate].
    destruct (negb (option_eqb beqb (cd_admin cd) (Some sender))); cbn [outc trc fst snd]; intros H; try discriminate.
    injection H as <- <-. apply frame_set_reg.
  - (* MCustom *) intros ok tag sender s r s'. cbn [run_msg tb_msg tg_msg outc trc fst snd].
    destruct ok; intros H; try discriminate. injection H as <- <-. apply frame_refl.
  - (* Prog *) intros node acts out IHout entry c sender funds rep cid rok s r s'. cbn [run_prog tb_prog tg_prog].
    destruct (lookup c (reg s)) as [cd|]; [|cbn; discriminate].
    destruct (find_code (cd_code cd) (codes e)) as [co|]; [|cbn; discriminate].
    destruct (negb (ep_available co entry)); [cbn; discriminate|].
    destruct (run_actions e s node (cstore_get s c) acts) as [tr_a own'].
    destruct out as [|attrs events data sbs]; [cbn; discriminate|].
    destruct (verify_response attrs events); [cbn; discriminate|].
    specialize (IHout c data (cstore_set s c own')). cbn [tb_out tg_out].
    destruct (process_subs e c sbs data (cstore_set s c own')) as [tr_s [[[ev d] s2]| |]];
      cbn [outc trc fst snd] in *; intros H; try discriminate.
    injection H as <- <-. specialize (IHout _ _ eq_refl).
    pose proof (frame_trans _ _ _ _ _ _ _ _ _ (frame_cstore_set s c own') IHout) as F. weaken F.
  - (* OResp *) intros attrs events data sbs IH. exact IH.
  - (* SNil *) intros c data s r s'. cbn [process_subs outc trc fst snd tb_subs tg_subs]. intros H.
    injection H as <- <-. apply frame_refl.
  - (* SCons *) intros sb IHsb r IHr c data s res s'. rewrite process_subs_cons. cbn [tb_subs tg_subs].
    specialize (IHsb c s).
    destruct (run_sub e c sb s) as [tr1 [[[ev1 d1] s1]| |]]; cbn [outc trc fst snd] in *; try discriminate.
    specialize (IHsb _ _ eq_refl). specialize (IHr c (or_data d1 data) s1).
    destruct (process_subs e c r (or_data d1 data) s1) as [tr2 [[[ev2 d2] s2]| |]]; cbn [outc trc fst snd] in *;
      intros H; try discriminate.
    injection H as <- <-. specialize (IHr _ _ eq_refl).
    pose proof (frame_trans _ _ _ _ _ _ _ _ _ IHsb IHr) as F. weaken F.
  - (* Sub *) intros id payload ro m IHm on_ok IHok on_err IHerr c s res s'. rewrite run_sub_spec. unfold reply_run.
    cbn [tb_sub tg_sub]. specialize (IHm c s).
    destruct (run_msg e c m s) as [tr [[[ev d] s1]| |]]; cbn [outc trc fst snd] in *.
    + specialize (IHm _ _ eq_refl). destruct (wants_ok ro).
      * specialize (IHok EReply c None [] (Some (id, payload, RROk ev d)) 0 true s1).
        destruct (run_prog e EReply c None [] (Some (id, payload, RROk ev d)) 0 true on_ok s1) as [tr2 [[[ev2 d2] s2]| |]];
          cbn [outc trc fst snd] in *; intros H; try discriminate.
        injection H as <- <-. specialize (IHok _ _ eq_refl).
        pose proof (frame_trans _ _ _ _ _ _ _ _ _ IHm IHok) as F. weaken F.
      * cbn [outc trc fst snd]. intros H. injection H as <- <-. weaken IHm.
    + (* the sub-message failed: the reply runs from s ITSELF *)
      destruct (wants_err ro); [|cbn; discriminate].
      specialize (IHerr EReply c None [] (Some (id, payload, RRErr)) 0 false s).
      destruct (run_prog e EReply c None [] (Some (id, payload, RRErr)) 0 false on_err s) as [tr2 r2];
        cbn [outc trc fst snd] in *. intros H. specialize (IHerr _ _ H). weaken IHerr.
    + discriminate.
Qed.

(* ---------- top level ---------- *)
Lemma run_msgs_frame e sender : forall ms s rs s', outc (run_msgs e sender ms s) = Ok (rs, s') ->
  frame (ran (trc (run_msgs e sender ms s))) (existsb tb_msg ms) (existsb tg_msg ms) s s'.
Proof.
  induction ms as [|m ms IH]; intros s rs s'; cbn [run_msgs existsb].
  - cbn. intros H. injection H as <- <-. apply frame_refl.
  - pose proof (proj1 (exec_frame e) m sender s) as Hm.
    destruct (run_msg e sender m s) as [tr1 [[r1 s1]| |]]; cbn [outc trc fst snd] in *; try discriminate.
    specialize (Hm _ _ eq_refl). specialize (IH s1).
    destruct (run_msgs e sender ms s1) as [tr2 [[rss s2]| |]]; cbn [outc trc fst snd] in *; intros H; try discriminate.
    injection H as <- <-. specialize (IH _ _ eq_refl).
    pose proof (frame_trans _ _ _ _ _ _ _ _ _ Hm IH) as F. weaken F.
Qed.

Definition tb_op (op : topop) : bool :=
  match op with
  | TExecMulti _ ms => existsb tb_msg ms
  | TExec _ m | THelperInst _ m | THelperExec _ m => tb_msg m
  | TWasmSudo _ p => tb_prog p
  | TMint _ _ => true
  end.
Definition tg_op (op : topop) : bool :=
  match op with
  | TExecMulti _ ms => existsb tg_msg ms
  | TExec _ m | THelperInst _ m | THelperExec _ m => tg_msg m
  | TWasmSudo _ p => tg_prog p
  | TMint _ _ => false
  end.

(* a whole top-level call, whatever its outcome (on failure the state is the old one: C01) *)
Lemma top_frame e op s :
  frame (ran (top_trace (run_top e op s))) (tb_op op) (tg_op op) s (top_state (run_top e op s)).
Proof.
  destruct op as [sender ms|sender m|c p|to amt|sender m|sender m]; cbn [run_top tb_op tg_op].
  - pose proof (run_msgs_frame e sender ms s) as F.
    destruct (run_msgs e sender ms s) as [tr [[rs s']| |]]; cbn in *; try apply frame_refl. exact (F _ _ eq_refl).
  - pose proof (run_msgs_frame e sender [m] s) as F.
    destruct (run_msgs e sender [m] s) as [tr [[rs s']| |]]; cbn in *; try apply frame_refl.
    specialize (F _ _ eq_refl). rewrite !orb_false_r in F. exact F.
  - pose proof (proj1 (proj2 (exec_frame e)) p ESudo c None [] None 0 true s) as F.
    destruct (run_prog e ESudo c None [] None 0 true p s) as [tr [[rs s']| |]]; cbn in *; try apply frame_refl.
    exact (F _ _ eq_refl).
  - destruct (negb (is_valid e to)); cbn; [apply frame_refl|].
    destruct (bank_mint (bank s) to amt); cbn; try apply frame_refl. apply frame_set_bank.
  - pose proof (run_msgs_frame e sender [m] s) as F.
    destruct (run_msgs e sender [m] s) as [tr [[rs s']| |]]; cbn in *; try apply frame_refl.
    specialize (F _ _ eq_refl). rewrite !orb_false_r in F.
    destruct (helper_inst_addr (snd (first_resp rs))); exact F.
  - pose proof (run_msgs_frame e sender [m] s) as F.
    destruct (run_msgs e sender [m] s) as [tr [[rs s']| |]]; cbn in *; try apply frame_refl.
    specialize (F _ _ eq_refl). rewrite !orb_false_r in F.
    destruct (helper_exec_data (snd (first_resp rs))); exact F.
Qed.

(* ---------- what a body sees ---------- *)
(* get / range over the body's own view: a function of [own] (entry store + its own writes so far) ONLY *)
Definition own_read (node : N) (own : omapb) (q : qact) : trace :=
  match q with
  | QRead k => [RObs node (VBytes (assoc bcmp k own))]
  | QDump => [RObs node (VDump own)]
  | _ => []
  end.

(* the log of a body, with the dependencies made explicit: own reads get [own] and nothing else (no
   environment, no chain state); every other query gets the ENCLOSING state [s] as it was when the body was
   entered and an EMPTY own store (so it cannot depend on the body's pending writes) *)
Fixpoint body_trace (e : env) (s : chain) (node : N) (own : omapb) (acts : list action) : trace :=
  match acts with
  | [] => []
  | AWrite k v :: r => body_trace e s node (insert bcmp k v own) r
  | ARemove k :: r => body_trace e s node (delete bcmp k own) r
  | AQ q :: r => (if foreign_query q then run_qact e s node [] q else own_read node own q) ++ body_trace e s node own r
  end.

Lemma run_actions_body_trace e s node : forall acts own,
  fst (run_actions e s node own acts) = body_trace e s node own acts.
Proof.
  induction acts as [|a r IH]; intros own; cbn [run_actions body_trace fst]; [reflexivity|].
  destruct a as [k v|k|q]; try apply IH.
  specialize (IH own). destruct (run_actions e s node own r) as [tr' own']. cbn [fst] in *. rewrite IH. f_equal.
  destruct (foreign_query q) eqn:F; [apply foreign_query_ignores_own; exact F|].
  destruct q; cbn in F; try discriminate; reflexivity.
Qed.

Definition own_only (a : action) : bool := match a with AQ q => negb (foreign_query q) | _ => true end.

(* non-interference: a body that only reads and writes its own store produces the same log and the same
   final store in ANY two environments and chain states — nothing anybody else ever wrote (other
   contracts, the bank, the registry) appears in its reads or iterations *)
Lemma own_reads_noninterference e1 e2 s1 s2 node : forall acts own, forallb own_only acts = true ->
  run_actions e1 s1 node own acts = run_actions e2 s2 node own acts.
Proof.
  induction acts as [|a r IH]; intros own H; cbn [run_actions]; [reflexivity|].
  cbn [forallb] in H. apply andb_true_iff in H as [Ha Hr].
  destruct a as [k v|k|q]; try (apply IH; exact Hr).
  rewrite (IH own Hr). cbn in Ha. destruct q; cbn in Ha; try discriminate; reflexivity.
Qed.

(* ... and at the level of a call: the body of a call at contract c starts from [cstore_get s c] *)
Lemma call_body_view e entry c sender funds rep cid rok node acts out s co :
  serving e s c entry = Some co ->
  exists rest, trc (run_prog e entry c sender funds rep cid rok (Prog node acts out) s) =
               RCall node entry c sender funds (blk e) (c_tag co) rep :: body_trace e s node (cstore_get s c) acts ++ rest.
Proof.
  unfold serving. cbn [run_prog]. destruct (lookup c (reg s)) as [cd|]; [|discriminate].
  destruct (find_code (cd_code cd) (codes e)) as [co'|]; [|discriminate].
  destruct (ep_available co' entry); [|discriminate]. intros H. injection H as ->. cbn [negb].
  pose proof (run_actions_body_trace e s node acts (cstore_get s c)) as B.
  destruct (run_actions e s node (cstore_get s c) acts) as [tr_a own']. cbn [fst] in B. subst tr_a.
  destruct out as [|attrs events data sbs]; [exists []; cbn; rewrite app_nil_r; reflexivity|].
  destruct (verify_response attrs events); [exists []; cbn; rewrite app_nil_r; reflexivity|].
  destruct (process_subs e c sbs data (cstore_set s c own')) as [tr_s [[[ev d] s2]| |]]; exists tr_s; reflexivity.
Qed.

(* ---------- the accessors ---------- *)
(* the contract's own read (first thing in a body or in its query handler), a dump from inside,
   WasmQuery::Raw from anywhere (absent key = empty bytes), a smart query's handler: all denote the one
   map [cstore_get s a] *)
Lemma accessors_agree_l e s node a k : is_valid e a = true ->
  let d := cstore_get s a in
  run_qact e s node d (QRead k) = [RObs node (VBytes (assoc bcmp k d))] /\
  run_qact e s node d QDump = [RObs node (VDump d)] /\
  (forall own, run_qact e s node own (QRaw a k) =
               [RObs node (VRaw (Some (match assoc bcmp k d with Some v => v | None => [] end)))]) /\
  (forall tag n acts ans, run_qprog e s a tag (QProg n acts ans) = (RQuery n a (blk e) tag :: run_qacts e s n d acts, ans)).
Proof.
  intros V d. split; [reflexivity|]. split; [reflexivity|]. split; [|reflexivity].
  intros own. apply raw_query_is_own_store. exact V.
Qed.

(* ---------- one body (the statement DESIGN.md calls actions_frame) ---------- *)
(* running ANY action list at contract c and flushing it: the bank and the registry are the same values,
   every other contract's store is the same, and c's store is its old store with exactly the body's own
   writes and removes applied in order — whatever the key bytes *)
Lemma actions_frame_l e s node c acts : sorted_cstore s ->
  let s' := cstore_set s c (snd (run_actions e s node (cstore_get s c) acts)) in
  bank s' = bank s /\ reg s' = reg s /\
  (forall c', c' <> c -> cstore_get s' c' = cstore_get s c') /\
  cstore_get s' c =
    fold_left (fun o a => match a with AWrite k v => insert bcmp k v o | ARemove k => delete bcmp k o | AQ _ => o end)
              acts (cstore_get s c).
Proof.
  intros H s'. split; [reflexivity|]. split; [reflexivity|]. split.
  - intros c' N. apply cstore_get_set_other; assumption.
  - unfold s'. rewrite cstore_get_set_same by exact H. apply run_actions_own_only.
Qed.
