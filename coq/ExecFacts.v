(* ExecFacts.v — lemmas about the executor model (Exec.v) used by Properties/C01–C05.
   Everything here is for ALL environments, states, message trees (no bound on size or depth). *)
From Verif Require Import Base OMap Text Proto Bank Exec.
Local Open Scope N_scope.

Definition outc {A} (x : T A) : outcome A := snd x.
Definition trc {A} (x : T A) : trace := fst x.

Definition is_ok {A} (o : outcome A) : bool := match o with Ok _ => true | _ => false end.

(* ---------- C01: top-level atomicity and order ---------- *)

Definition top_outcome (x : trace * outcome (list resp) * chain) := snd (fst x).
Definition top_state (x : trace * outcome (list resp) * chain) := snd x.
Definition top_trace (x : trace * outcome (list resp) * chain) := fst (fst x).

(* a helper op is used with the message kind its Rust signature builds *)
Definition helper_wf (op : topop) : bool :=
  match op with
  | THelperInst _ (MInst _ _ _ _ _ _) => true
  | THelperInst _ _ => false
  | THelperExec _ (MExec _ _ _) => true
  | THelperExec _ _ => false
  | _ => true
  end.

(* the inner computation a top-level entry point wraps in `transactional` *)
Definition inner (e : env) (op : topop) (s : chain) : T (list resp * chain) :=
  match op with
  | TExecMulti sender ms => run_msgs e sender ms s
  | TExec sender m | THelperInst sender m | THelperExec sender m => run_msgs e sender [m] s
  | TWasmSudo c p =>
      let (tr, r) := run_prog e ESudo c None [] None 0 true p s in
      (tr, match r with Ok (rs, s') => Ok ([rs], s') | Err => Err | Panic => Panic end)
  | TMint to amt =>
      if negb (is_valid e to) then ([], Err) else
      match bank_mint (bank s) to amt with
      | Ok b => ([], Ok ([([], None)], set_bank s b))
      | Err => ([], Err) | Panic => ([], Panic)
      end
  end.

(* All-or-nothing: whatever the entry point, whatever the tree, wherever the error is raised:
   if the inner computation does not succeed, the chain state after the call IS the state before. *)
Lemma top_fail_unchanged e op s :
  is_ok (outc (inner e op s)) = false -> top_state (run_top e op s) = s /\ is_ok (top_outcome (run_top e op s)) = false.
Proof.
  destruct op as [sender ms|sender m|c p|to amt|sender m|sender m]; cbn [inner run_top].
  - destruct (run_msgs e sender ms s) as [tr [[rs s']| |]]; cbn; intros H; try discriminate; auto.
  - destruct (run_msgs e sender [m] s) as [tr [[rs s']| |]]; cbn; intros H; try discriminate; auto.
  - destruct (run_prog e ESudo c None [] None 0 true p s) as [tr [[rs s']| |]]; cbn; intros H; try discriminate; auto.
  - destruct (negb (is_valid e to)); cbn; [auto|].
    destruct (bank_mint (bank s) to amt); cbn; intros H; try discriminate; auto.
  - destruct (run_msgs e sender [m] s) as [tr [[rs s']| |]]; cbn; intros H; try discriminate; auto.
  - destruct (run_msgs e sender [m] s) as [tr [[rs s']| |]]; cbn; intros H; try discriminate; auto.
Qed.

(* ... and if it succeeds, the state after the call is exactly the state the inner computation ended in
   (nothing dropped), for the entry points proper *)
Lemma top_ok_commits e op s rs s' :
  match op with THelperInst _ _ | THelperExec _ _ => False | _ => True end ->
  outc (inner e op s) = Ok (rs, s') ->
  top_state (run_top e op s) = s' /\ is_ok (top_outcome (run_top e op s)) = true.
Proof.
  destruct op as [sender ms|sender m|c p|to amt|sender m|sender m]; cbn [inner run_top]; intros Hh; try contradiction.
  - destruct (run_msgs e sender ms s) as [tr [[rs0 s0]| |]]; cbn; intros H; try discriminate.
    injection H as -> ->. auto.
  - destruct (run_msgs e sender [m] s) as [tr [[rs0 s0]| |]]; cbn; intros H; try discriminate.
    injection H as -> ->. auto.
  - destruct (run_prog e ESudo c None [] None 0 true p s) as [tr [[rs0 s0]| |]]; cbn; intros H; try discriminate.
    injection H as <- <-. auto.
  - destruct (negb (is_valid e to)); cbn; [discriminate|].
    destruct (bank_mint (bank s) to amt); cbn; intros H; try discriminate. injection H as <- <-. auto.
Qed.

(* execute_multi: messages run in the given order, each from the state its predecessors left;
   one response per message, in that order; the log is the concatenation of the per-message logs.
   [chain_of] lists the intermediate states. *)
Fixpoint multi_spec (e : env) (sender : text) (ms : list msg) (s : chain) (rs : list resp) (s' : chain) (tr : trace) : Prop :=
  match ms, rs with
  | [], [] => s' = s /\ tr = []
  | m :: ms', r :: rs' =>
      exists s1 tr1 tr2, run_msg e sender m s = (tr1, Ok (r, s1)) /\ multi_spec e sender ms' s1 rs' s' tr2 /\ tr = tr1 ++ tr2
  | _, _ => False
  end.

Lemma run_msgs_ok_spec e sender ms : forall s tr rs s',
  run_msgs e sender ms s = (tr, Ok (rs, s')) -> multi_spec e sender ms s rs s' tr /\ length rs = length ms.
Proof.
  induction ms as [|m ms IH]; cbn [run_msgs]; intros s tr rs s' H.
  - injection H as <- <- <-. cbn. auto.
  - destruct (run_msg e sender m s) as [tr1 [[r1 s1]| |]] eqn:E1; try discriminate.
    destruct (run_msgs e sender ms s1) as [tr2 [[rss s2]| |]] eqn:E2; try discriminate.
    injection H as <- <- <-. destruct (IH _ _ _ _ E2) as [H1 H2]. split.
    + cbn. exists s1, tr1, tr2. auto.
    + cbn. rewrite H2. reflexivity.
Qed.

(* on failure: some message i fails from the state left by messages 0..i-1 (which all succeeded, in
   order); no later message is run (the log ends with message i's log) *)
Fixpoint multi_fail_spec (e : env) (sender : text) (ms : list msg) (s : chain) (tr : trace) : Prop :=
  match ms with
  | [] => False
  | m :: ms' =>
      (is_ok (outc (run_msg e sender m s)) = false /\ tr = trc (run_msg e sender m s)) \/
      (exists r s1 tr2, run_msg e sender m s = (trc (run_msg e sender m s), Ok (r, s1)) /\
                        multi_fail_spec e sender ms' s1 tr2 /\ tr = trc (run_msg e sender m s) ++ tr2)
  end.

Lemma run_msgs_fail_spec e sender ms : forall s,
  is_ok (outc (run_msgs e sender ms s)) = false -> multi_fail_spec e sender ms s (trc (run_msgs e sender ms s)).
Proof.
  induction ms as [|m ms IH]; cbn [run_msgs]; intros s H.
  - discriminate.
  - cbn [multi_fail_spec]. destruct (run_msg e sender m s) as [tr1 [[r1 s1]| |]] eqn:E1; cbn [trc outc fst snd].
    + right. exists r1, s1. specialize (IH s1).
      destruct (run_msgs e sender ms s1) as [tr2 [[rss s2]| |]] eqn:E2; cbn in H; try discriminate;
        cbn [trc outc fst snd] in *; exists tr2; (split; [reflexivity|split; [apply IH; reflexivity|reflexivity]]).
    + left. auto.
    + left. auto.
Qed.

(* ---------- C02 / C03: sub-messages and replies ---------- *)

(* the reply computation for a sub-message of contract c *)
Definition reply_run (e : env) (c : text) (id : N) (payload : bytes) (res : rres) (p : prog) (s : chain) : T (resp * chain) :=
  run_prog e EReply c None [] (Some (id, payload, res)) 0 (match res with RROk _ _ => true | RRErr => false end) p s.

(* complete characterisation of execute_submsg in terms of (i) the sub-message's own run from s,
   (ii) the reply_on mode, (iii) the reply run.  In the failure case the reply starts from s ITSELF:
   every state change of the sub-message and of everything it triggered is gone. *)
Lemma run_sub_spec e c id payload ro m on_ok on_err s :
  run_sub e c (Sub id payload ro m on_ok on_err) s =
  let (tr, r) := run_msg e c m s in
  match r with
  | Ok ((ev, d), s1) =>
      if wants_ok ro then
        let (tr2, r2) := reply_run e c id payload (RROk ev d) on_ok s1 in
        (tr ++ tr2, match r2 with Ok ((ev2, d2), s2) => Ok ((ev ++ ev2, d2), s2) | Err => Err | Panic => Panic end)
      else (tr, Ok ((ev, None), s1))
  | Err =>
      if wants_err ro then
        let (tr2, r2) := reply_run e c id payload RRErr on_err s in (tr ++ tr2, r2)
      else (tr, Err)
  | Panic => (tr, Panic)
  end.
Proof.
  cbn [run_sub]. unfold reply_run. destruct (run_msg e c m s) as [tr [[[ev d] s1]| |]]; try reflexivity.
  destruct (wants_ok ro); [|reflexivity].
  destruct (run_prog e EReply c None [] (Some (id, payload, RROk ev d)) 0 true on_ok s1) as [tr2 [[[ev2 d2] s2]| |]]; reflexivity.
Qed.

(* the parent continues past the sub-message (run_sub is Ok) exactly when ... *)
Lemma sub_continues_iff e c id payload ro m on_ok on_err s :
  is_ok (outc (run_sub e c (Sub id payload ro m on_ok on_err) s)) = true <->
  match outc (run_msg e c m s) with
  | Ok ((ev, d), s1) => wants_ok ro = false \/ is_ok (outc (reply_run e c id payload (RROk ev d) on_ok s1)) = true
  | Err => wants_err ro = true /\ is_ok (outc (reply_run e c id payload RRErr on_err s)) = true
  | Panic => False
  end.
Proof.
  rewrite run_sub_spec. destruct (run_msg e c m s) as [tr [[[ev d] s1]| |]]; cbn [outc snd].
  - destruct (wants_ok ro).
    + destruct (reply_run e c id payload (RROk ev d) on_ok s1) as [tr2 [[[ev2 d2] s2]| |]]; cbn; split; auto;
        intros [H|H]; discriminate.
    + cbn. split; auto.
  - destruct (wants_err ro).
    + destruct (reply_run e c id payload RRErr on_err s) as [tr2 r2]; cbn. split; [auto|intros [_ H]; exact H].
    + cbn. split; [discriminate|intros [H _]; discriminate].
  - cbn. split; [discriminate|contradiction].
Qed.

(* a failed sub-message: outcome and state of execute_submsg do not depend on WHAT the sub-message was
   or did — replacing it by any other message that fails from s gives the same result and state
   ("everything it triggered is discarded", at any depth, since this holds for every s and m) *)
Lemma failed_sub_erased e c id payload ro m m' on_ok on_err s :
  outc (run_msg e c m s) = Err -> outc (run_msg e c m' s) = Err ->
  outc (run_sub e c (Sub id payload ro m on_ok on_err) s) = outc (run_sub e c (Sub id payload ro m' on_ok on_err) s).
Proof.
  intros H1 H2. rewrite !run_sub_spec.
  destruct (run_msg e c m s) as [tr1 r1]; destruct (run_msg e c m' s) as [tr1' r1']; cbn in H1, H2; subst.
  destruct (wants_err ro); [|reflexivity].
  destruct (reply_run e c id payload RRErr on_err s) as [tr2 r2]. reflexivity.
Qed.

(* more generally the rest of the transaction sees a sub-message only through its outcome *)
Lemma run_sub_cong e c id payload ro m m' on_ok on_err s :
  outc (run_msg e c m s) = outc (run_msg e c m' s) ->
  outc (run_sub e c (Sub id payload ro m on_ok on_err) s) = outc (run_sub e c (Sub id payload ro m' on_ok on_err) s).
Proof.
  intros H. rewrite !run_sub_spec.
  destruct (run_msg e c m s) as [tr1 r1]; destruct (run_msg e c m' s) as [tr1' r1']; cbn in H; subst r1'.
  destruct r1 as [[[ev d] s1]| |]; try reflexivity.
  - destruct (wants_ok ro); [|reflexivity].
    destruct (reply_run e c id payload (RROk ev d) on_ok s1) as [tr2 r2]. reflexivity.
  - destruct (wants_err ro); [|reflexivity].
    destruct (reply_run e c id payload RRErr on_err s) as [tr2 r2]. reflexivity.
Qed.

(* siblings: processed in list order; a later sibling starts from the state its predecessors left
   (committed ones kept, failed-and-caught ones erased); events concatenate; data = last Some *)
Lemma process_subs_cons e c sb r data s :
  process_subs e c (SCons sb r) data s =
  let (tr1, r1) := run_sub e c sb s in
  match r1 with
  | Ok ((ev1, d1), s1) =>
      let (tr2, r2) := process_subs e c r (or_data d1 data) s1 in
      (tr1 ++ tr2, match r2 with Ok ((ev2, d2), s2) => Ok ((ev1 ++ ev2, d2), s2) | Err => Err | Panic => Panic end)
  | Err => (tr1, Err) | Panic => (tr1, Panic)
  end.
Proof.
  cbn [process_subs]. destruct (run_sub e c sb s) as [tr1 [[[ev1 d1] s1]| |]]; try reflexivity.
  destruct (process_subs e c r (or_data d1 data) s1) as [tr2 [[[ev2 d2] s2]| |]]; reflexivity.
Qed.

(* ---------- C03: the log of a sub-message ---------- *)

(* what the reply entry point logs first, if it gets to run *)
Definition reply_header (e : env) (c : text) (id : N) (payload : bytes) (res : rres) (p : prog) (tag : N) : rentry :=
  match p with Prog node _ _ => RCall node EReply c None [] (blk e) tag (Some (id, payload, res)) end.

Definition can_reply (e : env) (c : text) (s : chain) : option N :=
  match lookup c (reg s) with
  | Some cd => match find_code (cd_code cd) (codes e) with
               | Some co => if has_reply co then Some (c_tag co) else None
               | None => None end
  | None => None
  end.

(* the reply run either logs nothing (no such contract / code / entry point: it fails at once), or its log
   starts with exactly one header carrying id, payload and result UNCHANGED, on the DISPATCHING contract c *)
Lemma reply_trace_head e c id payload res p s :
  match can_reply e c s with
  | Some tag => exists rest, trc (reply_run e c id payload res p s) = reply_header e c id payload res p tag :: rest
  | None => reply_run e c id payload res p s = ([], Err)
  end.
Proof.
  unfold reply_run, can_reply. destruct p as [node acts out]. cbn [run_prog reply_header].
  destruct (lookup c (reg s)) as [cd|]; [|reflexivity].
  destruct (find_code (cd_code cd) (codes e)) as [co|]; [|reflexivity].
  cbn [ep_available]. destruct (has_reply co); cbn [negb]; [|reflexivity].
  destruct (run_actions e s node (cstore_get s c) acts) as [tr_a own'].
  destruct out as [|attrs events data sbs].
  - eexists. reflexivity.
  - destruct (verify_response attrs events); [eexists; reflexivity|].
    destruct (process_subs e c sbs data (cstore_set s c own')) as [tr_s [[[ev d] s2]| |]]; eexists; reflexivity.
Qed.

(* log of one sub-message = its own log, followed by the reply's log exactly when
   (ok and Success/Always) or (failed and Error/Always); nothing in between, nothing after *)
Lemma run_sub_trace e c id payload ro m on_ok on_err s :
  trc (run_sub e c (Sub id payload ro m on_ok on_err) s) =
  trc (run_msg e c m s) ++
  match outc (run_msg e c m s) with
  | Ok ((ev, d), s1) => if wants_ok ro then trc (reply_run e c id payload (RROk ev d) on_ok s1) else []
  | Err => if wants_err ro then trc (reply_run e c id payload RRErr on_err s) else []
  | Panic => []
  end.
Proof.
  rewrite run_sub_spec. destruct (run_msg e c m s) as [tr [[[ev d] s1]| |]]; cbn [trc outc fst snd].
  - destruct (wants_ok ro); [|cbn; rewrite app_nil_r; reflexivity].
    destruct (reply_run e c id payload (RROk ev d) on_ok s1) as [tr2 r2]. reflexivity.
  - destruct (wants_err ro); [|cbn; rewrite app_nil_r; reflexivity].
    destruct (reply_run e c id payload RRErr on_err s) as [tr2 r2]. reflexivity.
  - cbn. rewrite app_nil_r. reflexivity.
Qed.

(* siblings in listed order, depth first: the log of a list of sub-messages is the concatenation of
   the logs of its members up to and including the first one that makes the parent fail *)
Lemma process_subs_trace e c sb r data s :
  trc (process_subs e c (SCons sb r) data s) =
  trc (run_sub e c sb s) ++
  match outc (run_sub e c sb s) with
  | Ok ((ev1, d1), s1) => trc (process_subs e c r (or_data d1 data) s1)
  | _ => []
  end.
Proof.
  rewrite process_subs_cons. destruct (run_sub e c sb s) as [tr1 [[[ev1 d1] s1]| |]]; cbn [trc outc fst snd];
    try (rewrite app_nil_r; reflexivity).
  destruct (process_subs e c r (or_data d1 data) s1) as [tr2 r2]. reflexivity.
Qed.

(* ---------- C04: data composition ---------- *)

(* data contribution of one sub-message: Some only if a reply was invoked and set data *)
Lemma run_sub_data e c id payload ro m on_ok on_err s ev d s' :
  outc (run_sub e c (Sub id payload ro m on_ok on_err) s) = Ok ((ev, d), s') ->
  match outc (run_msg e c m s) with
  | Ok ((ev1, d1), s1) =>
      if wants_ok ro
      then exists ev2, outc (reply_run e c id payload (RROk ev1 d1) on_ok s1) = Ok ((ev2, d), s') /\ ev = ev1 ++ ev2
      else d = None /\ ev = ev1 /\ s' = s1
  | Err => wants_err ro = true /\ outc (reply_run e c id payload RRErr on_err s) = Ok ((ev, d), s')
  | Panic => False
  end.
Proof.
  rewrite run_sub_spec. destruct (run_msg e c m s) as [tr [[[ev1 d1] s1]| |]]; cbn [outc snd].
  - destruct (wants_ok ro).
    + destruct (reply_run e c id payload (RROk ev1 d1) on_ok s1) as [tr2 [[[ev2 d2] s2]| |]]; cbn; intros H; try discriminate.
      injection H as <- <- <-. eauto.
    + cbn. intros H. injection H as <- <- <-. auto.
  - destruct (wants_err ro); cbn; [|discriminate].
    destruct (reply_run e c id payload RRErr on_err s) as [tr2 r2]; cbn. auto.
  - cbn. discriminate.
Qed.

(* the fold over siblings: resulting data = last Some among (initial data :: per-sub contributions),
   events = concatenation in order *)
Fixpoint subs_ok_spec (e : env) (c : text) (l : subs) (data : option bytes) (s : chain)
         (ev : list event) (d : option bytes) (s' : chain) : Prop :=
  match l with
  | SNil => ev = [] /\ d = data /\ s' = s
  | SCons sb r =>
      exists ev1 d1 s1 ev2, outc (run_sub e c sb s) = Ok ((ev1, d1), s1) /\
                            subs_ok_spec e c r (or_data d1 data) s1 ev2 d s' /\ ev = ev1 ++ ev2
  end.

Lemma process_subs_ok_spec e c l : forall data s ev d s',
  outc (process_subs e c l data s) = Ok ((ev, d), s') -> subs_ok_spec e c l data s ev d s'.
Proof.
  induction l as [|sb r IH]; intros data s ev d s'.
  - cbn. intros H. injection H as <- <- <-. auto.
  - rewrite process_subs_cons. destruct (run_sub e c sb s) as [tr1 [[[ev1 d1] s1]| |]] eqn:E1; cbn [outc snd]; try discriminate.
    destruct (process_subs e c r (or_data d1 data) s1) as [tr2 [[[ev2 d2] s2]| |]] eqn:E2; cbn; intros H; try discriminate.
    injection H as <- <- <-. exists ev1, d1, s1, ev2. split; [rewrite E1; reflexivity|]. split; [|reflexivity].
    apply IH. rewrite E2. reflexivity.
Qed.
