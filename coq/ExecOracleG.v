(* ExecOracleG.v — part 6a: funds given back (C05 clause 8).  In the model's log, the failure handler of the FIRST
   sub-message of a program is shown, by an own-balance query right after its entry, exactly the amount the
   dispatching body was shown by the same query: the handler runs from the state in which the sub-message was
   dispatched (submsg_spec), and a body does not touch the bank. *)
From Coq Require Import Sorted.
From Verif Require Import Base OMap Text Proto Bank Exec ExecFacts ExecInv ExecFacts2 ExecIso ChkExec ChkX Registry ExecReg
  ExecOracle ExecOracleM ExecOracleE ExecOracleP ExecOracleF.
Local Open Scope N_scope.

Lemma after_call_app_found n a b en : find_call n a = Some en -> after_call n (a ++ b) = after_call n a ++ b.
Proof.
  induction a as [|x a IH]; cbn [find_call after_call app]; [discriminate|].
  destruct (call_node x) as [n'|]; [destruct (n' =? n); [reflexivity|]|]; exact IH.
Qed.
Lemma after_call_app_none n a b : ~ In n (call_nodes a) -> after_call n (a ++ b) = after_call n b.
Proof.
  induction a as [|x a IH]; cbn [call_nodes after_call app]; [reflexivity|].
  destruct (call_node x) as [n'|]; [|exact IH]. cbn [In]. intros H. destruct (n' =? n) eqn:E.
  - apply N.eqb_eq in E. tauto.
  - apply IH. tauto.
Qed.
Lemma find_call_app_none n a b : ~ In n (call_nodes a) -> find_call n (a ++ b) = find_call n b.
Proof. intros H. rewrite find_call_app, (find_call_none n a H). reflexivity. Qed.

Definition err_reply (en : rentry) : Prop :=
  match en with RCall _ EReply _ _ _ _ _ (Some (_, _, RRErr)) => True | _ => False end.

(* a program that probes is shown something right after its entry ... *)
Definition Ro (P : prog) (tr : trace) : Prop :=
  forall en_d a den, find_call (prog_node P) tr = Some en_d -> probe_of P = Some (a, den) ->
  exists v rest, after_call (prog_node P) tr = RObs (prog_node P) (VAmount v) :: rest.
(* ... and the failure handler of its first sub-message is shown the same amount *)
Definition Rp (P : prog) (tr : trace) : Prop :=
  forall q den b1 rest en_d, first_sub_err P = Some q -> find_call (prog_node P) tr = Some en_d ->
  probe_of P = Some (callee_of en_d, den) -> probe_of q = Some (callee_of en_d, den) ->
  after_call (prog_node P) tr = RObs (prog_node P) (VAmount (Some b1)) :: rest ->
  forall en_n, find_call (prog_node q) tr = Some en_n -> err_reply en_n ->
  exists rest2, after_call (prog_node q) tr = RObs (prog_node q) (VAmount (Some b1)) :: rest2.
Definition G (P : prog) (tr : trace) : Prop := Ro P tr /\ Rp P tr.

Lemma G_uncalled P tr : ~ In (prog_node P) (call_nodes tr) -> G P tr.
Proof.
  intros H. split.
  - intros en_d a den Hf. exfalso. exact (H (find_call_called _ _ _ Hf)).
  - intros q den b1 rest en_d _ Hf. exfalso. exact (H (find_call_called _ _ _ Hf)).
Qed.

Lemma first_sub_node P q : first_sub_err P = Some q -> In (prog_node q) (nodes_prog P) /\ (NoDup (nodes_prog P) -> prog_node q <> prog_node P).
Proof.
  destruct P as [d acts [|at0 ev0 da0 [|[id pl ro m ok er] r]]]; cbn [first_sub_err]; try discriminate. intros H. injection H as <-.
  assert (Hin : In (prog_node er) (nodes_subs (SCons (Sub id pl ro m ok er) r))).
  { cbn [nodes_subs nodes_sub]. apply in_or_app. left. apply in_or_app. right. apply in_or_app. right. apply prog_node_in. }
  split; [cbn [nodes_prog]; right; exact Hin|]. cbn [nodes_prog prog_node]. intros Hn E. apply NoDup_cons_iff in Hn as [Hx _]. apply Hx. rewrite <- E. exact Hin.
Qed.

Lemma G_left P t t' : G P t -> (forall x, In x (nodes_prog P) -> ~ In x (call_nodes t')) -> G P (t ++ t').
Proof.
  intros [HRo HRp] D. assert (Dp : ~ In (prog_node P) (call_nodes t')) by (apply D, prog_node_in).
  assert (Hfd : forall en, find_call (prog_node P) (t ++ t') = Some en -> find_call (prog_node P) t = Some en).
  { intros en. rewrite find_call_app. destruct (find_call (prog_node P) t); [auto|]. intros H. exfalso. exact (Dp (find_call_called _ _ _ H)). }
  split.
  - intros en_d a den Hf Hp. specialize (Hfd _ Hf). destruct (HRo en_d a den Hfd Hp) as (v & rest & E).
    rewrite (after_call_app_found _ _ _ _ Hfd), E. eexists. eexists. reflexivity.
  - intros q den b1 rest en_d Hq Hf Hp Hpq Ha en_n Hfn He. specialize (Hfd _ Hf).
    rewrite (after_call_app_found _ _ _ _ Hfd) in Ha.
    destruct (HRo en_d _ den Hfd Hp) as (v & rest0 & E). rewrite E in Ha. cbn [app] in Ha. injection Ha as -> _.
    assert (Hfn' : find_call (prog_node q) t = Some en_n).
    { revert Hfn. rewrite find_call_app. destruct (find_call (prog_node q) t); [auto|]. intros H. exfalso.
      exact (D _ (proj1 (first_sub_node P q Hq)) (find_call_called _ _ _ H)). }
    destruct (HRp q den b1 rest0 en_d Hq Hfd Hp Hpq E en_n Hfn' He) as (rest2 & E2).
    rewrite (after_call_app_found _ _ _ _ Hfn'), E2. eexists. reflexivity.
Qed.

Lemma G_right P t t' : G P t -> (forall x, In x (nodes_prog P) -> ~ In x (call_nodes t')) -> G P (t' ++ t).
Proof.
  intros [HRo HRp] D. assert (Dp : ~ In (prog_node P) (call_nodes t')) by (apply D, prog_node_in). split.
  - intros en_d a den Hf Hp. rewrite (find_call_app_none _ _ _ Dp) in Hf. rewrite (after_call_app_none _ _ _ Dp). eauto.
  - intros q den b1 rest en_d Hq Hf Hp Hpq Ha en_n Hfn He.
    assert (Dq : ~ In (prog_node q) (call_nodes t')) by (apply D, (proj1 (first_sub_node P q Hq))).
    rewrite (find_call_app_none _ _ _ Dp) in Hf. rewrite (after_call_app_none _ _ _ Dp) in Ha.
    rewrite (find_call_app_none _ _ _ Dq) in Hfn. rewrite (after_call_app_none _ _ _ Dq). eauto.
Qed.

(* what a probing body logs first *)
Lemma body_probe e s d c acts out a den : wf_prog (Prog d acts out) -> probe_of (Prog d acts out) = Some (a, den) ->
  exists rest, body_tr e s d c acts =
               RObs d (VAmount (if is_valid e a then Some (bank_balance (bank s) a den) else None)) :: rest.
Proof.
  destruct acts as [|a0 [|[k1 v1|k1|q1] acts]]; cbn [probe_of]; try discriminate. destruct q1; try discriminate.
  intros Hw H. injection H as -> ->. destruct a0 as [k0 v0|k0|q0]; cbn in Hw; try contradiction.
  unfold body_tr. cbn [run_actions run_qact].
  destruct (run_actions e s d (insert bcmp k0 v0 (cstore_get s c)) acts) as [tr' own']. cbn [fst app]. eexists. reflexivity.
Qed.

Lemma run_prog_trace_shape e entry c sender funds rep cid rok node acts out s :
  trc (run_prog e entry c sender funds rep cid rok (Prog node acts out) s) = [] \/
  exists co Z, trc (run_prog e entry c sender funds rep cid rok (Prog node acts out) s) =
               hdr e node entry c sender funds co rep :: body_tr e s node c acts ++ Z.
Proof.
  destruct (run_prog_cases e entry c sender funds rep cid rok node acts out s)
    as [[_ ->]|[(co & _ & _ & ->)|(co & attrs & events & data & sbs & _ & -> & _ & ->)]].
  - left. reflexivity.
  - right. exists co, []. rewrite app_nil_r. reflexivity.
  - right. destruct (process_subs e c sbs data (body_st e s node c acts)) as [tr_s r]. exists co, tr_s. reflexivity.
Qed.

Lemma progs_nodes_incl :
  (forall m P, In P (progs_msg m) -> incl (nodes_prog P) (nodes_msg m)) /\
  (forall p P, In P (progs_prog p) -> incl (nodes_prog P) (nodes_prog p)) /\
  (forall o P, In P (progs_out o) -> incl (nodes_prog P) (nodes_out o)) /\
  (forall l P, In P (progs_subs l) -> incl (nodes_prog P) (nodes_subs l)) /\
  (forall sb P, In P (progs_sub sb) -> incl (nodes_prog P) (nodes_sub sb)).
Proof.
  destruct flat_progs as (P1 & P2 & P3 & P4 & P5). destruct flat_incl as (I1 & I2 & I3 & I4 & I5).
  repeat split.
  - intros m P H. rewrite <- (P1 m None) in H. apply in_map_iff in H as (pi & <- & Hi). exact (proj1 (I1 m None pi Hi)).
  - intros p P H. rewrite <- (P2 p EExec None None [] None []) in H. apply in_map_iff in H as (pi & <- & Hi). exact (proj1 (I2 _ _ _ _ _ _ _ pi Hi)).
  - intros o P H. rewrite <- (P3 o 0) in H. apply in_map_iff in H as (pi & <- & Hi). exact (proj1 (I3 o 0 pi Hi)).
  - intros l P H. rewrite <- (P4 l 0) in H. apply in_map_iff in H as (pi & <- & Hi). exact (proj1 (I4 l 0 pi Hi)).
  - intros sb P H. rewrite <- (P5 sb 0) in H. apply in_map_iff in H as (pi & <- & Hi). exact (proj1 (I5 sb 0 pi Hi)).
Qed.

Definition allG (ps : list prog) (tr : trace) : Prop := forall P, In P ps -> G P tr.

Lemma exec_G e :
  (forall m sender s, Forall wf_prog (progs_msg m) -> NoDup (nodes_msg m) -> allG (progs_msg m) (trc (run_msg e sender m s))) /\
  (forall p entry c sender funds rep cid rok s, Forall wf_prog (progs_prog p) -> NoDup (nodes_prog p) ->
      allG (progs_prog p) (trc (run_prog e entry c sender funds rep cid rok p s))) /\
  (forall o c data s, match o with OFail => True | OResp _ _ _ sbs =>
      Forall wf_prog (progs_subs sbs) -> NoDup (nodes_subs sbs) -> allG (progs_subs sbs) (trc (process_subs e c sbs data s)) end) /\
  (forall l c data s, Forall wf_prog (progs_subs l) -> NoDup (nodes_subs l) -> allG (progs_subs l) (trc (process_subs e c l data s))) /\
  (forall sb c s, Forall wf_prog (progs_sub sb) -> NoDup (nodes_sub sb) -> allG (progs_sub sb) (trc (run_sub e c sb s))).
Proof.
  destruct (exec_call_nodes e) as (Cm & Cp & _ & Cs & Cb).
  destruct progs_nodes_incl as (Nm & Np & No & Ns & Nb).
  assert (Hleaf : forall m sender s, msg_prog m = None -> allG (progs_msg m) (trc (run_msg e sender m s))).
  { intros m sender s H P Hi. rewrite (proj2 (proj2 (flat_msg_leaf m None H))) in Hi. contradiction. }
  assert (Hcall : forall m p, msg_prog m = Some p ->
            (forall entry c sender funds rep cid rok s, Forall wf_prog (progs_prog p) -> NoDup (nodes_prog p) ->
                allG (progs_prog p) (trc (run_prog e entry c sender funds rep cid rok p s))) ->
            forall sender s, Forall wf_prog (progs_msg m) -> NoDup (nodes_msg m) -> allG (progs_msg m) (trc (run_msg e sender m s))).
  { intros m p Hp IH sender s. destruct (flat_msg_prog m p None Hp) as (_ & -> & ->). intros Hw Hn.
    destruct (run_msg_cases e sender m s p Hp) as [[-> _]|(c & s1 & _ & _ & _ & _ & ->)].
    { intros P _. apply G_uncalled. intros []. }
    specialize (IH (msg_entry m) c (msg_sender m sender) (msg_funds m) None (msg_cid m) true s1 Hw Hn).
    destruct (run_prog e (msg_entry m) c (msg_sender m sender) (msg_funds m) None (msg_cid m) true p s1) as [tr r]. exact IH. }
  apply exec_mutind; try (intros; exact I); try (intros; apply Hleaf; reflexivity);
    try (intros; eapply Hcall; [reflexivity|assumption|assumption|assumption]).
  - (* Prog *) intros d acts out IH entry c sender funds rep cid rok s Hw Hn.
    cbn [progs_prog] in Hw. fold (progs_out out) in Hw. inversion Hw as [|x l Hw1 Hw2]; subst.
    cbn [nodes_prog] in Hn. fold (nodes_out out) in Hn. inversion Hn as [|x l Hnot Hn']; subst.
    intros P Hi. cbn [progs_prog] in Hi. fold (progs_out out) in Hi. destruct Hi as [<-|Hi].
    + (* the program itself *)
      destruct (run_prog_cases e entry c sender funds rep cid rok d acts out s)
        as [[_ E]|[(co & _ & _ & E)|(co & attrs & events & data & sbs & _ & -> & _ & E)]]; rewrite E; clear E.
      * apply G_uncalled. intros [].
      * cbn [trc fst]. split.
        -- intros en_d a den _ Hp. destruct (body_probe e s d c acts out a den Hw1 Hp) as (rest & Eb).
           cbn [after_call hdr call_node prog_node]. rewrite N.eqb_refl, Eb. eexists. eexists. reflexivity.
        -- intros q den b1 rest en_d Hq _ _ _ _ en_n Hfn _. exfalso.
           apply find_call_called in Hfn. cbn [call_nodes hdr call_node] in Hfn. rewrite body_tr_no_calls in Hfn.
           destruct Hfn as [E|[]]. exact (proj2 (first_sub_node _ q Hq) Hn (eq_sym E)).
      * destruct (process_subs e c sbs data (body_st e s d c acts)) as [tr_s r] eqn:Es. cbn [trc fst]. split.
        -- intros en_d a den _ Hp. destruct (body_probe e s d c acts _ a den Hw1 Hp) as (rest & Eb).
           cbn [after_call hdr call_node prog_node]. rewrite N.eqb_refl, Eb. eexists. eexists. reflexivity.
        -- intros q den b1 rest en_d Hq Hf Hp Hpq Ha en_n Hfn He.
           cbn [find_call hdr call_node prog_node] in Hf. rewrite N.eqb_refl in Hf. injection Hf as <-. cbn [callee_of] in Hp, Hpq.
           destruct (body_probe e s d c acts _ c den Hw1 Hp) as (rest0 & Eb).
           cbn [after_call hdr call_node prog_node] in Ha. rewrite N.eqb_refl, Eb in Ha. cbn [app] in Ha. injection Ha as Hv _.
           destruct (is_valid e c) eqn:Ev; [|discriminate]. injection Hv as Hb1.
           destruct sbs as [|[id pl ro m ok er] r0]; [discriminate|]. cbn [first_sub_err] in Hq. injection Hq as <-.
           pose proof (f_equal trc Es) as Et. cbn [trc fst] in Et. rewrite process_subs_trace, run_sub_trace in Et. unfold reply_run in Et.
           cbn [nodes_out nodes_subs nodes_sub] in Hn', Hnot. destruct (NoDup_app_inv _ _ Hn') as (Hn1 & Hn2 & Hd12).
           destruct (NoDup_app_inv _ _ Hn1) as (Hnm & Hn23 & Hdm). destruct (NoDup_app_inv _ _ Hn23) as (Hnok & Hner & Hdoe).
           set (nq := prog_node er) in *.
           assert (Qe : In nq (nodes_prog er)) by apply prog_node_in.
           assert (Qd : nq <> d).
           { intros E. apply Hnot. rewrite <- E. apply in_or_app. left. apply in_or_app. right. apply in_or_app. right. exact Qe. }
           assert (Qm : ~ In nq (call_nodes (trc (run_msg e c m (body_st e s d c acts))))).
           { intros H. apply (Hdm nq (subl_in _ _ _ (Cm _ _ _) H)). apply in_or_app. right. exact Qe. }
           match type of Et with (_ ++ ?Y) ++ ?X0 = _ => set (Yv := Y) in Et; set (X := X0) in Et end.
           assert (QX : ~ In nq (call_nodes X)).
           { intros H. assert (S : subl (call_nodes X) (nodes_subs r0)).
             { unfold X. destruct (outc (run_sub e c (Sub id pl ro m ok er) (body_st e s d c acts))) as [[[ev1 d1] s1]| |];
                 [apply Cs|apply subl_nil_l|apply subl_nil_l]. }
             apply (Hd12 nq); [|exact (subl_in _ _ _ S H)]. apply in_or_app. right. apply in_or_app. right. exact Qe. }
           assert (HY : subl (call_nodes Yv) (nodes_prog ok) \/
                        Yv = trc (run_prog e EReply c None [] (Some (id, pl, RRErr)) 0 false er (body_st e s d c acts))).
           { unfold Yv. destruct (outc (run_msg e c m (body_st e s d c acts))) as [[[ev0 d0] s1]| |].
             - left. destruct (wants_ok ro); [apply Cp|apply subl_nil_l].
             - destruct (wants_err ro); [right; reflexivity|left; apply subl_nil_l].
             - left. apply subl_nil_l. }
           clearbody X Yv. subst tr_s.
           (* skip the header, the body and the sub-message's own log *)
           assert (Skip : find_call nq (hdr e d entry c sender funds co rep :: body_tr e s d c acts ++ (trc (run_msg e c m (body_st e s d c acts)) ++ Yv) ++ X)
                          = find_call nq (Yv ++ X) /\
                          after_call nq (hdr e d entry c sender funds co rep :: body_tr e s d c acts ++ (trc (run_msg e c m (body_st e s d c acts)) ++ Yv) ++ X)
                          = after_call nq (Yv ++ X)).
           { cbn [find_call after_call hdr call_node]. destruct (d =? nq) eqn:E; [apply N.eqb_eq in E; congruence|].
             assert (Hb : ~ In nq (call_nodes (body_tr e s d c acts))) by (rewrite body_tr_no_calls; intros []).
             rewrite (find_call_app_none _ _ _ Hb), (after_call_app_none _ _ _ Hb), <- !app_assoc.
             rewrite (find_call_app_none _ _ _ Qm), (after_call_app_none _ _ _ Qm). auto. }
           destruct Skip as [Sf Sa]. rewrite Sf in Hfn. rewrite Sa. clear Sf Sa.
           destruct HY as [S | ->].
           { exfalso. apply find_call_called in Hfn. rewrite call_nodes_app, in_app_iff in Hfn. destruct Hfn as [H|H]; [|exact (QX H)].
             exact (Hdoe nq (subl_in _ _ _ S H) Qe). }
           cbn [progs_out progs_subs progs_sub] in Hw2.
           assert (Hwq : wf_prog er).
           { rewrite Forall_forall in Hw2. apply Hw2. apply in_or_app. left. apply in_or_app. right. apply in_or_app. right.
             rewrite progs_prog_eq. left. reflexivity. }
           destruct er as [n2 acts2 out2]. cbn [prog_node] in nq. subst nq.
           destruct (run_prog_trace_shape e EReply c None [] (Some (id, pl, RRErr)) 0 false n2 acts2 out2 (body_st e s d c acts)) as [E|(co2 & Z & E)];
             rewrite E in *.
           ++ exfalso. cbn [app] in Hfn. exact (QX (find_call_called _ _ _ Hfn)).
           ++ destruct (body_probe e (body_st e s d c acts) n2 c acts2 out2 c den Hwq Hpq) as (rest2 & Eb2).
              cbn [app after_call hdr call_node]. rewrite N.eqb_refl, Eb2, Ev. cbn [app]. unfold body_st at 1. cbn [bank cstore_set].
              rewrite <- Hb1. eexists. reflexivity.
    + (* a program of a sub-message *)
      assert (Dn : forall x, In x (nodes_prog P) -> x <> d).
      { intros x Hx E. subst x. apply Hnot. exact (No out P Hi d Hx). }
      destruct (run_prog_cases e entry c sender funds rep cid rok d acts out s)
        as [[_ E]|[(co & _ & _ & E)|(co & attrs & events & data & sbs & _ & -> & _ & E)]]; rewrite E; clear E.
      * apply G_uncalled. intros [].
      * apply G_uncalled. cbn [trc fst call_nodes hdr call_node]. rewrite body_tr_no_calls. intros [E|[]].
        exact (Dn _ (prog_node_in P) (eq_sym E)).
      * specialize (IH c data (body_st e s d c acts) Hw2 Hn' P Hi).
        destruct (process_subs e c sbs data (body_st e s d c acts)) as [tr_s r]. cbn [trc fst] in *.
        change (hdr e d entry c sender funds co rep :: body_tr e s d c acts ++ tr_s)
          with ((hdr e d entry c sender funds co rep :: body_tr e s d c acts) ++ tr_s).
        apply G_right; [exact IH|]. intros x Hx. cbn [call_nodes hdr call_node]. rewrite body_tr_no_calls. intros [E|[]].
        exact (Dn x Hx (eq_sym E)).
  - (* OResp *) intros attrs events data sbs IH c data0 s. apply IH.
  - (* SNil *) intros c data s _ _ P [].
  - (* SCons *) intros sb IHsb r IHr c data s Hw Hn. cbn [progs_subs nodes_subs] in *.
    apply Forall_app_inv in Hw as [Hw1 Hw2]. destruct (NoDup_app_inv _ _ Hn) as (Hn1 & Hn2 & Hd).
    rewrite process_subs_trace. intros P Hi. apply in_app_or in Hi as [Hi|Hi].
    + apply G_left; [exact (IHsb c s Hw1 Hn1 P Hi)|]. intros x Hx Hc. apply (Hd x (Nb sb P Hi x Hx)).
      destruct (outc (run_sub e c sb s)) as [[[ev1 d1] s1]| |]; [exact (subl_in _ _ _ (Cs _ _ _ _) Hc)|destruct Hc|destruct Hc].
    + apply G_right.
      * destruct (outc (run_sub e c sb s)) as [[[ev1 d1] s1]| |]; [exact (IHr c _ s1 Hw2 Hn2 P Hi)| |]; apply G_uncalled; intros [].
      * intros x Hx Hc. exact (Hd x (subl_in _ _ _ (Cb _ _ _) Hc) (Ns r P Hi x Hx)).
  - (* Sub *) intros id payload ro m IHm on_ok IHok on_err IHerr c s Hw Hn. cbn [progs_sub nodes_sub] in *.
    apply Forall_app_inv in Hw as [Hw1 Hw23]. apply Forall_app_inv in Hw23 as [Hw2 Hw3].
    destruct (NoDup_app_inv _ _ Hn) as (Hn1 & Hn23 & Hd1). destruct (NoDup_app_inv _ _ Hn23) as (Hn2 & Hn3 & Hd2).
    rewrite run_sub_trace. unfold reply_run.
    match goal with |- allG _ (_ ++ ?X) => set (R := X) end.
    assert (HR : (subl (call_nodes R) (nodes_prog on_ok) /\ allG (progs_prog on_ok) R) \/
                 (subl (call_nodes R) (nodes_prog on_err) /\ allG (progs_prog on_err) R)).
    { unfold R. destruct (outc (run_msg e c m s)) as [[[ev d] s1]| |].
      - left. destruct (wants_ok ro); [split; [apply Cp|apply IHok; assumption]|split; [apply subl_nil_l|intros P _; apply G_uncalled; intros []]].
      - right. destruct (wants_err ro); [split; [apply Cp|apply IHerr; assumption]|split; [apply subl_nil_l|intros P _; apply G_uncalled; intros []]].
      - left. split; [apply subl_nil_l|intros P _; apply G_uncalled; intros []]. }
    clearbody R. intros P Hi. apply in_app_or in Hi as [Hi|Hi]; [|apply in_app_or in Hi as [Hi|Hi]].
    + apply G_left; [exact (IHm c s Hw1 Hn1 P Hi)|]. intros x Hx Hc. apply (Hd1 x (Nm m P Hi x Hx)).
      destruct HR as [[S _]|[S _]]; apply in_or_app; [left|right]; exact (subl_in _ _ _ S Hc).
    + apply G_right.
      * destruct HR as [[_ A]|[S _]]; [exact (A P Hi)|]. apply G_uncalled. intros Hc.
        exact (Hd2 _ (Np on_ok P Hi _ (prog_node_in P)) (subl_in _ _ _ S Hc)).
      * intros x Hx Hc. apply (Hd1 x (subl_in _ _ _ (Cm _ _ _) Hc)). apply in_or_app. left. exact (Np on_ok P Hi x Hx).
    + apply G_right.
      * destruct HR as [[S _]|[_ A]]; [|exact (A P Hi)]. apply G_uncalled. intros Hc.
        exact (Hd2 _ (subl_in _ _ _ S Hc) (Np on_err P Hi _ (prog_node_in P))).
      * intros x Hx Hc. apply (Hd1 x (subl_in _ _ _ (Cm _ _ _) Hc)). apply in_or_app. right. exact (Np on_err P Hi x Hx).
Qed.

(* ---------- top level ---------- *)
Lemma msgs_progs_incl ms P : In P (flat_map progs_msg ms) -> incl (nodes_prog P) (flat_map nodes_msg ms).
Proof.
  intros H. apply in_flat_map in H as (m & Hm & H). intros x Hx. apply in_flat_map. exists m. split; [exact Hm|].
  exact (proj1 progs_nodes_incl m P H x Hx).
Qed.

Lemma msgs_G e sender : forall ms s, Forall wf_prog (flat_map progs_msg ms) -> NoDup (flat_map nodes_msg ms) ->
  allG (flat_map progs_msg ms) (trc (run_msgs e sender ms s)).
Proof.
  induction ms as [|m r IH]; intros s Hw Hn; [intros P []|]. rewrite run_msgs_cons. cbn [flat_map] in *.
  apply Forall_app_inv in Hw as [Hw1 Hw2]. destruct (NoDup_app_inv _ _ Hn) as (Hn1 & Hn2 & Hd).
  pose proof (proj1 (exec_G e) m sender s Hw1 Hn1) as H1. pose proof (proj1 (exec_call_nodes e) m sender s) as C1.
  assert (Hright : forall P, In P (flat_map progs_msg r) -> forall x, In x (nodes_prog P) -> ~ In x (call_nodes (trc (run_msg e sender m s)))).
  { intros P Hi x Hx Hc. exact (Hd x (subl_in _ _ _ C1 Hc) (msgs_progs_incl r P Hi x Hx)). }
  destruct (run_msg e sender m s) as [tr1 [[rs s1]| |]]; cbn [trc fst] in *.
  - specialize (IH s1 Hw2 Hn2). pose proof (msgs_call_nodes e sender r s1) as C2.
    destruct (run_msgs e sender r s1) as [tr2 r2]. cbn [trc fst] in *. intros P Hi. apply in_app_or in Hi as [Hi|Hi].
    + apply G_left; [exact (H1 P Hi)|]. intros x Hx Hc. exact (Hd x (proj1 progs_nodes_incl m P Hi x Hx) (subl_in _ _ _ C2 Hc)).
    + apply G_right; [exact (IH P Hi)|exact (Hright P Hi)].
  - intros P Hi. apply in_app_or in Hi as [Hi|Hi]; [exact (H1 P Hi)|]. apply G_uncalled. exact (Hright P Hi _ (prog_node_in P)).
  - intros P Hi. apply in_app_or in Hi as [Hi|Hi]; [exact (H1 P Hi)|]. apply G_uncalled. exact (Hright P Hi _ (prog_node_in P)).
Qed.

Lemma top_G e op s : wf_op op -> NoDup (nodes_op op) -> allG (progs_op op) (top_trace (run_top e op s)).
Proof.
  unfold wf_op. intros Hw Hn. rewrite (proj1 (top_inner e op s)). destruct (op_msgs op) as [[sd ms]|] eqn:E.
  - destruct (inner_msgs e op s sd ms E) as (-> & _ & _ & _ & En & Ep). rewrite En in Hn. rewrite Ep in *. apply msgs_G; assumption.
  - destruct op; try discriminate.
    + cbn [inner nodes_op progs_op] in *. pose proof (proj1 (proj2 (exec_G e)) p ESudo c None [] None 0 true s Hw Hn) as H.
      destruct (run_prog e ESudo c None [] None 0 true p s) as [tr r]. exact H.
    + intros P [].
Qed.

Lemma find_info_in n l pi : find_info n l = Some pi -> In pi l /\ pi_node pi = n.
Proof.
  induction l as [|x l IH]; cbn [find_info]; [discriminate|]. destruct (pi_node x =? n) eqn:E.
  - intros H. injection H as <-. apply N.eqb_eq in E. split; [left; reflexivity|exact E].
  - intros H. destruct (IH H). split; [right|]; assumption.
Qed.
Lemma flat_op_node_of op pi : In pi (flat_op op) -> prog_node (pi_prog pi) = pi_node pi.
Proof.
  destruct op; cbn [flat_op top_msgs]; intros H;
    try (apply in_flat_map in H as (m0 & _ & H); exact (proj1 flat_node_of m0 None pi H));
    try exact (proj1 (proj2 flat_node_of) _ _ _ _ _ _ _ pi H).
Qed.
Lemma flat_op_prog_in op pi : In pi (flat_op op) -> In (pi_prog pi) (progs_op op).
Proof. intros H. rewrite <- flat_op_progs. apply in_map. exact H. Qed.
Lemma first_amount_inv n tr b : first_amount n tr = Some b -> exists rest, after_call n tr = RObs n (VAmount (Some b)) :: rest.
Proof.
  unfold first_amount. destruct (after_call n tr) as [|[| |n' [| |[b0|]| | | | |]|] rest]; try discriminate.
  destruct (n' =? n) eqn:E; [|discriminate]. apply N.eqb_eq in E. subst. intros H. injection H as ->. eexists. reflexivity.
Qed.
