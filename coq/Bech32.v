(* Bech32.v — C18: executable model of the address codecs.
   Anchors:
     /repo/src/api.rs:28-55,164-169        MockApiBech<T>::{addr_validate, addr_canonicalize, addr_humanize, addr_make}
     /repo/src/addresses.rs:24-75          IntoAddr / IntoBech32 / IntoBech32m (all go through addr_make)
     bech32-0.11.0 src/lib.rs:231-300,434-442            encode / encode_lower_to_fmt / encoded_length
     bech32-0.11.0 src/primitives/checksum.rs:99-140,188-205,230-262   Engine::{new,input_hrp,input_fe,input_target_residue}, PackedFe32 for u32, HrpFe32Iter
     bech32-0.11.0 src/primitives/decode.rs:127-142,250-305,360-366,455-458,675-703   UncheckedHrpstring::new, validate_checksum, remove_checksum, CheckedHrpstring::new, byte_iter, check_characters
     bech32-0.11.0 src/primitives/hrp.rs:78-121,253-270  Hrp::parse, PartialEq for Hrp (case-insensitive)
     bech32-0.11.0 src/primitives/iter.rs:44-59,72-112,147-190,232-296  bytes_to_fes, fes_to_bytes, Checksummed
     bech32-0.11.0 src/primitives/gf32.rs:46-66,187-212  CHARS_LOWER, CHARS_INV, from_char, to_char
     cosmwasm-std-2.2.2 src/testing/mock.rs:117-154,318-339   MockApi (the default codec)
   SHA-256 is not modelled: addr_make takes the 32-byte digest (the harness computes it with sha2).
   No pinned theorems here (they are in Properties/C18.v); this file holds the model and its lemmas. *)
From Verif Require Import Base.
From Coq Require Import Btauto.
Local Open Scope N_scope.

(* text = Unicode scalar values (str::chars()); everything accepted is ASCII, so chars = bytes there *)
Definition text := list N.
Definition text_eqb : text -> text -> bool := list_eqb N.eqb.

Inductive variant := Bech32 | Bech32m.

(* primitives/mod.rs:41-56 *)
Definition target (c : variant) : N := match c with Bech32 => 1 | Bech32m => 0x2bc830a3 end.
Definition G0 : N := 0x3b6a57b2.
Definition G1 : N := 0x26508e6d.
Definition G2 : N := 0x1ea119fa.
Definition G3 : N := 0x3d4233dd.
Definition G4 : N := 0x2a1462b3.

(* ---------- characters ---------- *)
Definition is_upper (c : N) : bool := (65 <=? c) && (c <=? 90).
Definition is_lower (c : N) : bool := (97 <=? c) && (c <=? 122).
(* hrp.rs LowercaseByteIter: b | 32 on A..Z *)
Definition lower (c : N) : N := if is_upper c then c + 32 else c.

(* gf32.rs CHARS_LOWER = "qpzry9x8gf2tvdw0s3jn54khce6mua7l" *)
Definition charset : list N :=
  [113;112;122;114;121;57;120;56; 103;102;50;116;118;100;119;48;
   115;51;106;110;53;52;107;104; 99;101;54;109;117;97;55;108].

Definition to_char (fe : N) : N := nth (N.to_nat fe) charset 0.

Fixpoint index_of (x : N) (l : list N) (i : N) : option N :=
  match l with
  | [] => None
  | y :: l' => if x =? y then Some i else index_of x l' (N.succ i)
  end.
(* gf32.rs from_char / CHARS_INV: either case; anything else (incl. non-ASCII) is an error *)
Definition from_char (c : N) : option N := index_of (lower c) charset 0.

Fixpoint map_opt {A B} (f : A -> option B) (l : list A) : option (list B) :=
  match l with
  | [] => Some []
  | x :: l' => match f x, map_opt f l' with Some y, Some r => Some (y :: r) | _, _ => None end
  end.

(* ---------- checksum engine (u32 residue) ---------- *)
Definition cx (b : bool) (g r : N) : N := if b then N.lxor r g else r.

(* PackedFe32::unpack: (self >> 5n) as u8 & 0x1f *)
Definition unpack (r : N) (n : N) : N := N.land (N.shiftr r (5 * n)) 31.

(* Engine::input_fe: xn = residue.mul_by_x_then_add(6, e)  [ret = unpack(5); self &= !(0x1f << 25);
   self <<= 5 (u32: bits 30,31 fall off); self |= e];  for i in 0..5: if xn & (1<<i) != 0: residue ^= GEN[i] *)
Definition input_fe (r e : N) : N :=
  let xn := unpack r 5 in
  let r1 := N.lor (N.shiftl (N.land r 0x1ffffff) 5) e in
  cx (N.testbit xn 4) G4 (cx (N.testbit xn 3) G3 (cx (N.testbit xn 2) G2 (cx (N.testbit xn 1) G1 (cx (N.testbit xn 0) G0 r1)))).

Definition engine (r : N) (fes : list N) : N := fold_left input_fe fes r.
(* Engine::new(): residue = ONE *)
Definition polymod (fes : list N) : N := engine 1 fes.

(* HrpFe32Iter: lowercase bytes >> 5, then Q, then lowercase bytes & 0x1f *)
Definition hrp_expand (h : text) : list N :=
  map (fun c => N.shiftr (lower c) 5) h ++ [0] ++ map (fun c => N.land (lower c) 31) h.

Definition unpack6 (v : N) : list N := [unpack v 5; unpack v 4; unpack v 3; unpack v 2; unpack v 1; unpack v 0].

(* Checksummed::next after the data is exhausted: input_target_residue(), then the residue's six
   symbols from the highest down *)
Definition create_checksum (c : variant) (h : text) (d : list N) : list N :=
  unpack6 (engine (engine (polymod (hrp_expand h)) d) (unpack6 (target c))).

(* ---------- 8 <-> 5 bit regrouping (big-endian bit order) ---------- *)
Fixpoint bits_of (w : nat) (x : N) : list bool :=
  match w with O => [] | S w' => N.testbit x (N.of_nat w') :: bits_of w' x end.
Definition b2n (b : bool) : N := if b then 1 else 0.
Definition val (l : list bool) : N := fold_left (fun a b => 2 * a + b2n b) l 0.

Fixpoint chunk5 (l : list bool) : list (list bool) :=
  match l with
  | a :: b :: c :: d :: e :: r => [a; b; c; d; e] :: chunk5 r
  | [] => []
  | [a] => [[a; false; false; false; false]]
  | [a; b] => [[a; b; false; false; false]]
  | [a; b; c] => [[a; b; c; false; false]]
  | [a; b; c; d] => [[a; b; c; d; false]]
  end.
Fixpoint chunk8 (l : list bool) : list (list bool) :=
  match l with
  | a :: b :: c :: d :: e :: f :: g :: h :: r => [a; b; c; d; e; f; g; h] :: chunk8 r
  | _ => []
  end.

(* iter.rs BytesToFes: right-pads the last group with 0 bits *)
Definition bytes_to_fes (b : bytes) : list N := map val (chunk5 (flat_map (bits_of 8) b)).
(* iter.rs FesToBytes (used by CheckedHrpstring::byte_iter): a byte is yielded only when all its
   8 bits are there; trailing bits (up to a whole symbol and more) are DROPPED, padding is NOT validated *)
Definition fes_to_bytes (f : list N) : bytes := map val (chunk8 (flat_map (bits_of 5) f)).

(* ---------- Hrp::parse ---------- *)
Definition hrp_char_ok (c : N) : bool := (33 <=? c) && (c <=? 126).
Definition nlen {A} (l : list A) : N := N.of_nat (length l).
Definition hrp_ok (h : text) : bool :=
  (1 <=? nlen h) && (nlen h <=? 83) && forallb hrp_char_ok h && negb (existsb is_upper h && existsb is_lower h).
(* impl PartialEq for Hrp: lowercase_byte_iter().eq(..) *)
Definition hrp_eqb (a b : text) : bool := text_eqb (map lower a) (map lower b).

(* ---------- encode (lib.rs encode_lower_to_fmt) ---------- *)
Definition encode (c : variant) (h : text) (b : bytes) : option text :=
  let fes := bytes_to_fes b in
  if 1023 <? nlen h + 1 + nlen fes + 6 then None            (* encoded_length: CodeLengthError *)
  else Some (map lower h ++ [49] ++ map to_char (fes ++ create_checksum c h fes)).

(* ---------- decode (CheckedHrpstring::new::<Ck>) ---------- *)
(* check_characters: the separator is the LAST '1' *)
Fixpoint split_sep (s : text) : option (text * text) :=
  match s with
  | [] => None
  | ch :: r =>
      match split_sep r with
      | Some (h, d) => Some (ch :: h, d)
      | None => if ch =? 49 then Some ([], r) else None
      end
  end.

Definition mixed_case (s : text) : bool := existsb is_upper s && existsb is_lower s.

(* the checks in the crate's order: characters after the separator are bech32 characters; not mixed
   case (whole string); a separator exists; Hrp::parse(hrp); length <= 1023; >= 6 data symbols;
   residue = target.  Every failure is the same outcome (an error), so only the conjunction matters.
   Result: the hrp as written and the data symbols without the checksum. *)
Definition decode_checked (c : variant) (s : text) : option (text * list N) :=
  match split_sep s with
  | None => None
  | Some (h, d) =>
      match map_opt from_char d with
      | None => None
      | Some syms =>
          if mixed_case s then None
          else if negb (hrp_ok h) then None
          else if 1023 <? nlen s then None
          else if nlen syms <? 6 then None
          else if engine (polymod (hrp_expand h)) syms =? target c
               then Some (h, firstn (length syms - 6) syms)
               else None
      end
  end.

(* ---------- MockApiBech<T> (api.rs) ---------- *)
Definition canonicalize (c : variant) (p s : text) : outcome bytes :=
  match decode_checked c s with
  | Some (h, syms) => if hrp_ok p && hrp_eqb p h then Ok (fes_to_bytes syms) else Err
  | None => Err
  end.

Definition humanize (c : variant) (p : text) (b : bytes) : outcome text :=
  if hrp_ok p then match encode c p b with Some s => Ok s | None => Err end else Err.

(* addr_validate: normalized = humanize(canonicalize(input)?)?; input != normalized -> Err; Ok(normalized).
   [validate_from] is the part after addr_canonicalize returned (so that a caller that already has
   the canonicalize answer does not decode twice). *)
Definition validate_from (c : variant) (p s : text) (cb : outcome bytes) : outcome text :=
  match cb with
  | Ok b => match humanize c p b with
            | Ok n => if text_eqb s n then Ok n else Err
            | _ => Err
            end
  | _ => Err
  end.
Definition validate (c : variant) (p s : text) : outcome text := validate_from c p s (canonicalize c p s).

(* addr_make: Hrp::parse error -> panic!; encode(..).unwrap() *)
Definition addr_make (c : variant) (p : text) (digest : bytes) : outcome text :=
  if hrp_ok p then match encode c p digest with Some s => Ok s | None => Panic end else Panic.

(* ---------- cosmwasm_std::testing::MockApi with bech32_prefix = p (default "cosmwasm") ---------- *)
Definition len_ok (b : bytes) : bool := (1 <=? nlen b) && (nlen b <=? 255).
Definition cosmwasm : text := [99;111;115;109;119;97;115;109].

Definition std_canonicalize (p s : text) : outcome bytes :=
  match decode_checked Bech32 s with
  | None => Err
  | Some (h, syms) =>
      if negb (hrp_eqb h p) then Err                      (* eq_ignore_ascii_case; the prefix is NOT parsed here *)
      else let b := fes_to_bytes syms in if len_ok b then Ok b else Err
  end.

Definition std_humanize (p : text) (b : bytes) : outcome text :=
  if negb (len_ok b) then Err
  else if negb (hrp_ok p) then Err
  else match encode Bech32 p b with Some s => Ok s | None => Err end.

Definition std_validate_from (p s : text) (cb : outcome bytes) : outcome text :=
  match cb with
  | Ok b => match std_humanize p b with
            | Ok n => if text_eqb s n then Ok s else Err
            | _ => Err
            end
  | _ => Err
  end.
Definition std_validate (p s : text) : outcome text := std_validate_from p s (std_canonicalize p s).

Definition std_addr_make (p : text) (digest : bytes) : outcome text :=
  if hrp_ok p then match encode Bech32 p digest with Some s => Ok s | None => Panic end else Panic.

(* ====================================================================================== *)
(* Lemmas 1: bit regrouping                                                               *)
(* ====================================================================================== *)
(* ---------- finite ranges ---------- *)
Definition nrange (n : nat) : list N := map N.of_nat (seq 0 n).
Lemma in_nrange n x : x < N.of_nat n -> In x (nrange n).
Proof.
  intros H. unfold nrange. apply in_map_iff. exists (N.to_nat x). split; [apply N2Nat.id|].
  apply in_seq. lia.
Qed.
Lemma sweep (P : N -> bool) n : forallb P (nrange n) = true -> forall x, x < N.of_nat n -> P x = true.
Proof. intros H x Hx. rewrite forallb_forall in H. apply H, in_nrange, Hx. Qed.

(* ---------- bits ---------- *)
Lemma bits_of_8 x : bits_of 8 x =
  [N.testbit x 7; N.testbit x 6; N.testbit x 5; N.testbit x 4; N.testbit x 3; N.testbit x 2; N.testbit x 1; N.testbit x 0].
Proof. reflexivity. Qed.

Lemma val_bits8 x : x < 256 -> val (bits_of 8 x) = x.
Proof.
  intros H. apply N.eqb_eq. revert x H. apply (sweep (fun x => val (bits_of 8 x) =? x) 256). vm_compute. reflexivity.
Qed.

Lemma bits5_val g : length g = 5%nat -> bits_of 5 (val g) = g.
Proof.
  destruct g as [|a [|b [|c [|d [|e [|f g]]]]]]; try discriminate. intros _.
  destruct a, b, c, d, e; reflexivity.
Qed.

Lemma val5_lt g : length g = 5%nat -> val g < 32.
Proof.
  destruct g as [|a [|b [|c [|d [|e [|f g]]]]]]; try discriminate. intros _.
  destruct a, b, c, d, e; reflexivity.
Qed.
Lemma val8_lt g : length g = 8%nat -> val g < 256.
Proof.
  destruct g as [|a [|b [|c [|d [|e [|f [|g [|h [|i r]]]]]]]]]; try discriminate. intros _.
  destruct a, b, c, d, e, f, g, h; reflexivity.
Qed.

(* 5-step list induction *)
Lemma list_ind5 {A} (P : list A -> Prop) :
  P [] -> (forall a, P [a]) -> (forall a b, P [a; b]) -> (forall a b c, P [a; b; c]) -> (forall a b c d, P [a; b; c; d]) ->
  (forall a b c d e r, P r -> P (a :: b :: c :: d :: e :: r)) -> forall l, P l.
Proof.
  intros H0 H1 H2 H3 H4 H5. fix IH 1. intros l.
  destruct l as [|a [|b [|c [|d [|e r]]]]];
    [apply H0|apply H1|apply H2|apply H3|apply H4|apply H5, IH].
Qed.

Lemma chunk5_len l : Forall (fun g => length g = 5%nat) (chunk5 l).
Proof. induction l using list_ind5; cbn [chunk5]; repeat constructor; assumption. Qed.

Lemma chunk5_concat l : exists k, (k < 5)%nat /\ concat (chunk5 l) = l ++ repeat false k.
Proof.
  induction l using list_ind5; cbn [chunk5 concat app].
  - exists 0%nat. split; [lia|reflexivity].
  - exists 4%nat. split; [lia|reflexivity].
  - exists 3%nat. split; [lia|reflexivity].
  - exists 2%nat. split; [lia|reflexivity].
  - exists 1%nat. split; [lia|reflexivity].
  - destruct IHl as (k & Hk & E). exists k. split; [exact Hk|]. rewrite E. reflexivity.
Qed.

Lemma chunk5_length l : (5 * length (chunk5 l) = length l + (5 - length l mod 5) mod 5)%nat.
Proof.
  induction l using list_ind5; cbn [chunk5 length]; try reflexivity.
  replace (S (S (S (S (S (length l)))))) with (length l + 1 * 5)%nat by lia.
  rewrite Nat.mod_add by lia. lia.
Qed.

Lemma flat_bits5_val gs : Forall (fun g => length g = 5%nat) gs -> flat_map (bits_of 5) (map val gs) = concat gs.
Proof.
  induction 1 as [|g gs Hg _ IH]; [reflexivity|].
  cbn [map flat_map concat]. rewrite IH, bits5_val by exact Hg. reflexivity.
Qed.

Lemma chunk8_short z : (length z < 8)%nat -> chunk8 z = [].
Proof.
  destruct z as [|a [|b [|c [|d [|e [|f [|g [|h r]]]]]]]]; cbn [length]; intros H; try reflexivity. lia.
Qed.

Lemma chunk8_bytes b z : (length z < 8)%nat -> chunk8 (flat_map (bits_of 8) b ++ z) = map (bits_of 8) b.
Proof.
  intros Hz. induction b as [|x b IH]; cbn [flat_map map app].
  - apply chunk8_short, Hz.
  - rewrite bits_of_8. cbn [app chunk8]. rewrite IH. reflexivity.
Qed.

Lemma wf_bytes_forall b : wf_bytes b = true <-> Forall (fun x => x < 256) b.
Proof.
  unfold wf_bytes, wf_byte. rewrite forallb_forall, Forall_forall.
  split; intros H x Hx; specialize (H x Hx); [apply N.ltb_lt|apply N.ltb_lt]; exact H.
Qed.

Lemma map_val_bits8 b : wf_bytes b = true -> map val (map (bits_of 8) b) = b.
Proof.
  rewrite wf_bytes_forall. induction 1 as [|x b Hx _ IH]; [reflexivity|].
  cbn [map]. rewrite IH, val_bits8 by exact Hx. reflexivity.
Qed.

Lemma convert_roundtrip_l b : wf_bytes b = true -> fes_to_bytes (bytes_to_fes b) = b.
Proof.
  intros Hb. unfold fes_to_bytes, bytes_to_fes.
  rewrite flat_bits5_val by apply chunk5_len.
  destruct (chunk5_concat (flat_map (bits_of 8) b)) as (k & Hk & ->).
  rewrite chunk8_bytes by (rewrite repeat_length; lia).
  apply map_val_bits8, Hb.
Qed.

Lemma bytes_to_fes_wf b : Forall (fun x => x < 32) (bytes_to_fes b).
Proof.
  unfold bytes_to_fes. apply Forall_map. eapply Forall_impl; [|apply chunk5_len]. apply val5_lt.
Qed.

Lemma chunk8_len l : Forall (fun g => length g = 8%nat) (chunk8 l).
Proof.
  revert l. fix IH 1. intros l.
  destruct l as [|a [|b [|c [|d [|e [|f [|g [|h r]]]]]]]]; cbn [chunk8]; try constructor; [reflexivity|apply IH].
Qed.

Lemma fes_to_bytes_wf f : wf_bytes (fes_to_bytes f) = true.
Proof.
  apply wf_bytes_forall. unfold fes_to_bytes. apply Forall_map. eapply Forall_impl; [|apply chunk8_len]. apply val8_lt.
Qed.

Lemma flat_bits8_length b : length (flat_map (bits_of 8) b) = (8 * length b)%nat.
Proof. induction b as [|x b IH]; [reflexivity|]. cbn [flat_map]. rewrite app_length, IH. cbn [length bits_of]. lia. Qed.

(* iter.rs bytes_len_to_fes_len: (8n + 4) / 5 *)
Lemma bytes_to_fes_length b : nlen (bytes_to_fes b) = (8 * nlen b + 4) / 5.
Proof.
  unfold nlen, bytes_to_fes. rewrite map_length.
  pose proof (chunk5_length (flat_map (bits_of 8) b)) as H. rewrite flat_bits8_length in H.
  set (n := length b) in *. set (m := length (chunk5 _)) in *.
  assert (Hm : ((5 - (8 * n) mod 5) mod 5 < 5)%nat) by (apply Nat.mod_upper_bound; lia).
  apply N.div_unique with (r := N.of_nat (4 - (5 - (8 * n) mod 5) mod 5)); lia.
Qed.

(* ====================================================================================== *)
(* Lemmas 2: the checksum engine is GF(2)-linear; the checksum verifies; syndromes        *)
(* ====================================================================================== *)
(* ---------- GF(2)-linear view of the engine ---------- *)
Definition sel (b : bool) (g : N) : N := if b then g else 0.
Definition gmask (t : N) : N :=
  N.lxor (sel (N.testbit t 0) G0) (N.lxor (sel (N.testbit t 1) G1) (N.lxor (sel (N.testbit t 2) G2)
         (N.lxor (sel (N.testbit t 3) G3) (sel (N.testbit t 4) G4)))).
Definition M25 : N := 0x1ffffff.
Definition step_x (r e : N) : N := N.lxor (N.lxor (N.shiftl (N.land r M25) 5) e) (gmask (unpack r 5)).
Definition engine_x (r : N) (fes : list N) : N := fold_left step_x fes r.

Ltac bits := apply N.bits_inj; intros ?n; repeat rewrite ?N.lxor_spec, ?N.land_spec, ?N.lor_spec.

Lemma cx_sel b g r : cx b g r = N.lxor r (sel b g).
Proof. destruct b; cbn [cx sel]; [reflexivity|symmetry; apply N.lxor_0_r]. Qed.

Lemma lt_pow2_land x n : x < 2 ^ n -> N.land x (N.ones n) = x.
Proof. intros H. rewrite N.land_ones. apply N.mod_small, H. Qed.

Lemma testbit_high x n k : x < 2 ^ n -> n <= k -> N.testbit x k = false.
Proof.
  intros H Hk. rewrite <- (lt_pow2_land x n H), N.land_spec, N.ones_spec_high by exact Hk. apply andb_false_r.
Qed.

Lemma shl5_land_low a e : e < 32 -> N.land (N.shiftl a 5) e = 0.
Proof.
  intros He. bits. rewrite N.bits_0. destruct (N.lt_ge_cases n 5) as [Hn|Hn].
  - rewrite N.shiftl_spec_low by exact Hn. reflexivity.
  - rewrite (testbit_high e 5) by (try exact Hn; exact He). apply andb_false_r.
Qed.

Lemma input_fe_x r e : e < 32 -> input_fe r e = step_x r e.
Proof.
  intros He. unfold input_fe, step_x, gmask. rewrite !cx_sel.
  rewrite <- (N.lxor_lor _ e) by (apply shl5_land_low, He).
  fold M25. set (a := N.lxor (N.shiftl (N.land r M25) 5) e).
  rewrite <- !N.lxor_assoc. reflexivity.
Qed.

Lemma engine_x_eq r l : Forall (fun e => e < 32) l -> engine r l = engine_x r l.
Proof.
  intros H. revert r. induction H as [|e l He _ IH]; intros r; [reflexivity|].
  cbn [engine engine_x fold_left]. rewrite input_fe_x by exact He. apply IH.
Qed.

Lemma land_lxor a b m : N.land (N.lxor a b) m = N.lxor (N.land a m) (N.land b m).
Proof. bits. btauto. Qed.

Lemma unpack_lxor a b k : unpack (N.lxor a b) k = N.lxor (unpack a k) (unpack b k).
Proof. unfold unpack. rewrite N.shiftr_lxor. apply land_lxor. Qed.

Lemma sel_xorb a b g : sel (xorb a b) g = N.lxor (sel a g) (sel b g).
Proof. destruct a, b; cbn [xorb sel]; rewrite ?N.lxor_0_r, ?N.lxor_0_l, ?N.lxor_nilpotent; reflexivity. Qed.

Lemma gmask_lxor t u : gmask (N.lxor t u) = N.lxor (gmask t) (gmask u).
Proof.
  unfold gmask. rewrite !N.lxor_spec, !sel_xorb.
  generalize (sel (N.testbit t 0) G0) (sel (N.testbit t 1) G1) (sel (N.testbit t 2) G2) (sel (N.testbit t 3) G3) (sel (N.testbit t 4) G4)
             (sel (N.testbit u 0) G0) (sel (N.testbit u 1) G1) (sel (N.testbit u 2) G2) (sel (N.testbit u 3) G3) (sel (N.testbit u 4) G4).
  intros. bits. btauto.
Qed.

Lemma step_x_lxor a b e f : step_x (N.lxor a b) (N.lxor e f) = N.lxor (step_x a e) (step_x b f).
Proof.
  unfold step_x. rewrite unpack_lxor, gmask_lxor, land_lxor, N.shiftl_lxor.
  generalize (N.shiftl (N.land a M25) 5) (N.shiftl (N.land b M25) 5) (gmask (unpack a 5)) (gmask (unpack b 5)).
  intros. bits. btauto.
Qed.

Fixpoint zipx (l1 l2 : list N) : list N :=
  match l1, l2 with x :: l1', y :: l2' => N.lxor x y :: zipx l1' l2' | _, _ => [] end.

Lemma engine_x_lxor l1 : forall l2 a b, length l1 = length l2 ->
  engine_x (N.lxor a b) (zipx l1 l2) = N.lxor (engine_x a l1) (engine_x b l2).
Proof.
  induction l1 as [|x l1 IH]; intros [|y l2] a b H; try discriminate; [reflexivity|].
  cbn [zipx engine_x fold_left]. rewrite step_x_lxor. apply IH. cbn in H. congruence.
Qed.

Notation zeros n := (repeat 0%N n).
Lemma zipx_zeros_l l : zipx (zeros (length l)) l = l.
Proof. induction l as [|x l IH]; [reflexivity|]. cbn [length repeat zipx]. rewrite IH, N.lxor_0_l. reflexivity. Qed.
Lemma zipx_self l : zipx l l = zeros (length l).
Proof. induction l as [|x l IH]; [reflexivity|]. cbn [length repeat zipx]. rewrite IH, N.lxor_nilpotent. reflexivity. Qed.

(* ---------- range facts ---------- *)
Definition P30 : N := 2 ^ 30.
Lemma lxor_lt a b n : a < 2 ^ n -> b < 2 ^ n -> N.lxor a b < 2 ^ n.
Proof.
  intros Ha Hb. rewrite <- (lt_pow2_land a n Ha), <- (lt_pow2_land b n Hb), <- land_lxor, N.land_ones.
  apply N.mod_lt. apply N.pow_nonzero. discriminate.
Qed.

Lemma unpack_lt r k : unpack r k < 32.
Proof. unfold unpack. change 31 with (N.ones 5). rewrite N.land_ones. apply N.mod_lt. discriminate. Qed.

Lemma gmask_lt t : gmask t < P30.
Proof.
  unfold gmask. destruct (N.testbit t 0), (N.testbit t 1), (N.testbit t 2), (N.testbit t 3), (N.testbit t 4); reflexivity.
Qed.

Lemma step_x_lt r e : e < 32 -> step_x r e < P30.
Proof.
  intros He. unfold step_x, P30. apply lxor_lt; [apply lxor_lt|apply gmask_lt].
  - rewrite N.shiftl_mul_pow2. unfold M25. change 0x1ffffff with (N.ones 25). rewrite N.land_ones.
    assert (r mod 2 ^ 25 < 2 ^ 25) by (apply N.mod_lt; discriminate).
    change (2 ^ 30) with (2 ^ 25 * 2 ^ 5). apply N.mul_lt_mono_pos_r; [reflexivity|assumption].
  - eapply N.lt_trans; [exact He|reflexivity].
Qed.

Lemma unpack6_wf v : Forall (fun e => e < 32) (unpack6 v).
Proof. unfold unpack6. repeat constructor; apply unpack_lt. Qed.

Lemma engine_x_lt r l : Forall (fun e => e < 32) l -> r < P30 -> engine_x r l < P30.
Proof.
  intros H. revert r. induction H as [|e l He _ IH]; intros r Hr; [exact Hr|].
  cbn [engine_x fold_left]. apply IH, step_x_lt, He.
Qed.

(* ---------- six shift-ins from 0 rebuild the packed word ---------- *)
Lemma step_x_small s e : s < 2 ^ 25 -> e < 32 -> step_x s e = 32 * s + e.
Proof.
  intros Hs He. unfold step_x.
  assert (U : unpack s 5 = 0).
  { unfold unpack. change (5 * 5) with 25. rewrite N.shiftr_div_pow2, N.div_small by exact Hs. reflexivity. }
  rewrite U. change (gmask 0) with 0. rewrite N.lxor_0_r.
  unfold M25. change 0x1ffffff with (N.ones 25). rewrite lt_pow2_land by exact Hs.
  rewrite N.lxor_lor by (apply shl5_land_low, He).
  rewrite <- N.lxor_lor, <- N.add_nocarry_lxor by (apply shl5_land_low, He).
  rewrite N.shiftl_mul_pow2. change (2 ^ 5) with 32. lia.
Qed.

Lemma unpack_div v k : unpack v k = (v / 2 ^ (5 * k)) mod 32.
Proof. unfold unpack. change 31 with (N.ones 5). rewrite N.land_ones, N.shiftr_div_pow2. reflexivity. Qed.

Lemma div_step v k : 32 * (v / 2 ^ (5 * (k + 1))) + (v / 2 ^ (5 * k)) mod 32 = v / 2 ^ (5 * k).
Proof.
  replace (5 * (k + 1)) with (5 * k + 5) by lia. rewrite N.pow_add_r, <- N.div_div by (try apply N.pow_nonzero; discriminate).
  change (2 ^ 5) with 32. symmetry. apply N.div_mod. discriminate.
Qed.

Lemma pack_unpack6 v : v < P30 -> engine_x 0 (unpack6 v) = v.
Proof.
  intros Hv. unfold unpack6, engine_x. cbn [fold_left].
  assert (B : forall k, k <= 6 -> v / 2 ^ (5 * k) < 2 ^ (30 - 5 * k)).
  { intros k Hk. apply N.div_lt_upper_bound; [apply N.pow_nonzero; discriminate|].
    rewrite <- N.pow_add_r. replace (5 * k + (30 - 5 * k)) with 30 by lia. exact Hv. }
  assert (S : forall k, k < 5 -> step_x (v / 2 ^ (5 * (k + 1))) ((v / 2 ^ (5 * k)) mod 32) = v / 2 ^ (5 * k)).
  { intros k Hk. rewrite step_x_small; [apply div_step| |apply N.mod_lt; discriminate].
    eapply N.lt_le_trans; [apply B; lia|]. apply N.pow_le_mono_r; [discriminate|lia]. }
  rewrite !unpack_div.
  rewrite (step_x_small 0) by (try apply N.mod_lt; try reflexivity; discriminate).
  change (32 * 0 + (v / 2 ^ (5 * 5)) mod 32) with ((v / 2 ^ (5 * 5)) mod 32).
  rewrite (N.mod_small (v / 2 ^ (5 * 5))) by (apply (B 5); lia).
  change (v / 2 ^ (5 * 5)) with (v / 2 ^ (5 * (4 + 1))). rewrite (S 4) by reflexivity.
  change (v / 2 ^ (5 * 4)) with (v / 2 ^ (5 * (3 + 1))). rewrite (S 3) by reflexivity.
  change (v / 2 ^ (5 * 3)) with (v / 2 ^ (5 * (2 + 1))). rewrite (S 2) by reflexivity.
  change (v / 2 ^ (5 * 2)) with (v / 2 ^ (5 * (1 + 1))). rewrite (S 1) by reflexivity.
  change (v / 2 ^ (5 * 1)) with (v / 2 ^ (5 * (0 + 1))). rewrite (S 0) by reflexivity.
  change (2 ^ (5 * 0)) with 1. apply N.div_1_r.
Qed.

(* ---------- the checksum verifies ---------- *)
Lemma engine_unpack6 r w : w < P30 -> engine r (unpack6 w) = N.lxor (engine_x r (zeros 6)) w.
Proof.
  intros Hw. rewrite engine_x_eq by apply unpack6_wf.
  rewrite <- (N.lxor_0_r r) at 1. rewrite <- (zipx_zeros_l (unpack6 w)).
  rewrite engine_x_lxor by reflexivity. rewrite pack_unpack6 by exact Hw. reflexivity.
Qed.

Lemma target_lt c : target c < P30.
Proof. destruct c; reflexivity. Qed.

Lemma engine_app r a b : engine r (a ++ b) = engine (engine r a) b.
Proof. apply fold_left_app. Qed.

Lemma engine_x_zeros6_lt r : engine_x r (zeros 6) < P30.
Proof.
  change (zeros 6) with (zeros 5 ++ [0]). unfold engine_x. rewrite fold_left_app. cbn [fold_left].
  apply step_x_lt. reflexivity.
Qed.

(* the mathematical core: feeding the six checksum symbols after the data brings the residue to the target,
   from ANY engine state r1 (no hypothesis on what was fed before) *)
Lemma checksum_residue c r1 :
  engine r1 (unpack6 (engine r1 (unpack6 (target c)))) = target c.
Proof.
  set (r2 := engine r1 (unpack6 (target c))).
  assert (E2 : r2 = N.lxor (engine_x r1 (zeros 6)) (target c)) by (apply engine_unpack6, target_lt).
  assert (H2 : r2 < P30).
  { rewrite E2. apply lxor_lt; [apply engine_x_zeros6_lt|apply target_lt]. }
  rewrite engine_unpack6 by exact H2. rewrite E2, <- N.lxor_assoc, N.lxor_nilpotent. apply N.lxor_0_l.
Qed.

Lemma checksum_verifies_l c h d : polymod (hrp_expand h ++ d ++ create_checksum c h d) = target c.
Proof.
  unfold polymod, create_checksum. rewrite !engine_app. apply checksum_residue.
Qed.

(* ---------- the syndrome of a single substitution ---------- *)
Lemma gmask_low5 : forall t, t < 32 -> t <> 0 -> N.land (gmask t) 31 <> 0.
Proof.
  intros t Ht Hn. 
  assert (H : implb (negb (t =? 0)) (negb (N.land (gmask t) 31 =? 0)) = true).
  { clear Hn. revert t Ht. apply (sweep (fun t => implb (negb (t =? 0)) (negb (N.land (gmask t) 31 =? 0))) 32). vm_compute. reflexivity. }
  apply N.eqb_neq in Hn. rewrite Hn in H. cbn in H. apply N.eqb_neq. apply negb_true_iff. exact H.
Qed.

(* step with symbol 0 has a trivial kernel on 30-bit states *)
Lemma step0_kernel s : s < P30 -> s <> 0 -> step_x s 0 <> 0.
Proof.
  intros Hs Hn. unfold step_x. rewrite N.lxor_0_r.
  destruct (N.eq_dec (unpack s 5) 0) as [U|U].
  - rewrite U. change (gmask 0) with 0. rewrite N.lxor_0_r.
    assert (Hs25 : s < 2 ^ 25).
    { rewrite unpack_div in U. change (5 * 5) with 25 in U.
      assert (s / 2 ^ 25 < 32) by (apply N.div_lt_upper_bound; [discriminate|exact Hs]).
      rewrite N.mod_small in U by assumption.
      apply N.div_small_iff in U; [exact U|discriminate]. }
    unfold M25. change 0x1ffffff with (N.ones 25). rewrite lt_pow2_land by exact Hs25.
    rewrite N.shiftl_mul_pow2. intros E. apply N.mul_eq_0 in E as [E|E]; [contradiction|discriminate].
  - intros E. apply (gmask_low5 (unpack s 5) (unpack_lt s 5) U).
    apply N.lxor_eq in E. rewrite <- E. change 31 with (N.ones 5).
    apply N.bits_inj. intros n. rewrite N.land_spec, N.bits_0.
    destruct (N.lt_ge_cases n 5) as [Hn5|Hn5].
    + rewrite N.shiftl_spec_low by exact Hn5. reflexivity.
    + rewrite N.ones_spec_high by exact Hn5. apply andb_false_r.
Qed.

Lemma engine0_zeros s k : s < P30 -> s <> 0 -> engine_x s (zeros k) <> 0 /\ engine_x s (zeros k) < P30.
Proof.
  revert s. induction k as [|k IH]; intros s Hs Hn; [split; assumption|].
  cbn [repeat engine_x fold_left]. apply IH; [apply step_x_lt; reflexivity|apply step0_kernel; assumption].
Qed.

(* two symbol streams that differ in exactly one symbol leave different residues (from any state) *)
Lemma single_subst r x y post : x < 32 -> y < 32 -> Forall (fun e => e < 32) post ->
  engine r (x :: post) = engine r (y :: post) -> x = y.
Proof.
  intros Hx Hy Hp E. cbn [engine fold_left] in E. fold (engine (input_fe r x) post) in E. fold (engine (input_fe r y) post) in E.
  rewrite !engine_x_eq, !input_fe_x in E by assumption.
  apply N.lxor_eq_0_iff in E. rewrite <- engine_x_lxor, zipx_self in E by reflexivity.
  rewrite <- step_x_lxor, N.lxor_nilpotent in E.
  destruct (N.eq_dec x y) as [e|Hne]; [exact e|exfalso].
  assert (D : N.lxor x y <> 0) by (intros D; apply N.lxor_eq in D; contradiction).
  assert (D32 : N.lxor x y < 32) by (apply (lxor_lt x y 5); assumption).
  rewrite (step_x_small 0) in E by (try exact D32; reflexivity).
  change (32 * 0 + N.lxor x y) with (N.lxor x y) in E.
  destruct (engine0_zeros (N.lxor x y) (length post)) as [H _]; [|exact D|contradiction].
  eapply N.lt_trans; [exact D32|reflexivity].
Qed.

(* Hamming distance (extra elements count as differences) *)
Fixpoint hamming (l1 l2 : list N) : nat :=
  match l1, l2 with
  | [], l | l, [] => length l
  | x :: l1', y :: l2' => (if x =? y then 0 else 1) + hamming l1' l2'
  end.

Lemma hamming_0 l1 : forall l2, hamming l1 l2 = 0%nat -> l1 = l2.
Proof.
  induction l1 as [|x l1 IH]; intros [|y l2] H; cbn in H; try discriminate; [reflexivity|].
  destruct (N.eqb_spec x y) as [->|]; [|discriminate]. f_equal. apply IH. exact H.
Qed.

Lemma syndrome r l1 : forall l2, length l1 = length l2 ->
  Forall (fun e => e < 32) l1 -> Forall (fun e => e < 32) l2 ->
  (hamming l1 l2 <= 1)%nat -> engine r l1 = engine r l2 -> l1 = l2.
Proof.
  revert r. induction l1 as [|x l1 IH]; intros r [|y l2] HL H1 H2 HH E; try discriminate; [reflexivity|].
  inversion H1 as [|? ? Hx H1']; subst. inversion H2 as [|? ? Hy H2']; subst.
  cbn [hamming] in HH. destruct (N.eqb_spec x y) as [->|Hne].
  - f_equal. apply (IH (input_fe r y)); [cbn in HL; congruence|assumption|assumption|exact HH|exact E].
  - assert (l1 = l2) by (apply hamming_0; lia). subst l2.
    exfalso. apply Hne. eapply single_subst; eassumption.
Qed.

(* ====================================================================================== *)
(* Lemmas 3: encode then decode; MockApiBech                                              *)
(* ====================================================================================== *)
(* ---------- characters ---------- *)
Lemma text_eqb_eq a b : text_eqb a b = true <-> a = b.
Proof. apply list_eqb_eq. apply N.eqb_eq. Qed.
Lemma text_eqb_refl a : text_eqb a a = true.
Proof. apply text_eqb_eq. reflexivity. Qed.

Lemma from_to_char x : x < 32 -> from_char (to_char x) = Some x.
Proof.
  intros H.
  assert (E : match from_char (to_char x) with Some y => y =? x | None => false end = true).
  { revert x H. apply (sweep (fun x => match from_char (to_char x) with Some y => y =? x | None => false end) 32).
    vm_compute. reflexivity. }
  destruct (from_char (to_char x)) as [y|]; [|discriminate]. apply N.eqb_eq in E. congruence.
Qed.

Lemma to_char_inj x y : x < 32 -> y < 32 -> to_char x = to_char y -> x = y.
Proof.
  intros Hx Hy E. pose proof (from_to_char x Hx) as A. pose proof (from_to_char y Hy) as B.
  rewrite E in A. congruence.
Qed.

(* every character to_char can produce: in the charset or the default 0 *)
Lemma to_char_cases x : In (to_char x) (0 :: charset).
Proof.
  unfold to_char. destruct (nth_in_or_default (N.to_nat x) charset 0) as [H|H]; [right; exact H|left; symmetry; exact H].
Qed.
Lemma to_char_prop (P : N -> bool) : forallb P (0 :: charset) = true -> forall x, P (to_char x) = true.
Proof. intros H x. rewrite forallb_forall in H. apply H, to_char_cases. Qed.

Lemma to_char_not_sep x : (to_char x =? 49) = false.
Proof. apply negb_true_iff. revert x. apply (to_char_prop (fun c => negb (c =? 49))). reflexivity. Qed.
Lemma to_char_not_upper x : is_upper (to_char x) = false.
Proof. apply negb_true_iff. revert x. apply (to_char_prop (fun c => negb (is_upper c))). reflexivity. Qed.

Lemma map_opt_from_to l : Forall (fun e => e < 32) l -> map_opt from_char (map to_char l) = Some l.
Proof.
  induction 1 as [|x l Hx _ IH]; [reflexivity|]. cbn [map map_opt]. rewrite from_to_char, IH by exact Hx. reflexivity.
Qed.

Lemma map_to_char_inj l1 : forall l2, Forall (fun e => e < 32) l1 -> Forall (fun e => e < 32) l2 ->
  map to_char l1 = map to_char l2 -> l1 = l2.
Proof.
  induction l1 as [|x l1 IH]; intros [|y l2] H1 H2 E; try discriminate; [reflexivity|].
  inversion H1; inversion H2; subst. cbn [map] in E. injection E as E1 E2.
  f_equal; [apply to_char_inj; assumption|apply IH; assumption].
Qed.

Lemma is_upper_lower c : is_upper (lower c) = false.
Proof.
  unfold lower. destruct (is_upper c) eqn:U; [|exact U].
  unfold is_upper in *. apply andb_true_iff in U as [U1 U2]. apply N.leb_le in U1, U2.
  apply andb_false_iff. right. apply N.leb_gt. lia.
Qed.
Lemma lower_idem c : lower (lower c) = lower c.
Proof. unfold lower at 1. rewrite is_upper_lower. reflexivity. Qed.
Lemma map_lower_idem p : map lower (map lower p) = map lower p.
Proof. rewrite map_map. apply map_ext, lower_idem. Qed.
Lemma hrp_char_ok_lower c : hrp_char_ok c = true -> hrp_char_ok (lower c) = true.
Proof.
  unfold lower. destruct (is_upper c) eqn:U; [|auto]. intros _.
  unfold is_upper in U. apply andb_true_iff in U as [U1 U2]. apply N.leb_le in U1, U2.
  unfold hrp_char_ok. apply andb_true_iff. split; apply N.leb_le; lia.
Qed.

Lemma existsb_false {A} (f : A -> bool) l : (forall x, f x = false) -> existsb f l = false.
Proof. intros H. induction l as [|x l IH]; [reflexivity|]. cbn. rewrite H, IH. reflexivity. Qed.

Lemma no_upper_lower p : existsb is_upper (map lower p) = false.
Proof. induction p as [|c p IH]; [reflexivity|]. cbn [map existsb]. rewrite is_upper_lower, IH. reflexivity. Qed.
Lemma no_upper_chars l : existsb is_upper (map to_char l) = false.
Proof. induction l as [|c l IH]; [reflexivity|]. cbn [map existsb]. rewrite to_char_not_upper, IH. reflexivity. Qed.

Lemma hrp_ok_lower p : hrp_ok p = true -> hrp_ok (map lower p) = true.
Proof.
  unfold hrp_ok, nlen. rewrite map_length, no_upper_lower. cbn [andb negb].
  intros H. apply andb_true_iff in H as [H _]. apply andb_true_iff in H as [H H3]. rewrite H. cbn [andb].
  rewrite andb_true_r. rewrite forallb_forall in *. intros x Hx. apply in_map_iff in Hx as (c & <- & Hc).
  apply hrp_char_ok_lower, H3, Hc.
Qed.

Lemma hrp_expand_lower p : hrp_expand (map lower p) = hrp_expand p.
Proof.
  unfold hrp_expand. rewrite !map_map. f_equal; [|f_equal]; apply map_ext; intros c; rewrite lower_idem; reflexivity.
Qed.

Lemma hrp_eqb_lower_r p q : hrp_eqb p (map lower q) = hrp_eqb p q.
Proof. unfold hrp_eqb. rewrite map_lower_idem. reflexivity. Qed.
Lemma hrp_eqb_refl p : hrp_eqb p p = true.
Proof. apply text_eqb_refl. Qed.
Lemma hrp_eqb_sym p q : hrp_eqb p q = hrp_eqb q p.
Proof.
  unfold hrp_eqb. destruct (text_eqb (map lower p) (map lower q)) eqn:E.
  - apply text_eqb_eq in E. rewrite E. symmetry. apply text_eqb_refl.
  - symmetry. apply not_true_is_false. intros E'. apply text_eqb_eq in E'. rewrite E', text_eqb_refl in E. discriminate.
Qed.

(* ---------- the separator ---------- *)
Lemma split_sep_none d : existsb (fun c => c =? 49) d = false -> split_sep d = None.
Proof.
  induction d as [|c d IH]; [reflexivity|]. cbn [existsb split_sep]. intros H.
  apply orb_false_iff in H as [H1 H2]. rewrite IH, H1 by exact H2. reflexivity.
Qed.
Lemma split_sep_app h d : existsb (fun c => c =? 49) d = false -> split_sep (h ++ 49 :: d) = Some (h, d).
Proof.
  intros H. induction h as [|c h IH]; cbn [app split_sep].
  - rewrite split_sep_none by exact H. reflexivity.
  - rewrite IH. reflexivity.
Qed.
Lemma no_sep_chars l : existsb (fun c => c =? 49) (map to_char l) = false.
Proof. induction l as [|c l IH]; [reflexivity|]. cbn [map existsb]. rewrite to_char_not_sep, IH. reflexivity. Qed.

(* split_sep really splits *)
Lemma split_sep_some s h d : split_sep s = Some (h, d) -> s = h ++ 49 :: d.
Proof.
  revert h d. induction s as [|c s IH]; intros h d H; [discriminate|]. cbn [split_sep] in H.
  destruct (split_sep s) as [[h' d']|].
  - injection H as <- <-. cbn [app]. f_equal. apply IH. reflexivity.
  - destruct (N.eqb_spec c 49) as [->|]; [|discriminate]. injection H as <- <-. reflexivity.
Qed.

(* ---------- encode, then decode ---------- *)
Lemma create_checksum_wf c h d : Forall (fun e => e < 32) (create_checksum c h d).
Proof. apply unpack6_wf. Qed.
Lemma create_checksum_length c h d : length (create_checksum c h d) = 6%nat.
Proof. reflexivity. Qed.

Lemma encode_shape c p b s : encode c p b = Some s ->
  s = map lower p ++ 49 :: map to_char (bytes_to_fes b ++ create_checksum c p (bytes_to_fes b)) /\
  nlen s <= 1023.
Proof.
  unfold encode. destruct (N.ltb_spec 1023 (nlen p + 1 + nlen (bytes_to_fes b) + 6)) as [H|H]; [discriminate|].
  intros E. injection E as <-. split; [reflexivity|].
  unfold nlen in *. rewrite !app_length, map_length. cbn [length]. rewrite map_length, app_length, create_checksum_length. lia.
Qed.

Lemma firstn_app_exact {A} (l r : list A) : firstn (length (l ++ r) - length r) (l ++ r) = l.
Proof.
  rewrite app_length. replace (length l + length r - length r)%nat with (length l) by lia.
  rewrite firstn_app, firstn_all, Nat.sub_diag. cbn. apply app_nil_r.
Qed.

Lemma encode_decode c p b s : hrp_ok p = true -> encode c p b = Some s ->
  decode_checked c s = Some (map lower p, bytes_to_fes b).
Proof.
  intros Hp E. destruct (encode_shape c p b s E) as [-> HL].
  set (fes := bytes_to_fes b) in *. set (cs := create_checksum c p fes) in *.
  assert (Wf : Forall (fun e => e < 32) (fes ++ cs)).
  { apply Forall_app. split; [apply bytes_to_fes_wf|apply create_checksum_wf]. }
  unfold decode_checked.
  rewrite split_sep_app by apply no_sep_chars.
  rewrite map_opt_from_to by exact Wf.
  assert (M : mixed_case (map lower p ++ 49 :: map to_char (fes ++ cs)) = false).
  { unfold mixed_case. rewrite existsb_app. cbn [existsb]. rewrite no_upper_lower, no_upper_chars. reflexivity. }
  rewrite M. rewrite hrp_ok_lower by exact Hp. cbn [negb].
  destruct (N.ltb_spec 1023 (nlen (map lower p ++ 49 :: map to_char (fes ++ cs)))) as [H|_]; [lia|].
  assert (L6 : nlen (fes ++ cs) <? 6 = false).
  { apply N.ltb_ge. unfold nlen. rewrite app_length. unfold cs. rewrite create_checksum_length. lia. }
  rewrite L6. rewrite hrp_expand_lower.
  assert (R : engine (polymod (hrp_expand p)) (fes ++ cs) = target c).
  { pose proof (checksum_verifies_l c p fes) as V. unfold polymod in *. rewrite engine_app in V. exact V. }
  rewrite R, N.eqb_refl. f_equal. f_equal.
  replace 6%nat with (length cs) by reflexivity. apply firstn_app_exact.
Qed.

(* ---------- MockApiBech ---------- *)
Lemma humanize_canonicalize_l c p b s : wf_bytes b = true -> humanize c p b = Ok s -> canonicalize c p s = Ok b.
Proof.
  intros Hb. unfold humanize. destruct (hrp_ok p) eqn:Hp; [|discriminate].
  destruct (encode c p b) as [s'|] eqn:E; [|discriminate]. intros H. injection H as <-.
  unfold canonicalize. rewrite (encode_decode c p b s' Hp E), Hp, hrp_eqb_lower_r, hrp_eqb_refl. cbn [andb].
  rewrite convert_roundtrip_l by exact Hb. reflexivity.
Qed.

Lemma humanize_validate_l c p b s : wf_bytes b = true -> humanize c p b = Ok s -> validate c p s = Ok s.
Proof.
  intros Hb H. unfold validate, validate_from. rewrite (humanize_canonicalize_l c p b s Hb H), H, text_eqb_refl. reflexivity.
Qed.

Lemma humanize_ok_iff_l c p b :
  (exists s, humanize c p b = Ok s) <-> hrp_ok p = true /\ nlen p + 7 + (8 * nlen b + 4) / 5 <= 1023.
Proof.
  unfold humanize, encode. rewrite bytes_to_fes_length. split.
  - intros [s H]. destruct (hrp_ok p); [|discriminate]. split; [reflexivity|].
    destruct (N.ltb_spec 1023 (nlen p + 1 + (8 * nlen b + 4) / 5 + 6)); [discriminate|lia].
  - intros [-> H]. destruct (N.ltb_spec 1023 (nlen p + 1 + (8 * nlen b + 4) / 5 + 6)); [lia|]. eexists. reflexivity.
Qed.

Lemma hrp_ok_len p : hrp_ok p = true -> 1 <= nlen p <= 83.
Proof.
  unfold hrp_ok. intros H. apply andb_true_iff in H as [H _]. apply andb_true_iff in H as [H _].
  apply andb_true_iff in H as [H1 H2]. apply N.leb_le in H1, H2. lia.
Qed.

(* every canonical string up to 583 bytes can be humanized under every valid prefix; 583 is exact
   for the longest (83-character) prefix *)
Lemma humanize_total_l c p b : hrp_ok p = true -> nlen b <= 583 -> exists s, humanize c p b = Ok s.
Proof.
  intros Hp Hb. apply humanize_ok_iff_l. split; [exact Hp|]. pose proof (hrp_ok_len p Hp).
  assert ((8 * nlen b + 4) / 5 <= 933).
  { apply N.lt_succ_r. apply N.div_lt_upper_bound; [discriminate|]. lia. }
  lia.
Qed.

Lemma validate_shape c p s s' : validate c p s = Ok s' ->
  s' = s /\ exists b, wf_bytes b = true /\ canonicalize c p s = Ok b /\ humanize c p b = Ok s.
Proof.
  unfold validate, validate_from. destruct (canonicalize c p s) as [b| |] eqn:C; try discriminate.
  destruct (humanize c p b) as [n| |] eqn:H; try discriminate.
  destruct (text_eqb s n) eqn:E; [|discriminate]. apply text_eqb_eq in E. subst n.
  intros X. injection X as <-. split; [reflexivity|]. exists b. repeat split; try assumption.
  unfold canonicalize in C. destruct (decode_checked c s) as [[h syms]|]; [|discriminate].
  destruct (hrp_ok p && hrp_eqb p h); [|discriminate]. injection C as <-. apply fes_to_bytes_wf.
Qed.

Lemma validate_iff_encoding_l c p s : validate c p s = Ok s <-> exists b, wf_bytes b = true /\ humanize c p b = Ok s.
Proof.
  split.
  - intros H. destruct (validate_shape c p s s H) as (_ & b & Hb & _ & Hh). exists b. split; assumption.
  - intros (b & Hb & Hh). eapply humanize_validate_l; eassumption.
Qed.

Lemma validate_not_panic c p s : validate c p s <> Panic.
Proof.
  unfold validate, validate_from. destruct (canonicalize c p s); try discriminate.
  destruct (humanize c p a); try discriminate. destruct (text_eqb s a0); discriminate.
Qed.
Lemma canonicalize_not_panic c p s : canonicalize c p s <> Panic.
Proof. unfold canonicalize. destruct (decode_checked c s) as [[h y]|]; [destruct (hrp_ok p && hrp_eqb p h)|]; discriminate. Qed.
Lemma humanize_not_panic c p b : humanize c p b <> Panic.
Proof. unfold humanize. destruct (hrp_ok p); [destruct (encode c p b)|]; discriminate. Qed.

Lemma validate_err_or_ok c p s : validate c p s = Err \/ validate c p s = Ok s.
Proof.
  destruct (validate c p s) as [s'| |] eqn:V; [right|left; reflexivity|exfalso; eapply validate_not_panic; eassumption].
  apply validate_shape in V as [-> _]. reflexivity.
Qed.

(* other prefix *)
Lemma other_prefix_l c p p2 b s : humanize c p2 b = Ok s -> hrp_eqb p p2 = false ->
  canonicalize c p s = Err /\ validate c p s = Err.
Proof.
  unfold humanize. destruct (hrp_ok p2) eqn:Hp2; [|discriminate].
  destruct (encode c p2 b) as [s'|] eqn:E; [|discriminate]. intros H Hne. injection H as <-.
  assert (C : canonicalize c p s' = Err).
  { unfold canonicalize. rewrite (encode_decode c p2 b s' Hp2 E), hrp_eqb_lower_r, Hne, andb_false_r. reflexivity. }
  split; [exact C|]. unfold validate. rewrite C. reflexivity.
Qed.

(* other variant: no string decodes under both *)
Lemma decode_variant c c' s x y : decode_checked c s = Some x -> decode_checked c' s = Some y -> c = c'.
Proof.
  unfold decode_checked. destruct (split_sep s) as [[h d]|]; [|discriminate].
  destruct (map_opt from_char d) as [syms|]; [|discriminate].
  destruct (mixed_case s); [discriminate|]. destruct (negb (hrp_ok h)); [discriminate|].
  destruct (1023 <? nlen s); [discriminate|]. destruct (nlen syms <? 6); [discriminate|].
  destruct (N.eqb_spec (engine (polymod (hrp_expand h)) syms) (target c)) as [E1|]; [|discriminate].
  destruct (N.eqb_spec (engine (polymod (hrp_expand h)) syms) (target c')) as [E2|]; [|discriminate].
  intros _ _. rewrite E1 in E2. destruct c, c'; try reflexivity; discriminate.
Qed.

Lemma other_variant_l c c' p b s : c <> c' -> humanize c' p b = Ok s ->
  canonicalize c p s = Err /\ validate c p s = Err.
Proof.
  intros Hne. unfold humanize. destruct (hrp_ok p) eqn:Hp; [|discriminate].
  destruct (encode c' p b) as [s'|] eqn:E; [|discriminate]. intros H. injection H as <-.
  assert (C : canonicalize c p s' = Err).
  { unfold canonicalize. destruct (decode_checked c s') as [[h y]|] eqn:D; [|reflexivity].
    exfalso. apply Hne. eapply decode_variant; [exact D|apply (encode_decode c' p b s' Hp E)]. }
  split; [exact C|]. unfold validate. rewrite C. reflexivity.
Qed.

(* mixed case *)
Lemma decode_mixed c s : mixed_case s = true -> decode_checked c s = None.
Proof.
  intros M. unfold decode_checked. destruct (split_sep s) as [[h d]|]; [|reflexivity].
  destruct (map_opt from_char d); [|reflexivity]. rewrite M. reflexivity.
Qed.
Lemma mixed_case_l c p s : mixed_case s = true -> canonicalize c p s = Err /\ validate c p s = Err.
Proof.
  intros M. assert (C : canonicalize c p s = Err) by (unfold canonicalize; rewrite decode_mixed by exact M; reflexivity).
  split; [exact C|]. unfold validate. rewrite C. reflexivity.
Qed.

(* ---------- single-character corruption ---------- *)
Lemma hamming_app a l1 l2 : hamming (a ++ l1) (a ++ l2) = hamming l1 l2.
Proof. induction a as [|x a IH]; [reflexivity|]. cbn [app hamming]. rewrite N.eqb_refl, IH. reflexivity. Qed.

Lemma hamming_map_to_char l1 : forall l2, Forall (fun e => e < 32) l1 -> Forall (fun e => e < 32) l2 ->
  length l1 = length l2 -> hamming (map to_char l1) (map to_char l2) = hamming l1 l2.
Proof.
  induction l1 as [|x l1 IH]; intros [|y l2] H1 H2 HL; try discriminate; [reflexivity|].
  inversion H1; inversion H2; subst. cbn [map hamming]. rewrite IH by (try assumption; cbn in HL; congruence).
  f_equal. destruct (N.eqb_spec x y) as [->|Hne]; [rewrite N.eqb_refl; reflexivity|].
  destruct (N.eqb_spec (to_char x) (to_char y)) as [E|]; [|reflexivity]. exfalso. apply Hne, to_char_inj; assumption.
Qed.

(* two normal forms (encodings under the same variant and prefix) at Hamming distance <= 1 are equal *)
Lemma encodings_apart c p b1 b2 s1 s2 : encode c p b1 = Some s1 -> encode c p b2 = Some s2 ->
  length s1 = length s2 -> (hamming s1 s2 <= 1)%nat -> s1 = s2.
Proof.
  intros E1 E2 HL HH. destruct (encode_shape _ _ _ _ E1) as [-> _]. destruct (encode_shape _ _ _ _ E2) as [-> _].
  set (D1 := bytes_to_fes b1 ++ create_checksum c p (bytes_to_fes b1)) in *.
  set (D2 := bytes_to_fes b2 ++ create_checksum c p (bytes_to_fes b2)) in *.
  assert (W1 : Forall (fun e => e < 32) D1) by (apply Forall_app; split; [apply bytes_to_fes_wf|apply create_checksum_wf]).
  assert (W2 : Forall (fun e => e < 32) D2) by (apply Forall_app; split; [apply bytes_to_fes_wf|apply create_checksum_wf]).
  assert (L : length D1 = length D2).
  { rewrite !app_length in HL. cbn [length] in HL. rewrite !map_length in HL. lia. }
  change (map lower p ++ 49 :: map to_char D1) with (map lower p ++ [49] ++ map to_char D1) in *.
  change (map lower p ++ 49 :: map to_char D2) with (map lower p ++ [49] ++ map to_char D2) in *.
  rewrite !app_assoc in *. rewrite hamming_app, hamming_map_to_char in HH by assumption.
  f_equal. f_equal. apply (syndrome (polymod (hrp_expand p))); try assumption.
  pose proof (checksum_verifies_l c p (bytes_to_fes b1)) as V1. pose proof (checksum_verifies_l c p (bytes_to_fes b2)) as V2.
  unfold polymod in *. rewrite engine_app in V1, V2. fold D1 in V1. fold D2 in V2. congruence.
Qed.

Lemma hamming_length_neq : forall l1 l2, length l1 <> length l2 -> (hamming l1 l2 >= 1)%nat.
Proof.
  induction l1 as [|x l1 IH]; intros [|y l2] H; cbn [hamming length] in *; try lia.
  specialize (IH l2). lia.
Qed.

Lemma validate_encoding c p s : validate c p s = Ok s -> exists b, encode c p b = Some s.
Proof.
  intros V. apply validate_shape in V as (_ & b & _ & _ & H). exists b. unfold humanize in H.
  destruct (hrp_ok p); [|discriminate]. destruct (encode c p b); [|discriminate]. congruence.
Qed.

(* any string at Hamming distance 1 (same length) from a valid address is rejected *)
Lemma near_valid_rejected c p s s2 : validate c p s = Ok s -> length s2 = length s ->
  (hamming s s2 <= 1)%nat -> s2 <> s -> validate c p s2 = Err.
Proof.
  intros V HL HH Hne. destruct (validate_err_or_ok c p s2) as [E|V2]; [exact E|exfalso].
  destruct (validate_encoding _ _ _ V) as [b1 E1]. destruct (validate_encoding _ _ _ V2) as [b2 E2].
  apply Hne. symmetry. eapply encodings_apart; eauto.
Qed.

(* ====================================================================================== *)
(* Lemmas 4: substitutions, addr_make, the default codec                                  *)
(* ====================================================================================== *)
Fixpoint set_nth {A} (i : nat) (x : A) (l : list A) : list A :=
  match l, i with
  | [], _ => []
  | _ :: r, O => x :: r
  | y :: r, S i' => y :: set_nth i' x r
  end.

Lemma set_nth_length {A} i (x : A) l : length (set_nth i x l) = length l.
Proof. revert i; induction l as [|y l IH]; intros [|i]; cbn; try reflexivity. rewrite IH. reflexivity. Qed.

Lemma hamming_refl l : hamming l l = 0%nat.
Proof. induction l as [|x l IH]; [reflexivity|]. cbn [hamming]. rewrite N.eqb_refl, IH. reflexivity. Qed.

Lemma hamming_set_nth i x l : (hamming l (set_nth i x l) <= 1)%nat.
Proof.
  revert i; induction l as [|y l IH]; intros [|i]; cbn [set_nth hamming length]; try lia.
  - rewrite hamming_refl. destruct (y =? x); lia.
  - rewrite N.eqb_refl. apply IH.
Qed.

Lemma set_nth_neq i x l : (i < length l)%nat -> nth i l 0 <> x -> set_nth i x l <> l.
Proof.
  revert i; induction l as [|y l IH]; intros [|i] Hi Hx; cbn [set_nth nth length] in *; try lia.
  - intros E. injection E as E. congruence.
  - intros E. injection E as E. revert E. apply IH; [lia|exact Hx].
Qed.

Lemma substitution_rejected_l c p s s' i x : validate c p s = Ok s' -> (i < length s)%nat -> nth i s 0 <> x ->
  validate c p (set_nth i x s) = Err.
Proof.
  intros V Hi Hx. destruct (validate_shape c p s s' V) as [-> _].
  apply (near_valid_rejected c p s); [exact V|apply set_nth_length|apply hamming_set_nth|apply set_nth_neq; assumption].
Qed.

(* ---------- addr_make ---------- *)
Lemma addr_make_humanize c p d s : addr_make c p d = Ok s <-> humanize c p d = Ok s.
Proof.
  unfold addr_make, humanize. destruct (hrp_ok p); [|split; discriminate].
  destruct (encode c p d); split; try discriminate; auto.
Qed.

Lemma addr_make_valid_l c p d : hrp_ok p = true -> wf_bytes d = true -> nlen d <= 583 ->
  exists s, addr_make c p d = Ok s /\ validate c p s = Ok s /\ canonicalize c p s = Ok d.
Proof.
  intros Hp Hd HL. destruct (humanize_total_l c p d Hp HL) as [s H]. exists s.
  split; [apply addr_make_humanize, H|]. split; [eapply humanize_validate_l|eapply humanize_canonicalize_l]; eassumption.
Qed.

Lemma humanize_decode c p b s : humanize c p b = Ok s -> decode_checked c s = Some (map lower p, bytes_to_fes b).
Proof.
  unfold humanize. destruct (hrp_ok p) eqn:Hp; [|discriminate]. destruct (encode c p b) as [s'|] eqn:E; [|discriminate].
  intros H. injection H as <-. apply encode_decode; assumption.
Qed.

Lemma humanize_injective c p1 p2 b1 b2 s : wf_bytes b1 = true -> wf_bytes b2 = true ->
  humanize c p1 b1 = Ok s -> humanize c p2 b2 = Ok s -> hrp_eqb p1 p2 = true /\ b1 = b2.
Proof.
  intros W1 W2 H1 H2. pose proof (humanize_decode _ _ _ _ H1) as D1. pose proof (humanize_decode _ _ _ _ H2) as D2.
  rewrite D1 in D2. injection D2 as Ep Ef. split.
  - unfold hrp_eqb. rewrite Ep. apply text_eqb_refl.
  - rewrite <- (convert_roundtrip_l b1 W1), <- (convert_roundtrip_l b2 W2), Ef. reflexivity.
Qed.

Lemma addr_make_injective_l c p1 p2 d1 d2 s : wf_bytes d1 = true -> wf_bytes d2 = true ->
  addr_make c p1 d1 = Ok s -> addr_make c p2 d2 = Ok s -> hrp_eqb p1 p2 = true /\ d1 = d2.
Proof. intros W1 W2 H1 H2. apply addr_make_humanize in H1, H2. eapply humanize_injective; eassumption. Qed.

(* the literal reading "different prefixes give different addresses" fails for prefixes that differ
   only in case (an HRP is case-insensitive): "A" and "a" *)
Lemma addr_make_prefix_case_l : exists p1 p2 d s, p1 <> p2 /\ addr_make Bech32 p1 d = Ok s /\ addr_make Bech32 p2 d = Ok s.
Proof. exists [65], [97], [0], [97; 49; 113; 113; 113; 100; 56; 55; 99; 113]. split; [discriminate|]. split; vm_compute; reflexivity. Qed.

(* ---------- the default codec (cosmwasm_std MockApi with prefix p) ---------- *)
Lemma std_addr_make_eq p d : std_addr_make p d = addr_make Bech32 p d.
Proof. reflexivity. Qed.

Lemma std_humanize_ok p b s : std_humanize p b = Ok s <-> len_ok b = true /\ humanize Bech32 p b = Ok s.
Proof.
  unfold std_humanize, humanize. destruct (len_ok b); cbn [negb]; [|split; [discriminate|intros [? _]; discriminate]].
  destruct (hrp_ok p); cbn [negb]; [|split; [discriminate|intros [_ ?]; discriminate]].
  destruct (encode Bech32 p b); split; try discriminate; try (intros [_ ?]; discriminate); auto. intros [_ H]. exact H.
Qed.

Lemma std_canonicalize_ok p s b : std_canonicalize p s = Ok b <->
  exists h syms, decode_checked Bech32 s = Some (h, syms) /\ hrp_eqb h p = true /\ b = fes_to_bytes syms /\ len_ok b = true.
Proof.
  unfold std_canonicalize. destruct (decode_checked Bech32 s) as [[h syms]|].
  - destruct (hrp_eqb h p) eqn:E; cbn [negb].
    + destruct (len_ok (fes_to_bytes syms)) eqn:L; split.
      * intros H. injection H as <-. exists h, syms. auto.
      * intros (h' & syms' & D & _ & -> & _). injection D as <- <-. reflexivity.
      * discriminate.
      * intros (h' & syms' & D & _ & -> & L'). injection D as <- <-. congruence.
    + split; [discriminate|]. intros (h' & syms' & D & E' & _). injection D as <- <-. congruence.
  - split; [discriminate|]. intros (h' & syms' & D & _). discriminate.
Qed.

Lemma std_humanize_canonicalize_l p b s : wf_bytes b = true -> std_humanize p b = Ok s -> std_canonicalize p s = Ok b.
Proof.
  intros Wb H. apply std_humanize_ok in H as [L H]. apply std_canonicalize_ok.
  exists (map lower p), (bytes_to_fes b). rewrite (humanize_decode _ _ _ _ H).
  rewrite hrp_eqb_sym, hrp_eqb_lower_r, hrp_eqb_refl, convert_roundtrip_l by exact Wb. auto.
Qed.

Lemma std_humanize_validate_l p b s : wf_bytes b = true -> std_humanize p b = Ok s -> std_validate p s = Ok s.
Proof.
  intros Wb H. unfold std_validate, std_validate_from. rewrite (std_humanize_canonicalize_l p b s Wb H), H, text_eqb_refl. reflexivity.
Qed.

Lemma std_humanize_total_l p b : hrp_ok p = true -> len_ok b = true -> exists s, std_humanize p b = Ok s.
Proof.
  intros Hp L. destruct (humanize_total_l Bech32 p b Hp) as [s H].
  - unfold len_ok in L. apply andb_true_iff in L as [_ L]. apply N.leb_le in L. lia.
  - exists s. apply std_humanize_ok. auto.
Qed.

Lemma std_validate_shape p s s' : std_validate p s = Ok s' ->
  s' = s /\ exists b, wf_bytes b = true /\ std_canonicalize p s = Ok b /\ std_humanize p b = Ok s.
Proof.
  unfold std_validate, std_validate_from. destruct (std_canonicalize p s) as [b| |] eqn:C; try discriminate.
  destruct (std_humanize p b) as [n| |] eqn:H; try discriminate.
  destruct (text_eqb s n) eqn:E; [|discriminate]. apply text_eqb_eq in E. subst n.
  intros X. injection X as <-. split; [reflexivity|]. exists b. repeat split; try assumption.
  apply std_canonicalize_ok in C as (h & syms & _ & _ & -> & _). apply fes_to_bytes_wf.
Qed.

Lemma std_validate_not_panic p s : std_validate p s <> Panic.
Proof.
  unfold std_validate, std_validate_from. destruct (std_canonicalize p s); try discriminate.
  destruct (std_humanize p a); try discriminate. destruct (text_eqb s a0); discriminate.
Qed.
Lemma std_canonicalize_not_panic p s : std_canonicalize p s <> Panic.
Proof.
  unfold std_canonicalize. destruct (decode_checked Bech32 s) as [[h y]|]; [|discriminate].
  destruct (negb (hrp_eqb h p)); [discriminate|]. destruct (len_ok (fes_to_bytes y)); discriminate.
Qed.
Lemma std_humanize_not_panic p b : std_humanize p b <> Panic.
Proof.
  unfold std_humanize. destruct (negb (len_ok b)); [discriminate|]. destruct (negb (hrp_ok p)); [discriminate|].
  destruct (encode Bech32 p b); discriminate.
Qed.

Lemma std_validate_err_or_ok p s : std_validate p s = Err \/ std_validate p s = Ok s.
Proof.
  destruct (std_validate p s) as [s'| |] eqn:V; [right|left; reflexivity|exfalso; eapply std_validate_not_panic; eassumption].
  apply std_validate_shape in V as [-> _]. reflexivity.
Qed.

Lemma std_validate_encoding p s : std_validate p s = Ok s -> exists b, encode Bech32 p b = Some s.
Proof.
  intros V. apply std_validate_shape in V as (_ & b & _ & _ & H). apply std_humanize_ok in H as [_ H].
  exists b. unfold humanize in H. destruct (hrp_ok p); [|discriminate]. destruct (encode Bech32 p b); [|discriminate]. congruence.
Qed.

Lemma std_near_valid_rejected p s s2 : std_validate p s = Ok s -> length s2 = length s ->
  (hamming s s2 <= 1)%nat -> s2 <> s -> std_validate p s2 = Err.
Proof.
  intros V HL HH Hne. destruct (std_validate_err_or_ok p s2) as [E|V2]; [exact E|exfalso].
  destruct (std_validate_encoding _ _ V) as [b1 E1]. destruct (std_validate_encoding _ _ V2) as [b2 E2].
  apply Hne. symmetry. eapply encodings_apart; eauto.
Qed.

Lemma std_other_prefix_l p p2 b s : humanize Bech32 p2 b = Ok s -> hrp_eqb p p2 = false ->
  std_canonicalize p s = Err /\ std_validate p s = Err.
Proof.
  intros H Hne.
  assert (C : std_canonicalize p s = Err).
  { unfold std_canonicalize. rewrite (humanize_decode _ _ _ _ H), hrp_eqb_sym, hrp_eqb_lower_r, Hne. reflexivity. }
  split; [exact C|]. unfold std_validate. rewrite C. reflexivity.
Qed.

Lemma std_other_variant_l p b s : humanize Bech32m p b = Ok s -> std_canonicalize p s = Err /\ std_validate p s = Err.
Proof.
  intros H.
  assert (C : std_canonicalize p s = Err).
  { unfold std_canonicalize. destruct (decode_checked Bech32 s) as [[h y]|] eqn:D; [|reflexivity].
    pose proof (decode_variant _ _ _ _ _ D (humanize_decode _ _ _ _ H)). discriminate. }
  split; [exact C|]. unfold std_validate. rewrite C. reflexivity.
Qed.

Lemma std_mixed_case_l p s : mixed_case s = true -> std_canonicalize p s = Err /\ std_validate p s = Err.
Proof.
  intros M. assert (C : std_canonicalize p s = Err) by (unfold std_canonicalize; rewrite decode_mixed by exact M; reflexivity).
  split; [exact C|]. unfold std_validate. rewrite C. reflexivity.
Qed.

(* ====================================================================================== *)
(* Lemmas 5: linearity on the engine; addr_canonicalize alone rejects substitutions       *)
(* ====================================================================================== *)
(* ---------- linearity stated on the engine itself ---------- *)
Lemma zipx_wf l1 : forall l2, Forall (fun e => e < 32) l1 -> Forall (fun e => e < 32) l2 -> Forall (fun e => e < 32) (zipx l1 l2).
Proof.
  induction l1 as [|x l1 IH]; intros [|y l2] H1 H2; cbn [zipx]; try constructor.
  - inversion H1; inversion H2; subst. apply (lxor_lt x y 5); assumption.
  - inversion H1; inversion H2; subst. apply IH; assumption.
Qed.

Lemma engine_linear_l a b l1 l2 : length l1 = length l2 ->
  Forall (fun e => e < 32) l1 -> Forall (fun e => e < 32) l2 ->
  engine (N.lxor a b) (zipx l1 l2) = N.lxor (engine a l1) (engine b l2).
Proof.
  intros L H1 H2. rewrite !engine_x_eq by (try apply zipx_wf; assumption). apply engine_x_lxor, L.
Qed.

Lemma validate_accepts_iff_l c p s s' :
  validate c p s = Ok s' <-> s' = s /\ exists b, canonicalize c p s = Ok b /\ humanize c p b = Ok s.
Proof.
  split.
  - intros V. destruct (validate_shape c p s s' V) as (-> & b & _ & C & H). eauto.
  - intros (-> & b & C & H). unfold validate, validate_from. rewrite C, H, text_eqb_refl. reflexivity.
Qed.

(* ---------- addr_canonicalize alone rejects every substitution that is not a mere case change ---------- *)
Lemma index_of_ge a l : forall j k, index_of a l j = Some k -> j <= k.
Proof.
  induction l as [|z l IH]; intros j k; cbn [index_of]; [discriminate|].
  destruct (a =? z); [intros H; injection H as <-; lia|]. intros H. apply IH in H. lia.
Qed.

Lemma index_of_inj a b l : forall i k, index_of a l i = Some k -> index_of b l i = Some k -> a = b.
Proof.
  induction l as [|y l IH]; intros i k; cbn [index_of]; [discriminate|].
  destruct (N.eqb_spec a y) as [->|Na]; destruct (N.eqb_spec b y) as [->|Nb]; try reflexivity.
  - intros Ha Hb. injection Ha as <-. apply index_of_ge in Hb. lia.
  - intros Ha Hb. injection Hb as <-. apply index_of_ge in Ha. lia.
  - apply IH.
Qed.

Lemma from_char_inj x y k : from_char x = Some k -> from_char y = Some k -> lower x = lower y.
Proof. unfold from_char. apply index_of_inj. Qed.

Lemma index_of_lt a l : forall i k, index_of a l i = Some k -> k < i + nlen l.
Proof.
  unfold nlen. induction l as [|y l IH]; intros i k; cbn [index_of length]; [discriminate|].
  destruct (a =? y); [intros H; injection H as <-; lia|]. intros H. apply IH in H. lia.
Qed.
Lemma from_char_lt x k : from_char x = Some k -> k < 32.
Proof. intros H. apply index_of_lt in H. exact H. Qed.

Lemma map_opt_wf d : forall S, map_opt from_char d = Some S -> Forall (fun e => e < 32) S /\ length S = length d.
Proof.
  induction d as [|ch d IH]; intros S H; cbn [map_opt] in H.
  - injection H as <-. split; [constructor|reflexivity].
  - destruct (from_char ch) as [y|] eqn:F; [|discriminate]. destruct (map_opt from_char d) as [r|]; [|discriminate].
    injection H as <-. destruct (IH r eq_refl) as [W L]. split; [constructor; [eapply from_char_lt; eassumption|exact W]|cbn; congruence].
Qed.

Lemma map_opt_set_nth d : forall j x S1 S2, map_opt from_char d = Some S1 -> map_opt from_char (set_nth j x d) = Some S2 ->
  (hamming S1 S2 <= 1)%nat /\ (S1 = S2 -> (j < length d)%nat -> from_char x = from_char (nth j d 0)).
Proof.
  induction d as [|ch d IH]; intros j x S1 S2 H1 H2.
  - destruct j; cbn in *; injection H1 as <-; injection H2 as <-; split; cbn; intros; lia.
  - cbn [map_opt] in H1. destruct (from_char ch) as [y|] eqn:F; [|discriminate].
    destruct (map_opt from_char d) as [r|] eqn:R; [|discriminate]. injection H1 as <-.
    destruct j as [|j]; cbn [set_nth map_opt] in H2.
    + destruct (from_char x) as [y'|] eqn:F'; [|discriminate]. rewrite R in H2. injection H2 as <-. split.
      * cbn [hamming]. rewrite hamming_refl. destruct (y =? y'); lia.
      * intros E _. injection E as ->. cbn [nth]. congruence.
    + rewrite F in H2. destruct (map_opt from_char (set_nth j x d)) as [r2|] eqn:R2; [|discriminate]. injection H2 as <-.
      destruct (IH j x r r2 eq_refl R2) as [HH HE]. split.
      * cbn [hamming]. rewrite N.eqb_refl. exact HH.
      * intros E Hj. injection E as E. cbn [nth length] in *. apply HE; [exact E|lia].
Qed.

Lemma decode_checked_some c s h syms : decode_checked c s = Some (h, syms) ->
  exists d S, s = h ++ 49 :: d /\ map_opt from_char d = Some S /\ engine (polymod (hrp_expand h)) S = target c.
Proof.
  unfold decode_checked. destruct (split_sep s) as [[h' d]|] eqn:Sp; [|discriminate].
  destruct (map_opt from_char d) as [S|] eqn:M; [|discriminate].
  destruct (mixed_case s); [discriminate|]. destruct (negb (hrp_ok h')); [discriminate|].
  destruct (1023 <? nlen s); [discriminate|]. destruct (nlen S <? 6); [discriminate|].
  destruct (N.eqb_spec (engine (polymod (hrp_expand h')) S) (target c)) as [E|]; [|discriminate].
  intros X. injection X as <- _. exists d, S. split; [apply split_sep_some, Sp|]. split; [exact M|exact E].
Qed.

Lemma hrp_expand_ext h1 h2 : map lower h1 = map lower h2 -> hrp_expand h1 = hrp_expand h2.
Proof. intros E. rewrite <- (hrp_expand_lower h1), <- (hrp_expand_lower h2), E. reflexivity. Qed.

Lemma set_nth_app_l {A} i (x : A) l r : (i < length l)%nat -> set_nth i x (l ++ r) = set_nth i x l ++ r.
Proof. revert i; induction l as [|y l IH]; intros [|i] H; cbn [length app set_nth] in *; try lia; [reflexivity|]. rewrite IH by lia. reflexivity. Qed.
Lemma set_nth_app_r {A} i (x : A) l r : set_nth (length l + i) x (l ++ r) = l ++ set_nth i x r.
Proof. induction l as [|y l IH]; cbn [length app set_nth Nat.add]; [reflexivity|]. rewrite IH. reflexivity. Qed.
Lemma nth_set_nth {A} i (x d : A) l : (i < length l)%nat -> nth i (set_nth i x l) d = x.
Proof. revert i; induction l as [|y l IH]; intros [|i] H; cbn [length set_nth nth] in *; try lia; [reflexivity|]. apply IH. lia. Qed.

Lemma canonicalize_hrp c p s b : canonicalize c p s = Ok b ->
  exists h syms, decode_checked c s = Some (h, syms) /\ map lower p = map lower h.
Proof.
  unfold canonicalize. destruct (decode_checked c s) as [[h syms]|]; [|discriminate].
  destruct (hrp_ok p); cbn [andb]; [|discriminate]. destruct (hrp_eqb p h) eqn:E; [|discriminate].
  intros _. exists h, syms. split; [reflexivity|]. apply text_eqb_eq, E.
Qed.

Lemma canonicalize_substitution_l c p s b i x : canonicalize c p s = Ok b -> (i < length s)%nat ->
  lower x <> lower (nth i s 0) -> canonicalize c p (set_nth i x s) = Err.
Proof.
  intros C Hi Hx.
  destruct (canonicalize c p (set_nth i x s)) as [b2| |] eqn:C2; [exfalso|reflexivity|exfalso; eapply canonicalize_not_panic; eassumption].
  destruct (canonicalize_hrp _ _ _ _ C) as (h & syms & D & Eh). destruct (canonicalize_hrp _ _ _ _ C2) as (h2 & syms2 & D2 & Eh2).
  destruct (decode_checked_some _ _ _ _ D) as (d & S1 & Es & M1 & R1).
  destruct (decode_checked_some _ _ _ _ D2) as (d2 & S2 & Es2 & M2 & R2).
  assert (Lh : length h2 = length h).
  { rewrite <- (map_length lower h2), <- (map_length lower h), <- Eh, <- Eh2. reflexivity. }
  subst s. destruct (Nat.lt_ge_cases i (length h)) as [Hlt|Hge].
  - (* inside the hrp *)
    rewrite set_nth_app_l in Es2 by exact Hlt.
    assert (E : set_nth i x h = h2).
    { apply (f_equal (firstn (length h))) in Es2. rewrite firstn_app, firstn_all2 in Es2 by (rewrite set_nth_length; lia).
      rewrite set_nth_length, Nat.sub_diag in Es2. cbn [firstn] in Es2. rewrite app_nil_r in Es2.
      rewrite <- Lh, firstn_app, firstn_all, Nat.sub_diag in Es2. cbn [firstn] in Es2. rewrite app_nil_r in Es2. exact Es2. }
    apply Hx. rewrite app_nth1 by exact Hlt.
    assert (N2 : nth i (map lower h2) 0 = nth i (map lower h) 0) by (rewrite <- Eh2, Eh; reflexivity).
    rewrite <- E in N2.
    rewrite (nth_indep _ 0 (lower 0)), (nth_indep (map lower h) 0 (lower 0)) in N2 by (rewrite map_length, ?set_nth_length; lia).
    rewrite !map_nth, nth_set_nth in N2 by exact Hlt. exact N2.
  - replace i with (length h + (i - length h))%nat in * by lia. set (j := (i - length h)%nat) in *.
    rewrite set_nth_app_r in Es2. rewrite app_nth2_plus in Hx.
    assert (E : set_nth j x (49 :: d) = 49 :: d2).
    { apply (f_equal (skipn (length h))) in Es2. rewrite skipn_app, skipn_all, Nat.sub_diag in Es2. cbn [skipn app] in Es2.
      rewrite <- Lh, skipn_app, skipn_all, Nat.sub_diag in Es2. cbn [skipn app] in Es2. exact Es2. }
    destruct j as [|j].
    + (* the separator itself *) cbn [set_nth nth] in *. injection E as E _. apply Hx. rewrite E. reflexivity.
    + (* a data / checksum character *)
      cbn [set_nth nth] in *. injection E as E. subst d2.
      assert (Hj : (j < length d)%nat) by (rewrite app_length in Hi; cbn [length] in Hi; lia).
      destruct (map_opt_set_nth d j x S1 S2 M1 M2) as [HH HE].
      destruct (map_opt_wf _ _ M1) as [W1 L1]. destruct (map_opt_wf _ _ M2) as [W2 L2]. rewrite set_nth_length in L2.
      rewrite (hrp_expand_ext h2 h) in R2 by congruence.
      assert (ES : S1 = S2) by (apply (syndrome (polymod (hrp_expand h))); try assumption; congruence).
      specialize (HE ES Hj). destruct (from_char x) as [k|] eqn:F.
      * apply Hx. eapply from_char_inj; [exact F|]. symmetry. exact HE.
      * clear -M2 F Hj. revert j Hj S2 M2. induction d as [|ch d IH]; intros [|j] Hj S2 M2; cbn [length set_nth map_opt] in *; try lia.
        -- rewrite F in M2. discriminate.
        -- destruct (from_char ch); [|discriminate]. destruct (map_opt from_char (set_nth j x d)) eqn:R; [|discriminate].
           eapply (IH j); [lia|exact R].
Qed.
