(* ExecOracleM.v — markers.  Part 2 of the proof that the run-time oracles accept the model's own runs:
   under the generator's marker discipline, (i) a marker once committed stays, (ii) the marker of a node
   can appear only through the call of that node, (iii) whatever ran inside a failed sub-message, and every
   program that failed by itself, has left no marker in the state handed on. *)
From Coq Require Import Sorted.
From Verif Require Import Base OMap Text Proto Bank Exec ExecFacts ExecInv ExecFacts2 ExecIso ChkExec ChkX Registry ExecReg ExecOracle.
Local Open Scope N_scope.

(* ---------- the state invariant: both levels of the contract-storage map are sorted ---------- *)
Definition stores_sorted (s : chain) : Prop := forall c, sorted bcmp (cstore_get s c).
Definition st_ok (s : chain) : Prop := sorted_cstore s /\ stores_sorted s.

Lemma st_ok_empty : st_ok empty_chain.
Proof. split; [constructor|]. intros c. cbn. constructor. Qed.

Lemma st_ok_same_cstore s s1 : cstore s1 = cstore s -> st_ok s -> st_ok s1.
Proof.
  intros E [H1 H2]. split; [unfold sorted_cstore; rewrite E; exact H1|].
  intros c. unfold cstore_get. rewrite E. apply H2.
Qed.

Definition wr (o : omapb) (a : action) : omapb :=
  match a with AWrite k v => insert bcmp k v o | ARemove k => delete bcmp k o | AQ _ => o end.
Definition key_of (a : action) : option bytes := match a with AWrite k _ | ARemove k => Some k | AQ _ => None end.

Lemma body_store e s node acts own : snd (run_actions e s node own acts) = fold_left wr acts own.
Proof. apply run_actions_own_only. Qed.

Lemma fold_wr_sorted acts : forall own, sorted bcmp own -> sorted bcmp (fold_left wr acts own).
Proof.
  induction acts as [|a r IH]; intros own H; cbn [fold_left]; [exact H|]. apply IH.
  destruct a; cbn [wr]; [apply b_insert_sorted|apply B_delete_sorted|]; exact H.
Qed.

Lemma fold_wr_other k acts : forall own, sorted bcmp own -> Forall (fun a => key_of a <> Some k) acts ->
  assoc bcmp k (fold_left wr acts own) = assoc bcmp k own.
Proof.
  induction acts as [|a r IH]; intros own Hs Hf; cbn [fold_left]; [reflexivity|].
  inversion Hf as [|x l Ha Hr]; subst. destruct a as [k' v|k'|q]; cbn [wr key_of] in *.
  - rewrite IH by (try apply b_insert_sorted; assumption). rewrite B_assoc_insert by exact Hs.
    destruct (bcmp k k') eqn:E; try reflexivity. apply bcmp_eq in E. congruence.
  - rewrite IH by (try apply B_delete_sorted; assumption). rewrite B_assoc_delete by exact Hs.
    destruct (bcmp k k') eqn:E; try reflexivity. apply bcmp_eq in E. congruence.
  - apply IH; assumption.
Qed.

Lemma has_marker_set_same s c m n : sorted_cstore s ->
  has_marker (cstore_set s c m) c n = match assoc bcmp (marker n) m with Some _ => true | None => false end.
Proof. intros H. unfold has_marker. rewrite cstore_get_set_same by exact H. reflexivity. Qed.
Lemma has_marker_set_other s c m c' n : sorted_cstore s -> c' <> c ->
  has_marker (cstore_set s c m) c' n = has_marker s c' n.
Proof. intros H Hn. unfold has_marker. rewrite cstore_get_set_other by assumption. reflexivity. Qed.

Lemma text_eq_dec (a b : text) : {a = b} + {a <> b}.
Proof. destruct (beqb a b) eqn:E; [left; apply beqb_eq, E|right; apply beqb_false_ne, E]. Qed.

(* ---------- the marker frame of a run ---------- *)
(* [L]: nodes whose markers may have appeared *)
Definition mrel (L : list N) (s s' : chain) : Prop :=
  (forall c n, has_marker s c n = true -> has_marker s' c n = true) /\
  (forall c n, ~ In (marker n) (map marker L) -> has_marker s' c n = has_marker s c n).
Definition mframe (L : list N) (s s' : chain) : Prop := st_ok s -> st_ok s' /\ mrel L s s'.

Lemma mframe_refl L s : mframe L s s.
Proof. intros H. split; [exact H|]. split; auto. Qed.
Lemma mframe_trans L1 L2 s s1 s2 : mframe L1 s s1 -> mframe L2 s1 s2 -> mframe (L1 ++ L2) s s2.
Proof.
  intros F1 F2 H. destruct (F1 H) as (H1 & A1 & B1). destruct (F2 H1) as (H2 & A2 & B2). split; [exact H2|]. split.
  - intros c n Hm. apply A2, A1, Hm.
  - intros c n Hn. rewrite map_app, in_app_iff in Hn. rewrite B2, B1; tauto.
Qed.
Lemma mframe_weaken L L' s s' : incl L L' -> mframe L s s' -> mframe L' s s'.
Proof.
  intros I F H. destruct (F H) as (H1 & A & B). split; [exact H1|]. split; [exact A|].
  intros c n Hn. apply B. intros Hi. apply Hn. apply in_map_iff in Hi as (x & E & Hx). apply in_map_iff. exists x. auto.
Qed.
Lemma mframe_same_cstore s s1 : cstore s1 = cstore s -> mframe [] s s1.
Proof.
  intros E H. split; [eapply st_ok_same_cstore; eassumption|].
  assert (G : forall c n, has_marker s1 c n = has_marker s c n).
  { intros c n. unfold has_marker, cstore_get. rewrite E. reflexivity. }
  split; intros c n; rewrite G; auto.
Qed.

(* one body under the marker discipline *)
Lemma body_marker_frame e s node c acts out : wf_prog (Prog node acts out) ->
  mframe [node] s (body_st e s node c acts) /\ (st_ok s -> has_marker (body_st e s node c acts) c node = true).
Proof.
  intros Hw. unfold body_st. rewrite body_store.
  destruct acts as [|[k0 v0|k0|q0] rest]; try contradiction. destruct Hw as [-> Hrest]. cbn [fold_left wr].
  set (own := cstore_get s c).
  assert (Hkey : forall n, sorted bcmp own ->
            assoc bcmp (marker n) (fold_left wr rest (insert bcmp (marker node) v0 own)) =
            match bcmp (marker n) (marker node) with Eq => Some v0 | _ => assoc bcmp (marker n) own end).
  { intros n Hs. rewrite fold_wr_other; [apply B_assoc_insert; exact Hs|apply b_insert_sorted; exact Hs|].
    eapply Forall_impl; [|exact Hrest]. intros a Ha E. destruct a as [k v|k|q]; cbn in *; try discriminate.
    - injection E as ->. exact (Ha n eq_refl).
    - injection E as ->. exact (Ha n eq_refl). }
  split.
  - intros [H1 H2]. pose proof (H2 c) as Hs. fold own in Hs. split; [|split].
    + split; [apply cstore_set_sorted; exact H1|]. intros c'. destruct (text_eq_dec c' c) as [->|Hne].
      * rewrite cstore_get_set_same by exact H1. apply fold_wr_sorted, b_insert_sorted, Hs.
      * rewrite cstore_get_set_other by assumption. apply H2.
    + intros c' n Hm. destruct (text_eq_dec c' c) as [->|Hne].
      * rewrite has_marker_set_same by exact H1. rewrite Hkey by exact Hs.
        destruct (bcmp (marker n) (marker node)); try reflexivity; exact Hm.
      * rewrite has_marker_set_other by assumption. exact Hm.
    + intros c' n Hn. destruct (text_eq_dec c' c) as [->|Hne].
      * rewrite has_marker_set_same by exact H1. rewrite Hkey by exact Hs.
        destruct (bcmp (marker n) (marker node)) eqn:E; try reflexivity.
        apply bcmp_eq in E. exfalso. apply Hn. cbn. left. symmetry. exact E.
      * apply has_marker_set_other; assumption.
  - intros [H1 H2]. pose proof (H2 c) as Hs. fold own in Hs. rewrite has_marker_set_same by exact H1.
    rewrite Hkey by exact Hs. rewrite bcmp_refl. reflexivity.
Qed.

Lemma run_prog_ok_not_failing e entry c sender funds rep cid rok node acts out s r :
  outc (run_prog e entry c sender funds rep cid rok (Prog node acts out) s) = Ok r ->
  prog_fails_itself (Prog node acts out) = false.
Proof.
  destruct (run_prog_cases e entry c sender funds rep cid rok node acts out s)
    as [[_ ->]|[(co & _ & _ & ->)|(co & attrs & events & data & sbs & _ & -> & Hv & _)]]; try discriminate.
  intros _. cbn. rewrite Hv. reflexivity.
Qed.

Lemma Forall_app_inv {A} (P : A -> Prop) a b : Forall P (a ++ b) -> Forall P a /\ Forall P b.
Proof. intros H. apply Forall_app in H. exact H. Qed.

(* every successful run of a tree under the marker discipline: markers are only added, and only those of
   the nodes of the tree; the root program of a successful call has left its marker at the callee *)
Lemma exec_mframe e :
  (forall m sender s r s', Forall wf_prog (progs_msg m) -> outc (run_msg e sender m s) = Ok (r, s') ->
     mframe (nodes_msg m) s s') /\
  (forall p entry c sender funds rep cid rok s r s', Forall wf_prog (progs_prog p) ->
     outc (run_prog e entry c sender funds rep cid rok p s) = Ok (r, s') ->
     mframe (nodes_prog p) s s' /\ (st_ok s -> has_marker s' c (node_of p) = true)) /\
  (forall o : output, match o with OFail => True | OResp _ _ _ sbs =>
     forall c data s r s', Forall wf_prog (progs_subs sbs) -> outc (process_subs e c sbs data s) = Ok (r, s') ->
     mframe (nodes_subs sbs) s s' end) /\
  (forall l c data s r s', Forall wf_prog (progs_subs l) -> outc (process_subs e c l data s) = Ok (r, s') ->
     mframe (nodes_subs l) s s') /\
  (forall sb c s r s', Forall wf_prog (progs_sub sb) -> outc (run_sub e c sb s) = Ok (r, s') ->
     mframe (nodes_sub sb) s s').
Proof.
  assert (Hleaf : forall m sender s r s', msg_prog m = None -> Forall wf_prog (progs_msg m) ->
            outc (run_msg e sender m s) = Ok (r, s') -> mframe (nodes_msg m) s s').
  { intros m sender s r s' H _ Ho. rewrite (proj1 (proj2 (flat_msg_leaf m None H))).
    apply mframe_same_cstore. exact (proj1 (proj2 (run_msg_leaf e sender m s H) r s' Ho)). }
  assert (Hcall : forall m p, msg_prog m = Some p ->
            (forall entry c sender funds rep cid rok s r s', Forall wf_prog (progs_prog p) ->
               outc (run_prog e entry c sender funds rep cid rok p s) = Ok (r, s') ->
               mframe (nodes_prog p) s s' /\ (st_ok s -> has_marker s' c (node_of p) = true)) ->
            forall sender s r s', Forall wf_prog (progs_msg m) -> outc (run_msg e sender m s) = Ok (r, s') ->
            mframe (nodes_msg m) s s').
  { intros m p Hp IH sender s r s'. destruct (flat_msg_prog m p None Hp) as (_ & -> & ->). intros Hw.
    destruct (run_msg_cases e sender m s p Hp) as [[_ Hf]|(c & s1 & Hc & _ & _ & _ & ->)].
    { intros Ho. rewrite Ho in Hf. discriminate. }
    specialize (IH (msg_entry m) c (msg_sender m sender) (msg_funds m) None (msg_cid m) true s1).
    destruct (run_prog e (msg_entry m) c (msg_sender m sender) (msg_funds m) None (msg_cid m) true p s1) as [tr [[[ev d] s2]| |]];
      cbn [outc snd] in *; intros Ho; try discriminate. injection Ho as _ <-.
    destruct (IH _ _ Hw eq_refl) as [F _].
    exact (mframe_trans [] _ _ _ _ (mframe_same_cstore _ _ Hc) F). }
  apply exec_mutind; try (intros; exact I); try (intros; eapply Hleaf; [reflexivity|eassumption|eassumption]);
    try (intros; eapply Hcall; [reflexivity|eassumption|eassumption|eassumption]).
  - (* Prog *) intros node acts out IH entry c sender funds rep cid rok s r s' Hw. cbn [progs_prog] in Hw.
    fold (progs_out out) in Hw. inversion Hw as [|x l Hw1 Hw2]; subst. cbn [nodes_prog node_of]. fold (nodes_out out).
    destruct (run_prog_cases e entry c sender funds rep cid rok node acts out s)
      as [[_ ->]|[(co & _ & _ & ->)|(co & attrs & events & data & sbs & _ & -> & Hv & ->)]]; try discriminate.
    specialize (IH c data (body_st e s node c acts)).
    destruct (process_subs e c sbs data (body_st e s node c acts)) as [tr_s [[[ev d] s2]| |]]; cbn [outc snd] in *;
      intros Ho; try discriminate. injection Ho as _ <-. specialize (IH _ _ Hw2 eq_refl).
    destruct (body_marker_frame e s node c acts (OResp attrs events data sbs) Hw1) as [Fb Mb].
    split; [exact (mframe_trans [node] _ _ _ _ Fb IH)|].
    intros Hs. destruct (Fb Hs) as [Hs1 _]. destruct (IH Hs1) as (_ & A & _). apply A, Mb, Hs.
  - (* OResp *) intros attrs events data sbs IH. exact IH.
  - (* SNil *) intros c data s r s' _ Ho. cbn in Ho. injection Ho as _ <-. apply mframe_refl.
  - (* SCons *) intros sb IHsb r IHr c data s res s' Hw. cbn [progs_subs nodes_subs] in *.
    apply Forall_app_inv in Hw as [Hw1 Hw2]. rewrite process_subs_cons. specialize (IHsb c s).
    destruct (run_sub e c sb s) as [tr1 [[[ev1 d1] s1]| |]]; cbn [outc snd] in *; try discriminate.
    specialize (IHsb _ _ Hw1 eq_refl). specialize (IHr c (or_data d1 data) s1).
    destruct (process_subs e c r (or_data d1 data) s1) as [tr2 [[[ev2 d2] s2]| |]]; cbn [outc snd] in *; intros Ho; try discriminate.
    injection Ho as _ <-. exact (mframe_trans _ _ _ _ _ IHsb (IHr _ _ Hw2 eq_refl)).
  - (* Sub *) intros id payload ro m IHm on_ok IHok on_err IHerr c s res s' Hw. cbn [progs_sub nodes_sub] in *.
    apply Forall_app_inv in Hw as [Hw1 Hw23]. apply Forall_app_inv in Hw23 as [Hw2 Hw3].
    rewrite run_sub_spec. unfold reply_run. specialize (IHm c s).
    destruct (run_msg e c m s) as [tr [[[ev d] s1]| |]]; cbn [outc snd] in *; try discriminate.
    + specialize (IHm _ _ Hw1 eq_refl). destruct (wants_ok ro).
      * specialize (IHok EReply c None [] (Some (id, payload, RROk ev d)) 0 true s1).
        destruct (run_prog e EReply c None [] (Some (id, payload, RROk ev d)) 0 true on_ok s1) as [tr2 [[[ev2 d2] s2]| |]];
          cbn [outc snd] in *; intros Ho; try discriminate. injection Ho as _ <-.
        destruct (IHok _ _ Hw2 eq_refl) as [F _].
        eapply mframe_weaken; [|exact (mframe_trans _ _ _ _ _ IHm F)].
        intros x Hx. rewrite !in_app_iff in *. tauto.
      * cbn [outc snd]. intros Ho. injection Ho as _ <-. eapply mframe_weaken; [|exact IHm]. apply incl_appl, incl_refl.
    + destruct (wants_err ro); [|discriminate].
      specialize (IHerr EReply c None [] (Some (id, payload, RRErr)) 0 false s).
      destruct (run_prog e EReply c None [] (Some (id, payload, RRErr)) 0 false on_err s) as [tr2 r2]; cbn [outc snd] in *.
      intros Ho. destruct (IHerr _ _ Hw3 Ho) as [F _]. eapply mframe_weaken; [|exact F].
      apply incl_appr, incl_appr, incl_refl.
Qed.

(* ---------- what is discarded leaves no marker ---------- *)
Definition fresh (s : chain) (L : list N) : Prop := forall n, In n L -> forall c, has_marker s c n = false.
Definition mdisj (A B : list N) : Prop := forall x, In x A -> ~ In (marker x) (map marker B).

Lemma mdisj_nodes A B x : mdisj A B -> In x A -> ~ In x B.
Proof. intros H Ha Hb. apply (H x Ha). apply in_map. exact Hb. Qed.
Lemma NoDup_marker_app A B : NoDup (map marker (A ++ B)) ->
  NoDup (map marker A) /\ NoDup (map marker B) /\ mdisj A B /\ mdisj B A.
Proof.
  rewrite map_app. intros H. destruct (NoDup_app_inv _ _ H) as (Ha & Hb & Hd). split; [exact Ha|]. split; [exact Hb|]. split.
  - intros x Hx Hi. apply (Hd (marker x)); [apply in_map; exact Hx|exact Hi].
  - intros x Hx Hi. apply (Hd (marker x)); [exact Hi|apply in_map; exact Hx].
Qed.
Lemma NoDup_marker_cons n A : NoDup (map marker (n :: A)) -> NoDup (map marker A) /\ mdisj A [n] /\ ~ In n A.
Proof.
  cbn [map]. intros H. inversion H as [|x l Hn Hr]; subst. split; [exact Hr|]. split.
  - intros x Hx [E|[]]. apply Hn. rewrite E. apply in_map. exact Hx.
  - intros Hi. apply Hn. apply in_map. exact Hi.
Qed.

Lemma fresh_incl s L L' : incl L' L -> fresh s L -> fresh s L'.
Proof. intros I F n Hn. apply F, I, Hn. Qed.
Lemma fresh_transport s s1 L Lx : fresh s Lx -> mrel L s s1 -> mdisj Lx L -> fresh s1 Lx.
Proof. intros F [_ B] D n Hn c. rewrite B by (apply D, Hn). apply F, Hn. Qed.

Definition dead (infos : list pinfo) (tr : trace) (s' : chain) : Prop :=
  forall pi, In pi infos ->
    (prog_fails_itself (pi_prog pi) = true -> forall c, has_marker s' c (pi_node pi) = false) /\
    (forall id pl ro, pi_rep pi = Some (id, pl, ro, false) -> In (pi_node pi) (call_nodes tr) ->
       forall n', In n' (pi_inside pi) -> forall c, has_marker s' c n' = false).

Lemma dead_nil tr s : dead [] tr s. Proof. intros pi []. Qed.
Lemma dead_app a b tr s : dead a tr s -> dead b tr s -> dead (a ++ b) tr s.
Proof. intros Ha Hb pi Hi. apply in_app_or in Hi as [Hi|Hi]; auto. Qed.
Lemma dead_cons pi l tr s : dead [pi] tr s -> dead l tr s -> dead (pi :: l) tr s.
Proof. intros Ha Hb. exact (dead_app [pi] l tr s Ha Hb). Qed.

Definition within (infos : list pinfo) (L : list N) : Prop :=
  forall pi, In pi infos -> In (pi_node pi) L /\ incl (pi_inside pi) L.

Lemma dead_fresh infos L tr s : within infos L -> fresh s L -> dead infos tr s.
Proof.
  intros W F pi Hi. destruct (W pi Hi) as [Hn Hin]. split.
  - intros _ c. apply F, Hn.
  - intros id pl ro _ _ n' Hn' c. apply F, Hin, Hn'.
Qed.
Lemma dead_tr infos Lx tr tr' s : within infos Lx -> dead infos tr s ->
  (forall n, In n Lx -> In n (call_nodes tr') -> In n (call_nodes tr)) -> dead infos tr' s.
Proof.
  intros W D T pi Hi. destruct (D pi Hi) as [D1 D2]. split; [exact D1|].
  intros id pl ro Hr Hc. destruct (W pi Hi) as [Wn _]. apply (D2 id pl ro Hr). apply T; [exact Wn|exact Hc].
Qed.
Lemma dead_state infos Lx L tr s1 s2 : within infos Lx -> dead infos tr s1 -> mrel L s1 s2 -> mdisj Lx L -> dead infos tr s2.
Proof.
  intros W D [_ B] Dj pi Hi. destruct (D pi Hi) as [D1 D2]. destruct (W pi Hi) as [Hn Hin]. split.
  - intros Hf c. rewrite B by (apply Dj, Hn). apply D1, Hf.
  - intros id pl ro Hr Hc n' Hn' c. rewrite B by (apply Dj, Hin, Hn'). exact (D2 id pl ro Hr Hc n' Hn' c).
Qed.

Definition out_of (p : prog) : output := match p with Prog _ _ o => o end.
Definition tail_infos (p : prog) : list pinfo := flat_out (node_of p) (out_of p).
Definition root_info (e : ep) (d : option N) (rep : option (N * bytes * reply_on * bool)) (f : coins) (t : option text)
           (i : list N) (p : prog) : pinfo :=
  {| pi_node := node_of p; pi_ep := e; pi_disp := d; pi_rep := rep; pi_funds := f; pi_target := t; pi_prog := p; pi_inside := i |}.
Lemma flat_prog_eq e d rep f t i p : flat_prog e d rep f t i p = root_info e d rep f t i p :: tail_infos p.
Proof. destruct p as [n a o]. destruct o; reflexivity. Qed.
Lemma nodes_prog_eq p : nodes_prog p = node_of p :: nodes_out (out_of p).
Proof. destruct p as [n a o]. destruct o; reflexivity. Qed.
Lemma progs_prog_eq p : progs_prog p = p :: progs_out (out_of p).
Proof. destruct p as [n a o]. destruct o; reflexivity. Qed.

Lemma within_msg m d : within (flat_msg d m) (nodes_msg m).
Proof.
  intros pi Hi. split; [|apply (proj2 (proj1 flat_incl m d pi Hi))].
  rewrite <- (proj1 flat_nodes m d). apply in_map. exact Hi.
Qed.
Lemma within_out o d : within (flat_out d o) (nodes_out o).
Proof.
  intros pi Hi. split; [|apply (proj2 (proj1 (proj2 (proj2 flat_incl)) o d pi Hi))].
  rewrite <- (proj1 (proj2 (proj2 flat_nodes)) o d). apply in_map. exact Hi.
Qed.
Lemma within_subs l d : within (flat_subs d l) (nodes_subs l).
Proof.
  intros pi Hi. split; [|apply (proj2 (proj1 (proj2 (proj2 (proj2 flat_incl))) l d pi Hi))].
  rewrite <- (proj1 (proj2 (proj2 (proj2 flat_nodes))) l d). apply in_map. exact Hi.
Qed.
Lemma within_sub sb d : within (flat_sub d sb) (nodes_sub sb).
Proof.
  intros pi Hi. split; [|apply (proj2 (proj2 (proj2 (proj2 (proj2 flat_incl))) sb d pi Hi))].
  rewrite <- (proj2 (proj2 (proj2 (proj2 flat_nodes))) sb d). apply in_map. exact Hi.
Qed.
Lemma within_tail p : within (tail_infos p) (nodes_out (out_of p)).
Proof. apply within_out. Qed.
Lemma within_weaken infos L L' : incl L L' -> within infos L -> within infos L'.
Proof. intros I W pi Hi. destruct (W pi Hi) as [A B]. split; [apply I, A|]. intros x Hx. apply I, B, Hx. Qed.

Lemma called_left a b Lb n : In n (call_nodes (a ++ b)) -> subl (call_nodes b) Lb -> ~ In n Lb -> In n (call_nodes a).
Proof.
  rewrite call_nodes_app, in_app_iff. intros [H|H] S N; [exact H|]. exfalso. apply N. eapply subl_in; eassumption.
Qed.
Lemma called_right a b La n : In n (call_nodes (a ++ b)) -> subl (call_nodes a) La -> ~ In n La -> In n (call_nodes b).
Proof.
  rewrite call_nodes_app, in_app_iff. intros [H|H] S N; [|exact H]. exfalso. apply N. eapply subl_in; eassumption.
Qed.

Definition dead_pre (s : chain) (ps : list prog) (L : list N) : Prop :=
  Forall wf_prog ps /\ NoDup (map marker L) /\ st_ok s /\ fresh s L.

Lemma exec_dead e :
  (forall m sender s d r s', dead_pre s (progs_msg m) (nodes_msg m) -> outc (run_msg e sender m s) = Ok (r, s') ->
     dead (flat_msg d m) (trc (run_msg e sender m s)) s') /\
  (forall p entry c sender funds rep cid rok s r s', dead_pre s (progs_prog p) (nodes_prog p) ->
     outc (run_prog e entry c sender funds rep cid rok p s) = Ok (r, s') ->
     dead (tail_infos p) (trc (run_prog e entry c sender funds rep cid rok p s)) s') /\
  (forall o : output, match o with OFail => True | OResp _ _ _ sbs =>
     forall c data s d r s', dead_pre s (progs_subs sbs) (nodes_subs sbs) -> outc (process_subs e c sbs data s) = Ok (r, s') ->
     dead (flat_subs d sbs) (trc (process_subs e c sbs data s)) s' end) /\
  (forall l c data s d r s', dead_pre s (progs_subs l) (nodes_subs l) -> outc (process_subs e c l data s) = Ok (r, s') ->
     dead (flat_subs d l) (trc (process_subs e c l data s)) s') /\
  (forall sb c s d r s', dead_pre s (progs_sub sb) (nodes_sub sb) -> outc (run_sub e c sb s) = Ok (r, s') ->
     dead (flat_sub d sb) (trc (run_sub e c sb s)) s').
Proof.
  destruct (exec_call_nodes e) as (Cm & Cp & _ & Cs & Cb).
  destruct (exec_mframe e) as (Fm & Fp & _ & Fs & Fb).
  assert (Hleaf : forall m sender s d r s', msg_prog m = None -> dead_pre s (progs_msg m) (nodes_msg m) ->
            outc (run_msg e sender m s) = Ok (r, s') -> dead (flat_msg d m) (trc (run_msg e sender m s)) s').
  { intros m sender s d r s' H _ _. rewrite (proj1 (flat_msg_leaf m d H)). apply dead_nil. }
  assert (Hcall : forall m p, msg_prog m = Some p ->
            (forall entry c sender funds rep cid rok s r s', dead_pre s (progs_prog p) (nodes_prog p) ->
               outc (run_prog e entry c sender funds rep cid rok p s) = Ok (r, s') ->
               dead (tail_infos p) (trc (run_prog e entry c sender funds rep cid rok p s)) s') ->
            forall sender s d r s', dead_pre s (progs_msg m) (nodes_msg m) -> outc (run_msg e sender m s) = Ok (r, s') ->
            dead (flat_msg d m) (trc (run_msg e sender m s)) s').
  { intros m p Hp IH sender s d r s'. destruct (flat_msg_prog m p d Hp) as (-> & -> & ->). intros (Hw & Hn & Hs & Hf).
    destruct (run_msg_cases e sender m s p Hp) as [[_ Hx]|(c & s1 & Hc & _ & _ & _ & ->)].
    { intros Ho. rewrite Ho in Hx. discriminate. }
    assert (Hpre1 : dead_pre s1 (progs_prog p) (nodes_prog p)).
    { destruct (mframe_same_cstore s s1 Hc Hs) as [Hs1 M1]. split; [exact Hw|]. split; [exact Hn|]. split; [exact Hs1|].
      eapply fresh_transport; [exact Hf|exact M1|]. intros x _ []. }
    specialize (IH (msg_entry m) c (msg_sender m sender) (msg_funds m) None (msg_cid m) true s1).
    pose proof (run_prog_ok_not_failing e (msg_entry m) c (msg_sender m sender) (msg_funds m) None (msg_cid m) true
                  (node_of p) match p with Prog _ a _ => a end (out_of p) s1) as Hnf.
    assert (Ep : Prog (node_of p) match p with Prog _ a _ => a end (out_of p) = p) by (destruct p; reflexivity).
    rewrite Ep in Hnf.
    destruct (run_prog e (msg_entry m) c (msg_sender m sender) (msg_funds m) None (msg_cid m) true p s1) as [tr [[[ev dd] s2]| |]];
      cbn [outc trc fst snd] in *; intros Ho; try discriminate. injection Ho as _ <-.
    rewrite flat_prog_eq. apply dead_cons; [|exact (IH _ _ Hpre1 eq_refl)].
    intros pi [<-|[]]. cbn [root_info pi_prog pi_rep]. split; [|discriminate].
    intros Hx. rewrite (Hnf _ eq_refl) in Hx. discriminate. }
  apply exec_mutind; try (intros; exact I); try (intros; eapply Hleaf; [reflexivity|eassumption|eassumption]);
    try (intros; eapply Hcall; [reflexivity|eassumption|eassumption|eassumption]).
  - (* Prog *) intros node acts out IH entry c sender funds rep cid rok s r s' (Hw & Hn & Hs & Hf).
    unfold tail_infos. cbn [node_of out_of]. cbn [progs_prog] in Hw. fold (progs_out out) in Hw.
    inversion Hw as [|x l Hw1 Hw2]; subst. cbn [nodes_prog] in Hn, Hf. fold (nodes_out out) in Hn, Hf.
    destruct (NoDup_marker_cons _ _ Hn) as (Hn' & Dj & Hnot).
    destruct (run_prog_cases e entry c sender funds rep cid rok node acts out s)
      as [[_ ->]|[(co & _ & _ & ->)|(co & attrs & events & data & sbs & _ & -> & Hv & ->)]]; try discriminate.
    destruct (body_marker_frame e s node c acts (OResp attrs events data sbs) Hw1) as [Fbody _].
    destruct (Fbody Hs) as [Hs1 M1].
    specialize (IH c data (body_st e s node c acts) node).
    destruct (process_subs e c sbs data (body_st e s node c acts)) as [tr_s [[[ev d] s2]| |]]; cbn [outc trc fst snd] in *;
      intros Ho; try discriminate. injection Ho as _ <-.
    assert (Hpre1 : dead_pre (body_st e s node c acts) (progs_subs sbs) (nodes_subs sbs)).
    { split; [exact Hw2|]. split; [exact Hn'|]. split; [exact Hs1|].
      eapply fresh_transport; [|exact M1|exact Dj]. eapply fresh_incl; [|exact Hf]. apply incl_tl, incl_refl. }
    specialize (IH _ _ Hpre1 eq_refl). cbn [flat_out].
    eapply dead_tr; [apply within_subs|exact IH|].
    intros n Hin. cbn [call_nodes hdr call_node]. rewrite call_nodes_app, body_tr_no_calls. cbn [app].
    intros [E|Hc]; [subst n; contradiction|exact Hc].
  - (* OResp *) intros attrs events data sbs IH. exact IH.
  - (* SNil *) intros c data s d r s' _ _. apply dead_nil.
  - (* SCons *) intros sb IHsb r IHr c data s d res s' (Hw & Hn & Hs & Hf). cbn [progs_subs nodes_subs flat_subs] in *.
    apply Forall_app_inv in Hw as [Hw1 Hw2]. destruct (NoDup_marker_app _ _ Hn) as (Hn1 & Hn2 & D12 & D21).
    rewrite process_subs_cons. specialize (IHsb c s d). specialize (Fb sb c s). pose proof (Cb sb c s) as Cb1.
    destruct (run_sub e c sb s) as [tr1 [[[ev1 d1] s1]| |]]; cbn [outc trc fst snd] in *; try discriminate.
    specialize (Fb _ _ Hw1 eq_refl). destruct (Fb Hs) as [Hs1 M1].
    assert (Hpre1 : dead_pre s (progs_sub sb) (nodes_sub sb)).
    { split; [exact Hw1|]. split; [exact Hn1|]. split; [exact Hs|]. eapply fresh_incl; [|exact Hf]. apply incl_appl, incl_refl. }
    specialize (IHsb _ _ Hpre1 eq_refl).
    specialize (IHr c (or_data d1 data) s1 d). specialize (Fs r c (or_data d1 data) s1). pose proof (Cs r c (or_data d1 data) s1) as Cs2.
    destruct (process_subs e c r (or_data d1 data) s1) as [tr2 [[[ev2 d2] s2]| |]]; cbn [outc trc fst snd] in *;
      intros Ho; try discriminate. injection Ho as _ <-.
    specialize (Fs _ _ Hw2 eq_refl). destruct (Fs Hs1) as [Hs2 M2].
    assert (Hpre2 : dead_pre s1 (progs_subs r) (nodes_subs r)).
    { split; [exact Hw2|]. split; [exact Hn2|]. split; [exact Hs1|].
      eapply fresh_transport; [|exact M1|exact D21]. eapply fresh_incl; [|exact Hf]. apply incl_appr, incl_refl. }
    specialize (IHr _ _ Hpre2 eq_refl). apply dead_app.
    + eapply dead_tr; [apply within_sub| |].
      * eapply dead_state; [apply within_sub|exact IHsb|exact M2|exact D12].
      * intros n Hin Hc. eapply called_left; [exact Hc|exact Cs2|]. exact (mdisj_nodes _ _ _ D12 Hin).
    + eapply dead_tr; [apply within_subs|exact IHr|].
      intros n Hin Hc. eapply called_right; [exact Hc|exact Cb1|]. exact (mdisj_nodes _ _ _ D21 Hin).
  - (* Sub *) intros id payload ro m IHm on_ok IHok on_err IHerr c s d res s' (Hw & Hn & Hs & Hf).
    cbn [progs_sub nodes_sub flat_sub] in *.
    apply Forall_app_inv in Hw as [Hw1 Hw23]. apply Forall_app_inv in Hw23 as [Hw2 Hw3].
    destruct (NoDup_marker_app _ _ Hn) as (Hn1 & Hn23 & D1x & Dx1). destruct (NoDup_marker_app _ _ Hn23) as (Hn2 & Hn3 & D23 & D32).
    assert (D12 : mdisj (nodes_msg m) (nodes_prog on_ok)).
    { intros x Hx Hi. apply (D1x x Hx). rewrite map_app. apply in_or_app. left. exact Hi. }
    assert (D13 : mdisj (nodes_msg m) (nodes_prog on_err)).
    { intros x Hx Hi. apply (D1x x Hx). rewrite map_app. apply in_or_app. right. exact Hi. }
    assert (D21 : mdisj (nodes_prog on_ok) (nodes_msg m)).
    { intros x Hx. apply Dx1. apply in_or_app. left. exact Hx. }
    assert (D31 : mdisj (nodes_prog on_err) (nodes_msg m)).
    { intros x Hx. apply Dx1. apply in_or_app. right. exact Hx. }
    assert (F1 : fresh s (nodes_msg m)) by (eapply fresh_incl; [|exact Hf]; apply incl_appl, incl_refl).
    assert (F2 : fresh s (nodes_prog on_ok)) by (eapply fresh_incl; [|exact Hf]; apply incl_appr, incl_appl, incl_refl).
    assert (F3 : fresh s (nodes_prog on_err)) by (eapply fresh_incl; [|exact Hf]; apply incl_appr, incl_appr, incl_refl).
    assert (Wok : within (tail_infos on_ok) (nodes_prog on_ok)).
    { eapply within_weaken; [|apply within_tail]. rewrite nodes_prog_eq. apply incl_tl, incl_refl. }
    assert (Werr : within (tail_infos on_err) (nodes_prog on_err)).
    { eapply within_weaken; [|apply within_tail]. rewrite nodes_prog_eq. apply incl_tl, incl_refl. }
    assert (Nok : In (node_of on_ok) (nodes_prog on_ok)) by (rewrite nodes_prog_eq; left; reflexivity).
    assert (Nerr : In (node_of on_err) (nodes_prog on_err)) by (rewrite nodes_prog_eq; left; reflexivity).
    rewrite !flat_prog_eq.
    rewrite run_sub_spec. unfold reply_run. specialize (IHm c s (Some d)). specialize (Fm m c s). pose proof (Cm m c s) as Cm1.
    destruct (run_msg e c m s) as [tr [[[ev dd] s1]| |]]; cbn [outc trc fst snd] in *; try discriminate.
    + (* the sub-message succeeded *)
      specialize (Fm _ _ Hw1 eq_refl). destruct (Fm Hs) as [Hs1 M1].
      assert (Hpre1 : dead_pre s (progs_msg m) (nodes_msg m)) by (split; [exact Hw1|]; split; [exact Hn1|]; split; assumption).
      specialize (IHm _ _ Hpre1 eq_refl).
      pose proof (fresh_transport _ _ _ _ F2 M1 D21) as F2'. pose proof (fresh_transport _ _ _ _ F3 M1 D31) as F3'.
      destruct (wants_ok ro).
      * specialize (IHok EReply c None [] (Some (id, payload, RROk ev dd)) 0 true s1).
        specialize (Fp on_ok EReply c None [] (Some (id, payload, RROk ev dd)) 0 true s1).
        pose proof (Cp on_ok EReply c None [] (Some (id, payload, RROk ev dd)) 0 true s1) as Cp2.
        pose proof (run_prog_ok_not_failing e EReply c None [] (Some (id, payload, RROk ev dd)) 0 true
                      (node_of on_ok) match on_ok with Prog _ a _ => a end (out_of on_ok) s1) as Hnf.
        assert (Ep : Prog (node_of on_ok) match on_ok with Prog _ a _ => a end (out_of on_ok) = on_ok) by (destruct on_ok; reflexivity).
        rewrite Ep in Hnf.
        destruct (run_prog e EReply c None [] (Some (id, payload, RROk ev dd)) 0 true on_ok s1) as [tr2 [[[ev2 d2] s2]| |]];
          cbn [outc trc fst snd] in *; intros Ho; try discriminate. injection Ho as _ <-.
        destruct (Fp _ _ Hw2 eq_refl) as [Fok _]. destruct (Fok Hs1) as [Hs2 M2].
        assert (Hpre2 : dead_pre s1 (progs_prog on_ok) (nodes_prog on_ok)) by (split; [exact Hw2|]; split; [exact Hn2|]; split; assumption).
        specialize (IHok _ _ Hpre2 eq_refl).
        pose proof (fresh_transport _ _ _ _ F3' M2 D32) as F3''.
        apply dead_app; [|apply dead_app].
        -- eapply dead_tr; [apply within_msg| |].
           ++ eapply dead_state; [apply within_msg|exact IHm|exact M2|exact D12].
           ++ intros n Hin Hc. eapply called_left; [exact Hc|exact Cp2|]. exact (mdisj_nodes _ _ _ D12 Hin).
        -- apply dead_cons.
           ++ intros pi [<-|[]]. cbn [root_info pi_prog pi_rep]. split; [|discriminate].
              intros Hx. rewrite (Hnf _ eq_refl) in Hx. discriminate.
           ++ eapply dead_tr; [exact Wok|exact IHok|].
              intros n Hin Hc. eapply called_right; [exact Hc|exact Cm1|]. exact (mdisj_nodes _ _ _ D21 Hin).
        -- apply dead_cons.
           ++ intros pi [<-|[]]. cbn [root_info pi_prog pi_rep pi_node pi_inside]. split; [intros _ c0; apply F3'', Nerr|].
              intros id0 pl0 ro0 _ Hc. exfalso.
              assert (S : subl (call_nodes (tr ++ tr2)) (nodes_msg m ++ nodes_prog on_ok)) by (rewrite call_nodes_app; apply subl_app; assumption).
              apply (subl_in _ _ _ S) in Hc. apply in_app_or in Hc as [Hc|Hc].
              ** exact (mdisj_nodes _ _ _ D31 Nerr Hc).
              ** exact (mdisj_nodes _ _ _ D32 Nerr Hc).
           ++ eapply dead_fresh; [exact Werr|exact F3''].
      * cbn [outc trc fst snd]. intros Ho. injection Ho as _ <-.
        apply dead_app; [exact IHm|apply dead_app].
        -- apply dead_cons; [|eapply dead_fresh; [exact Wok|exact F2']].
           intros pi [<-|[]]. cbn [root_info pi_prog pi_rep pi_node pi_inside]. split; [intros _ c0; apply F2', Nok|discriminate].
        -- apply dead_cons; [|eapply dead_fresh; [exact Werr|exact F3']].
           intros pi [<-|[]]. cbn [root_info pi_prog pi_rep pi_node pi_inside]. split; [intros _ c0; apply F3', Nerr|].
           intros id0 pl0 ro0 _ Hc. exfalso. apply (subl_in _ _ _ Cm1) in Hc. exact (mdisj_nodes _ _ _ D31 Nerr Hc).
    + (* the sub-message failed: the reply handler starts from s itself *)
      destruct (wants_err ro); [|discriminate].
      specialize (IHerr EReply c None [] (Some (id, payload, RRErr)) 0 false s).
      specialize (Fp on_err EReply c None [] (Some (id, payload, RRErr)) 0 false s).
      pose proof (Cp on_err EReply c None [] (Some (id, payload, RRErr)) 0 false s) as Cp3.
      pose proof (run_prog_ok_not_failing e EReply c None [] (Some (id, payload, RRErr)) 0 false
                    (node_of on_err) match on_err with Prog _ a _ => a end (out_of on_err) s) as Hnf.
      assert (Ep : Prog (node_of on_err) match on_err with Prog _ a _ => a end (out_of on_err) = on_err) by (destruct on_err; reflexivity).
      rewrite Ep in Hnf.
      destruct (run_prog e EReply c None [] (Some (id, payload, RRErr)) 0 false on_err s) as [tr2 r2]; cbn [outc trc fst snd] in *.
      intros Ho. subst r2. destruct (Fp _ _ Hw3 eq_refl) as [Ferr _]. destruct (Ferr Hs) as [Hs2 M2].
      assert (Hpre3 : dead_pre s (progs_prog on_err) (nodes_prog on_err)) by (split; [exact Hw3|]; split; [exact Hn3|]; split; assumption).
      specialize (IHerr _ _ Hpre3 eq_refl).
      pose proof (fresh_transport _ _ _ _ F1 M2 D13) as F1'. pose proof (fresh_transport _ _ _ _ F2 M2 D23) as F2'.
      apply dead_app; [|apply dead_app].
      * eapply dead_fresh; [apply within_msg|exact F1'].
      * apply dead_cons; [|eapply dead_fresh; [exact Wok|exact F2']].
        intros pi [<-|[]]. cbn [root_info pi_prog pi_rep pi_node pi_inside]. split; [intros _ c0; apply F2', Nok|discriminate].
      * apply dead_cons.
        -- intros pi [<-|[]]. cbn [root_info pi_prog pi_rep pi_node pi_inside]. split.
           ++ intros Hx. rewrite (Hnf _ eq_refl) in Hx. discriminate.
           ++ intros id0 pl0 ro0 _ _ n' Hn' c0. apply F1', Hn'.
        -- eapply dead_tr; [exact Werr|exact IHerr|].
           intros n Hin Hc. eapply called_right; [exact Hc|exact Cm1|]. exact (mdisj_nodes _ _ _ D31 Hin).
Qed.

(* ---------- top level ---------- *)
Lemma msgs_mframe e sender : forall ms s rs s', Forall wf_prog (flat_map progs_msg ms) ->
  outc (run_msgs e sender ms s) = Ok (rs, s') -> mframe (flat_map nodes_msg ms) s s'.
Proof.
  induction ms as [|m r IH]; intros s rs s' Hw.
  - cbn. intros Ho. injection Ho as _ <-. apply mframe_refl.
  - rewrite run_msgs_cons. cbn [flat_map] in *. apply Forall_app_inv in Hw as [Hw1 Hw2].
    pose proof (proj1 (exec_mframe e) m sender s) as F1.
    destruct (run_msg e sender m s) as [tr1 [[r1 s1]| |]]; cbn [outc snd] in *; try discriminate.
    specialize (F1 _ _ Hw1 eq_refl). specialize (IH s1).
    destruct (run_msgs e sender r s1) as [tr2 [[rss s2]| |]]; cbn [outc snd] in *; intros Ho; try discriminate.
    injection Ho as _ <-. exact (mframe_trans _ _ _ _ _ F1 (IH _ _ Hw2 eq_refl)).
Qed.

Lemma inner_mframe e op s rs s' : wf_op op -> outc (inner e op s) = Ok (rs, s') -> mframe (nodes_op op) s s'.
Proof.
  unfold wf_op. intros Hw. destruct (op_msgs op) as [[sd ms]|] eqn:E.
  - destruct (inner_msgs e op s sd ms E) as (-> & _ & _ & _ & -> & Ep). rewrite Ep in Hw. apply msgs_mframe, Hw.
  - destruct op; try discriminate.
    + cbn [inner nodes_op progs_op] in *. pose proof (proj1 (proj2 (exec_mframe e)) p ESudo c None [] None 0 true s) as F.
      destruct (run_prog e ESudo c None [] None 0 true p s) as [tr [[r0 s0]| |]]; cbn [outc snd]; intros Ho; try discriminate.
      injection Ho as _ <-. exact (proj1 (F _ _ Hw eq_refl)).
    + cbn [inner nodes_op]. destruct (negb (is_valid e to)); [discriminate|].
      destruct (bank_mint (bank s) to amt); cbn; intros Ho; try discriminate. injection Ho as _ <-.
      apply mframe_same_cstore. reflexivity.
Qed.

(* a whole top-level call, whatever its outcome *)
Lemma top_mframe e op s : wf_op op -> mframe (nodes_op op) s (top_state (run_top e op s)).
Proof.
  intros Hw. rewrite (proj1 (proj2 (top_inner e op s))).
  pose proof (inner_mframe e op s) as F. destruct (outc (inner e op s)) as [[rs s']| |]; try apply mframe_refl.
  exact (F _ _ Hw eq_refl).
Qed.

Lemma within_msgs ms : within (flat_map (flat_msg None) ms) (flat_map nodes_msg ms).
Proof.
  intros pi Hi. apply in_flat_map in Hi as (m & Hm & Hi). destruct (within_msg m None pi Hi) as [A B]. split.
  - apply in_flat_map. exists m. auto.
  - intros x Hx. apply in_flat_map. exists m. auto.
Qed.
Lemma within_op op : within (flat_op op) (nodes_op op).
Proof.
  destruct (op_msgs op) as [[sd ms]|] eqn:E.
  - destruct op; try discriminate; cbn in E; injection E as <- <-; apply within_msgs.
  - destruct op; try discriminate.
    + cbn [flat_op nodes_op]. rewrite flat_prog_eq, nodes_prog_eq. intros pi [<-|Hi].
      * cbn. split; [left; reflexivity|intros x []].
      * destruct (within_tail p pi Hi) as [A B]. split; [right; exact A|apply incl_tl; exact B].
    + intros pi [].
Qed.

Lemma msgs_dead e sender : forall ms s rs s', dead_pre s (flat_map progs_msg ms) (flat_map nodes_msg ms) ->
  outc (run_msgs e sender ms s) = Ok (rs, s') -> dead (flat_map (flat_msg None) ms) (trc (run_msgs e sender ms s)) s'.
Proof.
  induction ms as [|m r IH]; intros s rs s' (Hw & Hn & Hs & Hf); [intros _; apply dead_nil|].
  rewrite run_msgs_cons. cbn [flat_map] in *.
  apply Forall_app_inv in Hw as [Hw1 Hw2]. destruct (NoDup_marker_app _ _ Hn) as (Hn1 & Hn2 & D12 & D21).
  pose proof (proj1 (exec_dead e) m sender s None) as IHm. pose proof (proj1 (exec_mframe e) m sender s) as F1.
  pose proof (proj1 (exec_call_nodes e) m sender s) as C1.
  destruct (run_msg e sender m s) as [tr1 [[r1 s1]| |]]; cbn [outc trc fst snd] in *; try discriminate.
  specialize (F1 _ _ Hw1 eq_refl). destruct (F1 Hs) as [Hs1 M1].
  assert (Hpre1 : dead_pre s (progs_msg m) (nodes_msg m)).
  { split; [exact Hw1|]. split; [exact Hn1|]. split; [exact Hs|]. eapply fresh_incl; [|exact Hf]. apply incl_appl, incl_refl. }
  specialize (IHm _ _ Hpre1 eq_refl). specialize (IH s1).
  pose proof (msgs_mframe e sender r s1) as F2. pose proof (msgs_call_nodes e sender r s1) as C2.
  destruct (run_msgs e sender r s1) as [tr2 [[rss s2]| |]]; cbn [outc trc fst snd] in *; intros Ho; try discriminate.
  injection Ho as _ <-. specialize (F2 _ _ Hw2 eq_refl). destruct (F2 Hs1) as [Hs2 M2].
  assert (Hpre2 : dead_pre s1 (flat_map progs_msg r) (flat_map nodes_msg r)).
  { split; [exact Hw2|]. split; [exact Hn2|]. split; [exact Hs1|].
    eapply fresh_transport; [|exact M1|exact D21]. eapply fresh_incl; [|exact Hf]. apply incl_appr, incl_refl. }
  specialize (IH _ _ Hpre2 eq_refl). apply dead_app.
  - eapply dead_tr; [apply within_msg| |].
    + eapply dead_state; [apply within_msg|exact IHm|exact M2|exact D12].
    + intros n Hin Hc. eapply called_left; [exact Hc|exact C2|]. exact (mdisj_nodes _ _ _ D12 Hin).
  - eapply dead_tr; [apply within_msgs|exact IH|].
    intros n Hin Hc. eapply called_right; [exact Hc|exact C1|]. exact (mdisj_nodes _ _ _ D21 Hin).
Qed.

Lemma top_dead e op s : dead_pre s (progs_op op) (nodes_op op) ->
  dead (flat_op op) (top_trace (run_top e op s)) (top_state (run_top e op s)).
Proof.
  intros Hpre. rewrite (proj1 (top_inner e op s)), (proj1 (proj2 (top_inner e op s))).
  destruct (outc (inner e op s)) as [[rs s']| |] eqn:Eo;
    try (eapply dead_fresh; [apply within_op|apply Hpre]).
  destruct (op_msgs op) as [[sd ms]|] eqn:E.
  - destruct (inner_msgs e op s sd ms E) as (Ei & _ & _ & Ef & En & Ep). rewrite Ei in *. rewrite Ef. rewrite En, Ep in Hpre.
    eapply msgs_dead; eassumption.
  - destruct op; try discriminate.
    + cbn [inner nodes_op progs_op flat_op] in *.
      pose proof (proj1 (proj2 (exec_dead e)) p ESudo c None [] None 0 true s) as D.
      pose proof (run_prog_ok_not_failing e ESudo c None [] None 0 true
                    (node_of p) match p with Prog _ a _ => a end (out_of p) s) as Hnf.
      assert (Ep : Prog (node_of p) match p with Prog _ a _ => a end (out_of p) = p) by (destruct p; reflexivity).
      rewrite Ep in Hnf.
      destruct (run_prog e ESudo c None [] None 0 true p s) as [tr [[r0 s0]| |]]; cbn [outc trc fst snd] in *; try discriminate.
      injection Eo as _ <-. rewrite flat_prog_eq. apply dead_cons; [|exact (D _ _ Hpre eq_refl)].
      intros pi [<-|[]]. cbn [root_info pi_prog pi_rep]. split; [|discriminate].
      intros Hx. rewrite (Hnf _ eq_refl) in Hx. discriminate.
    + intros pi [].
Qed.

(* ---------- the root program of every message of a successful call has left its marker ---------- *)
Lemma find_call_app n a b :
  find_call n (a ++ b) = match find_call n a with Some en => Some en | None => find_call n b end.
Proof.
  induction a as [|en a IH]; cbn [find_call app]; [reflexivity|].
  destruct (call_node en) as [n'|]; [destruct (n' =? n)|]; auto.
Qed.
Lemma find_call_none n tr : ~ In n (call_nodes tr) -> find_call n tr = None.
Proof.
  induction tr as [|en tr IH]; cbn [find_call call_nodes]; [reflexivity|].
  destruct (call_node en) as [n'|]; [|exact IH]. cbn [In]. intros H. destruct (n' =? n) eqn:E.
  - apply N.eqb_eq in E. tauto.
  - apply IH. tauto.
Qed.

Definition root_of (m : msg) : list N := match msg_prog m with Some p => [node_of p] | None => [] end.
Lemma root_nodes_eq op : root_nodes op = flat_map root_of (top_msgs op).
Proof.
  unfold root_nodes. apply flat_map_ext. intros m. destruct m; try reflexivity; destruct p; reflexivity.
Qed.
Lemma root_of_nodes m : incl (root_of m) (nodes_msg m).
Proof.
  unfold root_of. destruct (msg_prog m) as [p|] eqn:E; [|intros x []].
  rewrite (proj1 (proj2 (flat_msg_prog m p None E))), nodes_prog_eq. intros x [<-|[]]. left. reflexivity.
Qed.

Definition roots_marked (roots : list N) (tr : trace) (s' : chain) : Prop :=
  forall n, In n roots -> forall en, find_call n tr = Some en -> has_marker s' (callee_of en) n = true.

Lemma msg_root_marked e sender m s r s' : Forall wf_prog (progs_msg m) -> st_ok s ->
  outc (run_msg e sender m s) = Ok (r, s') ->
  forall n, In n (root_of m) -> exists en, find_call n (trc (run_msg e sender m s)) = Some en /\ has_marker s' (callee_of en) n = true.
Proof.
  intros Hw Hs. unfold root_of. destruct (msg_prog m) as [p|] eqn:Hp; [|intros _ n []].
  destruct (flat_msg_prog m p None Hp) as (_ & _ & Epr). rewrite Epr in Hw.
  destruct (run_msg_cases e sender m s p Hp) as [[_ Hx]|(c & s1 & Hc & _ & _ & _ & ->)].
  { intros Ho. rewrite Ho in Hx. discriminate. }
  pose proof (proj1 (proj2 (exec_mframe e)) p (msg_entry m) c (msg_sender m sender) (msg_funds m) None (msg_cid m) true s1) as F.
  destruct p as [node acts out]. cbn [node_of] in *.
  destruct (run_prog_cases e (msg_entry m) c (msg_sender m sender) (msg_funds m) None (msg_cid m) true node acts out s1)
    as [[_ E]|[(co & _ & _ & E)|(co & attrs & events & data & sbs & _ & -> & Hv & E)]]; rewrite E in *; try discriminate.
  destruct (process_subs e c sbs data (body_st e s1 node c acts)) as [tr_s [[[ev d] s2]| |]]; cbn [outc trc fst snd] in *;
    intros Ho; try discriminate. injection Ho as _ <-.
  intros n [<-|[]]. eexists. cbn [find_call hdr call_node]. rewrite N.eqb_refl. split; [reflexivity|]. cbn [callee_of].
  apply (proj2 (F _ _ Hw eq_refl)). eapply st_ok_same_cstore; eassumption.
Qed.

Lemma msgs_roots_marked e sender : forall ms s rs s', Forall wf_prog (flat_map progs_msg ms) -> st_ok s ->
  NoDup (flat_map nodes_msg ms) -> outc (run_msgs e sender ms s) = Ok (rs, s') ->
  roots_marked (flat_map root_of ms) (trc (run_msgs e sender ms s)) s'.
Proof.
  induction ms as [|m r IH]; intros s rs s' Hw Hs Hn; [intros _ n []|].
  rewrite run_msgs_cons. cbn [flat_map] in *. apply Forall_app_inv in Hw as [Hw1 Hw2].
  destruct (NoDup_app_inv _ _ Hn) as (Hn1 & Hn2 & Hd).
  pose proof (msg_root_marked e sender m s) as R1. pose proof (proj1 (exec_mframe e) m sender s) as F1.
  pose proof (proj1 (exec_call_nodes e) m sender s) as C1.
  destruct (run_msg e sender m s) as [tr1 [[r1 s1]| |]]; cbn [outc trc fst snd] in *; try discriminate.
  specialize (R1 _ _ Hw1 Hs eq_refl). specialize (F1 _ _ Hw1 eq_refl). destruct (F1 Hs) as [Hs1 M1].
  specialize (IH s1). pose proof (msgs_mframe e sender r s1) as F2.
  destruct (run_msgs e sender r s1) as [tr2 [[rss s2]| |]]; cbn [outc trc fst snd] in *; intros Ho; try discriminate.
  injection Ho as _ <-. specialize (IH _ _ Hw2 Hs1 Hn2 eq_refl). specialize (F2 _ _ Hw2 eq_refl). destruct (F2 Hs1) as (_ & A2 & _).
  intros n Hin en. rewrite find_call_app. apply in_app_or in Hin as [Hin|Hin].
  - destruct (R1 n Hin) as (en1 & E1 & Hm1). rewrite E1. intros H. injection H as <-. apply A2. exact Hm1.
  - rewrite find_call_none; [apply IH; exact Hin|].
    intros Hc. apply (subl_in _ _ _ C1) in Hc. apply (Hd n Hc).
    apply in_flat_map in Hin as (m' & Hm' & Hin). apply in_flat_map. exists m'. split; [exact Hm'|apply root_of_nodes; exact Hin].
Qed.

Lemma top_roots_marked e op s : wf_op op -> st_ok s -> NoDup (nodes_op op) ->
  is_ok (top_outcome (run_top e op s)) = true ->
  roots_marked (root_nodes op) (top_trace (run_top e op s)) (top_state (run_top e op s)).
Proof.
  unfold wf_op. intros Hw Hs Hn Hok. rewrite root_nodes_eq.
  destruct (top_inner e op s) as (-> & -> & Hi). specialize (Hi Hok).
  destruct (op_msgs op) as [[sd ms]|] eqn:E.
  - destruct (inner_msgs e op s sd ms E) as (Ei & Et & _ & _ & En & Ep). rewrite Ei in *. rewrite Et. rewrite En in Hn. rewrite Ep in Hw.
    destruct (outc (run_msgs e sd ms s)) as [[rs s']| |] eqn:Eo; try discriminate.
    eapply msgs_roots_marked; eassumption.
  - destruct op; try discriminate; intros n [].
Qed.
