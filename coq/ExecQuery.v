(* ExecQuery.v — C10 at the level of the executor model.

   PURITY IS BY CONSTRUCTION on both sides: a Rust query handler receives `&dyn Storage` / `Deps`
   (app.rs:683-708, wasm.rs:1167-1190), and here [run_qact], [run_qprog], [run_qacts] have type
   env -> chain -> .. -> trace (times option bytes): they RETURN NO STATE, and the scripted query language [qact]
   has no write action.  So there is nothing to prove about "a query does not change the state" inside the
   model; on the implementation it is what the harness checks with raw-store digests around every query.
   The theorems below are about WHAT IS SEEN. *)
From Verif Require Import Base OMap Text Proto Bank Exec ExecFacts ExecInv ExecFacts2 ExecIso.
Local Open Scope N_scope.

(* ---------- a query is a function of (code table, block, valid addresses; bank, registry, contract stores) ---------- *)
Definition env_q_eq (e1 e2 : env) : Prop := codes e1 = codes e2 /\ blk e1 = blk e2 /\ valid_addrs e1 = valid_addrs e2.
Definition state_q_eq (s1 s2 : chain) : Prop :=
  bank s1 = bank s2 /\ reg s1 = reg s2 /\ forall c, cstore_get s1 c = cstore_get s2 c.

(* same state and block => same answer AND same log, for every query kind and every nesting of smart
   queries; in particular the answer does not depend on the address books, on how often or in which order
   queries were asked before, or on anything that is not chain state *)
Lemma query_function_l e1 e2 s1 s2 : env_q_eq e1 e2 -> state_q_eq s1 s2 ->
  (forall q node own, run_qact e1 s1 node own q = run_qact e2 s2 node own q) /\
  (forall q c tag, run_qprog e1 s1 c tag q = run_qprog e2 s2 c tag q) /\
  (forall l node own, run_qacts e1 s1 node own l = run_qacts e2 s2 node own l).
Proof.
  intros (Hc & Hk & Hv) (Hb & Hg & Hs).
  assert (Hval : forall a, is_valid e1 a = is_valid e2 a) by (intros a; unfold is_valid; rewrite Hv; reflexivity).
  apply query_mutind; intros; cbn [run_qact run_qprog run_qacts];
    rewrite ?Hval, ?Hb, ?Hg, ?Hs, ?Hc, ?Hk; try reflexivity.
  - (* QSmart *)
    destruct (is_valid e2 c); [|reflexivity].
    destruct (lookup c (reg s2)) as [cd|]; [|reflexivity].
    destruct (find_code (cd_code cd) (codes e2)) as [co|]; [|reflexivity].
    rewrite H. reflexivity.
  - rewrite H. reflexivity.
  - rewrite H, H0. reflexivity.
Qed.

(* ---------- a body made of queries only writes nothing ---------- *)
Definition is_query (a : action) : bool := match a with AQ _ => true | _ => false end.

Lemma query_only_body_pure e s node : forall acts own, forallb is_query acts = true ->
  snd (run_actions e s node own acts) = own.
Proof.
  intros acts own H. rewrite run_actions_own_only. revert own. induction acts as [|a r IH]; intros own; [reflexivity|].
  cbn [forallb] in H. apply andb_true_iff in H as [Ha Hr]. destruct a; try discriminate. cbn [fold_left]. apply IH. exact Hr.
Qed.

(* ---------- what a query issued inside a call sees ---------- *)

(* (1) the body of ANY call (execute, instantiate, reply, sudo, migrate) at ANY depth: every query is
   evaluated against the state [s] the call was entered with — body_trace gives foreign queries [s] and an
   empty own store, own reads the callee's store at entry plus its own writes so far (ExecIso.call_body_view) *)

(* (2) execute: [s] already contains the attached funds *)
Lemma exec_queries_see_funds e sender c node acts out funds s s1 co :
  is_valid e c = true -> move_funds s sender c funds = Ok s1 -> serving e s1 c EExec = Some co ->
  exists rest, trc (run_msg e sender (MExec c (Prog node acts out) funds) s) =
               RCall node EExec c (Some sender) funds (blk e) (c_tag co) None
               :: body_trace e s1 node (cstore_get s1 c) acts ++ rest.
Proof.
  intros V M S. rewrite exec_runs_after_funds, V, M. cbn [negb].
  destruct (call_body_view e EExec c (Some sender) funds None 0 true node acts out s1 co S) as [rest H].
  exists rest. destruct (run_prog e EExec c (Some sender) funds None 0 true (Prog node acts out) s1) as [tr r].
  exact H.
Qed.

(* (3) a failed sub-message: the reply — and through the state it returns every later node — runs from
   [s] ITSELF; nothing the failed node or anything below it wrote is in the state any later query sees *)
Lemma failed_sub_view e c id payload ro m on_ok on_err s :
  outc (run_msg e c m s) = Err ->
  run_sub e c (Sub id payload ro m on_ok on_err) s =
  if wants_err ro
  then (trc (run_msg e c m s) ++ trc (reply_run e c id payload RRErr on_err s), outc (reply_run e c id payload RRErr on_err s))
  else (trc (run_msg e c m s), Err).
Proof.
  intros H. rewrite run_sub_spec. destruct (run_msg e c m s) as [tr r]. cbn in H. subst r. cbn [trc fst].
  destruct (wants_err ro); [|reflexivity].
  destruct (reply_run e c id payload RRErr on_err s) as [tr2 r2]. reflexivity.
Qed.

(* ... so two different failing sub-messages are indistinguishable for everything that runs afterwards:
   same outcome and state (ExecFacts.failed_sub_erased) and the same log after the sub-message's own *)
Lemma failed_sub_same_view e c id payload ro m m' on_ok on_err s :
  outc (run_msg e c m s) = Err -> outc (run_msg e c m' s) = Err ->
  outc (run_sub e c (Sub id payload ro m on_ok on_err) s) = outc (run_sub e c (Sub id payload ro m' on_ok on_err) s) /\
  exists tail, trc (run_sub e c (Sub id payload ro m on_ok on_err) s) = trc (run_msg e c m s) ++ tail /\
               trc (run_sub e c (Sub id payload ro m' on_ok on_err) s) = trc (run_msg e c m' s) ++ tail.
Proof.
  intros H1 H2. rewrite (failed_sub_view _ _ _ _ _ _ _ _ _ H1), (failed_sub_view _ _ _ _ _ _ _ _ _ H2).
  destruct (wants_err ro); cbn [outc trc fst snd]; (split; [reflexivity|]).
  - eexists. split; reflexivity.
  - exists []. rewrite !app_nil_r. split; reflexivity.
Qed.

(* ---------- a query through App sees the committed state ---------- *)
(* App::wrap() / App::query read the root store (app.rs:133-154): node 0, no own store *)
Definition app_queries (e : env) (s : chain) (l : qacts) : trace := run_qacts e s 0 [] l.

Lemma app_query_after_failure e op s l :
  is_ok (outc (inner e op s)) = false -> app_queries e (top_state (run_top e op s)) l = app_queries e s l.
Proof. intros H. rewrite (proj1 (top_fail_unchanged e op s H)). reflexivity. Qed.

Lemma app_query_after_success e op s rs s' l :
  match op with THelperInst _ _ | THelperExec _ _ => False | _ => True end ->
  outc (inner e op s) = Ok (rs, s') -> app_queries e (top_state (run_top e op s)) l = app_queries e s' l.
Proof. intros Hh H. rewrite (proj1 (top_ok_commits e op s rs s' Hh H)). reflexivity. Qed.
